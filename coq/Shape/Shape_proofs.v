(* lalr_builds_shape: evaluating a derivation tree bottom-up (post-order shift / reduce, the
   rule's callback at each reduction, as LALR's feed_token does) yields exactly [shape] of the
   derivation tree; and shaping a well-formed derivation never fails. *)
From Coq Require Import String Ascii List Bool Arith Lia.
From LV Require Import Base.Prelude Shape.Chain Shape.Spec Shape.Chain_proofs.
Import ListNotations.

Section DtreeInd.
  Variable P : dtree -> Prop.
  Hypothesis Htok : forall ty v, P (DTok ty v).
  Hypothesis Hnode : forall r ch, Forall P ch -> P (DNode r ch).
  Fixpoint dtree_ind' (d : dtree) : P d :=
    match d with
    | DTok ty v => Htok ty v
    | DNode r ch => Hnode r ch ((fix go l : Forall P l :=
                                   match l with [] => Forall_nil P | x :: t => Forall_cons x (dtree_ind' x) (go t) end) ch)
    end.
End DtreeInd.

Lemma forall2b_length {A B} (f : A -> B -> bool) a b : forall2b f a b = true -> length a = length b.
Proof.
  revert b; induction a as [|x a IH]; intros [|y b]; simpl; intros H; try discriminate; auto.
  apply andb_true_iff in H. f_equal. apply IH. apply H.
Qed.

Lemma all_some_length {A} (l : list (option A)) vs : all_some l = Some vs -> length vs = length l.
Proof.
  revert vs; induction l as [|[a|] l IH]; simpl; intros vs H; try discriminate.
  - injection H as <-. auto.
  - destruct (all_some l); try discriminate. injection H as <-. simpl. f_equal. auto.
Qed.

Section Driver.
  Variable X : Type.
  Variable none : X.
  Variable kids : X -> option (list X).
  Variable user : string -> option (list X -> X).
  Variable mk : string -> list X -> X.
  Variable tokf : string -> string -> X.
  Variable mp : bool.
  Notation run_actions := (run_actions X none kids user mk tokf mp).
  Notation eval := (eval X none kids user mk tokf mp).

  Lemma run_actions_app st a b :
    run_actions st (a ++ b) = match run_actions st a with Some st' => run_actions st' b | None => None end.
  Proof.
    revert st; induction a as [|x a IH]; intros st; simpl; auto.
    destruct (step X none kids user mk tokf mp st x); auto.
  Qed.

  (* the induction the LALR driver performs *)
  Theorem driver_builds_gen d : wf_dtree mp d = true -> forall st rest,
    run_actions st (postorder d ++ rest)
    = match eval d with Some v => run_actions (st ++ [v]) rest | None => None end.
  Proof.
    induction d as [ty v|r ch IH] using dtree_ind'; intros Hwf st rest.
    - reflexivity.
    - cbn [wf_dtree] in Hwf. repeat (apply andb_true_iff in Hwf; destruct Hwf as [Hwf ?]).
      rename H into Hall, H0 into Harity, H1 into Hinl.
      cbn [postorder Spec.eval]. rewrite <- app_assoc.
      assert (Hch : forall st rest',
        run_actions st (flat_map postorder ch ++ rest')
        = match all_some (map eval ch) with
          | Some vs => run_actions (st ++ vs) rest' | None => None end).
      { clear Harity. induction ch as [|c ch IHch]; intros st0 rest'.
        - simpl. rewrite app_nil_r. reflexivity.
        - simpl in Hall. apply andb_true_iff in Hall. destruct Hall as [Hc Hall].
          inversion IH as [|? ? IHc IHrest]; subst.
          cbn [flat_map map all_some]. rewrite <- app_assoc. rewrite (IHc Hc).
          destruct (eval c) as [vc|]; auto.
          rewrite (IHch IHrest Hall). destruct (all_some (map eval ch)); auto.
          rewrite <- app_assoc. reflexivity. }
      rewrite Hch. destruct (all_some (map eval ch)) as [vs|] eqn:Evs; auto.
      apply all_some_length in Evs. rewrite map_length in Evs.
      apply forall2b_length in Harity.
      cbn [app Spec.run_actions step].
      assert (Hlen : length (st ++ vs) - length (r_exp r) = length st) by (rewrite app_length; lia).
      assert (Hlt : Nat.ltb (length (st ++ vs)) (length (r_exp r)) = false)
        by (apply Nat.ltb_ge; rewrite app_length; lia).
      rewrite Hlt, Hlen.
      rewrite skipn_app, firstn_app, Nat.sub_diag, skipn_all, firstn_all. simpl. rewrite app_nil_r.
      rewrite chain_spec by (auto; lia).
      destruct (spec_rule X none kids user mk r mp vs); reflexivity.
  Qed.

  Theorem driver_builds d : wf_dtree mp d = true ->
    run_actions [] (postorder d) = option_map (fun v => [v]) (eval d).
  Proof.
    intros H. pose proof (driver_builds_gen d H [] []) as E. rewrite app_nil_r in E.
    rewrite E. destruct (eval d); reflexivity.
  Qed.
End Driver.

Theorem lalr_builds_shape mp d : wf_dtree mp d = true ->
  lalr_run mp (postorder d) = option_map (fun v => [v]) (shape mp d).
Proof. apply driver_builds. Qed.

(* ---- shaping a well-formed derivation never fails -------------------------------------- *)
Lemma spec_walk_total (X : Type) (none : X) kids ka : forall m exp vs,
  count_false m = length exp ->
  Forall2 (fun s v => inlined s = true -> exists k, kids v = Some k) exp vs ->
  exists l, spec_walk X none kids ka m exp vs = Some l.
Proof.
  induction m as [|[|] m IH]; intros exp vs Hc HF; simpl.
  - eauto.
  - destruct (IH exp vs Hc HF) as [l ->]. simpl. eauto.
  - destruct HF as [|s v exp vs Hs HF]; [discriminate|]. simpl in Hc.
    destruct (IH exp vs ltac:(lia) HF) as [l ->].
    unfold contrib. destruct (negb (kept ka s)); simpl; eauto.
    destruct (inlined s) eqn:Ei; simpl; eauto.
    destruct (Hs eq_refl) as [k ->]. simpl. eauto.
Qed.

Definition is_inline_node (d : dtree) : bool :=
  match d with DNode r _ => starts_us (r_origin r) | DTok _ _ => false end.

Section Total.
  Variable X : Type.
  Variable none : X.
  Variable kids : X -> option (list X).
  Variable user : string -> option (list X -> X).
  Variable mk : string -> list X -> X.
  Variable tokf : string -> string -> X.
  Variable mp : bool.
  Hypothesis Hkids : forall n l, kids (mk n l) = Some l.
  Hypothesis Huser : forall n, starts_us n = true -> user n = None.
  Notation eval := (eval X none kids user mk tokf mp).

  (* no AttributeError / IndexError: every `_rule` child is a tree node when it is spliced *)
  Theorem eval_total d : wf_dtree mp d = true ->
    exists t, eval d = Some t /\ (is_inline_node d = true -> exists l, kids t = Some l).
  Proof.
    induction d as [ty v|r ch IH] using dtree_ind'; intros Hwf.
    - exists (tokf ty v). split; auto. discriminate.
    - cbn [wf_dtree] in Hwf. repeat (apply andb_true_iff in Hwf; destruct Hwf as [Hwf ?]).
      rename H into Hall, H0 into Harity, H1 into Hinl.
      cbn [Spec.eval].
      assert (Hvs : exists vs, all_some (map eval ch) = Some vs /\
                    Forall2 (fun d v => is_inline_node d = true -> exists k, kids v = Some k) ch vs).
      { clear Harity. induction ch as [|c ch IHch]; simpl.
        - exists []. split; auto.
        - simpl in Hall. apply andb_true_iff in Hall. destruct Hall as [Hc Hall].
          inversion IH as [|? ? IHc IHrest]; subst.
          destruct (IHc Hc) as (t & -> & Ht). destruct (IHch IHrest Hall) as (vs & -> & HF).
          exists (t :: vs). split; auto. }
      destruct Hvs as (vs & -> & HF).
      assert (HF2 : Forall2 (fun s v => inlined s = true -> exists k, kids v = Some k) (r_exp r) vs).
      { clear IH Hall Hwf. revert ch vs Harity HF. induction (r_exp r) as [|s e IHe]; intros [|c ch] vs Har HF;
          simpl in Har; try discriminate; inversion HF as [|? y ? l' H2 H3]; subst; constructor.
        - apply andb_true_iff in Har. destruct Har as [Hc _]. intros Hi.
          unfold inlined in Hi. apply andb_true_iff in Hi. destruct Hi as [Hnt Hus].
          destruct c as [ty v|r' ch']; simpl in Hc.
          + destruct (s_term s); discriminate.
          + apply andb_true_iff in Hc. destruct Hc as [_ Hc]. apply String.eqb_eq in Hc.
            apply H2. simpl. rewrite Hc. auto.
        - apply andb_true_iff in Har. destruct Har as [_ Har]. eapply IHe; eauto. }
      unfold spec_rule, spec_children.
      assert (Hcf : count_false (marks r mp) = length (r_exp r)).
      { unfold marks, rule_wf in *. destruct (mp && nonempty (r_empty r)); simpl in Hwf.
        - apply Nat.eqb_eq; auto.
        - apply count_false_repeat_false. }
      destruct (spec_walk_total X none kids (r_keep_all r) _ _ _ Hcf HF2) as [l ->].
      destruct (r_expand1 r && negb (truthy (r_alias r))) eqn:E1.
      + assert (Hni : starts_us (r_origin r) = false).
        { unfold inline_ok in Hinl. destruct (starts_us (r_origin r)); auto. simpl in Hinl.
          apply andb_true_iff in E1. destruct E1 as [E1 _]. rewrite E1 in Hinl. discriminate. }
        destruct l as [|c [|]]; eexists; (split; [reflexivity|]); simpl; rewrite Hni; discriminate.
      + eexists; split; [reflexivity|]. simpl. intros Hus.
        unfold inline_ok in Hinl. rewrite Hus in Hinl. simpl in Hinl.
        apply andb_true_iff in Hinl. destruct Hinl as [_ Hn].
        rewrite spec_name_eq. rewrite (Huser _ Hn). eauto.
  Qed.
End Total.

Theorem shape_total mp d : wf_dtree mp d = true -> exists t, shape mp d = Some t.
Proof.
  intros H. destruct (eval_total stree NoneV skids no_user Tr Tok mp (fun _ _ => eq_refl) (fun _ _ => eq_refl) d H)
    as (t & Ht & _). eauto.
Qed.
