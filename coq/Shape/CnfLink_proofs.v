(* Over a CNF grammar g that has exactly the characterised rules (CnfLink.unit_closure_spec):
   cnf_link_complete - the pre-image cnf_of d of every derivation d of G is a CNF derivation over g;
   cnf_link_sound    - every CNF derivation over g from an original non-terminal is such a pre-image. *)
From Coq Require Import String Ascii List Bool Arith Lia.
From LV Require Import Base.Prelude Shape.Chain Shape.Spec Shape.Shape_proofs Shape.Cnf Shape.Cnf_proofs Shape.CnfLink Shape.CykParse Shape.CykParse_proofs.
Import ListNotations.

Section Link.
  Variable rules : list rrec.
  Variable g : list crule.
  Notation rule_n := (rule_n rules).
  Notation cnf_parts := (cnf_parts rules).
  Notation cnf_of := (cnf_of rules).
  Notation node_of := (node_of rules).
  Notation mk_child := (mk_child rules).
  Notation exp_of := (exp_of rules).
  Notation tf_of := (tf_of rules).
  Notation e_of := (e_of rules).
  Notation head_rhs := (head_rhs rules).
  Notation origin := (origin rules).
  Notation chain := (chain rules).
  Notation canon := (canon rules).

  Hypothesis Hs : forall r, In r g -> canon r.
  Hypothesis Hc : forall r, canon r -> In r g.

  Definition tmap (tf : bool) (s : csym) : csym := if tf then termify s else s.

  Lemma e_of_map rid : e_of rid = map (tmap (tf_of rid)) (exp_of rid).
  Proof. unfold CnfLink.e_of, tmap. destruct (tf_of rid); [reflexivity|]. symmetry. apply map_id. Qed.

  (* ---------------------------------------------------------------- complete ------------------- *)
  Definition derP (c : otree) : Prop :=
    match c with
    | ONode rid' _ => cder g (node_of c) (CN (NOrig (origin rid')))
    | OLeaf _ _ => True
    end.

  Lemma kids_derive rid tf : (tf = true -> tf_of rid = true) -> rid < length rules ->
    forall exp' ch', forall2b (ochild_ok rules) exp' ch' = true ->
      (forall s, In s exp' -> In (of_sym s) (exp_of rid)) -> Forall derP ch' ->
      Forall2 (cder g) (map (mk_child tf) ch') (map (tmap tf) (map of_sym exp')).
  Proof.
    intros Htf Hrid. induction exp' as [|s exp' IH]; intros [|c ch'] Hok Hin HP; simpl in Hok; try discriminate; [constructor|].
    apply andb_true_iff in Hok. destruct Hok as [Hc1 Hok]. inversion HP as [|? ? Pc Pr]; subst.
    simpl. constructor; [|apply IH; auto; intros; apply Hin; simpl; auto].
    destruct c as [ty v|rid' ch'']; simpl in Hc1; apply andb_true_iff in Hc1; destruct Hc1 as [Hk Hn].
    - apply String.eqb_eq in Hn. unfold Cnf_proofs.mk_child, of_sym, tmap. rewrite Hk. simpl.
      destruct tf; simpl.
      + rewrite <- Hn. apply (cder_node g (term_rule ty) [CLeaf ty v]).
        * apply Hc. apply (canon_term rules rid ty); auto. specialize (Hin s (or_introl eq_refl)).
          unfold of_sym in Hin. rewrite Hk, <- Hn in Hin. exact Hin.
        * simpl. constructor; [|constructor]. constructor.
      + rewrite <- Hn. constructor.
    - apply String.eqb_eq in Hn. apply negb_true_iff in Hk.
      unfold of_sym, tmap. rewrite Hk. replace (if tf then termify (CN (NOrig (s_name s))) else CN (NOrig (s_name s)))
        with (CN (NOrig (s_name s))) by (destruct tf; reflexivity).
      rewrite <- Hn. unfold Cnf_proofs.mk_child.
      assert (E : wrap_term tf (node_of (ONode rid' ch'')) = node_of (ONode rid' ch'')).
      { cbn [Cnf_proofs.node_of]. destruct (cnf_parts (ONode rid' ch'')) as [[a b] c]. reflexivity. }
      rewrite E. exact Pc.
  Qed.

  Lemma split_tree_der rid : forall syms kids i, 2 <= length kids ->
    Forall2 (cder g) kids syms -> (forall r, In r (split_tail rid i syms) -> In r g) ->
    cder g (split_tree rid i syms kids) (CN (NSplit rid i)).
  Proof.
    induction syms as [|a syms IH]; intros kids i H2 HF Hin; [inversion HF; subst; simpl in H2; lia|].
    destruct kids as [|ka kids]; [simpl in H2; lia|]. inversion HF as [|? ? ? ? Ha HF1]; subst.
    destruct syms as [|b syms]; [inversion HF1; subst; simpl in H2; lia|].
    destruct kids as [|kb kids]; [simpl in H2; lia|]. inversion HF1 as [|? ? ? ? Hb HF2]; subst.
    destruct syms as [|c syms].
    - inversion HF2; subst. cbn [split_tree].
      apply (cder_node g (mkC (NSplit rid i) [a; b] ASplitA []) [ka; kb]).
      + apply Hin. simpl. auto.
      + simpl. repeat constructor; auto.
    - destruct kids as [|kc kids]; [inversion HF2|].
      change (split_tree rid i (a :: b :: c :: syms) (ka :: kb :: kc :: kids))
        with (CNode (mkC (NSplit rid i) [a; CN (NSplit rid (S i))] ASplitA [])
                    [ka; split_tree rid (S i) (b :: c :: syms) (kb :: kc :: kids)]).
      apply (cder_node g (mkC (NSplit rid i) [a; CN (NSplit rid (S i))] ASplitA [])).
      + apply Hin. simpl. auto.
      + cbn [c_rhs]. constructor; [exact Ha|]. constructor; [|constructor].
        apply IH; [simpl; lia|exact HF1|]. intros r Hr. apply Hin. simpl. auto.
  Qed.

  Theorem link_complete_parts d : wf_otree rules d = true ->
    match d with
    | OLeaf _ _ => True
    | ONode rid _ => let '(rhs, kids, sk) := cnf_parts d in
                     Forall2 (cder g) kids rhs /\ exists f, chain rid sk f /\ rhs = head_rhs f
    end.
  Proof.
    induction d as [ty v|rid ch IH] using otree_ind'; intros Hwf; [exact I|].
    cbn [wf_otree] in Hwf. apply andb_true_iff in Hwf. destruct Hwf as [Hwf Hall].
    apply andb_true_iff in Hwf. destruct Hwf as [Hlt Har]. apply Nat.ltb_lt in Hlt.
    assert (HP : Forall derP ch).
    { clear Har. induction ch as [|c ch IHc]; constructor.
      - simpl in Hall. apply andb_true_iff in Hall. destruct Hall as [Hc1 _]. inversion IH as [|? ? I1 _]; subst.
        specialize (I1 Hc1). destruct c as [ty v|rid' ch'']; [exact I|].
        cbn [derP Cnf_proofs.node_of]. destruct (cnf_parts (ONode rid' ch'')) as [[rhs kids] sk].
        destruct I1 as [HF (f & Hch & ->)].
        apply (cder_node g (mkC (NOrig (origin rid')) (head_rhs f) (ARule rid') sk) kids); [|exact HF].
        apply Hc. constructor. exact Hch.
      - simpl in Hall. apply andb_true_iff in Hall. destruct Hall as [_ Hall]. inversion IH; subst. apply IHc; auto. }
    (* the unit case *)
    assert (Hunit : forall rid' ch'', ch = [ONode rid' ch''] ->
      let '(rhs, kids, sk) := cnf_parts (ONode rid ch) in
      Forall2 (cder g) kids rhs /\ exists f, chain rid sk f /\ rhs = head_rhs f).
    { intros rid' ch'' ->. rewrite cnf_parts_unit. inversion IH as [|? ? I1 _]; subst.
      simpl in Hall. apply andb_true_iff in Hall. destruct Hall as [Hc1 _]. specialize (I1 Hc1).
      destruct (cnf_parts (ONode rid' ch'')) as [[rhs kids] sk]. destruct I1 as [HF (f & Hch & ->)].
      split; [exact HF|]. exists f. split; [|reflexivity].
      apply chain_cons; auto.
      unfold CnfLink.exp_of. destruct (r_exp (rule_n rid)) as [|s [|s2 e2]]; simpl in Har; try discriminate;
        try (rewrite andb_false_r in Har; discriminate).
      rewrite andb_true_r in Har. apply andb_true_iff in Har. destruct Har as [Hk Hn].
      apply negb_true_iff in Hk. apply String.eqb_eq in Hn. simpl. unfold of_sym. rewrite Hk.
      unfold CnfLink.origin. rewrite Hn. reflexivity. }
    assert (Hnon : (forall rid' ch'', ch <> [ONode rid' ch'']) ->
      let '(rhs, kids, sk) := cnf_parts (ONode rid ch) in
      Forall2 (cder g) kids rhs /\ exists f, chain rid sk f /\ rhs = head_rhs f).
    { intros Hnu. rewrite cnf_parts_nonunit by exact Hnu. cbn zeta.
      fold (exp_of rid). fold (tf_of rid). 
      assert (HK : Forall2 (cder g) (map (mk_child (tf_of rid)) ch) (e_of rid)).
      { rewrite e_of_map. apply (kids_derive rid (tf_of rid)); auto. intros s Hs0. unfold CnfLink.exp_of. apply in_map. exact Hs0. }
      assert (Hchain : chain rid [] rid).
      { apply chain_nil; auto. intros b Hb. unfold CnfLink.exp_of in Hb.
        destruct (r_exp (rule_n rid)) as [|s [|s2 e2]]; simpl in Hb; try discriminate.
        destruct ch as [|c [|c2 ch2]]; simpl in Har; try discriminate; try (rewrite andb_false_r in Har; discriminate).
        rewrite andb_true_r in Har. injection Hb as Hb. unfold of_sym in Hb. destruct (s_term s) eqn:Est; [discriminate|].
        destruct c as [ty v|rid' ch'']; simpl in Har; [rewrite Est in Har; discriminate|]. eapply Hnu. reflexivity. }
      assert (Hle : length (e_of rid) = length ch).
      { rewrite e_of_map, map_length. unfold CnfLink.exp_of. rewrite map_length. apply forall2b_length in Har. exact Har. }
      change (if tf_of rid then map termify (exp_of rid) else exp_of rid) with (e_of rid).
      unfold CnfLink.head_rhs.
      destruct (e_of rid) as [|x0 [|x1 [|x2 e']]] eqn:Ee; destruct ch as [|c0 ch0]; simpl in Hle; try discriminate;
        cbn [map]; try (split; [exact HK|exists rid; rewrite Ee; auto]).
      cbn [map] in HK. inversion HK as [|? ? ? ? H0 HK1]; subst.
      split.
      - constructor; [exact H0|]. constructor; [|constructor]. cbn [tl].
        apply split_tree_der; [rewrite map_length; simpl in Hle; lia|exact HK1|].
        intros r Hr. apply Hc. apply (canon_split rules rid r); auto; rewrite Ee; simpl; auto; lia.
      - exists rid. rewrite Ee. auto. }
    destruct ch as [|c ch']; [apply Hnon; intros; discriminate|].
    destruct c as [ty v|rid' ch'']; [apply Hnon; intros; discriminate|].
    destruct ch' as [|c2 ch2]; [apply (Hunit rid' ch''); reflexivity|apply Hnon; intros; discriminate].
  Qed.

  Theorem link_complete rid ch : wf_otree rules (ONode rid ch) = true ->
    cder g (cnf_of (ONode rid ch)) (CN (NOrig (r_origin (rule_n rid)))).
  Proof.
    intros Hwf. pose proof (link_complete_parts (ONode rid ch) Hwf) as H. unfold Cnf.cnf_of.
    destruct (cnf_parts (ONode rid ch)) as [[rhs kids] sk]. destruct H as [HF (f & Hch & ->)].
    apply (cder_node g (mkC (NOrig (origin rid)) (head_rhs f) (ARule rid) sk) kids); [|exact HF].
    apply Hc. constructor. exact Hch.
  Qed.

  (* ---------------------------------------------------------------- sound ---------------------- *)
  Lemma split_tail_lhs rid : forall l i r, In r (split_tail rid i l) -> exists j, i <= j /\ c_lhs r = NSplit rid j.
  Proof.
    induction l as [|a l IH]; intros i r H; [destruct H|].
    destruct l as [|b l1].
    - simpl in H. destruct H as [<-|[]]. exists i. auto.
    - destruct l1 as [|c l2].
      + simpl in H. destruct H as [<-|[]]. exists i. auto.
      + change (split_tail rid i (a :: b :: c :: l2))
          with (mkC (NSplit rid i) [a; CN (NSplit rid (S i))] ASplitA [] :: split_tail rid (S i) (b :: c :: l2)) in H.
        destruct H as [<-|H]; [exists i; auto|]. destruct (IH (S i) r H) as (j & Hj & E). exists j. split; [lia|auto].
  Qed.

  Lemma split_tail_at rid l i r : 2 <= length l -> In r (split_tail rid i l) -> c_lhs r = NSplit rid i ->
    (exists a b, l = [a; b] /\ r = mkC (NSplit rid i) [a; b] ASplitA []) \/
    (exists a b c rest, l = a :: b :: c :: rest /\ r = mkC (NSplit rid i) [a; CN (NSplit rid (S i))] ASplitA []).
  Proof.
    intros H2 H E. destruct l as [|a [|b [|c rest]]]; try (simpl in H2; lia).
    - simpl in H. destruct H as [<-|[]]. left. eauto.
    - change (split_tail rid i (a :: b :: c :: rest))
        with (mkC (NSplit rid i) [a; CN (NSplit rid (S i))] ASplitA [] :: split_tail rid (S i) (b :: c :: rest)) in H.
      destruct H as [<-|H]; [right; eauto 8|].
      apply split_tail_lhs in H. destruct H as (j & Hj & E2). rewrite E in E2. injection E2 as E2. lia.
  Qed.

  Lemma split_tail_next rid a b c rest i r j :
    In r (split_tail rid i (a :: b :: c :: rest)) -> c_lhs r = NSplit rid j -> S i <= j ->
    In r (split_tail rid (S i) (b :: c :: rest)).
  Proof.
    intros H E Hj.
    change (split_tail rid i (a :: b :: c :: rest))
      with (mkC (NSplit rid i) [a; CN (NSplit rid (S i))] ASplitA [] :: split_tail rid (S i) (b :: c :: rest)) in H.
    destruct H as [<-|H]; auto. simpl in E. injection E as E. lia.
  Qed.

  Definition nonsplit (s : csym) : Prop := match s with CN (NSplit _ _) => False | _ => True end.

  Definition is_node_of (n : string) (d : otree) : Prop :=
    match d with ONode rid _ => origin rid = n | OLeaf _ _ => False end.

  Definition good_ns (c : ctree) (s : csym) : Prop :=
    match s with
    | CT t => exists v, c = CLeaf t v
    | CN (NTerm t) => exists v, c = CNode (term_rule t) [CLeaf t v]
    | CN (NOrig n) => exists d, wf_otree rules d = true /\ c = cnf_of d /\ is_node_of n d
    | CN (NSplit _ _) => False
    end.

  Definition good_split (c : ctree) (f i : nat) : Prop :=
    forall syms, 2 <= length syms -> Forall nonsplit syms ->
      (forall r j, In r g -> c_lhs r = NSplit f j -> i <= j -> In r (split_tail f i syms)) ->
      exists kids, c = split_tree f i syms kids /\ Forall2 good_ns kids syms.

  Definition goodP (c : ctree) : Prop :=
    forall s, cder g c s ->
      (nonsplit s -> good_ns c s) /\ (forall f i, s = CN (NSplit f i) -> good_split c f i).

  Lemma canon_lhs_term r t : canon r -> c_lhs r = NTerm t -> r = term_rule t.
  Proof.
    intros H E. destruct H as [rid t' _ _ _|rid r _ _ Hin|rid sk f _]; simpl in E.
    - injection E as ->. reflexivity.
    - apply split_tail_lhs in Hin. destruct Hin as (j & _ & E2). congruence.
    - discriminate.
  Qed.

  Lemma canon_lhs_split r f j : canon r -> c_lhs r = NSplit f j ->
    f < length rules /\ 3 <= length (e_of f) /\ In r (split_tail f 1 (tl (e_of f))) /\ 1 <= j.
  Proof.
    intros H E. destruct H as [rid t' _ _ _|rid r Hlt H3 Hin|rid sk f' _]; simpl in E; try discriminate.
    pose proof (split_tail_lhs _ _ _ _ Hin) as (j' & Hj & E2). rewrite E in E2. injection E2 as -> ->. auto.
  Qed.

  Lemma canon_lhs_orig r n : canon r -> c_lhs r = NOrig n ->
    exists rid sk f, chain rid sk f /\ r = mkC (NOrig (origin rid)) (head_rhs f) (ARule rid) sk /\ origin rid = n.
  Proof.
    intros H E. destruct H as [rid t' _ _ _|rid r _ _ Hin|rid sk f Hch]; simpl in E; try discriminate.
    - apply split_tail_lhs in Hin. destruct Hin as (j & _ & E2). congruence.
    - injection E as E. eauto 8.
  Qed.

  Lemma chain_final rid sk f : chain rid sk f -> f < length rules /\ forall b, exp_of f <> [CN (NOrig b)].
  Proof. induction 1; auto. Qed.

  Lemma tmap_nonsplit tf s : nonsplit (tmap tf (of_sym s)).
  Proof. unfold tmap, of_sym. destruct tf, (s_term s); simpl; exact I. Qed.

  (* children that are good for the (termified) symbols of a rule are the children of a derivation node *)
  Lemma kids_invert tf : forall exp' ks,
    Forall2 good_ns ks (map (tmap tf) (map of_sym exp')) ->
    exists chs, ks = map (mk_child tf) chs /\ forall2b (ochild_ok rules) exp' chs = true /\ forallb (wf_otree rules) chs = true.
  Proof.
    induction exp' as [|s exp' IH]; intros ks HF; simpl in HF; inversion HF as [|k ? ks' ? Hk HF']; subst.
    - exists []. auto.
    - destruct (IH ks' HF') as (chs & -> & Hok & Hwf).
      unfold of_sym, tmap in Hk. destruct (s_term s) eqn:Est.
      + destruct tf; simpl in Hk; destruct Hk as [v ->]; exists (OLeaf (s_name s) v :: chs); simpl;
          rewrite Est, String.eqb_refl, Hok, Hwf; auto.
      + assert (Hk' : good_ns k (CN (NOrig (s_name s)))) by (destruct tf; exact Hk).
        destruct Hk' as (d & Hwd & -> & Hn). destruct d as [ty v|rid' ch'']; [destruct Hn|]. simpl in Hn.
        exists (ONode rid' ch'' :: chs). split; [|split].
        * cbn [map]. f_equal. unfold Cnf_proofs.mk_child. rewrite cnf_of_node. cbn [Cnf_proofs.node_of].
          destruct (cnf_parts (ONode rid' ch'')) as [[a b] c]. reflexivity.
        * cbn [forall2b ochild_ok]. rewrite Est. unfold CnfLink.origin in Hn. rewrite Hn, String.eqb_refl, Hok. reflexivity.
        * cbn [forallb]. rewrite Hwd, Hwf. reflexivity.
  Qed.

  (* the node of a non-unit rule f *)
  Lemma final_node f ks :
    f < length rules -> (forall b, exp_of f <> [CN (NOrig b)]) ->
    Forall2 good_ns ks (e_of f) ->
    exists chf, wf_otree rules (ONode f chf) = true /\
      cnf_parts (ONode f chf) =
      match e_of f, map (mk_child (tf_of f)) chf with
      | x0 :: (_ :: _ :: _), k0 :: krest => ([x0; CN (NSplit f 1)], [k0; split_tree f 1 (tl (e_of f)) krest], [])
      | _, _ => (e_of f, map (mk_child (tf_of f)) chf, [])
      end /\ ks = map (mk_child (tf_of f)) chf.
  Proof.
    intros Hlt Hnu HF. rewrite e_of_map in HF. unfold CnfLink.exp_of in HF.
    destruct (kids_invert (tf_of f) _ _ HF) as (chf & -> & Hok & Hwf).
    exists chf. split; [|split; [|reflexivity]].
    - cbn [wf_otree]. rewrite Hok, Hwf. apply Nat.ltb_lt in Hlt. rewrite Hlt. reflexivity.
    - rewrite cnf_parts_nonunit; [reflexivity|].
      intros rid' ch'' ->. apply (Hnu (origin rid')). unfold CnfLink.exp_of.
      destruct (r_exp (rule_n f)) as [|s [|s2 e2]]; simpl in Hok; try discriminate;
        try (rewrite andb_false_r in Hok; discriminate).
      rewrite andb_true_r in Hok. apply andb_true_iff in Hok. destruct Hok as [Hk Hn].
      apply negb_true_iff in Hk. apply String.eqb_eq in Hn. simpl. unfold of_sym. rewrite Hk.
      unfold CnfLink.origin. rewrite Hn. reflexivity.
  Qed.

  Lemma chain_node rid sk f : chain rid sk f -> forall chf rhs kids,
    wf_otree rules (ONode f chf) = true -> cnf_parts (ONode f chf) = (rhs, kids, []) ->
    exists chd, wf_otree rules (ONode rid chd) = true /\ cnf_parts (ONode rid chd) = (rhs, kids, sk).
  Proof.
    induction 1 as [rid Hlt Hnu|rid r1 sk f Hlt He Hch IH]; intros chf rhs kids Hwf Hp; [eauto|].
    destruct (IH chf rhs kids Hwf Hp) as (ch1 & Hw1 & Hp1).
    exists [ONode r1 ch1]. split.
    - change (wf_otree rules (ONode rid [ONode r1 ch1])) with
        ((rid <? length rules) && forall2b (ochild_ok rules) (r_exp (rule_n rid)) [ONode r1 ch1]
         && (wf_otree rules (ONode r1 ch1) && true)).
      rewrite Hw1. apply Nat.ltb_lt in Hlt. rewrite Hlt. cbn [andb].
      rewrite andb_true_r. unfold CnfLink.exp_of in He.
      destruct (r_exp (rule_n rid)) as [|s [|s2 e2]]; simpl in He; try discriminate.
      injection He as He. unfold of_sym in He. destruct (s_term s) eqn:Est; [discriminate|]. injection He as He.
      cbn [forall2b ochild_ok]. rewrite Est. unfold CnfLink.origin in He. rewrite He, String.eqb_refl. reflexivity.
    - rewrite cnf_parts_unit, Hp1. reflexivity.
  Qed.

  Theorem good_all c : goodP c.
  Proof.
    induction c as [ty v|r ch IH] using ctree_ind'; intros s Hd.
    - inversion Hd; subst. split; [intros _; simpl; eauto|intros f i E; discriminate].
    - inversion Hd as [|r0 ch0 Hin HF]; subst. pose proof (Hs r Hin) as Hcan.
      assert (HG : forall syms, Forall2 (cder g) ch syms -> Forall nonsplit syms -> Forall2 good_ns ch syms).
      { clear Hd HF. induction ch as [|c ch IHc]; intros syms HF Hns; inversion HF; subst; [constructor|].
        inversion IH; subst. inversion Hns; subst. constructor; [|apply IHc; auto].
        match goal with H : goodP c |- _ => destruct (H _ H1) as [G _]; auto end. }
      destruct (c_lhs r) as [n|t|f i] eqn:El.
      + (* an original non-terminal *)
        split; [intros _|intros f i E; discriminate].
        destruct (canon_lhs_orig r n Hcan El) as (rid & sk & f & Hch & -> & Hn).
        cbn [c_rhs] in HF. destruct (chain_final _ _ _ Hch) as [Hlt Hnu].
        assert (Hfin : exists chf rhs kids, wf_otree rules (ONode f chf) = true /\
                         cnf_parts (ONode f chf) = (rhs, kids, []) /\ rhs = head_rhs f /\ kids = ch).
        { unfold CnfLink.head_rhs in *.
          destruct (e_of f) as [|x0 [|x1 [|x2 e']]] eqn:Ee.
          - destruct (final_node f ch Hlt Hnu) as (chf & Hw & Hp & Ek); [rewrite Ee; apply HG; auto; constructor|].
            rewrite Ee in Hp. exists chf. rewrite Hp, <- Ek. destruct ch; eauto 8.
          - destruct (final_node f ch Hlt Hnu) as (chf & Hw & Hp & Ek).
            { rewrite Ee. apply HG; auto. rewrite <- Ee, e_of_map. unfold CnfLink.exp_of. rewrite Forall_forall.
              intros y Hy. apply in_map_iff in Hy. destruct Hy as (z & <- & Hz). apply in_map_iff in Hz.
              destruct Hz as (z0 & <- & _). apply tmap_nonsplit. }
            rewrite Ee in Hp. exists chf. rewrite Hp, <- Ek. destruct ch; eauto 8.
          - destruct (final_node f ch Hlt Hnu) as (chf & Hw & Hp & Ek).
            { rewrite Ee. apply HG; auto. rewrite <- Ee, e_of_map. unfold CnfLink.exp_of. rewrite Forall_forall.
              intros y Hy. apply in_map_iff in Hy. destruct Hy as (z & <- & Hz). apply in_map_iff in Hz.
              destruct Hz as (z0 & <- & _). apply tmap_nonsplit. }
            rewrite Ee in Hp. exists chf. rewrite Hp, <- Ek. destruct ch; eauto 8.
          - (* three or more symbols: ch = [k0; split node] *)
            assert (Hns : Forall nonsplit (x0 :: x1 :: x2 :: e')).
            { rewrite <- Ee, e_of_map. unfold CnfLink.exp_of. rewrite Forall_forall.
              intros y Hy. apply in_map_iff in Hy. destruct Hy as (z & <- & Hz). apply in_map_iff in Hz.
              destruct Hz as (z0 & <- & _). apply tmap_nonsplit. }
            inversion HF as [|k0 ? ? ? Hk0 HF1]; subst. inversion HF1 as [|k1 ? ? ? Hk1 HF2]; subst. inversion HF2; subst.
            inversion IH as [|? ? P0 IH1]; subst. inversion IH1 as [|? ? P1 _]; subst.
            inversion Hns as [|? ? N0 Nrest]; subst.
            destruct (P0 _ Hk0) as [G0 _]. specialize (G0 N0).
            destruct (P1 _ Hk1) as [_ G1]. specialize (G1 f 1 eq_refl (x1 :: x2 :: e')).
            destruct G1 as (kids1 & -> & HK1); [simpl; lia|exact Nrest| |].
            { intros r' j Hr' El' Hj. destruct (canon_lhs_split r' f j (Hs r' Hr') El') as (_ & _ & Hin' & _).
              rewrite Ee in Hin'. exact Hin'. }
            destruct (final_node f (k0 :: kids1) Hlt Hnu) as (chf & Hw & Hp & Ek); [rewrite Ee; constructor; auto|].
            rewrite Ee in Hp. rewrite <- Ek in Hp. exists chf. eauto 8. }
        destruct Hfin as (chf & rhs & kids & Hwf & Hp & -> & ->).
        destruct (chain_node rid sk f Hch chf _ _ Hwf Hp) as (chd & Hwd & Hpd).
        exists (ONode rid chd). split; [exact Hwd|]. split; [|exact Hn].
        unfold Cnf.cnf_of. rewrite Hpd. reflexivity.
      + (* __T_t *)
        split; [intros _|intros f i E; discriminate].
        rewrite (canon_lhs_term r t Hcan El) in *. cbn [c_rhs term_rule] in HF.
        inversion HF as [|c1 ? ? ? Hc1 HF1]; subst. inversion HF1; subst. inversion Hc1; subst. simpl. eauto.
      + (* __SP_f_i *)
        split; [intros []|]. intros f' i' E syms H2 Hns Hall. injection E as <- <-.
        pose proof (Hall r i Hin El (le_n _)) as Hr.
        destruct (split_tail_at f syms i r H2 Hr El) as [(a & b & -> & ->)|(a & b & c0 & rest & -> & ->)]; cbn [c_rhs] in HF.
        * inversion HF as [|ka ? ? ? Ha HF1]; subst. inversion HF1 as [|kb ? ? ? Hb HF2]; subst. inversion HF2; subst.
          exists [ka; kb]. split; [reflexivity|]. apply HG; auto.
        * inversion HF as [|ka ? ? ? Ha HF1]; subst. inversion HF1 as [|k2 ? ? ? Hk2 HF2]; subst. inversion HF2; subst.
          inversion IH as [|? ? Pa IH1]; subst. inversion IH1 as [|? ? P2 _]; subst.
          inversion Hns as [|? ? Na Nrest]; subst.
          destruct (Pa _ Ha) as [Ga _]. specialize (Ga Na).
          destruct (P2 _ Hk2) as [_ G2]. specialize (G2 f (S i) eq_refl (b :: c0 :: rest)).
          destruct G2 as (kids2 & -> & HK2); [simpl; lia|exact Nrest| |].
          { intros r' j Hr' El' Hj. apply (split_tail_next f a b c0 rest i r' j); auto. apply (Hall r' j); auto. lia. }
          exists (ka :: kids2). split; [|constructor; auto].
          inversion HK2 as [|kb ? kids3 ? _ HK3]; subst. inversion HK3 as [|kc ? kids4 ? _ _]; subst. reflexivity.
  Qed.

  Theorem link_sound c n : cder g c (CN (NOrig n)) -> exists d, wf_otree rules d = true /\ c = cnf_of d.
  Proof.
    intros Hd. destruct (good_all c _ Hd) as [G _]. destruct (G I) as (d & Hw & E & _). eauto.
  Qed.
End Link.
