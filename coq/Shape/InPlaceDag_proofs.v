(* Transformer_InPlace on heaps of objects: the DAG behaviour (finding F31 at model level). *)
From Coq Require Import String Ascii List Bool Arith Lia.
From LV Require Import Base.Prelude Shape.Chain Shape.Spec Shape.Transform Shape.Transform_proofs Shape.ChainCheck Shape.InPlaceDag.
Import ListNotations.
Local Open Scope string_scope.

(* start[a[sh], sh] with ONE object sh = b[A]: iter_subtrees yields a before sh (sh is queued as a child of start,
   so when a is taken from the queue sh is already "in subtrees" and not queued behind a), hence a's callback
   argument is built from sh's children before they are rewritten: the token callback A has not run inside it.
   The same heap read as a tree - and Transformer_InPlaceRecursive on the heap - give the documented value. *)
Definition f31_heap : dheap := [("start", [XRef 1; XRef 2]); ("a", [XRef 2]); ("b", [XTok "A" "1"])].
Definition f31_tree : stree := Tr "start" [Tr "a" [Tr "b" [Tok "A" "1"]]; Tr "b" [Tok "A" "1"]].
Definition f31_rules := [("a", "a"); ("b", "b")].
Definition f31_toks := [("A", "A")].

Definition final_value (r : option (dheap * dval)) : option value :=
  match r with Some (H, v) => reify 50 H v | None => None end.

Theorem inplace_dag_refuted :
  iter_subtrees_dag 100 f31_heap 0 = Some [1; 2; 0] /\
  final_value (transform_ip_dag (sym_DT f31_rules f31_toks) true 100 f31_heap 0)
    = Some (VTree "start" [VUser "a" [VUser "b" [VTok "A" "1"]]; VUser "b" [VUser "A" [VTok "A" "1"]]]) /\
  final_value (ipr_val (sym_DT f31_rules f31_toks) true 100 f31_heap (XRef 0))
    = Some (VTree "start" [VUser "a" [VUser "b" [VUser "A" [VTok "A" "1"]]]; VUser "b" [VUser "A" [VTok "A" "1"]]]) /\
  final_value (ipr_val (sym_DT f31_rules f31_toks) true 100 f31_heap (XRef 0))
    = Some (tr (ChainCheck.sym_T f31_rules f31_toks) true f31_tree).
Proof. repeat split; vm_compute; reflexivity. Qed.
