(* the value-stack driver computes, on every input and table, the bottom-up evaluation of what LR/Driver computes *)
From Coq Require Import List Arith Bool Lia.
From LV Require Import Cfg.Grammar Shape.ValueDriver.
From LV Require LR.Driver LR.Driver_proofs.
Import ListNotations.

Lemma firstn_map' {A B} (f : A -> B) n l : firstn n (map f l) = map f (firstn n l).
Proof. revert l; induction n; destruct l; simpl; auto. now rewrite IHn. Qed.
Lemma skipn_map' {A B} (f : A -> B) n l : skipn n (map f l) = map f (skipn n l).
Proof. revert l; induction n; destruct l; simpl; auto. Qed.

Section Sim.
  Variable tok : Type.
  Variable ttype : tok -> nat.
  Variable X : Type.
  Variable cb : rule -> list X -> X.
  Variable tokf : tok -> X.
  Variable P : Driver.ptable.
  Notation vfeed := (vfeed tok ttype X cb tokf P).
  Notation vmap := (vmap tok X cb tokf).
  Notation omap := (omap tok X cb tokf).
  Notation evalt := (evalt tok X cb tokf).

  Lemma vfeed_sim fuel : forall c k e, vfeed fuel (vmap c) k e = omap (Driver.feed tok ttype P fuel c k e).
  Proof.
    induction fuel as [|fuel IH]; intros [ss vs] k e; [reflexivity|].
    cbn [ValueDriver.vfeed Driver.feed vmap ValueDriver.vmap v_states v_values Driver.sstack Driver.vstack].
    destruct ss as [|q ss]; [reflexivity|].
    destruct (Driver.pt_action P q (T (ttype k))) as [[q'|r]|]; [| |reflexivity].
    - destruct (Nat.eqb q' (Driver.pt_end P)); [reflexivity|]. destruct e; reflexivity.
    - rewrite skipn_map', firstn_map', <- map_rev.
      destruct (skipn (length (rhs r)) (q :: ss)) as [|q2 ss2]; [reflexivity|].
      destruct (Driver.pt_action P q2 (NT (lhs r))) as [[q3|r3]|]; [|reflexivity|reflexivity].
      destruct (e && Nat.eqb q3 (Driver.pt_end P)); [reflexivity|].
      exact (IH (Driver.mkConfig (q3 :: q2 :: ss2) (Driver.Node r (rev (firstn (length (rhs r)) vs)) :: skipn (length (rhs r)) vs)) k e).
  Qed.

  Lemma vfeed_all_sim fuel : forall w c,
    vfeed_all tok ttype X cb tokf P fuel (vmap c) w = omap (Driver.feed_all tok ttype P fuel c w).
  Proof.
    induction w as [|k w IH]; intros c; [reflexivity|].
    cbn [ValueDriver.vfeed_all Driver.feed_all]. rewrite vfeed_sim.
    destruct (Driver.feed tok ttype P fuel c k false) as [c'| | | | |]; try reflexivity. apply IH.
  Qed.

  Theorem vparse_sim fuel w e :
    vparse tok ttype X cb tokf P fuel w e = omap (Driver.parse tok ttype P fuel w e).
  Proof.
    unfold vparse, Driver.parse.
    change (mkV X [Driver.pt_start P] []) with (vmap (Driver.init_config P)). rewrite vfeed_all_sim.
    destruct (Driver.feed_all tok ttype P fuel (Driver.init_config P) w) as [c'| | | | |]; try reflexivity.
    apply vfeed_sim.
  Qed.
End Sim.

Section TokMapProofs.
  Variable tok tok' : Type.
  Variable f : tok -> tok'.
  Variable ttype : tok -> nat.
  Variable ttype' : tok' -> nat.
  Hypothesis Hty : forall k, ttype' (f k) = ttype k.
  Variable P : Driver.ptable.
  Notation tmap := (tmap tok tok' f).
  Notation cmap := (cmap tok tok' f).
  Notation tomap := (tomap tok tok' f).

  Lemma feed_tokmap fuel : forall c k e,
    Driver.feed tok' ttype' P fuel (cmap c) (f k) e = tomap (Driver.feed tok ttype P fuel c k e).
  Proof.
    induction fuel as [|fuel IH]; intros [ss vs] k e; [reflexivity|].
    cbn [Driver.feed cmap ValueDriver.cmap Driver.sstack Driver.vstack]. rewrite Hty.
    destruct ss as [|q ss]; [reflexivity|].
    destruct (Driver.pt_action P q (T (ttype k))) as [[q'|r]|]; [| |reflexivity].
    - destruct (Nat.eqb q' (Driver.pt_end P)); [reflexivity|]. destruct e; reflexivity.
    - rewrite skipn_map', firstn_map', <- map_rev.
      destruct (skipn (length (rhs r)) (q :: ss)) as [|q2 ss2]; [reflexivity|].
      destruct (Driver.pt_action P q2 (NT (lhs r))) as [[q3|r3]|]; [|reflexivity|reflexivity].
      destruct (e && Nat.eqb q3 (Driver.pt_end P)); [reflexivity|].
      exact (IH (Driver.mkConfig (q3 :: q2 :: ss2) (Driver.Node r (rev (firstn (length (rhs r)) vs)) :: skipn (length (rhs r)) vs)) k e).
  Qed.

  Lemma feed_all_tokmap fuel : forall w c,
    Driver.feed_all tok' ttype' P fuel (cmap c) (map f w) = tomap (Driver.feed_all tok ttype P fuel c w).
  Proof.
    induction w as [|k w IH]; intros c; [reflexivity|].
    cbn [Driver.feed_all map]. rewrite feed_tokmap.
    destruct (Driver.feed tok ttype P fuel c k false) as [c'| | | | |]; try reflexivity. apply IH.
  Qed.

  Theorem parse_tokmap fuel w e :
    Driver.parse tok' ttype' P fuel (map f w) (f e) = tomap (Driver.parse tok ttype P fuel w e).
  Proof.
    unfold Driver.parse. change (Driver.init_config P) with (cmap (Driver.init_config P)) at 1.
    rewrite feed_all_tokmap.
    destruct (Driver.feed_all tok ttype P fuel (Driver.init_config P) w) as [c'| | | | |]; try reflexivity.
    apply feed_tokmap.
  Qed.

End TokMapProofs.
