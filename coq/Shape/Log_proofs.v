(* calls_once_children_first: each traversal's call log contains every tree/token node exactly
   once, and every child's entry precedes its parent's. *)
From Coq Require Import String Ascii List Bool Arith Lia Permutation.
From LV Require Import Base.Prelude Shape.Chain Shape.Spec Shape.Transform Shape.Transform_proofs
  Shape.InPlace_proofs.
Import ListNotations.

Section Vt.
Variable vt : bool.      (* visit_tokens: token nodes have a callback call only when it is on *)
Notation post_paths := (post_paths vt).

(* all nodes whose callback is called, pre-order *)
Fixpoint node_paths (p : path) (t : stree) : log :=
  match t with
  | Tr _ ch => p :: mapi_cat node_paths p 0 ch
  | Tok _ _ => tok_log vt p
  | NoneV => []
  end.

Definition before (lg : log) (x y : path) : Prop := exists l1 l2, lg = l1 ++ l2 /\ In x l1 /\ In y l2.

Definition once_children_first (t : stree) (lg : log) : Prop :=
  Permutation lg (node_paths [] t) /\
  forall q i, In (q ++ [i]) lg -> In q lg -> before lg (q ++ [i]) q.

Lemma before_app_l a b x y : before a x y -> before (a ++ b) x y.
Proof. intros (l1 & l2 & -> & H1 & H2). exists l1, (l2 ++ b). rewrite app_assoc. repeat split; auto. apply in_or_app; auto. Qed.

Lemma before_app_r a b x y : before b x y -> before (a ++ b) x y.
Proof. intros (l1 & l2 & -> & H1 & H2). exists (a ++ l1), l2. rewrite app_assoc. repeat split; auto. apply in_or_app; auto. Qed.

Lemma in_mapi_cat (f : path -> stree -> log) p q : forall ch i,
  In q (mapi_cat f p i ch) <-> exists j c, nth_error ch j = Some c /\ In q (f (p ++ [i + j]) c).
Proof.
  induction ch as [|x ch IH]; intros i; simpl.
  - split; [tauto|]. intros ([|j] & c & H & _); discriminate.
  - rewrite in_app_iff, IH. split.
    + intros [H|(j & c & Hj & H)].
      * exists 0, x. rewrite Nat.add_0_r. auto.
      * exists (S j), c. replace (i + S j) with (S i + j) by lia. auto.
    + intros ([|j] & c & Hj & H).
      * left. simpl in Hj. injection Hj as ->. rewrite Nat.add_0_r in H. exact H.
      * right. exists j, c. replace (S i + j) with (i + S j) by lia. auto.
Qed.

Lemma before_mapi_cat (f : path -> stree -> log) p x y : forall ch i j c,
  nth_error ch j = Some c -> before (f (p ++ [i + j]) c) x y -> before (mapi_cat f p i ch) x y.
Proof.
  induction ch as [|z ch IH]; intros i [|j] c Hj Hb; simpl in *; try discriminate.
  - injection Hj as ->. rewrite Nat.add_0_r in Hb. apply before_app_l. exact Hb.
  - apply before_app_r. apply (IH (S i) j c Hj). replace (S i + j) with (i + S j) by lia. exact Hb.
Qed.

Lemma mapi_cat_perm (f g : path -> stree -> log) ch :
  Forall (fun c => forall p, Permutation (f p c) (g p c)) ch ->
  forall p i, Permutation (mapi_cat f p i ch) (mapi_cat g p i ch).
Proof. induction 1; intros p i; simpl; auto. apply Permutation_app; auto. Qed.

Lemma node_paths_prefix t : forall p q, In q (node_paths p t) -> exists s, q = p ++ s.
Proof.
  induction t as [ty v| |n ch IH] using stree_ind'; intros p q H; simpl in H.
  - unfold tok_log in H. destruct vt; simpl in H; [|destruct H].
    destruct H as [<-|[]]. exists []. rewrite app_nil_r. reflexivity.
  - destruct H.
  - destruct H as [<-|H]; [exists []; rewrite app_nil_r; reflexivity|].
    apply in_mapi_cat in H. destruct H as (j & c & Hj & H).
    apply nth_error_In in Hj. eapply Forall_forall in IH; [|exact Hj].
    destruct (IH _ _ H) as [s ->]. exists ([0 + j] ++ s). rewrite app_assoc. reflexivity.
Qed.

Lemma NoDup_app' {A} (a b : list A) : NoDup a -> NoDup b -> (forall x, In x a -> In x b -> False) -> NoDup (a ++ b).
Proof.
  induction 1 as [|x a Hx Ha IH]; intros Hb Hd; simpl; auto.
  constructor.
  - rewrite in_app_iff. intros [H|H]; [auto|]. apply (Hd x); simpl; auto.
  - apply IH; auto. intros y Hy. apply Hd. simpl; auto.
Qed.

Theorem node_paths_nodup t : forall p, NoDup (node_paths p t).
Proof.
  induction t as [ty v| |n ch IH] using stree_ind'; intros p; simpl.
  - unfold tok_log. destruct vt; [constructor; [intros []|constructor]|constructor].
  - constructor.
  - constructor.
    + intros H. apply in_mapi_cat in H. destruct H as (j & c & _ & H).
      apply node_paths_prefix in H. destruct H as [s H].
      apply (f_equal (@length nat)) in H. repeat rewrite app_length in H. simpl in H. lia.
    + generalize 0. induction IH as [|c ch Hc _ IHch]; intros i; simpl; [constructor|].
      apply NoDup_app'; auto.
      intros x H1 H2. apply node_paths_prefix in H1. destruct H1 as [s ->].
      apply in_mapi_cat in H2. destruct H2 as (j & c' & _ & H2).
      apply node_paths_prefix in H2. destruct H2 as [s' H2].
      repeat rewrite <- app_assoc in H2. apply app_inv_head in H2. simpl in H2. injection H2 as H2 _. lia.
Qed.

(* ---- the post-order log of Transformer / _NonRecursive / _InPlaceRecursive ------------------- *)
Lemma post_paths_perm t : forall p, Permutation (post_paths p t) (node_paths p t).
Proof.
  induction t as [ty v| |n ch IH] using stree_ind'; intros p; simpl; auto.
  eapply Permutation_trans; [|apply Permutation_sym, Permutation_cons_append].
  apply Permutation_app; auto. apply mapi_cat_perm. exact IH.
Qed.

Lemma post_paths_prefix t p q : In q (post_paths p t) -> exists s, q = p ++ s.
Proof. intros H. eapply node_paths_prefix. eapply Permutation_in; [apply post_paths_perm|exact H]. Qed.

Lemma post_paths_before t : forall p q i,
  In (q ++ [i]) (post_paths p t) -> In q (post_paths p t) -> before (post_paths p t) (q ++ [i]) q.
Proof.
  induction t as [ty v| |n ch IH] using stree_ind'; intros p q i Hx Hy; simpl in *.
  - unfold tok_log in *. destruct vt; simpl in *; [|destruct Hx].
    destruct Hx as [Hx|[]], Hy as [Hy|[]]. rewrite <- Hy in Hx.
    apply (f_equal (@length nat)) in Hx. rewrite app_length in Hx. simpl in Hx. lia.
  - destruct Hx.
  - apply in_app_iff in Hx. apply in_app_iff in Hy.
    assert (Hlong : forall z, In z (mapi_cat post_paths p 0 ch) -> length p < length z).
    { intros z Hz. apply in_mapi_cat in Hz. destruct Hz as (j & c & _ & Hz).
      apply post_paths_prefix in Hz. destruct Hz as [s ->]. repeat rewrite app_length. simpl. lia. }
    destruct Hy as [Hy|[Hy|[]]].
    + (* q is a proper descendant of p *)
      destruct Hx as [Hx|[Hx|[]]].
      * apply before_app_l.
        apply in_mapi_cat in Hx. destruct Hx as (j & c & Hj & Hx).
        apply in_mapi_cat in Hy. destruct Hy as (j' & c' & Hj' & Hy).
        pose proof (post_paths_prefix _ _ _ Hx) as [s Es].
        pose proof (post_paths_prefix _ _ _ Hy) as [s' Es'].
        assert (j = j').
        { rewrite Es' in Es. repeat rewrite <- app_assoc in Es. apply app_inv_head in Es.
          simpl in Es. injection Es as Es _. lia. }
        subst j'. rewrite Hj in Hj'. injection Hj' as <-.
        eapply before_mapi_cat; [exact Hj|].
        apply nth_error_In in Hj. eapply Forall_forall in IH; [|exact Hj]. apply IH; auto.
      * apply Hlong in Hy. rewrite Hx in Hy. rewrite app_length in Hy. simpl in Hy. lia.
    + (* q = p *)
      subst q. destruct Hx as [Hx|[Hx|[]]].
      * exists (mapi_cat post_paths p 0 ch), [p]. simpl. auto.
      * apply (f_equal (@length nat)) in Hx. rewrite app_length in Hx. simpl in Hx. lia.
Qed.

Theorem post_paths_ocf t : once_children_first t (post_paths [] t).
Proof. split; [apply post_paths_perm|apply post_paths_before]. Qed.

(* ---- the log of Transformer_InPlace ---------------------------------------------------------------- *)
Definition logged (c : stree) : bool :=
  match c with Tr _ _ => true | Tok _ _ => vt | NoneV => false end.

Fixpoint cp_go (p : path) (i : nat) (ch : list stree) : log :=
  match ch with
  | [] => []
  | NoneV :: r => cp_go p (S i) r
  | Tok _ _ :: r => tok_log vt (p ++ [i]) ++ cp_go p (S i) r
  | Tr _ _ :: r => (p ++ [i]) :: cp_go p (S i) r
  end.

Definition child_paths (x : path * stree) : log :=
  match snd x with Tr _ ch => cp_go (fst x) 0 ch | _ => [] end.

Definition desc (x : path * stree) : log := tl (node_paths (fst x) (snd x)).

Lemma in_cp_go p q : forall ch i,
  In q (cp_go p i ch) <-> exists j c, nth_error ch j = Some c /\ logged c = true /\ q = p ++ [i + j].
Proof.
  induction ch as [|x ch IH]; intros i; simpl.
  - split; [tauto|]. intros ([|j] & c & H & _); discriminate.
  - assert (Hr : In q (cp_go p (S i) ch) <-> exists j c, nth_error ch j = Some c /\ logged c = true /\ q = p ++ [i + S j]).
    { rewrite IH. split; intros (j & c & H1 & H2 & H3); exists j, c; repeat split; auto;
        rewrite H3; f_equal; f_equal; lia. }
    assert (Hhead : forall (P : Prop), (P <-> (logged x = true /\ q = p ++ [i])) ->
              (P \/ In q (cp_go p (S i) ch) <-> exists j c, nth_error (x :: ch) j = Some c /\ logged c = true /\ q = p ++ [i + j])).
    { intros P HP. rewrite Hr, HP. split.
      - intros [[H1 H2]|(j & c & H)]; [exists 0, x; rewrite Nat.add_0_r; auto|exists (S j), c; exact H].
      - intros ([|j] & c & H1 & H2 & H3).
        + left. simpl in H1. injection H1 as <-. rewrite Nat.add_0_r in H3. auto.
        + right. exists j, c. auto. }
    destruct x as [ty v|n ch'|].
    + rewrite in_app_iff. apply Hhead. unfold tok_log. simpl. destruct vt; simpl; split.
      * intros [<-|[]]. auto.
      * intros [_ ->]. auto.
      * intros [].
      * intros [H _]. discriminate.
    + simpl. apply Hhead. simpl. split; [intros <-; auto|intros [_ ->]; auto].
    + rewrite Hr. split.
      * intros (j & c & H). exists (S j), c. exact H.
      * intros ([|j] & c & H1 & H2 & H3); [simpl in H1; injection H1 as <-; discriminate|exists j, c; auto].
Qed.

Section IPLog.
  Variable T : transformer.

  Lemma ip_children_log h p : forall ch i, snd (ip_children T vt h p i ch) = cp_go p i ch.
  Proof.
    induction ch as [|c ch IH]; intros i; simpl; auto.
    specialize (IH (S i)). destruct (ip_children T vt h p (S i) ch) as [vs l2]. simpl in IH. subst l2.
    destruct c; reflexivity.
  Qed.

  Lemma ip_step_log h x : snd (ip_step T vt h x) = child_paths x.
  Proof.
    unfold ip_step, child_paths. destruct (snd x) as [| n ch |]; auto.
    pose proof (ip_children_log h (fst x) ch 0) as E.
    destruct (ip_children T vt h (fst x) 0 ch). exact E.
  Qed.

  Lemma ip_fold_log order : snd (ip_fold T vt order) = flat_map child_paths order.
  Proof.
    unfold ip_fold.
    assert (G : forall order st, snd (fold_left (fun (st : heap * log) x =>
                 let '(h', l') := ip_step T vt (fst st) x in (h', snd st ++ l')) order st)
               = snd st ++ flat_map child_paths order).
    { induction order0 as [|x o IH]; intros st; simpl; [rewrite app_nil_r; auto|].
      rewrite IH. pose proof (ip_step_log (fst st) x) as E.
      destruct (ip_step T vt (fst st) x). simpl in *. subst l. rewrite app_assoc. reflexivity. }
    apply G.
  Qed.

  (* the children blocks of the visited subtrees are exactly the strict descendants of the queue *)
  Lemma desc_split p : forall ch i,
    Permutation (mapi_cat node_paths p i ch)
                (cp_go p i ch ++ flat_map desc (filter (fun x => is_tree (snd x)) (with_paths p i ch))).
  Proof.
    induction ch as [|c ch IH]; intros i; simpl; auto.
    destruct c as [ty v|n ch'|]; simpl.
    - rewrite <- app_assoc. apply Permutation_app_head. apply IH.
    - constructor. unfold desc at 1. simpl.
      eapply Permutation_trans; [apply Permutation_app_head, IH|].
      repeat rewrite app_assoc. apply Permutation_app_tail. apply Permutation_app_comm.
    - apply IH.
  Qed.

  Lemma bfs_desc : forall f q l, bfs f q = Some l ->
    Permutation (flat_map child_paths l) (flat_map desc q).
  Proof.
    induction f as [|f IH]; intros [|[p t] rest] l H; simpl in H; try discriminate.
    - injection H as <-. constructor.
    - injection H as <-. constructor.
    - destruct (bfs f (rest ++ rev (tree_kids p t))) as [l'|] eqn:E; [|discriminate].
      injection H as <-. simpl. apply IH in E. rewrite flat_map_app in E.
      eapply Permutation_trans; [apply Permutation_app_head, E|].
      rewrite app_assoc. eapply Permutation_trans; [apply Permutation_app_comm|].
      rewrite app_assoc. apply Permutation_app_tail.
      eapply Permutation_trans; [apply Permutation_app_comm|].
      eapply Permutation_trans;
        [apply Permutation_app_head; apply Permutation_flat_map; apply Permutation_sym, Permutation_rev|].
      destruct t as [ty v|n ch|]; unfold child_paths, tree_kids; simpl; auto.
      + unfold desc, tok_log. simpl. destruct vt; constructor.
      + unfold desc. simpl. apply Permutation_sym. apply desc_split.
  Qed.

  Lemma in_child_paths x q : In q (child_paths x) ->
    exists n ch i c, snd x = Tr n ch /\ q = fst x ++ [i] /\ nth_error ch i = Some c /\ logged c = true.
  Proof.
    unfold child_paths. destruct (snd x) as [| n ch |]; simpl; try tauto.
    intros H. apply in_cp_go in H. destruct H as (j & c & H1 & H2 & H3). exists n, ch, j, c. auto.
  Qed.

  Theorem transform_ip_log n ch lg v :
    transform_ip T vt (Tr n ch) = Some (v, lg) -> once_children_first (Tr n ch) lg.
  Proof.
    set (root := Tr n ch).
    unfold transform_ip, iter_subtrees.
    destruct (bfs (ssize root) [([], root)]) as [l|] eqn:Hl; simpl; [|discriminate].
    pose proof (ip_fold_log (rev l)) as Elog.
    destruct (ip_fold T vt (rev l)) as [h lg0]. simpl in Elog. intros H. injection H as _ <-. subst lg0.
    assert (Hq : Forall (cons_ok root) [([], root)]) by (constructor; [reflexivity|constructor]).
    pose proof (bfs_cons_ok root _ _ _ Hl Hq) as Hc.
    split.
    - eapply Permutation_trans; [apply Permutation_sym, Permutation_cons_append|].
      simpl. constructor.
      eapply Permutation_trans; [apply Permutation_flat_map, Permutation_sym, Permutation_rev|].
      eapply Permutation_trans; [apply (bfs_desc _ _ _ Hl)|].
      simpl. rewrite app_nil_r. apply Permutation_refl.
    - intros q i Hx Hy.
      apply in_app_iff in Hx. destruct Hx as [Hx|[Hx|[]]];
        [|apply (f_equal (@length nat)) in Hx; rewrite app_length in Hx; simpl in Hx; lia].
      apply in_app_iff in Hy. destruct Hy as [Hy|[Hy|[]]].
      + apply in_flat_map in Hx. destruct Hx as (e1 & He1 & Hx). apply in_rev in He1.
        apply in_flat_map in Hy. destruct Hy as (e0 & He0 & Hy). apply in_rev in He0.
        apply in_child_paths in Hx. destruct Hx as (n1 & ch1 & i1 & c1 & Et1 & Ex & Hn1 & Hc1).
        apply in_child_paths in Hy. destruct Hy as (n0 & ch0 & j & c0 & Et0 & Ey & Hn0 & Hc0).
        apply app_inj_tail in Ex. destruct Ex as [Eq ->].
        pose proof (proj1 (Forall_forall _ _) Hc _ He1) as C1.
        pose proof (proj1 (Forall_forall _ _) Hc _ He0) as C0.
        unfold cons_ok in C1, C0. rewrite Et1, <- Eq in C1. rewrite Et0 in C0.
        assert (Ec0 : c0 = Tr n1 ch1).
        { rewrite Ey, subtree_snoc, C0, Hn0 in C1. injection C1 as ->. reflexivity. }
        destruct (bfs_split _ _ _ Hl e0 He0) as (l1 & l2 & El & Hk).
        assert (Hin2 : In (q, Tr n1 ch1) l2).
        { apply Hk. unfold tree_kids. rewrite Et0. apply filter_In. split; auto.
          apply in_with_paths. exists j. subst c0. rewrite Ey. auto. }
        rewrite El. rewrite rev_app_distr. simpl. rewrite <- app_assoc. rewrite flat_map_app. simpl.
        exists (flat_map child_paths (rev l2)),
               ((child_paths e0 ++ flat_map child_paths (rev l1)) ++ [[]]).
        repeat split.
        * repeat rewrite <- app_assoc. reflexivity.
        * apply in_flat_map. exists (q, Tr n1 ch1). split; [apply -> in_rev; exact Hin2|].
          unfold child_paths. simpl. apply in_cp_go. exists i1, c1. auto.
        * apply in_or_app. left. apply in_or_app. left.
          unfold child_paths. rewrite Et0. apply in_cp_go. exists j, c0. rewrite Ey. auto.
      + subst q. exists (flat_map child_paths (rev l)), [[]]. simpl. auto.
  Qed.
End IPLog.

(* ---- the two C16 statements about the four traversals ------------------------------------------ *)
Theorem variants_equal T n ch :
  let t := Tr n ch in
  exists l1 l2 l3 l4,
    transform_rec T vt t = (tr T vt t, l1) /\ transform_nr T vt t = Some (tr T vt t, l2) /\
    transform_ip T vt t = Some (tr T vt t, l3) /\ transform_ipr T vt t = (tr T vt t, l4).
Proof.
  intros t. destruct (transform_ip_value T vt t) as [l3 H3]; [unfold t; eauto|].
  exists (post_paths [] t), (post_paths [] t), l3, (post_paths [] t).
  repeat split; auto.
  - apply rec_tc_spec.
  - apply transform_nr_spec.
  - apply ipr_tc_spec.
Qed.

Theorem calls_once_children_first T n ch :
  let t := Tr n ch in
  NoDup (node_paths [] t) /\
  once_children_first t (snd (transform_rec T vt t)) /\
  (forall v lg, transform_nr T vt t = Some (v, lg) -> once_children_first t lg) /\
  (forall v lg, transform_ip T vt t = Some (v, lg) -> once_children_first t lg) /\
  once_children_first t (snd (transform_ipr T vt t)).
Proof.
  intros t. split; [apply node_paths_nodup|]. split; [|split; [|split]].
  - unfold transform_rec. rewrite rec_tc_spec. apply post_paths_ocf.
  - intros v lg H. rewrite transform_nr_spec in H. injection H as _ <-. apply post_paths_ocf.
  - intros v lg H. eapply transform_ip_log; eauto.
  - unfold transform_ipr. rewrite ipr_tc_spec. apply post_paths_ocf.
Qed.
End Vt.
