(* C03, Earley / resolve leg: the tree ForestToParseTree(resolve) builds with lark's chain
   callbacks is [shape] of a derivation stored in the forest, which (Forest/ExplicitBuild)
   is a well-formed derivation of the grammar whose lexemes tile the input. *)
From Coq Require Import ZArith String Ascii List Bool Arith Lia.
From LV Require Import Base.Prelude Cfg.Grammar Forest.Sppf Forest.Sppf_proofs Forest.Prio Forest.Prio_proofs
  Forest.ExplicitBuild Forest.ExplicitBuild_proofs
  Shape.Chain Shape.Spec Shape.Chain_proofs Shape.Shape_proofs Shape.EarleyLeg.
Import ListNotations.

Section SDtreeInd.
  Variable P : Sppf.dtree -> Prop.
  Hypothesis Hl : forall a b c, P (DLeaf a b c).
  Hypothesis Hn : forall r cs, Forall P cs -> P (Sppf.DNode r cs).
  Fixpoint sdtree_ind' (t : Sppf.dtree) : P t :=
    match t with
    | DLeaf a b c => Hl a b c
    | Sppf.DNode r cs => Hn r cs ((fix go l : Forall P l :=
                                     match l with [] => Forall_nil P | x :: r' => Forall_cons x (sdtree_ind' x) (go r') end) cs)
    end.
End SDtreeInd.

Lemma all_some_app {A} (a b : list (option A)) : all_some (a ++ b) = lift_app (all_some a) (all_some b).
Proof.
  induction a as [|[x|] a IH]; simpl.
  - destruct (all_some b); reflexivity.
  - rewrite IH. destruct (all_some a), (all_some b); reflexivity.
  - reflexivity.
Qed.

(* ---- callbacks during the forest walk = callbacks bottom-up on the chosen derivation -------- *)
Section Bridge.
  Variable X : Type.
  Variable cb : rinfo -> list X -> option X.
  Variable tokf : string -> string -> X.
  Variable keyf : bool -> packed -> key.
  Notation resolve_cb := (resolve_cb X cb tokf keyf).
  Notation resolve_cb_p := (resolve_cb_p X cb tokf keyf).
  Notation eval_f := (eval_f X cb tokf).

  Lemma resolve_cb_sym l fams :
    resolve_cb (Sym l fams) =
    match best_by (keyf (l_inter l)) fams with
    | None => Some []
    | Some p => wrap_cb X cb (l_inter l) p (resolve_cb_p p)
    end.
  Proof.
    set (Fv := fun p : packed => wrap_cb X cb (l_inter l) p (resolve_cb_p p)).
    change (resolve_cb (Sym l fams)) with
      (match ksort (map (fun p => (keyf (l_inter l) p, Fv p)) fams) with [] => Some [] | (_, t) :: _ => t end).
    set (L := ksort (map (fun p => (keyf (l_inter l) p, Fv p)) fams)).
    assert (H : hd_error L = option_map (fun a => (keyf (l_inter l) a, Fv a)) (best_by (keyf (l_inter l)) fams)).
    { unfold L. rewrite hd_ksort, kbest_map. reflexivity. }
    destruct (best_by (keyf (l_inter l)) fams) as [p|]; cbn [option_map] in H.
    - destruct L as [|[k t] L']; [discriminate|]. cbn in H. injection H as _ ->. reflexivity.
    - destruct L as [|[k t] L']; [reflexivity|discriminate].
  Qed.

  Lemma resolve_cb_bridge :
    (forall s, resolve_cb s = all_some (map eval_f (resolve_with keyf s))) /\
    (forall p, resolve_cb_p p = all_some (map eval_f (resolve_with_p keyf p))).
  Proof.
    apply sym_packed_ind.
    - intros a b c. reflexivity.
    - intros l fams IH. rewrite resolve_cb_sym, resolve_with_sym.
      destruct (best_by (keyf (l_inter l)) fams) as [p|] eqn:E; [|reflexivity].
      pose proof (best_by_in _ _ _ E) as Hp. rewrite Forall_forall in IH. rewrite (IH p Hp).
      unfold wrap_cb, wrap. destruct (l_inter l); [reflexivity|].
      cbn [map all_some EarleyLeg.eval_f].
      destruct (all_some (map eval_f (resolve_with_p keyf p))) as [vs|]; [|reflexivity].
      destruct (cb (p_rule p) vs); reflexivity.
    - intros r lft rgt IHl IHr. cbn [EarleyLeg.resolve_cb_p]. rewrite resolve_with_pack, map_app, all_some_app.
      f_equal.
      + destruct lft as [s|]; [apply IHl; reflexivity|reflexivity].
      + destruct rgt as [s|]; [apply IHr; reflexivity|reflexivity].
  Qed.
End Bridge.

Section Table.
  Variable rules : list rrec.
  Variable mp : bool.
  Hypothesis Htable : Forall (fun r => rule_wf r mp = true /\ inline_ok r = true) rules.

  Lemma rule_at_ok r : rule_wf (rule_at rules r) mp = true /\ inline_ok (rule_at rules r) = true.
  Proof.
    unfold rule_at. destruct (nth_in_or_default (Z.to_nat (r_id r)) rules dflt_rule) as [H| ->].
    - rewrite Forall_forall in Htable. apply Htable. exact H.
    - split; [destruct mp|]; reflexivity.
  Qed.

  (* lark's chain callbacks bottom-up on a derivation = shape of it *)
  Lemma eval_chain_shape t : wf_dtree mp (to_dtree rules t) = true ->
    eval_f stree (chain_cb rules mp) Tok t = shape mp (to_dtree rules t).
  Proof.
    induction t as [a b c|r cs IH] using sdtree_ind'; intros Hwf; [reflexivity|].
    cbn [to_dtree wf_dtree] in Hwf. repeat (apply andb_true_iff in Hwf; destruct Hwf as [Hwf ?]).
    rename H into Hall, H0 into Har.
    cbn [EarleyLeg.eval_f to_dtree]. unfold shape. cbn [eval]. fold (shape mp).
    assert (E : map (eval_f stree (chain_cb rules mp) Tok) cs = map (shape mp) (map (to_dtree rules) cs)).
    { rewrite map_map. clear Har. induction cs as [|c cs IHc]; [reflexivity|]. simpl in Hall.
      apply andb_true_iff in Hall. destruct Hall as [Hc Hall]. inversion IH; subst. simpl. f_equal; auto. }
    rewrite E. unfold shape.
    destruct (all_some (map (eval stree NoneV skids no_user Tr Tok mp) (map (to_dtree rules) cs))) as [vs|] eqn:Ev; [|reflexivity].
    unfold chain_cb, tree_callback. rewrite chain_spec; [reflexivity|exact Hwf|].
    apply all_some_length in Ev. rewrite !map_length in Ev.
    apply forall2b_length in Har. rewrite map_length in Har. lia.
  Qed.

  (* ---- forests as built (Forest/ExplicitBuild) --------------------------------------------- *)
  Variable nt_ix : string -> nat.
  Variable t_ix : string -> nat.
  Hypothesis nt_inj : forall a b, nt_ix a = nt_ix b -> a = b.
  Hypothesis t_inj : forall a b, t_ix a = t_ix b -> a = b.
  Notation G := (cfg_grammar rules nt_ix t_ix).
  Notation lexeme := EarleyLeg.lexeme.
  Notation to_dt := (to_dt rules nt_ix t_ix).
  Notation cfg_of := (cfg_of nt_ix t_ix).
  Notation lx_match := (lx_match t_ix).

  Variable F : nlabel lexeme -> family lexeme -> Prop.
  Notation unf := (unf rules nt_ix t_ix F).
  Notation unf_p := (unf_p rules nt_ix t_ix F).

  Lemma unf_den :
    (forall s lbl, unf s lbl -> forall ds, In ds (derivs s) -> den lexeme F lbl (map to_dt ds)) /\
    (forall p lbl, unf_p p lbl -> forall ds, In ds (derivs_p p) ->
                   den lexeme F lbl (pack lexeme lbl (cfg_of (rule_at rules (p_rule p))) (map to_dt ds))).
  Proof.
    apply sym_packed_ind.
    - intros a b c lbl (i & j & ->) ds [<-|[]]. simpl. constructor.
    - intros l fams IH lbl (Hi & Hlbl & Hf) ds Hin. rewrite derivs_sym in Hin.
      apply in_flat_map in Hin. destruct Hin as (p & Hp & Hin). apply in_map_iff in Hin.
      destruct Hin as (ds' & <- & Hds').
      assert (Hup : unf_p p lbl).
      { clear -Hp Hf. induction fams as [|q fams IHf]; [destruct Hp|]. simpl in Hf. destruct Hf as [Hq Hf].
        destruct Hp as [->|Hp]; auto. }
      rewrite Forall_forall in IH. specialize (IH p Hp lbl Hup ds' Hds').
      unfold wrap. rewrite Hi. destruct lbl; simpl in *; try tauto; exact IH.
    - intros r lft rgt IHl IHr lbl (lo & ro & HF & Hl & Hr) ds Hin. rewrite derivs_pack in Hin.
      apply in_cross_inv in Hin. destruct Hin as (a & b & -> & Ha & Hb). rewrite map_app.
      cbn [p_rule]. eapply den_fam; [exact HF| |].
      + destruct lft as [s|], lo as [l'|]; try tauto.
        * constructor. apply (IHl s eq_refl l' Hl a Ha).
        * simpl in Ha. destruct Ha as [<-|[]]. constructor.
      + destruct rgt as [s|], ro as [l'|]; try tauto.
        * constructor. apply (IHr s eq_refl l' Hr b Hb).
        * simpl in Hb. destruct Hb as [<-|[]]. constructor.
  Qed.

  (* a well-formed derivation of the numbered grammar is a well-formed derivation over the records *)
  Lemma wfd_wf t : forall sy, wfd G lexeme lx_match (to_dt t) sy -> wf_dtree mp (to_dtree rules t) = true.
  Proof.
    induction t as [a b c|r cs IH] using sdtree_ind'; intros sy Hw; [reflexivity|].
    cbn [EarleyLeg.to_dt] in Hw. inversion Hw as [|r0 ks Hin HF2]; subst.
    cbn [to_dtree wf_dtree]. destruct (rule_at_ok r) as [H1 H2]. rewrite H1, H2. cbn [andb].
    unfold EarleyLeg.cfg_of in HF2. cbn [rhs] in HF2.
    apply andb_true_iff. split.
    - clear Hw Hin H1 H2. revert HF2 IH. generalize (r_exp (rule_at rules r)) as exp.
      induction cs as [|c cs IHc]; intros [|s exp] HF2 IH; inversion HF2; subst; [reflexivity|]. simpl.
      apply andb_true_iff. split; [|inversion IH; subst; eapply IHc; eauto].
      match goal with H : wfd _ _ _ (to_dt c) _ |- _ => rename H into Hc end.
      destruct c as [r' cs'|a b c']; cbn [EarleyLeg.to_dt to_dtree child_ok] in *; inversion Hc; subst.
      + unfold cfg_sym in *. destruct (s_term s); [discriminate|]. simpl.
        match goal with H : NT _ = NT _ |- _ => injection H as Heq end.
        unfold EarleyLeg.cfg_of in Heq. cbn [lhs] in Heq. apply nt_inj in Heq. rewrite Heq. apply String.eqb_refl.
      + unfold cfg_sym in *. destruct (s_term s); [|discriminate]. simpl.
        match goal with H : T _ = T _ |- _ => injection H as Heq end.
        apply t_inj in Heq. rewrite Heq. apply String.eqb_refl.
    - clear Hw Hin H1 H2. revert HF2 IH. generalize (map (cfg_sym nt_ix t_ix) (r_exp (rule_at rules r))) as syms.
      induction cs as [|c cs IHc]; intros syms HF2 IH; [reflexivity|].
      inversion HF2; subst. inversion IH; subst. simpl. apply andb_true_iff. split; eauto.
  Qed.

  Variable tlen : lexeme -> nat.
  Variable occurs : lexeme -> nat -> bool.
  Hypothesis HFok : forall lbl f, F lbl f -> fam_ok G lexeme lx_match tlen occurs lbl f.

  (* C03, Earley/resolve leg *)
  Theorem earley_resolve_is_shape_of_derivation s a i j :
    wfb s = true -> unf s (NSym lexeme a i j) ->
    exists t,
      resolve s = [t] /\
      wfd G lexeme lx_match (to_dt t) (NT a) /\
      tiles lexeme tlen occurs i j (yield lexeme (to_dt t)) /\
      wf_dtree mp (to_dtree rules t) = true /\
      earley_resolve rules mp s = option_map (fun v => [v]) (shape mp (to_dtree rules t)).
  Proof.
    intros Hwf Hu.
    pose proof (resolve_in_derivs s Hwf) as Hin.
    pose proof (proj1 unf_den s _ Hu _ Hin) as Hden.
    pose proof (A_sound_gen G lexeme lx_match tlen occurs F HFok _ _ Hden) as Hs.
    simpl in Hs. destruct Hs as (d & Hd & Hw & Ht).
    destruct (resolve s) as [|t [|t2 rest]] eqn:Er; simpl in Hd; try discriminate.
    injection Hd as <-. exists t. split; [reflexivity|]. split; [exact Hw|]. split; [exact Ht|].
    pose proof (wfd_wf t _ Hw) as Hwd. split; [exact Hwd|].
    unfold earley_resolve. rewrite (proj1 (resolve_cb_bridge stree (chain_cb rules mp) Tok pkey) s).
    fold (resolve s). rewrite Er. cbn [map all_some]. rewrite (eval_chain_shape t Hwd).
    destruct (shape mp (to_dtree rules t)); reflexivity.
  Qed.
End Table.
