(* chain_spec: the callback lark composes for a rule (Chain.v) equals the documented shaping
   of one rule application (Spec.v), for every rule record and every children list of the
   rule's arity. *)
From Coq Require Import String Ascii List Bool Arith Lia.
From LV Require Import Base.Prelude Shape.Chain Shape.Spec.
Import ListNotations.

(* ---- '0'.split ------------------------------------------------------------------------- *)
Lemma split0_lead c k m : split0 c (repeat true k ++ m) = split0 (c + k) m.
Proof.
  revert c; induction k as [|k IH]; intros c; simpl.
  - f_equal; lia.
  - rewrite IH. f_equal; lia.
Qed.

Lemma split0_repeat_false n : split0 0 (repeat false n) = repeat 0 (n + 1).
Proof. induction n; simpl; auto. f_equal; auto. Qed.

Lemma split0_length c m : length (split0 c m) = count_false m + 1.
Proof. revert c; induction m as [|[|] m IH]; intros c; simpl; auto. Qed.

Lemma count_false_decomp m n :
  count_false m = S n -> exists k m', m = repeat true k ++ false :: m' /\ count_false m' = n.
Proof.
  induction m as [|[|] m IH]; simpl; intros H; try discriminate.
  - destruct (IH H) as (k & m' & -> & Hc). exists (S k), m'. auto.
  - exists 0, m. simpl. split; auto; lia.
Qed.

Lemma count_false_zero m : count_false m = 0 -> m = repeat true (length m).
Proof. induction m as [|[|] m IH]; simpl; intros H; try discriminate; auto. f_equal; auto. Qed.

Lemma count_false_repeat_false n : count_false (repeat false n) = n.
Proof. induction n; simpl; auto. Qed.

Lemma skipn_hd {A} (d : A) i l x r : skipn i l = x :: r -> nth i l d = x /\ skipn (S i) l = r.
Proof.
  revert l; induction i as [|i IH]; intros l H.
  - simpl in H. subst. auto.
  - destruct l as [|y l]; [discriminate|]. simpl in H. apply IH in H. simpl. exact H.
Qed.

Section Proofs.
  Variable X : Type.
  Variable none : X.
  Variable kids : X -> option (list X).

  Notation run_cf := (run_cf X none kids).
  Notation run_cflalr := (run_cflalr X none kids).
  Notation run_cfnoph := (run_cfnoph X kids).
  Notation spec_walk := (spec_walk X none kids).
  Notation contrib := (contrib X kids).

  (* the "optimised" LALR filters compute the same list as the copying filter *)
  Lemma run_cflalr_eq ti ch f : run_cflalr ti ch f = run_cf ti ch f.
  Proof.
    revert f; induction ti as [|[[i e] a] ti IH]; intros f; simpl; auto.
    destruct (nth_error ch i); auto. destruct e; auto.
    destruct (kids x); auto. rewrite IH. f_equal.
    destruct (f ++ repeat none a); auto.
  Qed.

  Lemma run_cfnoph_eq ti ch f :
    Forall (fun t => snd t = 0) ti ->
    run_cfnoph (map (fun t => (fst (fst t), snd (fst t))) ti) ch f = run_cf ti ch f.
  Proof.
    intros H; revert f; induction H as [|[[i e] a] ti Ha _ IH]; intros f; simpl; auto.
    simpl in Ha. subst a. simpl. rewrite app_nil_r.
    destruct (nth_error ch i); auto. destruct e; auto.
    destruct (kids x); auto. rewrite IH. f_equal. destruct f; auto.
  Qed.

  Lemma spec_walk_lead ka k m exp ch :
    spec_walk ka (repeat true k ++ m) exp ch
    = lift_app (Some (repeat none k)) (spec_walk ka m exp ch).
  Proof.
    induction k as [|k IH]; simpl.
    - destruct (spec_walk ka m exp ch); auto.
    - rewrite IH. destruct (spec_walk ka m exp ch); auto.
  Qed.

  (* the loop invariant of maybe_create_child_filter + ChildFilter.__call__ *)
  Lemma incl_loop_spec ka ei : forall exp i m todo done nones acc,
    length todo = length exp -> count_false m = length exp ->
    skipn i ei = split0 0 m -> length done = i ->
    option_map (fun l => l ++ repeat none (snd (incl_loop ka ei i exp nones) + nth (i + length exp) ei 0))
               (run_cf (fst (incl_loop ka ei i exp nones)) (done ++ todo) acc)
    = option_map (fun l => acc ++ repeat none nones ++ l) (spec_walk ka m exp todo).
  Proof.
    induction exp as [|s exp IH]; intros i m todo done nones acc Hl Hc Hs Hd.
    - destruct todo; [|discriminate]. simpl in Hc.
      rewrite (count_false_zero m Hc) in *. set (k := length m) in *.
      pose proof (split0_lead 0 k []) as E. rewrite app_nil_r in E. rewrite E in Hs. simpl in Hs.
      apply (skipn_hd 0) in Hs. destruct Hs as [Hn _].
      simpl. rewrite Nat.add_0_r, Hn.
      pose proof (spec_walk_lead ka k [] [] []) as E2. rewrite app_nil_r in E2. rewrite E2. simpl.
      rewrite app_nil_r. rewrite repeat_app. reflexivity.
    - destruct todo as [|c todo]; [discriminate|]. simpl in Hl, Hc.
      destruct (count_false_decomp m _ Hc) as (k & m' & -> & Hc').
      rewrite split0_lead in Hs. simpl in Hs. apply (skipn_hd 0) in Hs. destruct Hs as [Hn Hs].
      rewrite spec_walk_lead. cbn [spec_walk].
      assert (Hnth : nth_error (done ++ c :: todo) i = Some c).
      { rewrite nth_error_app2 by lia. replace (i - length done) with 0 by lia. reflexivity. }
      assert (Hdone : done ++ c :: todo = (done ++ [c]) ++ todo) by (rewrite <- app_assoc; reflexivity).
      assert (Hi : i + length (s :: exp) = S i + length exp) by (simpl; lia).
      rewrite Hi. cbn [incl_loop]. rewrite Hn.
      unfold contrib, kept, inlined.
      destruct (s_term s) eqn:Et; cbn [andb negb orb].
      + (* terminal *)
        destruct (ka || negb (s_filter s)) eqn:Ek; cbn [negb].
        * (* kept token *)
          destruct (incl_loop ka ei (S i) exp 0) as [ti n] eqn:Eloop. cbn [fst snd].
          cbn [run_cf]. rewrite Hnth. unfold should_expand. rewrite Et. cbn [negb andb].
          specialize (IH (S i) m' todo (done ++ [c]) 0 ((acc ++ repeat none (nones + k)) ++ [c])).
          rewrite Eloop in IH. cbn [fst snd] in IH. rewrite Hdone.
          rewrite IH; try lia; auto; [|rewrite app_length; simpl; lia].
          destruct (spec_walk ka m' exp todo); simpl; auto.
          f_equal. rewrite repeat_app. repeat rewrite <- app_assoc. reflexivity.
        * (* filtered token *)
          specialize (IH (S i) m' todo (done ++ [c]) (nones + k) acc).
          rewrite Hdone. rewrite IH; try lia; auto; [|rewrite app_length; simpl; lia].
          destruct (spec_walk ka m' exp todo); simpl; auto.
          f_equal. rewrite repeat_app. repeat rewrite <- app_assoc. reflexivity.
      + (* rule *)
        rewrite orb_true_r.
        destruct (incl_loop ka ei (S i) exp 0) as [ti n] eqn:Eloop. cbn [fst snd].
        cbn [run_cf]. rewrite Hnth. unfold should_expand. rewrite Et. cbn [negb andb].
        destruct (starts_us (s_name s)).
        * destruct (kids c) as [kc|]; [|destruct (spec_walk ka m' exp todo); reflexivity].
          specialize (IH (S i) m' todo (done ++ [c]) 0 ((acc ++ repeat none (nones + k)) ++ kc)).
          rewrite Eloop in IH. cbn [fst snd] in IH. rewrite Hdone.
          rewrite IH; try lia; auto; [|rewrite app_length; simpl; lia].
          destruct (spec_walk ka m' exp todo); simpl; auto.
          f_equal. rewrite repeat_app. repeat rewrite <- app_assoc. reflexivity.
        * specialize (IH (S i) m' todo (done ++ [c]) 0 ((acc ++ repeat none (nones + k)) ++ [c])).
          rewrite Eloop in IH. cbn [fst snd] in IH. rewrite Hdone.
          rewrite IH; try lia; auto; [|rewrite app_length; simpl; lia].
          destruct (spec_walk ka m' exp todo); simpl; auto.
          f_equal. rewrite repeat_app. repeat rewrite <- app_assoc. reflexivity.
  Qed.

  Lemma nth_repeat0 j k : nth j (repeat 0 k) 0 = 0.
  Proof. revert j; induction k; intros [|j]; simpl; auto. Qed.

  Lemma incl_loop_zero ka ei : (forall j, nth j ei 0 = 0) -> forall exp i,
    Forall (fun t => snd t = 0) (fst (incl_loop ka ei i exp 0)) /\ snd (incl_loop ka ei i exp 0) = 0.
  Proof.
    intros Hz; induction exp as [|s exp IH]; intros i; simpl; auto.
    rewrite Hz. destruct (ka || negb (s_term s && s_filter s)).
    - destruct (IH (S i)) as [H1 H2]. destruct (incl_loop ka ei (S i) exp 0); simpl in *. auto.
    - apply IH.
  Qed.

  (* when no filter object is created every child is passed through *)
  Lemma incl_loop_full ka ei : forall exp i nones,
    length (fst (incl_loop ka ei i exp nones)) <= length exp /\
    (length (fst (incl_loop ka ei i exp nones)) = length exp ->
     existsb (fun t => snd (fst t)) (fst (incl_loop ka ei i exp nones)) = false ->
     forall todo, length todo = length exp ->
       spec_walk ka (repeat false (length exp)) exp todo = Some todo).
  Proof.
    induction exp as [|s exp IH]; intros i nones; cbn [incl_loop].
    - simpl. split; auto. intros _ _ [|]; simpl; auto; discriminate.
    - destruct (ka || negb (s_term s && s_filter s)) eqn:Ek.
      + destruct (IH (S i) 0) as [H1 H2].
        destruct (incl_loop ka ei (S i) exp 0) as [l n]; cbn [fst snd length] in *.
        split; [lia|]. intros Hlen Hex [|c todo] Ht; [discriminate|].
        cbn [existsb fst snd] in Hex. apply orb_false_iff in Hex. destruct Hex as [Hse Hex].
        simpl in Ht. cbn [repeat spec_walk].
        rewrite (H2 ltac:(lia) Hex todo ltac:(lia)).
        unfold contrib, kept, inlined. unfold should_expand in Hse.
        destruct (s_term s); cbn [negb andb] in *.
        * destruct (s_filter s); rewrite ?orb_true_r, ?orb_false_r in Ek; cbn [negb] in *.
          -- rewrite Ek. reflexivity.
          -- rewrite orb_true_r. reflexivity.
        * rewrite Hse. reflexivity.
      + destruct (IH (S i) (nones + nth i ei 0)) as [H1 H2]. cbn [length]. split; [lia|]. intros; lia.
  Qed.

  Lemma spec_name_eq r : spec_name r = cb_name r.
  Proof.
    unfold spec_name, cb_name, truthy.
    destruct (r_alias r) as [[|]|]; auto; destruct (r_tsrc r) as [[|]|]; auto.
  Qed.

  (* C03 core: for every rule record, configuration and children list of the rule's arity, the
     composed callback is the documented shaping. *)
  Theorem chain_spec user mk r mp amb ch :
    rule_wf r mp = true -> length ch = length (r_exp r) ->
    run_callback X none kids user mk r mp amb ch = Ok (spec_rule X none kids user mk r mp ch).
  Proof.
    intros Hwf Hlen.
    unfold run_callback, callback, wrapper_chain, maybe_create_child_filter, spec_rule, spec_children.
    rewrite spec_name_eq.
    set (name := cb_name r).
    set (node := match user name with Some g => fun ch0 => Some (g ch0) | None => fun ch0 => Some (mk name ch0) end).
    assert (Hnode : forall l, node l = Some match user name with Some g => g l | None => mk name l end).
    { intros l; unfold node; destruct (user name); reflexivity. }
    set (E1 := r_expand1 r && negb (truthy (r_alias r))).
    unfold rule_wf, marks in *.
    destruct (nonempty (if mp then r_empty r else [])) eqn:Ene.
    - (* placeholders *)
      assert (Hmp : mp = true) by (destruct mp; auto; discriminate). subst mp.
      simpl in Ene. rewrite Ene in *. cbn [andb negb orb] in Hwf |- *. apply Nat.eqb_eq in Hwf.
      rewrite Hwf, Nat.eqb_refl. rewrite split0_length, Hwf, Nat.eqb_refl. cbn [rbind].
      pose proof (incl_loop_spec (r_keep_all r) (split0 0 (r_empty r)) (r_exp r) 0 (r_empty r) ch [] 0 []
                    Hlen Hwf eq_refl eq_refl) as L.
      destruct (incl_loop (r_keep_all r) (split0 0 (r_empty r)) 0 (r_exp r) 0) as [ti n]. cbn [fst snd] in L.
      cbn [orb rbind app]. simpl in L.
      assert (R : run_filter X none kids (if amb then CF ti (n + nth (length (r_exp r)) (split0 0 (r_empty r)) 0)
                                          else CFLALR ti (n + nth (length (r_exp r)) (split0 0 (r_empty r)) 0)) ch
                  = spec_walk (r_keep_all r) (r_empty r) (r_exp r) ch).
      { destruct amb; unfold run_filter; rewrite ?run_cflalr_eq; rewrite L;
          destruct (spec_walk (r_keep_all r) (r_empty r) (r_exp r) ch); reflexivity. }
      destruct E1; cbn [app compose fold_left apply_wrapper]; rewrite R;
        destruct (spec_walk (r_keep_all r) (r_empty r) (r_exp r) ch) as [l|]; auto.
      + destruct l as [|c [|]]; rewrite ?Hnode; auto.
      + rewrite Hnode; auto.
    - (* no placeholders *)
      assert (Hm : (mp && nonempty (r_empty r)) = false) by (destruct mp; auto).
      rewrite Hm. cbn [rbind].
      set (n := length (r_exp r)) in *.
      rewrite <- split0_repeat_false.
      pose proof (incl_loop_spec (r_keep_all r) (split0 0 (repeat false n)) (r_exp r) 0 (repeat false n) ch [] 0 []
                    Hlen (count_false_repeat_false n) eq_refl eq_refl) as L.
      assert (Hz : forall j, nth j (split0 0 (repeat false n)) 0 = 0).
      { intros j. rewrite split0_repeat_false. apply nth_repeat0. }
      destruct (incl_loop_zero (r_keep_all r) _ Hz (r_exp r) 0) as [Z1 Z2].
      destruct (incl_loop_full (r_keep_all r) (split0 0 (repeat false n)) (r_exp r) 0 0) as [F1 F2].
      destruct (incl_loop (r_keep_all r) (split0 0 (repeat false n)) 0 (r_exp r) 0) as [ti k].
      cbn [fst snd] in *. subst k. rewrite Hz in *. simpl in L. cbn [orb Nat.add].
      fold n.
      destruct (Nat.ltb (length ti) n || existsb (fun t => snd (fst t)) ti) eqn:Ec.
      + assert (R : run_filter X none kids (if amb then CF ti 0
                                            else CFNoPH (map (fun t => (fst (fst t), snd (fst t))) ti)) ch
                    = spec_walk (r_keep_all r) (repeat false n) (r_exp r) ch).
        { assert (HL : run_cf ti ch [] = spec_walk (r_keep_all r) (repeat false n) (r_exp r) ch).
          { destruct (run_cf ti ch []), (spec_walk (r_keep_all r) (repeat false n) (r_exp r) ch);
              simpl in L; rewrite ?app_nil_r in L; congruence. }
          destruct amb; unfold run_filter; rewrite ?run_cfnoph_eq by auto; rewrite HL; auto.
          destruct (spec_walk (r_keep_all r) (repeat false n) (r_exp r) ch); simpl; rewrite ?app_nil_r; auto. }
        destruct amb; cbn [rbind].
        * destruct E1; cbn [app compose fold_left apply_wrapper]; rewrite R;
            destruct (spec_walk (r_keep_all r) (repeat false n) (r_exp r) ch) as [l|]; auto.
          -- destruct l as [|c [|]]; rewrite ?Hnode; auto.
          -- rewrite Hnode; auto.
        * destruct E1; cbn [app compose fold_left apply_wrapper]; rewrite R;
            destruct (spec_walk (r_keep_all r) (repeat false n) (r_exp r) ch) as [l|]; auto.
          -- destruct l as [|c [|]]; rewrite ?Hnode; auto.
          -- rewrite Hnode; auto.
      + apply orb_false_iff in Ec. destruct Ec as [Ec1 Ec2]. apply Nat.ltb_ge in Ec1.
        subst n. rewrite (F2 ltac:(lia) Ec2 ch Hlen). cbn [rbind].
        destruct E1; cbn [app compose fold_left apply_wrapper].
        * destruct ch as [|c [|]]; rewrite ?Hnode; auto.
        * rewrite Hnode; auto.
  Qed.

  (* the construction-time assertion fails exactly when rule_wf is false *)
  Theorem chain_assert user mk r mp amb ch :
    rule_wf r mp = false -> run_callback X none kids user mk r mp amb ch = AssertFail.
  Proof.
    unfold rule_wf, run_callback, callback, wrapper_chain, maybe_create_child_filter.
    intros H. apply orb_false_iff in H. destruct H as [H1 H2]. apply negb_false_iff in H1.
    apply andb_true_iff in H1. destruct H1 as [-> H1]. rewrite H1, H2. reflexivity.
  Qed.
End Proofs.
