(* Executable model of cyk._parse (lark/parsers/cyk.py): the CYK table over spans, filled from
   the CNF rules, with the per-span dict of best trees.  Definitions only (proofs in
   CykParse_proofs.v).

   A cell is computed by recursion on the span length from the cells of the shorter spans, in the
   order of the loops of _parse (split point p ascending, product of the two cells, rules of
   nonterminal_rules[(lhs1, lhs2)]); lark fills a table bottom-up, i.e. memoises this recursion.
   Weights: a tree replaces the recorded one only when strictly lighter; for grammars without
   rule priorities all weights are 0, so the first tree recorded for a lhs stays (first wins).
   The iteration order of lark's sets/dicts depends on the hash seed, so which of several trees
   is first is not modelled beyond "one of them" (the table of rules is compared as sets). *)
From Coq Require Import String Ascii List Bool Arith.
From LV Require Import Base.Prelude Shape.Chain Shape.Spec Shape.Cnf.
Import ListNotations.

Definition ctoken := (string * string)%type.                 (* (type, value) *)
Definition tcell := list (cnt * ctree).                      (* trees[(i, j)] : lhs -> best tree *)
Definition cell := (list crule * tcell)%type.                (* table[(i, j)], trees[(i, j)] *)

Fixpoint tlookup (a : cnt) (ts : tcell) : option ctree :=
  match ts with [] => None | (b, t) :: r => if cnt_eqb a b then Some t else tlookup a r end.

(* `if rule.lhs not in trees[..] or weight < ...: trees[..][rule.lhs] = tree` with equal weights *)
Definition tadd (a : cnt) (t : ctree) (ts : tcell) : tcell :=
  match tlookup a ts with Some _ => ts | None => ts ++ [(a, t)] end.

(* table[..].add(rule) *)
Definition radd (r : crule) (rs : list crule) : list crule :=
  if existsb (crule_eqb r) rs then rs else rs ++ [r].

Section Parse.
  Variable g : list crule.
  Variable w : list ctoken.

  (* base case: terminal rules matching the token (match(t, s): t.name == s.type) *)
  Definition term_cell (tk : ctoken) : cell :=
    fold_left (fun (c : cell) r =>
                 match c_rhs r with
                 | [CT t] => if String.eqb t (fst tk)
                             then (radd r (fst c), tadd (c_lhs r) (CNode r [CLeaf (fst tk) (snd tk)]) (snd c))
                             else c
                 | _ => c
                 end) g ([], []).

  (* the rules of nonterminal_rules[(a, b)] *)
  Definition bin_rules (a b : cnt) : list crule :=
    filter (fun r => match c_rhs r with [CN x; CN y] => cnt_eqb x a && cnt_eqb y b | _ => false end) g.

  (* one split point: for r1, r2 in product(cell1, cell2): for rule in nonterminal_rules[(r1.lhs, r2.lhs)] *)
  Definition combine (c1 c2 : cell) (acc : cell) : cell :=
    fold_left (fun (acc : cell) r1 =>
      fold_left (fun (acc : cell) r2 =>
        fold_left (fun (acc : cell) r =>
                     match tlookup (c_lhs r1) (snd c1), tlookup (c_lhs r2) (snd c2) with
                     | Some t1, Some t2 => (radd r (fst acc), tadd (c_lhs r) (CNode r [t1; t2]) (snd acc))
                     | _, _ => acc          (* KeyError: excluded by the invariant "every rule has a tree" *)
                     end)
                  (bin_rules (c_lhs r1) (c_lhs r2)) acc)
        (fst c2) acc)
      (fst c1) acc.

  (* the cell of the span starting at i of length l (fuel >= l) *)
  Fixpoint cellF (fuel l i : nat) : cell :=
    match fuel with
    | 0 => ([], [])
    | S f =>
        if Nat.eqb l 1 then match nth_error w i with Some tk => term_cell tk | None => ([], []) end
        else fold_left (fun acc p => combine (cellF f p i) (cellF f (l - p) (i + p)) acc)
                       (seq 1 (l - 1)) ([], [])
    end.

  Definition cyk_cell (l i : nat) : cell := cellF l l i.

  (* Parser.parse: ParseError unless some rule of the top cell has lhs = start; else trees[..][start] *)
  Definition cyk_parse (start : string) : option ctree :=
    let c := cyk_cell (length w) 0 in
    if existsb (fun r => cnt_eqb (c_lhs r) (NOrig start)) (fst c) then tlookup (NOrig start) (snd c) else None.
End Parse.
