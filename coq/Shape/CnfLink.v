(* The rules of to_cnf(G) characterised directly from the rule table (no TERM/BIN/UNIT passes):
     term rules      __T_t -> t              for the terminals of the rules that get termified,
     split rules     __SP_rid_i -> ...       for the rules with three or more symbols,
     head rules      A -> head(f) [chain]    for every chain of unit rules rid = r0 -> r1 -> ... -> f ending in
                                             a non-unit rule f (the empty chain gives the plain rules).
   Definitions only; CnfLink_proofs.v proves that over a grammar with exactly these rules the CNF
   derivations from original non-terminals are exactly the pre-images [cnf_of d] of the derivations of
   G.  [spec_cnf] enumerates the characterisation, so that `to_cnf = spec_cnf` (as sets) can be
   evaluated per grammar. *)
From Coq Require Import String Ascii List Bool Arith.
From LV Require Import Base.Prelude Shape.Chain Shape.Spec Shape.Cnf.
Import ListNotations.

Section Canon.
  Variable rules : list rrec.
  Notation rule_n := (rule_n rules).

  Definition exp_of (rid : nat) : list csym := map of_sym (r_exp (rule_n rid)).
  Definition tf_of (rid : nat) : bool := needs_term (exp_of rid).
  Definition e_of (rid : nat) : list csym := if tf_of rid then map termify (exp_of rid) else exp_of rid.
  Definition head_rhs (rid : nat) : list csym :=
    match e_of rid with
    | x0 :: (_ :: _ :: _) => [x0; CN (NSplit rid 1)]
    | e => e
    end.
  Definition origin (rid : nat) : string := r_origin (rule_n rid).

  (* chain rid sk f: the unit rules rid = r0 -> r1 -> ... -> f, f not a unit rule; sk lists r1 .. f *)
  Inductive chain : nat -> list (cnt * calias) -> nat -> Prop :=
  | chain_nil rid : rid < length rules -> (forall b, exp_of rid <> [CN (NOrig b)]) -> chain rid [] rid
  | chain_cons rid r1 sk f : rid < length rules -> exp_of rid = [CN (NOrig (origin r1))] -> chain r1 sk f ->
      chain rid ((NOrig (origin r1), ARule r1) :: sk) f.

  Inductive canon : crule -> Prop :=
  | canon_term rid t : rid < length rules -> tf_of rid = true -> In (CT t) (exp_of rid) -> canon (term_rule t)
  | canon_split rid r : rid < length rules -> 3 <= length (e_of rid) ->
      In r (split_tail rid 1 (tl (e_of rid))) -> canon r
  | canon_head rid sk f : chain rid sk f -> canon (mkC (NOrig (origin rid)) (head_rhs f) (ARule rid) sk).

  (* g has exactly the characterised rules *)
  Definition unit_closure_spec (g : list crule) : Prop :=
    (forall r, In r g -> canon r) /\ (forall r, canon r -> In r g).

  (* ---- executable enumeration, for the per-grammar evaluation -------------------------------- *)
  Definition is_unit_rid (rid : nat) : option string :=
    match exp_of rid with [CN (NOrig b)] => Some b | _ => None end.

  (* all chains from rid, with bounded length (a chain longer than the number of rules repeats a rule: unit
     cycle, for which lark's loop does not terminate either) *)
  Fixpoint chains (fuel rid : nat) : list (list (cnt * calias) * nat) :=
    match fuel with
    | 0 => []
    | S f =>
        match is_unit_rid rid with
        | None => [([], rid)]
        | Some b => flat_map (fun r1 => if String.eqb (origin r1) b
                                        then map (fun c => ((NOrig (origin r1), ARule r1) :: fst c, snd c)) (chains f r1)
                                        else [])
                             (seq 0 (length rules))
        end
    end.

  Definition spec_cnf : list crule :=
    let ids := seq 0 (length rules) in
    flat_map (fun rid => if tf_of rid then map term_rule (terms_of (exp_of rid)) else []) ids
    ++ flat_map (fun rid => if Nat.leb 3 (length (e_of rid)) then split_tail rid 1 (tl (e_of rid)) else []) ids
    ++ flat_map (fun rid => map (fun c => mkC (NOrig (origin rid)) (head_rhs (snd c)) (ARule rid) (fst c))
                                (chains (S (length rules)) rid)) ids.

  (* ---- decidable forms -------------------------------------------------------------------------- *)
  Fixpoint chainb (rid : nat) (sk : list (cnt * calias)) : option nat :=
    if negb (Nat.ltb rid (length rules)) then None else
    match sk with
    | [] => match is_unit_rid rid with None => Some rid | Some _ => None end
    | (NOrig b, ARule r1) :: rest =>
        match is_unit_rid rid with
        | Some b' => if String.eqb b' b && String.eqb (origin r1) b then chainb r1 rest else None
        | None => None
        end
    | _ => None
    end.

  Definition canonb (r : crule) : bool :=
    match c_lhs r with
    | NTerm t => crule_eqb r (term_rule t)
                 && existsb (fun rid => tf_of rid && existsb (csym_eqb (CT t)) (exp_of rid)) (seq 0 (length rules))
    | NSplit f i => Nat.ltb f (length rules) && Nat.leb 3 (length (e_of f))
                    && existsb (crule_eqb r) (split_tail f 1 (tl (e_of f)))
    | NOrig a =>
        match c_alias r with
        | ARule rid => match chainb rid (c_skipped r) with
                       | Some f => String.eqb (origin rid) a && leqb csym_eqb (c_rhs r) (head_rhs f)
                       | None => false
                       end
        | _ => false
        end
    end.

  (* the unit rules are acyclic: longest unit chain from rid, strictly decreasing along unit edges *)
  Fixpoint urank (fuel rid : nat) : nat :=
    match fuel with
    | 0 => 0
    | S f => match is_unit_rid rid with
             | None => 0
             | Some b => S (fold_right (fun r1 m => if String.eqb (origin r1) b then Nat.max (urank f r1) m else m)
                                       0 (seq 0 (length rules)))
             end
    end.

  Definition unit_rank_ok : bool :=
    let n := length rules in
    forallb (fun rid => match is_unit_rid rid with
                        | None => true
                        | Some b => forallb (fun r1 => negb (String.eqb (origin r1) b) || Nat.ltb (urank n r1) (urank n rid))
                                            (seq 0 n)
                        end && Nat.leb (urank n rid) n) (seq 0 n).

  (* evaluated per grammar: g consists of canonical rules, contains the enumerated ones, units acyclic *)
  Definition closure_check (g : list crule) : bool :=
    forallb canonb g && forallb (fun r => existsb (crule_eqb r) g) spec_cnf && unit_rank_ok.
End Canon.
