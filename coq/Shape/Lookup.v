(* Transformer objects with a HISTORY (C16): the callback table of an object is its attribute state NOW.
   Transformer._call_userfunc / _call_userfunc_token do `getattr(self, tree.data)` at every call (pinned by
   translator/gen_shape.py), so a use of the object leaves no trace in it, and what a later transform returns is a
   function of the attributes the object has at that moment - whatever was transformed, copied, set or merged
   before.  Definitions only; proofs in Lookup_proofs.v.

   [Memo] is the contrasting model of a per-object memo of the lookups (name -> bound callback or None, kept in
   the instance dict, hence shared by copy.copy): there a use does leave a trace, and the property fails. *)
From Coq Require Import String Ascii List Bool Arith.
From LV Require Import Base.Prelude Shape.Chain Shape.Spec Shape.Transform Shape.GenTie.
Import ListNotations.

Definition upd {A} (f : string -> option A) (n : string) (v : option A) : string -> option A :=
  fun m => if String.eqb m n then v else f m.

(* what can happen to a transformer object between its construction and the comparison *)
Inductive hop :=
| HUse (vt : bool) (t : stree)                                    (* obj.transform(t) (result dropped) *)
| HSetRule (n : string) (f : option (list value -> value))        (* setattr(obj, n, f) / delattr(obj, n) *)
| HSetTok (n : string) (f : option (string -> string -> value))
| HCopy                                                           (* obj = copy.copy(obj) (and go on with the copy) *)
| HMerge (prefix : string) (sub : transformer).                   (* merge_transformers(obj, prefix=sub) *)

(* the attribute state after a history: a use and a copy change nothing *)
Definition hstep (T : transformer) (h : hop) : transformer :=
  match h with
  | HUse _ _ => T
  | HSetRule n f => mkT (upd (on_rule T) n f) (on_token T)
  | HSetTok n f => mkT (on_rule T) (upd (on_token T) n f)
  | HCopy => T
  | HMerge p sub => merge_T T sub p
  end.
Definition after (T : transformer) (hs : list hop) : transformer := fold_left hstep hs T.

Definition is_use (h : hop) : bool := match h with HUse _ _ | HCopy => true | _ => false end.

(* ---- the contrasting model: lookups memoised per object --------------------------------------------------- *)
Definition rmemo := list (string * option (list value -> value)).
Definition tmemo := list (string * option (string -> string -> value)).

Fixpoint massoc {A} (n : string) (m : list (string * A)) : option A :=
  match m with [] => None | (k, v) :: r => if String.eqb k n then Some v else massoc n r end.

Record mobj := mkM { m_T : transformer; m_rules : rmemo; m_toks : tmemo }.

(* _get_userfunc(name): the memo entry if there is one, else getattr and remember *)
Definition mlookup_rule (o : mobj) (n : string) : option (list value -> value) * mobj :=
  match massoc n (m_rules o) with
  | Some r => (r, o)
  | None => (on_rule (m_T o) n, mkM (m_T o) ((n, on_rule (m_T o) n) :: m_rules o) (m_toks o))
  end.
Definition mlookup_tok (o : mobj) (n : string) : option (string -> string -> value) * mobj :=
  match massoc n (m_toks o) with
  | Some r => (r, o)
  | None => (on_token (m_T o) n, mkM (m_T o) (m_rules o) ((n, on_token (m_T o) n) :: m_toks o))
  end.

(* the recursive Transformer over the memoising lookup (state threaded in call order) *)
Fixpoint mtr (vt : bool) (o : mobj) (t : stree) : value * mobj :=
  match t with
  | Tr n ch =>
      let '(vs, o1) := (fix go (o : mobj) (l : list stree) : list value * mobj :=
                          match l with
                          | [] => ([], o)
                          | c :: r => let '(v, o') := mtr vt o c in
                                      let '(vs, o'') := go o' r in (v :: vs, o'')
                          end) o ch in
      let '(f, o2) := mlookup_rule o1 n in
      (match f with Some g => g vs | None => VTree n vs end, o2)
  | Tok ty v =>
      if vt then let '(f, o1) := mlookup_tok o ty in
                 (match f with Some g => g ty v | None => VTok ty v end, o1)
      else (VTok ty v, o)
  | NoneV => (VNone, o)
  end.

(* the same histories on the memoising object: the memo lives in the instance dict, copy.copy shares it, setattr
   and merge_transformers change the attributes but not the memo *)
Definition mstep (o : mobj) (h : hop) : mobj :=
  match h with
  | HUse vt t => snd (mtr vt o t)
  | HCopy => o
  | other => mkM (hstep (m_T o) other) (m_rules o) (m_toks o)
  end.
Definition mafter (T : transformer) (hs : list hop) : mobj := fold_left mstep hs (mkM T [] []).
