(* C16: the traversals return the same value, call every callback once per node with children
   first, and embedding the callbacks in the tree builder equals transforming afterwards. *)
From Coq Require Import String Ascii List Bool Arith Lia Permutation.
From LV Require Import Base.Prelude Shape.Chain Shape.Spec Shape.Chain_proofs Shape.Shape_proofs Shape.Transform.
Import ListNotations.

Section StreeInd.
  Variable P : stree -> Prop.
  Hypothesis Htok : forall ty v, P (Tok ty v).
  Hypothesis Hnone : P NoneV.
  Hypothesis Hnode : forall n ch, Forall P ch -> P (Tr n ch).
  Fixpoint stree_ind' (t : stree) : P t :=
    match t with
    | Tok ty v => Htok ty v
    | NoneV => Hnone
    | Tr n ch => Hnode n ch ((fix go l : Forall P l :=
                                match l with [] => Forall_nil P | x :: r => Forall_cons x (stree_ind' x) (go r) end) ch)
    end.
End StreeInd.

(* post-order list of the paths of the nodes that have a callback (trees and tokens) *)
Definition mapi_cat (f : path -> stree -> log) (p : path) : nat -> list stree -> log :=
  fix go i l := match l with [] => [] | c :: r => f (p ++ [i]) c ++ go (S i) r end.

Fixpoint post_paths (vt : bool) (p : path) (t : stree) {struct t} : log :=
  match t with
  | Tr _ ch => mapi_cat (post_paths vt) p 0 ch ++ [p]
  | Tok _ _ => tok_log vt p
  | NoneV => []
  end.

Section Proofs.
  Variable T : transformer.
  Variable vt : bool.
  Notation tr := (tr T vt).
  Notation post_paths := (post_paths vt).
  Notation call_rule := (call_rule T).
  Notation call_token := (call_token T).

  (* ---- Transformer and Transformer_InPlaceRecursive ------------------------------------- *)
  Lemma mapi_log_spec f ch : Forall (fun c => forall p, f p c = (tr c, post_paths p c)) ch ->
    forall p i, mapi_log f p i ch = (map tr ch, mapi_cat post_paths p i ch).
  Proof.
    induction 1 as [|c ch Hc _ IH]; intros p i; simpl; auto.
    rewrite Hc, IH. reflexivity.
  Qed.

  Theorem rec_tc_spec t : forall p, rec_tc T vt p t = (tr t, post_paths p t).
  Proof.
    induction t as [ty v| |n ch IH] using stree_ind'; intros p; simpl; auto.
    rewrite (mapi_log_spec _ ch IH). reflexivity.
  Qed.

  Theorem ipr_tc_spec t : forall p, ipr_tc T vt p t = (tr t, post_paths p t).
  Proof.
    induction t as [ty v| |n ch IH] using stree_ind'; intros p; simpl; auto.
    rewrite (mapi_log_spec _ ch IH). reflexivity.
  Qed.

  (* ---- Transformer_NonRecursive ------------------------------------------------------------ *)
  Definition mapi_nodes (f : path -> stree -> list (path * stree)) (p : path)
    : nat -> list stree -> list (path * stree) :=
    fix go i l := match l with [] => [] | c :: r => f (p ++ [i]) c ++ go (S i) r end.

  Fixpoint post_nodes (p : path) (t : stree) : list (path * stree) :=
    match t with
    | Tr _ ch => mapi_nodes post_nodes p 0 ch ++ [(p, t)]
    | _ => [(p, t)]
    end.

  Definition pn (x : path * stree) := post_nodes (fst x) (snd x).
  Definition total (q : list (path * stree)) : nat := fold_right (fun x a => ssize (snd x) + a) 0 q.

  Lemma total_app a b : total (a ++ b) = total a + total b.
  Proof. induction a as [|x a IH]; [reflexivity|]. unfold total in *. simpl. rewrite IH. lia. Qed.

  Lemma total_rev a : total (rev a) = total a.
  Proof. induction a as [|x a IH]; [reflexivity|]. simpl. rewrite total_app, IH. unfold total. simpl. lia. Qed.

  Lemma total_with_paths p i ch : total (with_paths p i ch) = fold_right (fun c a => ssize c + a) 0 ch.
  Proof. revert i; induction ch as [|c ch IH]; intros i; [reflexivity|]. unfold total in *. simpl. rewrite IH. reflexivity. Qed.

  Lemma concat_pn_with_paths p i ch : concat (map pn (with_paths p i ch)) = mapi_nodes post_nodes p i ch.
  Proof. revert i; induction ch as [|c ch IH]; intros i; simpl; auto. rewrite IH. reflexivity. Qed.

  Lemma nr_loop1_spec : forall fuel q acc, total q <= fuel ->
    nr_loop1 fuel q acc = Some (concat (map pn (rev q)) ++ acc).
  Proof.
    induction fuel as [|f IH]; intros [|[p t] q'] acc Hf; simpl; auto.
    - unfold total in Hf. simpl in Hf. destruct t; simpl in Hf; lia.
    - assert (Hstep : forall q2, total q2 <= f ->
                concat (map pn (rev q2)) ++ (p, t) :: acc
                = concat (map pn (rev q2)) ++ [(p, t)] ++ acc) by reflexivity.
      rewrite map_app, concat_app. simpl. rewrite app_nil_r.
      destruct t as [ty v|n ch|].
      + rewrite IH by (unfold total in *; simpl in *; lia). unfold pn at 3. simpl.
        rewrite <- app_assoc. reflexivity.
      + rewrite IH.
        * rewrite rev_app_distr, rev_involutive, map_app, concat_app, concat_pn_with_paths.
          unfold pn at 3. simpl. repeat rewrite <- app_assoc. reflexivity.
        * rewrite total_app, total_rev, total_with_paths. unfold total in *. simpl in *. lia.
      + rewrite IH by (unfold total in *; simpl in *; lia). unfold pn at 3. simpl.
        rewrite <- app_assoc. reflexivity.
  Qed.

  Lemma nr_loop2_spec t : forall p r stack lg,
    nr_loop2 T vt (post_nodes p t ++ r) stack lg = nr_loop2 T vt r (tr t :: stack) (lg ++ post_paths p t).
  Proof.
    induction t as [ty v| |n ch IH] using stree_ind'; intros p r stack lg; simpl.
    - reflexivity.
    - rewrite app_nil_r. reflexivity.
    - assert (Hch : forall i r stack lg,
        nr_loop2 T vt (mapi_nodes post_nodes p i ch ++ r) stack lg
        = nr_loop2 T vt r (rev (map tr ch) ++ stack) (lg ++ mapi_cat post_paths p i ch)).
      { induction IH as [|c ch Hc _ IHch]; intros i r0 st0 lg0; simpl.
        - rewrite app_nil_r. reflexivity.
        - rewrite <- app_assoc, Hc, IHch. repeat rewrite <- app_assoc. reflexivity. }
      rewrite <- app_assoc, Hch. simpl.
      rewrite <- app_assoc.
      destruct ch as [|c ch'] eqn:Ech; [reflexivity|]. rewrite <- Ech in *.
      assert (Hl : length (rev (map tr ch)) = length ch) by (rewrite rev_length, map_length; auto).
      replace (Nat.eqb (length ch) 0) with false by (subst ch; reflexivity).
      rewrite <- Hl at 1 2.
      rewrite firstn_app, Nat.sub_diag, firstn_all, skipn_app, Nat.sub_diag, skipn_all.
      simpl. rewrite app_nil_r, rev_involutive. reflexivity.
  Qed.

  Theorem transform_nr_spec t : transform_nr T vt t = Some (tr t, post_paths [] t).
  Proof.
    unfold transform_nr. rewrite nr_loop1_spec by (unfold total; simpl; lia).
    simpl. rewrite app_nil_r. unfold pn. simpl.
    rewrite (nr_loop2_spec t [] [] [] []). reflexivity.
  Qed.

End Proofs.

Section Embedded.
  Variable T : transformer.
  Variable vt : bool.
  Notation tr := (tr T vt).
  Notation call_rule := (call_rule T).
  (* ---- embedded transformer = transforming afterwards ---------------------------------------- *)
  (* callbacks are attached to named (non-underscore) rules, aliases, template names, terminals *)
  Hypothesis Huser : forall n, starts_us n = true -> on_rule T n = None.

  Definition splice_ok (s : sym) (v : stree) : Prop :=
    inlined s = true -> exists n k, v = Tr n k /\ starts_us n = true.

  Lemma spec_walk_tr ka : forall m exp vs, Forall2 splice_ok exp vs ->
    spec_walk value VNone vkids ka m exp (map tr vs)
    = option_map (map tr) (spec_walk stree NoneV skids ka m exp vs).
  Proof.
    induction m as [|[|] m IH]; intros exp vs HF; simpl; auto.
    - rewrite (IH exp vs HF). destruct (spec_walk stree NoneV skids ka m exp vs); reflexivity.
    - destruct HF as [|s v exp vs Hs HF]; simpl; auto.
      rewrite (IH exp vs HF).
      unfold contrib. destruct (negb (kept ka s)); simpl.
      + destruct (spec_walk stree NoneV skids ka m exp vs); reflexivity.
      + destruct (inlined s) eqn:Ei.
        * destruct (Hs Ei) as (n & k & -> & Hn). simpl.
          unfold Transform.call_rule. rewrite (Huser n Hn). simpl.
          destruct (spec_walk stree NoneV skids ka m exp vs); simpl; auto.
          rewrite map_app. reflexivity.
        * simpl. destruct (spec_walk stree NoneV skids ka m exp vs); reflexivity.
  Qed.

  Lemma spec_rule_tr r mp vs : Forall2 splice_ok (r_exp r) vs ->
    spec_rule value VNone vkids (on_rule T) VTree r mp (map tr vs)
    = option_map tr (spec_rule stree NoneV skids no_user Tr r mp vs).
  Proof.
    intros HF. unfold spec_rule, spec_children. rewrite (spec_walk_tr _ _ _ _ HF).
    destruct (spec_walk stree NoneV skids (r_keep_all r) (marks r mp) (r_exp r) vs) as [l|]; simpl; auto.
    assert (Hn : match on_rule T (spec_name r) with
                 | Some g => g (map tr l) | None => VTree (spec_name r) (map tr l) end
                 = tr (Tr (spec_name r) l)) by reflexivity.
    destruct (r_expand1 r && negb (truthy (r_alias r))).
    - destruct l as [|c [|]]; simpl; auto.
    - simpl. reflexivity.
  Qed.

  Lemma shape_inline_name mp r ch t : wf_dtree mp (DNode r ch) = true ->
    starts_us (r_origin r) = true -> shape mp (DNode r ch) = Some t ->
    exists n k, t = Tr n k /\ starts_us n = true.
  Proof.
    intros Hwf Hus. cbn [wf_dtree] in Hwf. repeat (apply andb_true_iff in Hwf; destruct Hwf as [Hwf ?]).
    unfold inline_ok in H1. rewrite Hus in H1. simpl in H1.
    repeat (apply andb_true_iff in H1; destruct H1 as [H1 ?]).
    apply negb_true_iff in H1. apply negb_true_iff in H3.
    unfold shape. cbn [eval].
    destruct (all_some _); [|discriminate]. unfold spec_rule.
    destruct (spec_children _ _ _ _ _ _) as [l0|]; [|discriminate].
    rewrite H1. simpl. intros E. injection E as <-. rewrite spec_name_eq. eauto.
  Qed.

  Theorem embedded_eq_posthoc mp d : wf_dtree mp d = true ->
    embedded T vt mp d = option_map tr (shape mp d).
  Proof.
    induction d as [ty v|r ch IH] using dtree_ind'; intros Hwf.
    - reflexivity.
    - pose proof Hwf as Hwf0.
      cbn [wf_dtree] in Hwf. repeat (apply andb_true_iff in Hwf; destruct Hwf as [Hwf ?]).
      rename H into Hall, H0 into Harity, H1 into Hinl.
      change (embedded T vt mp (DNode r ch)) with
        (match all_some (map (embedded T vt mp) ch) with
         | Some vs => spec_rule value VNone vkids (on_rule T) VTree r mp vs | None => None end).
      change (shape mp (DNode r ch)) with
        (match all_some (map (shape mp) ch) with
         | Some vs => spec_rule stree NoneV skids no_user Tr r mp vs | None => None end).
      assert (Hch : all_some (map (embedded T vt mp) ch) = option_map (map tr) (all_some (map (shape mp) ch))).
      { clear Harity Hwf0. induction ch as [|c ch IHch]; simpl; auto.
        simpl in Hall. apply andb_true_iff in Hall. destruct Hall as [Hc Hall].
        inversion IH as [|? ? IHc IHrest]; subst.
        rewrite (IHc Hc), (IHch IHrest Hall).
        destruct (shape mp c); simpl; auto. destruct (all_some (map (shape mp) ch)); reflexivity. }
      rewrite Hch. destruct (all_some (map (shape mp) ch)) as [vs|] eqn:Evs; simpl; auto.
      apply spec_rule_tr.
      clear IH Hch Hwf0 Hwf Hinl. revert ch vs Harity Hall Evs.
      induction (r_exp r) as [|s e IHe]; intros [|c ch] vs Har Hall Evs; simpl in Har; try discriminate.
      + simpl in Evs. injection Evs as <-. constructor.
      + simpl in Evs. destruct (shape mp c) as [t|] eqn:Ec; [|discriminate].
        destruct (all_some (map (shape mp) ch)) as [vs'|] eqn:Evs'; [|discriminate]. injection Evs as <-.
        apply andb_true_iff in Har. destruct Har as [Hc Har].
        simpl in Hall. apply andb_true_iff in Hall. destruct Hall as [Hwc Hall].
        constructor; [|eapply IHe; eauto].
        intros Hi. unfold inlined in Hi. apply andb_true_iff in Hi. destruct Hi as [Hnt Hus].
        destruct c as [ty v|r' ch']; simpl in Hc.
        * destruct (s_term s); discriminate.
        * apply andb_true_iff in Hc. destruct Hc as [_ Hc]. apply String.eqb_eq in Hc.
          eapply shape_inline_name; eauto. rewrite Hc. auto.
  Qed.
End Embedded.
