(* The documented shaping of one rule application, written as an independent specification
   (no to_include indices, no '0'.split, no wrapper chain), and the shaping of a whole
   derivation tree.  No proofs here (see Chain_proofs.v / Shape_proofs.v). *)
From Coq Require Import String Ascii List Bool Arith.
From LV Require Import Base.Prelude Shape.Chain.
Import ListNotations.

(* a terminal is dropped when it is marked filter_out (anonymous string literal or `_NAME`)
   unless the rule keeps all tokens (`!rule` / keep_all_tokens); rules are never dropped *)
Definition kept (keep_all : bool) (s : sym) : bool :=
  if s_term s then keep_all || negb (s_filter s) else true.

(* `_rule` children are spliced *)
Definition inlined (s : sym) : bool := negb (s_term s) && starts_us (s_name s).

(* the marks of a rule: true = an `_EMPTY` position left by an untaken [..], false = a symbol
   of the expansion.  Without placeholders every position is a symbol. *)
Definition marks (r : rrec) (maybe_placeholders : bool) : list bool :=
  if maybe_placeholders && nonempty (r_empty r) then r_empty r
  else repeat false (length (r_exp r)).

Definition lift_app {A} (a : option (list A)) (b : option (list A)) : option (list A) :=
  match a, b with Some x, Some y => Some (x ++ y) | _, _ => None end.

Section Spec.
  Variable X : Type.
  Variable none : X.
  Variable kids : X -> option (list X).

  (* what one rhs symbol with value c contributes to the parent's children *)
  Definition contrib (keep_all : bool) (s : sym) (c : X) : option (list X) :=
    if negb (kept keep_all s) then Some []
    else if inlined s then kids c
    else Some [c].

  (* children in input order; an `_EMPTY` mark contributes one None *)
  Fixpoint spec_walk (keep_all : bool) (m : list bool) (exp : list sym) (ch : list X)
    : option (list X) :=
    match m with
    | [] => Some []
    | true :: m' => lift_app (Some [none]) (spec_walk keep_all m' exp ch)
    | false :: m' =>
        match exp, ch with
        | s :: exp', c :: ch' => lift_app (contrib keep_all s c) (spec_walk keep_all m' exp' ch')
        | _, _ => None
        end
    end.

  Definition spec_children (r : rrec) (mp : bool) (ch : list X) : option (list X) :=
    spec_walk (r_keep_all r) (marks r mp) (r_exp r) ch.

  (* node name: the alias if the alternative has one, else the template's name, else the rule *)
  Definition spec_name (r : rrec) : string :=
    if truthy (r_alias r) then match r_alias r with Some a => a | None => r_origin r end
    else if truthy (r_tsrc r) then match r_tsrc r with Some a => a | None => r_origin r end
    else r_origin r.

  Definition spec_rule (user : string -> option (list X -> X)) (mk : string -> list X -> X)
             (r : rrec) (mp : bool) (ch : list X) : option X :=
    match spec_children r mp ch with
    | None => None
    | Some l =>
        let node := match user (spec_name r) with
                    | Some g => g l
                    | None => mk (spec_name r) l
                    end in
        if r_expand1 r && negb (truthy (r_alias r))
        then match l with [c] => Some c | _ => Some node end
        else Some node
    end.
End Spec.

(* the construction-time assertion of maybe_create_child_filter *)
Definition rule_wf (r : rrec) (mp : bool) : bool :=
  negb (mp && nonempty (r_empty r)) || Nat.eqb (count_false (r_empty r)) (length (r_exp r)).

(* ---- derivation trees of the compiled (BNF) grammar ----------------------------------- *)
Inductive dtree :=
| DTok (ty val : string)
| DNode (r : rrec) (children : list dtree).

Fixpoint all_some {A} (l : list (option A)) : option (list A) :=
  match l with
  | [] => Some []
  | Some a :: t => match all_some t with Some b => Some (a :: b) | None => None end
  | None :: _ => None
  end.

(* the child under rhs symbol s is a token of that terminal / a node of that rule *)
Definition child_ok (s : sym) (d : dtree) : bool :=
  match d with
  | DTok ty _ => s_term s && String.eqb ty (s_name s)
  | DNode r _ => negb (s_term s) && String.eqb (r_origin r) (s_name s)
  end.

Fixpoint forall2b {A B} (f : A -> B -> bool) (a : list A) (b : list B) : bool :=
  match a, b with
  | [], [] => true
  | x :: a', y :: b' => f x y && forall2b f a' b'
  | _, _ => false
  end.

(* `_rule`s have neither `?` nor aliases (load_grammar rejects both); a template instance
   `_t{..}` is named after its template `_t` *)
Definition inline_ok (r : rrec) : bool :=
  negb (starts_us (r_origin r))
  || (negb (r_expand1 r) && negb (truthy (r_alias r)) && starts_us (cb_name r)).

Fixpoint wf_dtree (mp : bool) (d : dtree) : bool :=
  match d with
  | DTok _ _ => true
  | DNode r ch => rule_wf r mp && inline_ok r && forall2b child_ok (r_exp r) ch
                  && forallb (wf_dtree mp) ch
  end.

Inductive action := Shift (ty val : string) | Reduce (r : rrec).

Fixpoint postorder (d : dtree) : list action :=
  match d with
  | DTok ty v => [Shift ty v]
  | DNode r ch => flat_map postorder ch ++ [Reduce r]
  end.

Section Eval.
  Variable X : Type.
  Variable none : X.
  Variable kids : X -> option (list X).
  Variable user : string -> option (list X -> X).   (* rule callbacks of an embedded transformer *)
  Variable mk : string -> list X -> X.              (* tree_class *)
  Variable tokf : string -> string -> X.            (* value pushed for a shifted token *)
  Variable mp : bool.

  (* documented shaping of a derivation, bottom-up *)
  Fixpoint eval (d : dtree) : option X :=
    match d with
    | DTok ty v => Some (tokf ty v)
    | DNode r ch =>
        match all_some (map eval ch) with
        | Some vs => spec_rule X none kids user mk r mp vs
        | None => None
        end
    end.

  (* what the LALR driver (ParserState.feed_token) does along a derivation: post-order
     shift / reduce on a value stack, top of the stack LAST as in the Python list *)
  Definition step (st : list X) (a : action) : option (list X) :=
    match a with
    | Shift ty v => Some (st ++ [tokf ty v])
    | Reduce r =>
        let size := length (r_exp r) in
        if Nat.ltb (length st) size then None else
        let s := skipn (length st - size) st in           (* value_stack[-size:] *)
        let st' := firstn (length st - size) st in        (* del value_stack[-size:] *)
        match run_callback X none kids user mk r mp false s with
        | Ok (Some v) => Some (st' ++ [v])
        | _ => None
        end
    end.

  Fixpoint run_actions (st : list X) (l : list action) : option (list X) :=
    match l with
    | [] => Some st
    | a :: r => match step st a with Some st' => run_actions st' r | None => None end
    end.
End Eval.

(* tree building without a transformer *)
Definition shape (mp : bool) (d : dtree) : option stree := eval stree NoneV skids no_user Tr Tok mp d.
Definition lalr_run (mp : bool) (l : list action) : option (list stree) :=
  run_actions stree NoneV skids no_user Tr Tok mp [] l.
