(* FindRuleSize returns the number of symbols kept by the longest alternative, and the untaken
   alternative of [e] is exactly that many `_EMPTY` markers. *)
From Coq Require Import String Ascii List Bool Arith Lia.
From LV Require Import Base.Prelude Shape.Chain Shape.Spec Shape.Ebnf.
Import ListNotations.

Section EbnfInd.
  Variable P : ebnf -> Prop.
  Hypothesis Hs : forall s, P (ESym s).
  Hypothesis He : P EEmpty.
  Hypothesis Hq : forall l, Forall P l -> P (ESeq l).
  Hypothesis Ha : forall l, Forall P l -> P (EAlt l).
  Fixpoint ebnf_ind' (e : ebnf) : P e :=
    let go := fix go l : Forall P l :=
                match l with [] => Forall_nil P | x :: r => Forall_cons x (ebnf_ind' x) (go r) end in
    match e with
    | ESym s => Hs s
    | EEmpty => He
    | ESeq l => Hq l (go l)
    | EAlt l => Ha l (go l)
    end.
End EbnfInd.

Lemma lmax_app a b : lmax (a ++ b) = Nat.max (lmax a) (lmax b).
Proof. induction a; simpl; auto. rewrite IHa. lia. Qed.

Lemma kept_count_app ka a b : kept_count ka (a ++ b) = kept_count ka a + kept_count ka b.
Proof. unfold kept_count. rewrite filter_app, app_length. reflexivity. Qed.

Lemma lmax_map_add (c : nat) l : l <> [] -> lmax (map (fun y => c + y) l) = c + lmax l.
Proof.
  induction l as [|x l IH]; [congruence|]. intros _. simpl.
  destruct l as [|y l']; [simpl; lia|]. rewrite IH by discriminate. lia.
Qed.

Lemma lmax_cross ka a b : b <> [] ->
  lmax (map (kept_count ka) (cross a b)) = match a with [] => 0 | _ => lmax (map (kept_count ka) a) + lmax (map (kept_count ka) b) end.
Proof.
  intros Hb. unfold cross. induction a as [|x a IH]; simpl; auto.
  rewrite map_app, lmax_app, map_map.
  assert (E : map (fun y => kept_count ka (x ++ y)) b = map (fun y => kept_count ka x + y) (map (kept_count ka) b)).
  { rewrite map_map. apply map_ext. intros y. apply kept_count_app. }
  rewrite E, lmax_map_add by (destruct b; [congruence|discriminate]).
  rewrite IH. destruct a; simpl; lia.
Qed.

Lemma cross_nonempty a b : a <> [] -> b <> [] -> cross a b <> [].
Proof. destruct a as [|x a], b as [|y b]; try congruence. intros _ _. unfold cross. simpl. discriminate. Qed.

Lemma alts_nonempty e : wf_ebnf e = true -> alts e <> [].
Proof.
  induction e as [s| |l IH|l IH] using ebnf_ind'; simpl; intros Hwf; try discriminate.
  - induction IH as [|x l Hx _ IHl]; simpl in *; [discriminate|].
    apply andb_true_iff in Hwf. destruct Hwf as [H1 H2].
    apply cross_nonempty; auto.
  - apply andb_true_iff in Hwf. destruct Hwf as [Hne Hall].
    destruct l as [|x l]; [discriminate|]. inversion IH as [|? ? Hx _]; subst. simpl in Hall.
    apply andb_true_iff in Hall. destruct Hall as [Hw _]. simpl.
    specialize (Hx Hw). destruct (alts x); [congruence|]. discriminate.
Qed.

(* FindRuleSize = number of symbols kept by the longest alternative *)
Theorem frs_longest_alternative ka e : wf_ebnf e = true -> frs ka e = longest ka e.
Proof.
  unfold longest.
  induction e as [s| |l IH|l IH] using ebnf_ind'; simpl; intros Hwf.
  - unfold kept_count. simpl. destruct (will_not_get_removed ka s); reflexivity.
  - reflexivity.
  - induction IH as [|x l Hx _ IHl]; simpl in *; [reflexivity|].
    apply andb_true_iff in Hwf. destruct Hwf as [H1 H2].
    rewrite lmax_cross.
    + pose proof (alts_nonempty x H1). destruct (alts x) eqn:Ex; [congruence|].
      rewrite <- Ex in *. rewrite (Hx H1), (IHl H2). reflexivity.
    + clear -H2. induction l as [|y l IHl]; simpl in *; [discriminate|].
      apply andb_true_iff in H2. destruct H2 as [Hy Hl].
      apply cross_nonempty; auto. apply alts_nonempty; auto.
  - apply andb_true_iff in Hwf. destruct Hwf as [_ Hall].
    induction IH as [|x l Hx _ IHl]; simpl in *; [reflexivity|].
    apply andb_true_iff in Hall. destruct Hall as [H1 H2].
    rewrite map_app, lmax_app, (Hx H1), (IHl H2). reflexivity.
Qed.

Lemma alts_repeat_empty n : alts (ESeq (repeat EEmpty n)) = [repeat IEmpty n].
Proof. induction n as [|n IH]; [reflexivity|]. simpl in *. rewrite IH. reflexivity. Qed.

(* the alternatives of [e] are those of e plus ONE alternative made of frs(e) `_EMPTY` markers,
   which compiles to an empty expansion carrying frs(e) `True` marks *)
Theorem maybe_untaken ka e :
  alts (maybe ka e) = alts e ++ [repeat IEmpty (frs ka e)] /\
  empty_indices_of (repeat IEmpty (frs ka e)) = repeat true (frs ka e) /\
  expansion_of (repeat IEmpty (frs ka e)) = [].
Proof.
  split.
  - unfold maybe. change (alts (EAlt [e; ESeq (repeat EEmpty (frs ka e))]))
      with (alts e ++ alts (ESeq (repeat EEmpty (frs ka e))) ++ []).
    rewrite alts_repeat_empty, app_nil_r. reflexivity.
  - split; induction (frs ka e); simpl; auto. f_equal; auto.
Qed.

(* marks and expansion of an alternative assembled from pieces *)
Lemma empty_indices_app a b : empty_indices_of (a ++ b) = empty_indices_of a ++ empty_indices_of b.
Proof. apply map_app. Qed.

Lemma expansion_app a b : expansion_of (a ++ b) = expansion_of a ++ expansion_of b.
Proof. unfold expansion_of. apply flat_map_app. Qed.

Lemma count_false_marks a : count_false (empty_indices_of a) = length (expansion_of a).
Proof. induction a as [|[s|] a IH]; simpl; auto. Qed.
