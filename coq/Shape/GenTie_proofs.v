(* The hand models ARE the functions over the conditions regenerated from the source (Gen/ShapeHoles.v). *)
From Coq Require Import ZArith String Ascii List Bool Arith Lia.
From LV Require Import Base.Prelude Gen.ShapeHoles Shape.Chain Shape.Spec Shape.Transform Shape.GenTie.
Import ListNotations.

Lemma should_expand_is_source s : should_expand s = g_should_expand (s_term s) (starts_us (s_name s)).
Proof. reflexivity. Qed.

Lemma incl_loop_is_source ka ei : forall exp i nones, incl_loop ka ei i exp nones = incl_loop_g ka ei i exp nones.
Proof.
  induction exp as [|s rest IH]; intros i nones; [reflexivity|].
  cbn [incl_loop incl_loop_g]. unfold g_keep, g_should_expand. fold (should_expand s).
  rewrite !IH. reflexivity.
Qed.

Lemma child_filter_is_source exp ka amb ei :
  maybe_create_child_filter exp ka amb ei = maybe_create_child_filter_g exp ka amb ei.
Proof.
  unfold maybe_create_child_filter, maybe_create_child_filter_g.
  destruct (if nonempty ei then _ else _) as [e| |]; cbn [rbind]; try reflexivity.
  rewrite incl_loop_is_source. unfold g_filter_needed, g_placeholder_filter.
  destruct (incl_loop_g ka e 0 exp 0) as [ti n]. rewrite orb_assoc. reflexivity.
Qed.

Lemma wrapper_chain_is_source r mp amb : wrapper_chain r mp amb = wrapper_chain_g r mp amb.
Proof.
  unfold wrapper_chain, wrapper_chain_g. rewrite child_filter_is_source.
  destruct (maybe_create_child_filter_g _ _ _ _) as [cf| |]; cbn [rbind]; try reflexivity.
  unfold g_wrapper_order, g_expand1. cbn [flat_map wrappers_of_kind]. rewrite !app_nil_r. reflexivity.
Qed.

Lemma cb_name_is_source r : Some (cb_name r) = g_cb_name (r_alias r) (r_tsrc r) (r_origin r).
Proof.
  unfold cb_name, g_cb_name, str_or. destruct (r_alias r) as [[|c a]|]; destruct (r_tsrc r) as [[|c' a']|]; reflexivity.
Qed.

Lemma expand_single_is_source (X : Type) none kids (nb : builder X) ch :
  apply_wrapper X none kids WExpand1 nb ch = expand_single_g X nb ch.
Proof.
  unfold expand_single_g, g_single. cbn [apply_wrapper].
  destruct ch as [|c [|c' ch]]; try reflexivity.
  replace (Z.of_nat (length (c :: c' :: ch)) =? 1)%Z with false; [reflexivity|].
  symmetry. apply Z.eqb_neq. cbn [length]. lia.
Qed.

Lemma visit_tok_is_source T vt ty v :
  visit_tok T vt ty v = visit_tok_g T vt ty v /\ visit_tok T vt ty v = visit_tok_nr_g T vt ty v /\
  visit_tok T vt ty v = embedded_tok_g T vt ty v.
Proof. unfold visit_tok, visit_tok_g, visit_tok_nr_g, embedded_tok_g; destruct vt; repeat split; reflexivity. Qed.

(* a tree child goes through _transform_tree; a result that is not Discard is kept *)
Lemma children_branches_are_source : g_child_is_tree true = true /\ g_child_is_tree false = false /\ g_keep_result false = true.
Proof. repeat split; reflexivity. Qed.

(* merge_transformers: names without the prefix are untouched, prefixed names of the merged transformer are visible
   unless the base has them or the method name is private / `transform` *)
Lemma merged_lookup_base {A} (base sub : string -> option A) p n f : base n = Some f -> merged_lookup base sub p n = Some f.
Proof. unfold merged_lookup. intros ->. reflexivity. Qed.

Lemma merged_lookup_no_us {A} (base sub : string -> option A) p :
  p <> ""%string -> starts_us p = false -> (forall n, starts_us n = true -> base n = None) ->
  forall n, starts_us n = true -> merged_lookup base sub p n = None.
Proof.
  intros Hne Hp Hb n Hn. unfold merged_lookup. rewrite (Hb n Hn). unfold has_prefix2.
  destruct (String.prefix (p ++ "__") n) eqn:E; [|reflexivity].
  exfalso. destruct p as [|c p]; [congruence|].
  cbn in Hp. destruct n as [|d n]; [discriminate|]. cbn in E, Hn.
  destruct (Ascii.ascii_dec c d) as [->|]; [|discriminate]. congruence.
Qed.
