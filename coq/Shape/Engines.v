(* C03, engines agree: the three engines as whole MODEL PIPELINES over one table of compiled rules.
     LALR    LR/Driver's feed_token loop with the real value stack (Shape/ValueDriver.v), the per-rule callbacks of
             Shape/Chain.v, over a parse table (the theorem takes the table LR/Automaton.compute_lalr builds)
     Earley  Earley/Alg instrumented with the add_family log (Forest/ExplicitAlgBuild.iparse), then
             ForestToParseTree(resolve) on the label-keyed graph (Forest/GraphResolve.gres) calling the per-rule
             callbacks while it walks ([gres_cb])
     CYK     to_cnf, the chart of cyk._parse, revert_cnf, the callbacks bottom-up (Shape/Cnf, Shape/CykParse)
   Tokens are (terminal name, text) pairs; rule ids are indices into the rule table; the LR and Earley models work
   on numbered symbols (nt_ix / t_ix) and identify a rule by (origin, expansion), so the rule record behind a
   table rule is found by [rid_of] (lark keys callbacks by the Rule object, whose equality is (origin, expansion)).
   Definitions only; proofs in Engines_proofs.v. *)
From Coq Require Import String Ascii List Bool Arith.
From LV Require Import Base.Prelude Cfg.Grammar Cfg.Analysis Earley.Alg Forest.ExplicitBuild Forest.ExplicitAlgBuild Forest.GraphResolve
  Shape.Chain Shape.Spec Shape.Cnf Shape.CykParse Shape.EarleyLeg Shape.ValueDriver.
From LV Require LR.Driver.
Import ListNotations.

(* ---- ForestToParseTree(resolve) on the graph forest, calling callbacks during the walk ---------------------- *)
Section GresCb.
  Variable tok : Type.
  Variable teqb : tok -> tok -> bool.
  Variable X : Type.
  Variable cb : rule -> list X -> X.
  Variable tokf : tok -> X.
  Variable fams : list (nlabel tok * family tok).
  Variable order : nlabel tok -> list (family tok) -> list (family tok).

  (* a symbol node hands the children to callbacks[rule]; an intermediate node passes them on *)
  Definition pack_cb (lbl : nlabel tok) (r : rule) (vs : list X) : list X :=
    match lbl with NSym _ _ _ _ => [cb r vs] | _ => vs end.

  Fixpoint gres_cb (fuel : nat) (path : list (nlabel tok)) (lbl : nlabel tok) : option (list X) :=
    match fuel with
    | O => None
    | S f =>
        match lbl with
        | NTok _ t x _ _ => Some [tokf x]
        | _ =>
            if lmem tok teqb lbl path then None
            else
              let sub (o : option (nlabel tok)) : option (list X) :=
                match o with None => Some [] | Some l => gres_cb f (lbl :: path) l end in
              first_some (fun fm : family tok =>
                            let '(r, l, rt) := fm in
                            match sub l with
                            | None => None
                            | Some d1 => match sub rt with
                                         | None => None
                                         | Some d2 => Some (pack_cb lbl r (d1 ++ d2))
                                         end
                            end) (order lbl (fams_of tok teqb fams lbl))
        end
    end.

  Fixpoint evald (d : dt tok) : X :=
    match d with
    | DL _ _ x => tokf x
    | DN _ r ks => cb r (map evald ks)
    end.
End GresCb.

Definition lexeme_eqb (a b : EarleyLeg.lexeme) : bool := String.eqb (fst a) (fst b) && String.eqb (snd a) (snd b).

Section Engines.
  Variable rules : list rrec.
  Variable mp : bool.
  Variable nt_ix : string -> nat.
  Variable t_ix : string -> nat.
  Notation lexeme := EarleyLeg.lexeme.
  Notation G := (cfg_grammar rules nt_ix t_ix).

  Definition ttype (x : lexeme) : nat := t_ix (fst x).

  Definition rule_eqb (a b : rule) : bool := if rule_eq_dec a b then true else false.
  Fixpoint find_rid (r : rule) (l : list rrec) (i : nat) : nat :=
    match l with
    | [] => i
    | x :: l' => if rule_eqb (cfg_of nt_ix t_ix x) r then i else find_rid r l' (S i)
    end.
  Definition rid_of (r : rule) : nat := find_rid r rules 0.

  (* callbacks[rule] on values that may be poisoned by an earlier exception *)
  Definition cbo (r : rule) (vs : list (option stree)) : option stree :=
    match all_some vs with
    | Some l => match tree_callback (rule_n rules (rid_of r)) mp false l with Ok o => o | _ => None end
    | None => None
    end.
  Definition tokv (x : lexeme) : option stree := Some (Tok (fst x) (snd x)).

  (* Lark(parser='lalr').parse on the token list w; e = the $END token *)
  Definition lalr_engine (P : Driver.ptable) (fuel : nat) (w : list lexeme) (e : lexeme) : option stree :=
    match vparse lexeme ttype (option stree) cbo tokv P fuel w e with
    | VAccepted _ v => v
    | _ => None
    end.

  (* Lark(parser='earley', lexer='basic', ambiguity='resolve').parse; [order] = SymbolNode.children *)
  Definition earley_engine (order : nlabel lexeme -> list (family lexeme) -> list (family lexeme))
             (start : nat) (w : list lexeme) : option stree :=
    let r := iparse G (pred_lookup G (pred_table G)) lexeme (lx_match t_ix) start w in
    match r_out (fst r) with
    | Accept =>
        match gres_cb lexeme lexeme_eqb (option stree) cbo tokv (snd r) order (S (length (snd r))) []
                      (NSym lexeme start 0 (length w)) with
        | Some [v] => v
        | _ => None
        end
    | _ => None
    end.

  (* Lark(parser='cyk').parse *)
  Definition cyk_engine (fuel : nat) (start : string) (w : list lexeme) : option stree :=
    match to_cnf fuel rules with
    | Ok g => match cyk_parse g w start with Some c => cyk_result rules mp c | None => None end
    | _ => None
    end.

  (* ---- derivations by rule index (Cnf.otree) in the tree types of the LR and Earley models ----------------- *)
  Fixpoint o_lr (d : otree) : Driver.dtree lexeme :=
    match d with
    | OLeaf ty v => Driver.Leaf (ty, v)
    | ONode rid ch => Driver.Node (cfg_of nt_ix t_ix (rule_n rules rid)) (map o_lr ch)
    end.
  Fixpoint lr_o (t : Driver.dtree lexeme) : otree :=
    match t with
    | Driver.Leaf k => OLeaf (fst k) (snd k)
    | Driver.Node r cs => ONode (rid_of r) (map lr_o cs)
    end.
  Fixpoint o_dt (d : otree) : dt lexeme :=
    match d with
    | OLeaf ty v => DL lexeme (t_ix ty) (ty, v)
    | ONode rid ch => DN lexeme (cfg_of nt_ix t_ix (rule_n rules rid)) (map o_dt ch)
    end.
  Fixpoint dt_o (d : dt lexeme) : otree :=
    match d with
    | DL _ _ x => OLeaf (fst x) (snd x)
    | DN _ r ks => ONode (rid_of r) (map dt_o ks)
    end.
End Engines.

(* the root of a derivation is an application of a rule of the start symbol *)
Definition oroot_is (rules : list rrec) (start : string) (d : otree) : Prop :=
  match d with ONode rid _ => r_origin (rule_n rules rid) = start | OLeaf _ _ => False end.

(* "the input has a single derivation": d is a derivation of its own yield from the start symbol, and the only one *)
Definition unique_derivation (rules : list rrec) (start : string) (d : otree) : Prop :=
  wf_otree rules d = true /\ oroot_is rules start d /\
  forall d', wf_otree rules d' = true -> oroot_is rules start d' -> oyield d' = oyield d -> d' = d.
