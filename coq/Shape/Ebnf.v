(* FindRuleSize and EBNF_to_BNF.maybe of lark/load_grammar.py: how many `_EMPTY` markers (hence
   None placeholders) an untaken [..] leaves.  Model only (proofs in Ebnf_proofs.v). *)
From Coq Require Import String Ascii List Bool Arith.
From LV Require Import Base.Prelude Shape.Chain Shape.Spec.
Import ListNotations.

(* rule trees after the inner EBNF operators have been rewritten: symbols, the `_EMPTY` marker,
   `expansion` (sequence) and `expansions` (alternatives) nodes *)
Inductive ebnf :=
| ESym (s : sym)
| EEmpty
| ESeq (l : list ebnf)
| EAlt (l : list ebnf).

(* FindRuleSize._will_not_get_removed *)
Definition will_not_get_removed (keep_all : bool) (s : sym) : bool :=
  if s_term s then keep_all || negb (s_filter s) else negb (starts_us (s_name s)).

(* FindRuleSize: expansion -> sum(_args_as_int), expansions -> max(_args_as_int) *)
Fixpoint frs (keep_all : bool) (e : ebnf) : nat :=
  match e with
  | ESym s => if will_not_get_removed keep_all s then 1 else 0
  | EEmpty => 0
  | ESeq l => fold_right (fun x a => frs keep_all x + a) 0 l
  | EAlt l => fold_right (fun x a => Nat.max (frs keep_all x) a) 0 l
  end.

(* EBNF_to_BNF.maybe: ST('expansions', [rule, ST('expansion', [_EMPTY] * rule_size)]) *)
Definition maybe (keep_all : bool) (rule : ebnf) : ebnf :=
  EAlt [rule; ESeq (repeat EEmpty (frs keep_all rule))].

(* python's max() raises on an empty sequence: `expansions` nodes always have children *)
Fixpoint wf_ebnf (e : ebnf) : bool :=
  match e with
  | ESym _ | EEmpty => true
  | ESeq l => forallb wf_ebnf l
  | EAlt l => nonempty l && forallb wf_ebnf l
  end.

(* ---- specification side: the alternatives an expression stands for --------------------------- *)
Inductive item := ISym (s : sym) | IEmpty.

Definition cross (a b : list (list item)) : list (list item) :=
  flat_map (fun x => map (fun y => x ++ y) b) a.

Fixpoint alts (e : ebnf) : list (list item) :=
  match e with
  | ESym s => [[ISym s]]
  | EEmpty => [[IEmpty]]
  | ESeq l => fold_right (fun x a => cross (alts x) a) [[]] l
  | EAlt l => flat_map alts l
  end.

(* number of children an alternative keeps in the parent: one per kept, non-inlined symbol *)
Definition kept_count (keep_all : bool) (a : list item) : nat :=
  length (filter (fun i => match i with ISym s => will_not_get_removed keep_all s | IEmpty => false end) a).

Definition lmax (l : list nat) : nat := fold_right Nat.max 0 l.

(* "as many None values as its longest alternative keeps symbols" *)
Definition longest (keep_all : bool) (e : ebnf) : nat := lmax (map (kept_count keep_all) (alts e)).

(* what Grammar.compile derives from an alternative *)
Definition empty_indices_of (a : list item) : list bool :=
  map (fun i => match i with IEmpty => true | ISym _ => false end) a.
Definition expansion_of (a : list item) : list sym :=
  flat_map (fun i => match i with ISym s => [s] | IEmpty => [] end) a.
