(* Executable models of the four transformer traversals of lark/visitors.py (Transformer,
   Transformer_NonRecursive, Transformer_InPlace, Transformer_InPlaceRecursive), each also
   producing the log of callback invocations (node ids = paths from the root), and of an
   embedded transformer (callbacks spliced into the parse-tree builder chain).
   Discard and meta arguments are outside the model (as they are outside the property).
   No proofs here (see Transform_proofs.v). *)
From Coq Require Import String Ascii List Bool Arith.
From LV Require Import Base.Prelude Shape.Chain Shape.Spec.
Import ListNotations.

Inductive value :=
| VTree (name : string) (children : list value)   (* a lark Tree (built by __default__ / tree_class) *)
| VTok (ty v : string)                            (* a Token *)
| VNone
| VUser (tag : string) (args : list value).       (* anything a user callback returns *)

Fixpoint inj (t : stree) : value :=
  match t with
  | Tok ty v => VTok ty v
  | Tr n ch => VTree n (map inj ch)
  | NoneV => VNone
  end.

Definition vkids (v : value) : option (list value) :=
  match v with VTree _ ch => Some ch | _ => None end.

Record transformer := mkT {
  on_rule : string -> option (list value -> value);        (* getattr(self, tree.data) *)
  on_token : string -> option (string -> string -> value)  (* getattr(self, token.type) *)
}.

Definition path := list nat.
Definition log := list path.

Section Traversals.
  Variable T : transformer.

  (* _call_userfunc with __default__ = Tree(data, children, meta) *)
  Definition call_rule (name : string) (vs : list value) : value :=
    match on_rule T name with Some f => f vs | None => VTree name vs end.

  (* _call_userfunc_token with __default_token__ = identity *)
  Definition call_token (ty v : string) : value :=
    match on_token T ty with Some f => f ty v | None => VTok ty v end.

  (* the value of a transformed tree, as a plain recursive function (reference) *)
  Fixpoint tr (t : stree) : value :=
    match t with
    | Tr n ch => call_rule n (map tr ch)
    | Tok ty v => call_token ty v
    | NoneV => VNone
    end.

  (* ---- Transformer: _transform_children / _transform_tree ---------------------------- *)
  Definition mapi_log (f : path -> stree -> value * log) (p : path) : nat -> list stree -> list value * log :=
    fix go i l :=
      match l with
      | [] => ([], [])
      | c :: r => let '(v, l1) := f (p ++ [i]) c in
                  let '(vs, l2) := go (S i) r in
                  (v :: vs, l1 ++ l2)
      end.

  Fixpoint rec_tc (p : path) (t : stree) : value * log :=
    match t with
    | Tr n ch => let '(vs, lg) := mapi_log rec_tc p 0 ch in    (* children = list(_transform_children(..)) *)
                 (call_rule n vs, lg ++ [p])                   (* _call_userfunc(tree, children) *)
    | Tok ty v => (call_token ty v, [p])
    | NoneV => (VNone, [])
    end.

  Definition transform_rec (t : stree) : value * log := rec_tc [] t.

  (* ---- Transformer_InPlaceRecursive: tree.children = ...; _call_userfunc(tree) ---------- *)
  Fixpoint ipr_tc (p : path) (t : stree) : value * log :=
    match t with
    | Tr n ch => let '(vs, lg) := mapi_log ipr_tc p 0 ch in
                 let node := (n, vs) in                        (* tree.children = list(...) *)
                 (call_rule (fst node) (snd node), lg ++ [p])  (* reads tree.data, tree.children *)
    | Tok ty v => (call_token ty v, [p])
    | NoneV => (VNone, [])
    end.

  Definition transform_ipr (t : stree) : value * log := ipr_tc [] t.

  (* ---- Transformer_NonRecursive ------------------------------------------------------- *)
  Fixpoint with_paths (p : path) (i : nat) (ch : list stree) : list (path * stree) :=
    match ch with [] => [] | c :: r => (p ++ [i], c) :: with_paths p (S i) r end.

  (* first loop.  q and rev_postfix are kept REVERSED (head = end of the Python list):
     q.pop() takes the head, `q += t.children` prepends the reversed children *)
  Fixpoint nr_loop1 (fuel : nat) (q acc : list (path * stree)) : option (list (path * stree)) :=
    match q with
    | [] => Some acc
    | (p, t) :: q' =>
        match fuel with
        | 0 => None
        | S f => nr_loop1 f (match t with
                             | Tr _ ch => rev (with_paths p 0 ch) ++ q'
                             | _ => q'
                             end) ((p, t) :: acc)
        end
    end.

  (* second loop over reversed(rev_postfix); the stack is kept reversed too (head = top) *)
  Fixpoint nr_loop2 (xs : list (path * stree)) (stack : list value) (lg : log) : list value * log :=
    match xs with
    | [] => (stack, lg)
    | (p, t) :: r =>
        match t with
        | Tr n ch =>
            let size := length ch in
            let args := if Nat.eqb size 0 then [] else rev (firstn size stack) in   (* stack[-size:] *)
            let stack := if Nat.eqb size 0 then stack else skipn size stack in      (* del stack[-size:] *)
            nr_loop2 r (call_rule n args :: stack) (lg ++ [p])
        | Tok ty v => nr_loop2 r (call_token ty v :: stack) (lg ++ [p])
        | NoneV => nr_loop2 r (VNone :: stack) lg
        end
    end.

  Fixpoint ssize (t : stree) : nat :=
    match t with Tr _ ch => S (fold_right (fun c a => ssize c + a) 0 ch) | _ => 1 end.

  Definition transform_nr (t : stree) : option (value * log) :=
    match nr_loop1 (ssize t) [([], t)] [] with
    | None => None
    | Some xs => let '(stack, lg) := nr_loop2 xs [] [] in
                 match stack with [v] => Some (v, lg) | _ => None end    (* result, = stack *)
    end.

  (* ---- Transformer_InPlace ---------------------------------------------------------------- *)
  (* the tree while it is being rewritten in place: a child slot holds an untouched node or a
     value that replaced it *)
  Inductive mtree :=
  | MN (n : string) (ch : list mtree)
  | MT (ty v : string)
  | MNone
  | MV (v : value).

  Fixpoint embed (t : stree) : mtree :=
    match t with Tr n ch => MN n (map embed ch) | Tok ty v => MT ty v | NoneV => MNone end.

  (* what a callback sees when handed the slot *)
  Fixpoint raw (m : mtree) : value :=
    match m with
    | MN n ch => VTree n (map raw ch)
    | MT ty v => VTok ty v
    | MNone => VNone
    | MV v => v
    end.

  Definition is_tree (t : stree) : bool := match t with Tr _ _ => true | _ => false end.

  Definition tree_kids (p : path) (t : stree) : list (path * stree) :=
    match t with
    | Tr _ ch => filter (fun x => is_tree (snd x)) (with_paths p 0 ch)
    | _ => []
    end.

  (* Tree.iter_subtrees: `for subtree in queue: queue += [c for c in reversed(children) if Tree]`
     (the id()-based de-duplication never fires on a tree-shaped input) *)
  Fixpoint bfs (fuel : nat) (q : list (path * stree)) : option (list (path * stree)) :=
    match q with
    | [] => Some []
    | (p, t) :: rest =>
        match fuel with
        | 0 => None
        | S f => option_map (cons (p, t)) (bfs f (rest ++ rev (tree_kids p t)))
        end
    end.

  Definition iter_subtrees (t : stree) : option (list (path * stree)) :=
    option_map (@rev _) (bfs (ssize t) [([], t)]).

  (* list(self._transform_children(subtree.children)) for the subtree at path p;
     _transform_tree(c) = _call_userfunc(c) reads c.children from the heap *)
  Fixpoint ip_children (p : path) (i : nat) (ch : list mtree) : list mtree * log :=
    match ch with
    | [] => ([], [])
    | c :: r =>
        let '(r', l2) := ip_children p (S i) r in
        match c with
        | MN n ch' => (MV (call_rule n (map raw ch')) :: r', (p ++ [i]) :: l2)
        | MT ty v => (MV (call_token ty v) :: r', (p ++ [i]) :: l2)
        | _ => (c :: r', l2)
        end
    end.

  Fixpoint update {A} (i : nat) (x : A) (l : list A) : list A :=
    match l, i with
    | [], _ => []
    | _ :: r, 0 => x :: r
    | y :: r, S j => y :: update j x r
    end.

  (* subtree.children = ... for the node at path p (full = the same path, for the log) *)
  Fixpoint ip_at (full p : path) (m : mtree) : mtree * log :=
    match p, m with
    | [], MN n ch => let '(ch', lg) := ip_children full 0 ch in (MN n ch', lg)
    | i :: p', MN n ch =>
        match nth_error ch i with
        | Some c => let '(c', lg) := ip_at full p' c in (MN n (update i c' ch), lg)
        | None => (m, [])
        end
    | _, _ => (m, [])
    end.

  Definition ip_fold (order : list (path * stree)) (m : mtree) : mtree * log :=
    fold_left (fun (st : mtree * log) (x : path * stree) =>
                 let '(m', l') := ip_at (fst x) (fst x) (fst st) in (m', snd st ++ l'))
              order (m, []).

  Definition transform_ip (t : stree) : option (value * log) :=
    match iter_subtrees t with
    | None => None
    | Some order =>
        let '(m, lg) := ip_fold order (embed t) in
        match m with
        | MN n ch => Some (call_rule n (map raw ch), lg ++ [[]])     (* self._transform_tree(tree) *)
        | _ => None
        end
    end.
End Traversals.

(* ---- embedded transformer: Lark(..., parser='lalr', transformer=T) ------------------------- *)
(* rule callbacks go through the same wrapper chain; terminal callbacks are applied when the
   token is shifted (lalr_parser_state.py: callbacks[token.type](token)) *)
Definition embedded_run (T : transformer) (mp : bool) (l : list action) : option (list value) :=
  run_actions value VNone vkids (on_rule T) VTree (call_token T) mp [] l.

Definition embedded (T : transformer) (mp : bool) (d : dtree) : option value :=
  eval value VNone vkids (on_rule T) VTree (call_token T) mp d.
