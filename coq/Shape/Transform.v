(* Executable models of the four transformer traversals of lark/visitors.py (Transformer,
   Transformer_NonRecursive, Transformer_InPlace, Transformer_InPlaceRecursive), each also
   producing the log of callback invocations (node ids = paths from the root), and of an
   embedded transformer (callbacks spliced into the parse-tree builder chain).
   Discard and meta arguments are outside the model (as they are outside the property).
   No proofs here (see Transform_proofs.v). *)
From Coq Require Import String Ascii List Bool Arith.
From LV Require Import Base.Prelude Shape.Chain Shape.Spec.
Import ListNotations.

Inductive value :=
| VTree (name : string) (children : list value)   (* a lark Tree (built by __default__ / tree_class) *)
| VTok (ty v : string)                            (* a Token *)
| VNone
| VUser (tag : string) (args : list value).       (* anything a user callback returns *)

Fixpoint inj (t : stree) : value :=
  match t with
  | Tok ty v => VTok ty v
  | Tr n ch => VTree n (map inj ch)
  | NoneV => VNone
  end.

Definition vkids (v : value) : option (list value) :=
  match v with VTree _ ch => Some ch | _ => None end.

Record transformer := mkT {
  on_rule : string -> option (list value -> value);        (* getattr(self, tree.data) *)
  on_token : string -> option (string -> string -> value)  (* getattr(self, token.type) *)
}.

Definition path := list nat.
Definition log := list path.

Fixpoint path_eqb (a b : path) : bool :=
  match a, b with
  | [], [] => true
  | x :: a', y :: b' => Nat.eqb x y && path_eqb a' b'
  | _, _ => false
  end.

Section Calls.
  Variable T : transformer.

  (* _call_userfunc with __default__ = Tree(data, children, meta) *)
  Definition call_rule (name : string) (vs : list value) : value :=
    match on_rule T name with Some f => f vs | None => VTree name vs end.

  (* _call_userfunc_token with __default_token__ = identity *)
  Definition call_token (ty v : string) : value :=
    match on_token T ty with Some f => f ty v | None => VTok ty v end.

End Calls.

Section Traversals.
  Variable T : transformer.
  Variable vt : bool.       (* Transformer.__init__(visit_tokens): self.__visit_tokens__ *)
  Notation call_rule := (call_rule T).
  Notation call_token := (call_token T).

  (* `elif self.__visit_tokens__ and isinstance(c, Token): res = self._call_userfunc_token(c)`
     `else: res = c` - the value of a token child and the log entry of the call (if any) *)
  Definition visit_tok (ty v : string) : value := if vt then call_token ty v else VTok ty v.
  Definition tok_log (p : path) : log := if vt then [p] else [].

  (* the value of a transformed tree, as a plain recursive function (reference) *)
  Fixpoint tr (t : stree) : value :=
    match t with
    | Tr n ch => call_rule n (map tr ch)
    | Tok ty v => visit_tok ty v
    | NoneV => VNone
    end.

  (* ---- Transformer: _transform_children / _transform_tree ---------------------------- *)
  Definition mapi_log (f : path -> stree -> value * log) (p : path) : nat -> list stree -> list value * log :=
    fix go i l :=
      match l with
      | [] => ([], [])
      | c :: r => let '(v, l1) := f (p ++ [i]) c in
                  let '(vs, l2) := go (S i) r in
                  (v :: vs, l1 ++ l2)
      end.

  Fixpoint rec_tc (p : path) (t : stree) : value * log :=
    match t with
    | Tr n ch => let '(vs, lg) := mapi_log rec_tc p 0 ch in    (* children = list(_transform_children(..)) *)
                 (call_rule n vs, lg ++ [p])                   (* _call_userfunc(tree, children) *)
    | Tok ty v => (visit_tok ty v, tok_log p)
    | NoneV => (VNone, [])
    end.

  Definition transform_rec (t : stree) : value * log := rec_tc [] t.

  (* ---- Transformer_InPlaceRecursive: tree.children = ...; _call_userfunc(tree) ---------- *)
  Fixpoint ipr_tc (p : path) (t : stree) : value * log :=
    match t with
    | Tr n ch => let '(vs, lg) := mapi_log ipr_tc p 0 ch in
                 let node := (n, vs) in                        (* tree.children = list(...) *)
                 (call_rule (fst node) (snd node), lg ++ [p])  (* reads tree.data, tree.children *)
    | Tok ty v => (visit_tok ty v, tok_log p)
    | NoneV => (VNone, [])
    end.

  Definition transform_ipr (t : stree) : value * log := ipr_tc [] t.

  (* ---- Transformer_NonRecursive ------------------------------------------------------- *)
  Fixpoint with_paths (p : path) (i : nat) (ch : list stree) : list (path * stree) :=
    match ch with [] => [] | c :: r => (p ++ [i], c) :: with_paths p (S i) r end.

  (* first loop.  q and rev_postfix are kept REVERSED (head = end of the Python list):
     q.pop() takes the head, `q += t.children` prepends the reversed children *)
  Fixpoint nr_loop1 (fuel : nat) (q acc : list (path * stree)) : option (list (path * stree)) :=
    match q with
    | [] => Some acc
    | (p, t) :: q' =>
        match fuel with
        | 0 => None
        | S f => nr_loop1 f (match t with
                             | Tr _ ch => rev (with_paths p 0 ch) ++ q'
                             | _ => q'
                             end) ((p, t) :: acc)
        end
    end.

  (* second loop over reversed(rev_postfix); the stack is kept reversed too (head = top) *)
  Fixpoint nr_loop2 (xs : list (path * stree)) (stack : list value) (lg : log) : list value * log :=
    match xs with
    | [] => (stack, lg)
    | (p, t) :: r =>
        match t with
        | Tr n ch =>
            let size := length ch in
            let args := if Nat.eqb size 0 then [] else rev (firstn size stack) in   (* stack[-size:] *)
            let stack := if Nat.eqb size 0 then stack else skipn size stack in      (* del stack[-size:] *)
            nr_loop2 r (call_rule n args :: stack) (lg ++ [p])
        | Tok ty v => nr_loop2 r (visit_tok ty v :: stack) (lg ++ tok_log p)
        | NoneV => nr_loop2 r (VNone :: stack) lg
        end
    end.

  Fixpoint ssize (t : stree) : nat :=
    match t with Tr _ ch => S (fold_right (fun c a => ssize c + a) 0 ch) | _ => 1 end.

  Definition transform_nr (t : stree) : option (value * log) :=
    match nr_loop1 (ssize t) [([], t)] [] with
    | None => None
    | Some xs => let '(stack, lg) := nr_loop2 xs [] [] in
                 match stack with [v] => Some (v, lg) | _ => None end    (* result, = stack *)
    end.

  (* ---- Transformer_InPlace ---------------------------------------------------------------- *)
  Definition is_tree (t : stree) : bool := match t with Tr _ _ => true | _ => false end.

  Definition tree_kids (p : path) (t : stree) : list (path * stree) :=
    match t with
    | Tr _ ch => filter (fun x => is_tree (snd x)) (with_paths p 0 ch)
    | _ => []
    end.

  (* Tree.iter_subtrees: `for subtree in queue: queue += [c for c in reversed(children) if Tree]`
     (the id()-based de-duplication never fires on a tree-shaped input) *)
  Fixpoint bfs (fuel : nat) (q : list (path * stree)) : option (list (path * stree)) :=
    match q with
    | [] => Some []
    | (p, t) :: rest =>
        match fuel with
        | 0 => None
        | S f => option_map (cons (p, t)) (bfs f (rest ++ rev (tree_kids p t)))
        end
    end.

  Definition iter_subtrees (t : stree) : option (list (path * stree)) :=
    option_map (@rev _) (bfs (ssize t) [([], t)]).

  (* The heap: `subtree.children = [...]` rebinds the children list of ONE object; objects are
     identified by their path.  A cell exists once the object has been rewritten; an object
     without a cell still has its original children. *)
  Definition heap := list (path * list value).

  Fixpoint hlookup (h : heap) (p : path) : option (list value) :=
    match h with
    | [] => None
    | (q, vs) :: r => if path_eqb q p then Some vs else hlookup r p
    end.

  (* c.children as the callback sees it *)
  Definition cur_children (h : heap) (p : path) (ch : list stree) : list value :=
    match hlookup h p with Some vs => vs | None => map inj ch end.

  (* list(self._transform_children(subtree.children)) for the subtree at path p;
     _transform_tree(c) = _call_userfunc(c) reads c.children from the heap *)
  Fixpoint ip_children (h : heap) (p : path) (i : nat) (ch : list stree) : list value * log :=
    match ch with
    | [] => ([], [])
    | c :: r =>
        let '(vs, l2) := ip_children h p (S i) r in
        match c with
        | Tr n' ch' => (call_rule n' (cur_children h (p ++ [i]) ch') :: vs, (p ++ [i]) :: l2)
        | Tok ty v => (visit_tok ty v :: vs, tok_log (p ++ [i]) ++ l2)
        | NoneV => (VNone :: vs, l2)
        end
    end.

  (* subtree.children = list(self._transform_children(subtree.children)) *)
  Definition ip_step (h : heap) (x : path * stree) : heap * log :=
    match snd x with
    | Tr _ ch => let '(vs, lg) := ip_children h (fst x) 0 ch in ((fst x, vs) :: h, lg)
    | _ => (h, [])
    end.

  Definition ip_fold (order : list (path * stree)) : heap * log :=
    fold_left (fun (st : heap * log) x => let '(h', l') := ip_step (fst st) x in (h', snd st ++ l'))
              order ([], []).

  Definition transform_ip (t : stree) : option (value * log) :=
    match iter_subtrees t with
    | None => None
    | Some order =>
        let '(h, lg) := ip_fold order in
        match t with
        | Tr n ch => Some (call_rule n (cur_children h [] ch), lg ++ [[]])   (* self._transform_tree(tree) *)
        | _ => None                                                          (* iter_subtrees: AttributeError *)
        end
    end.
End Traversals.

(* ---- embedded transformer: Lark(..., parser='lalr', transformer=T) ------------------------- *)
(* rule callbacks go through the same wrapper chain; terminal callbacks are applied when the
   token is shifted (lalr_parser_state.py: callbacks[token.type](token)); _get_lexer_callbacks installs
   them only when the transformer's __visit_tokens__ is true *)
Definition embedded_run (T : transformer) (vt mp : bool) (l : list action) : option (list value) :=
  run_actions value VNone vkids (on_rule T) VTree (visit_tok T vt) mp [] l.

Definition embedded (T : transformer) (vt mp : bool) (d : dtree) : option value :=
  eval value VNone vkids (on_rule T) VTree (visit_tok T vt) mp d.
