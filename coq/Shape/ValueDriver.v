(* ParserState.feed_token with the REAL value stack: LR/Driver.v keeps derivation trees on the value stack
   (callbacks[rule] = Node rule); lark keeps whatever the per-rule callbacks return (the shaped subtrees, or the
   values of an embedded transformer) and what the terminal callbacks return for shifted tokens.  [vfeed] is
   Driver.feed with `value = callbacks[rule](s)` and `callbacks[token.type](token)` as coded; control flow is the
   same (it depends on the state stack only).  A callback that raises is a poisoned value here (the types of the
   instances are option types): the final result is then None instead of an exception.
   Definitions only; proofs in ValueDriver_proofs.v. *)
From Coq Require Import List Arith Bool.
From LV Require Import Cfg.Grammar.
From LV Require LR.Driver.
Import ListNotations.

Section VDriver.
  Variable tok : Type.
  Variable ttype : tok -> nat.
  Variable X : Type.
  Variable cb : rule -> list X -> X.       (* callbacks[rule] *)
  Variable tokf : tok -> X.                (* token if token.type not in callbacks else callbacks[token.type](token) *)
  Variable P : Driver.ptable.

  Record vconfig := mkV { v_states : list Driver.state; v_values : list X }.     (* both top-first *)

  Inductive voutcome := VShifted (c : vconfig) | VAccepted (v : X) | VUnexpected | VAssert | VCrash | VFuel.

  Fixpoint vfeed (fuel : nat) (c : vconfig) (k : tok) (is_end : bool) : voutcome :=
    match fuel with
    | O => VFuel
    | S fuel' =>
      match v_states c with
      | [] => VCrash
      | q :: _ =>
        match Driver.pt_action P q (T (ttype k)) with
        | None => VUnexpected
        | Some (Driver.Shift q') =>
            if Nat.eqb q' (Driver.pt_end P) then VAssert
            else if is_end then VAssert
            else VShifted (mkV (q' :: v_states c) (tokf k :: v_values c))
        | Some (Driver.Reduce r) =>
            let n := length (rhs r) in
            let s := rev (firstn n (v_values c)) in
            let ss := skipn n (v_states c) in
            let vs := skipn n (v_values c) in
            match ss with
            | [] => VCrash
            | q2 :: _ =>
              match Driver.pt_action P q2 (NT (lhs r)) with
              | Some (Driver.Shift q3) =>
                  let value := cb r s in
                  if is_end && Nat.eqb q3 (Driver.pt_end P) then VAccepted value
                  else vfeed fuel' (mkV (q3 :: ss) (value :: vs)) k is_end
              | Some (Driver.Reduce _) => VAssert
              | None => VCrash
              end
            end
        end
      end
    end.

  Fixpoint vfeed_all (fuel : nat) (c : vconfig) (w : list tok) : voutcome :=
    match w with
    | [] => VShifted c
    | k :: w' => match vfeed fuel c k false with VShifted c' => vfeed_all fuel c' w' | o => o end
    end.

  Definition vparse (fuel : nat) (w : list tok) (end_tok : tok) : voutcome :=
    match vfeed_all fuel (mkV [Driver.pt_start P] []) w with
    | VShifted c => vfeed fuel c end_tok true
    | o => o
    end.

  (* the callbacks applied bottom-up to a derivation tree *)
  Fixpoint evalt (t : Driver.dtree tok) : X :=
    match t with
    | Driver.Leaf k => tokf k
    | Driver.Node r cs => cb r (map evalt cs)
    end.

  Definition vmap (c : Driver.config tok) : vconfig := mkV (Driver.sstack c) (map evalt (Driver.vstack c)).

  Definition omap (o : Driver.outcome tok) : voutcome :=
    match o with
    | Driver.Shifted c => VShifted (vmap c)
    | Driver.Accepted t => VAccepted (evalt t)
    | Driver.Unexpected _ => VUnexpected
    | Driver.DAssert _ => VAssert
    | Driver.DCrash _ => VCrash
    | Driver.DFuel => VFuel
    end.
End VDriver.

(* renaming tokens: the driver looks at a token through its type only *)
Section TokMap.
  Variable tok tok' : Type.
  Variable f : tok -> tok'.

  Fixpoint tmap (t : Driver.dtree tok) : Driver.dtree tok' :=
    match t with
    | Driver.Leaf k => Driver.Leaf (f k)
    | Driver.Node r cs => Driver.Node r (map tmap cs)
    end.

  Definition cmap (c : Driver.config tok) : Driver.config tok' :=
    Driver.mkConfig (Driver.sstack c) (map tmap (Driver.vstack c)).

  Definition tomap (o : Driver.outcome tok) : Driver.outcome tok' :=
    match o with
    | Driver.Shifted c => Driver.Shifted (cmap c)
    | Driver.Accepted t => Driver.Accepted (tmap t)
    | Driver.Unexpected c => Driver.Unexpected (cmap c)
    | Driver.DAssert c => Driver.DAssert (cmap c)
    | Driver.DCrash c => Driver.DCrash (cmap c)
    | Driver.DFuel => Driver.DFuel
    end.
End TokMap.
