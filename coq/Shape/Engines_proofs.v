(* C03, engines agree: for a rule table and an input with exactly one derivation, the LALR pipeline (conflict-free
   table of LR/Automaton), the Earley pipeline (Alg + add_family log + resolve walk) and the CYK pipeline return
   [shape] of that derivation. *)
From Coq Require Import ZArith String Ascii List Bool Arith Lia.
From LV Require Import Base.Prelude Cfg.Grammar Cfg.Analysis Cfg.Analysis_proofs Earley.Alg Earley.Alg_proofs
  Forest.ExplicitBuild Forest.ExplicitBuild_proofs Forest.ExplicitAlgBuild Forest.ExplicitAlgBuild_proofs
  Forest.GraphResolve Forest.GraphResolve_proofs
  Shape.Chain Shape.Spec Shape.Chain_proofs Shape.Shape_proofs Shape.Cnf Shape.Cnf_proofs Shape.CykParse Shape.EarleyLeg
  Shape.ValueDriver Shape.ValueDriver_proofs Shape.Engines.
From LV Require LR.Driver LR.Driver_proofs LR.Automaton LR.Automaton_wf LR.Lalr_complete.
Import ListNotations.

(* ---- the walk with callbacks = the walk, then the callbacks bottom-up ------------------------------------------ *)
Lemma first_some_map {A B C} (g : B -> C) (F : A -> option C) (F' : A -> option B) l :
  (forall x, F x = option_map g (F' x)) -> first_some F l = option_map g (first_some F' l).
Proof.
  intros H. induction l as [|x l IH]; [reflexivity|]. cbn [first_some]. rewrite H.
  destruct (F' x); [reflexivity|exact IH].
Qed.

Section GresCbProofs.
  Variable tok : Type.
  Variable teqb : tok -> tok -> bool.
  Variable X : Type.
  Variable cb : rule -> list X -> X.
  Variable tokf : tok -> X.
  Variable fams : list (nlabel tok * family tok).
  Variable order : nlabel tok -> list (family tok) -> list (family tok).
  Notation evald := (evald tok X cb tokf).

  Lemma pack_cb_spec lbl r ds : map evald (pack tok lbl r ds) = pack_cb tok X cb lbl r (map evald ds).
  Proof. destruct lbl; reflexivity. Qed.

  Lemma gres_cb_spec : forall fuel path lbl,
    gres_cb tok teqb X cb tokf fams order fuel path lbl
    = option_map (map evald) (gres tok teqb fams order fuel path lbl).
  Proof.
    induction fuel as [|f IH]; intros path lbl; [reflexivity|].
    cbn [gres_cb gres].
    assert (Hsub : forall o : option (nlabel tok),
               match o with None => Some [] | Some l => gres_cb tok teqb X cb tokf fams order f (lbl :: path) l end
               = option_map (map evald) match o with None => Some [] | Some l => gres tok teqb fams order f (lbl :: path) l end).
    { intros [l|]; [apply IH|reflexivity]. }
    assert (Hfs : forall l0,
      first_some (fun fm : family tok =>
                    let '(r, l, rt) := fm in
                    match match l with None => Some [] | Some l1 => gres_cb tok teqb X cb tokf fams order f (lbl :: path) l1 end with
                    | None => None
                    | Some d1 => match match rt with None => Some [] | Some l1 => gres_cb tok teqb X cb tokf fams order f (lbl :: path) l1 end with
                                 | None => None
                                 | Some d2 => Some (pack_cb tok X cb lbl r (d1 ++ d2))
                                 end
                    end) l0
      = option_map (map evald)
          (first_some (fun fm : family tok =>
                    let '(r, l, rt) := fm in
                    match match l with None => Some [] | Some l1 => gres tok teqb fams order f (lbl :: path) l1 end with
                    | None => None
                    | Some d1 => match match rt with None => Some [] | Some l1 => gres tok teqb fams order f (lbl :: path) l1 end with
                                 | None => None
                                 | Some d2 => Some (pack tok lbl r (d1 ++ d2))
                                 end
                    end) l0)).
    { intros l0. apply first_some_map. intros [[r l] rt]. rewrite (Hsub l), (Hsub rt).
      destruct (match l with None => Some [] | Some l1 => gres tok teqb fams order f (lbl :: path) l1 end) as [d1|]; [|reflexivity].
      destruct (match rt with None => Some [] | Some l1 => gres tok teqb fams order f (lbl :: path) l1 end) as [d2|]; [|reflexivity].
      cbn [option_map]. rewrite pack_cb_spec, map_app. reflexivity. }
    destruct lbl as [a i j|r d i j|t x i j]; [| |reflexivity];
      (destruct (lmem tok teqb _ path); [reflexivity|apply Hfs]).
  Qed.
End GresCbProofs.

Section DriverTreeInd.
  Variable tok : Type.
  Variable P : Driver.dtree tok -> Prop.
  Hypothesis Hl : forall k, P (Driver.Leaf k).
  Hypothesis Hn : forall r cs, Forall P cs -> P (Driver.Node r cs).
  Fixpoint ltree_ind' (t : Driver.dtree tok) : P t :=
    match t with
    | Driver.Leaf k => Hl k
    | Driver.Node r cs => Hn r cs ((fix go l : Forall P l :=
                                      match l with [] => Forall_nil P | x :: r' => Forall_cons x (ltree_ind' x) (go r') end) cs)
    end.
End DriverTreeInd.

Lemma derives_tokmap (G : grammar) (tok tok' : Type) (tm : nat -> tok -> bool) (tm' : nat -> tok' -> bool) (f : tok -> tok') :
  (forall t k, tm t k = true -> tm' t (f k) = true) ->
  forall ss w, derives G tok tm ss w -> derives G tok' tm' ss (map f w).
Proof.
  intros H ss w Hd. induction Hd; cbn [map].
  - constructor.
  - constructor; auto.
  - rewrite map_app. econstructor; eauto.
Qed.

Lemma lexeme_eqb_spec a b : lexeme_eqb a b = true <-> a = b.
Proof.
  destruct a as [a1 a2], b as [b1 b2]. unfold lexeme_eqb. cbn [fst snd]. rewrite andb_true_iff, !String.eqb_eq.
  split; [intros [-> ->]; reflexivity|intros [= -> ->]; auto].
Qed.

(* ---- derivations by rule index vs the tree types of the LR and Earley models ------------------------------------ *)
Section Conv.
  Variable rules : list rrec.
  Variable mp : bool.
  Variable nt_ix : string -> nat.
  Variable t_ix : string -> nat.
  Hypothesis nt_inj : forall a b, nt_ix a = nt_ix b -> a = b.
  Hypothesis t_inj : forall a b, t_ix a = t_ix b -> a = b.
  Notation lexeme := EarleyLeg.lexeme.
  Notation G := (cfg_grammar rules nt_ix t_ix).
  Notation cfg_of := (cfg_of nt_ix t_ix).
  Notation cfg_sym := (cfg_sym nt_ix t_ix).
  Notation ttype := (ttype t_ix).
  Notation rid_of := (rid_of rules nt_ix t_ix).
  Notation lr_o := (lr_o rules nt_ix t_ix).
  Notation o_dt := (o_dt rules nt_ix t_ix).
  Notation lx_match := (lx_match t_ix).
  Notation wf_tree := (Driver_proofs.wf_tree lexeme ttype G).

  Lemma rule_eqb_eq a b : Engines.rule_eqb a b = true <-> a = b.
  Proof. unfold Engines.rule_eqb. destruct (rule_eq_dec a b); split; auto; discriminate. Qed.

  Lemma find_rid_spec r : forall l i, In r (map cfg_of l) ->
    exists x, nth_error l (find_rid nt_ix t_ix r l i - i) = Some x /\ cfg_of x = r /\ i <= find_rid nt_ix t_ix r l i.
  Proof.
    induction l as [|x l IH]; intros i Hin; [destruct Hin|]. cbn [find_rid].
    destruct (Engines.rule_eqb (cfg_of x) r) eqn:E.
    - apply rule_eqb_eq in E. exists x. rewrite Nat.sub_diag. auto.
    - destruct Hin as [Hx|Hin]; [apply rule_eqb_eq in Hx; congruence|].
      destruct (IH (S i) Hin) as (y & Hn & Hy & Hle). exists y. split; [|split; [exact Hy|lia]].
      replace (find_rid nt_ix t_ix r l (S i) - i) with (S (find_rid nt_ix t_ix r l (S i) - S i)) by lia. exact Hn.
  Qed.

  Lemma rid_of_spec r : In r G -> rid_of r < length rules /\ cfg_of (rule_n rules (rid_of r)) = r.
  Proof.
    intros Hin. destruct (find_rid_spec r rules 0 Hin) as (x & Hn & Hx & _). rewrite Nat.sub_0_r in Hn.
    fold (rid_of r) in Hn. split.
    - apply nth_error_Some. congruence.
    - unfold rule_n. rewrite (nth_error_nth _ _ _ Hn). exact Hx.
  Qed.

  Lemma in_G rid : rid < length rules -> In (cfg_of (rule_n rules rid)) G.
  Proof. intros H. unfold cfg_grammar. apply in_map. apply nth_In. exact H. Qed.

  (* the symbol a derivation derives *)
  Definition osym (d : otree) : symbol :=
    match d with OLeaf ty _ => T (t_ix ty) | ONode rid _ => NT (nt_ix (r_origin (rule_n rules rid))) end.

  Lemma ochild_osym s d : ochild_ok rules s d = true -> osym d = cfg_sym s.
  Proof.
    destruct d as [ty v|rid ch]; cbn [ochild_ok osym]; intros H; apply andb_true_iff in H; destruct H as [H1 H2];
      apply String.eqb_eq in H2; unfold EarleyLeg.cfg_sym.
    - rewrite H1, H2. reflexivity.
    - apply negb_true_iff in H1. rewrite H1, H2. reflexivity.
  Qed.

  Lemma osym_ochild s d : osym d = cfg_sym s -> ochild_ok rules s d = true.
  Proof.
    unfold EarleyLeg.cfg_sym. destruct d as [ty v|rid ch]; cbn [ochild_ok osym]; destruct (s_term s); intros H; try discriminate;
      injection H as H; cbn [negb andb].
    - apply t_inj in H. rewrite H. apply String.eqb_refl.
    - apply nt_inj in H. rewrite H. apply String.eqb_refl.
  Qed.

  (* LR trees -> derivations by index *)
  Lemma lr_o_root t : wf_tree t -> osym (lr_o t) = Driver.root lexeme ttype t.
  Proof.
    destruct t as [k|r cs]; [reflexivity|]. intros H. apply Driver_proofs.wf_node_iff in H. destruct H as (Hin & _ & _).
    destruct (rid_of_spec r Hin) as [_ E]. cbn [Engines.lr_o osym Driver.root]. rewrite <- E at 2. reflexivity.
  Qed.

  Lemma lr_o_wf t : wf_tree t -> wf_otree rules (lr_o t) = true /\ oyield (lr_o t) = Driver.yield lexeme t.
  Proof.
    induction t as [[ty v]|r cs IH] using ltree_ind'; intros Hw; [split; reflexivity|].
    pose proof Hw as Hw0. apply Driver_proofs.wf_node_iff in Hw. destruct Hw as (Hin & Hroot & Hf).
    destruct (rid_of_spec r Hin) as [Hlt E]. cbn [Engines.lr_o wf_otree oyield Driver.yield].
    assert (Hall : Forall (fun c => wf_otree rules (lr_o c) = true /\ oyield (lr_o c) = Driver.yield lexeme c) cs).
    { unfold Driver_proofs.wf_forest in Hf. rewrite Forall_forall in *. intros c Hc. apply IH; auto. }
    split.
    - apply andb_true_iff. split; [apply andb_true_iff; split|].
      + apply Nat.ltb_lt. exact Hlt.
      + rewrite <- E in Hroot. unfold EarleyLeg.cfg_of in Hroot. cbn [rhs] in Hroot. clear -Hroot Hf nt_inj t_inj.
        revert Hroot Hf. generalize (r_exp (rule_n rules (rid_of r))) as exp.
        induction cs as [|c cs IHc]; intros [|s exp] Hroot Hf; try discriminate; [reflexivity|].
        cbn [map] in Hroot. injection Hroot as Hc Hrest. inversion Hf; subst. cbn [map forall2b].
        apply andb_true_iff. split; [|apply IHc; auto].
        apply osym_ochild. rewrite lr_o_root; auto.
      + clear -Hall. induction Hall as [|c cs [Hc _] _ IHc]; [reflexivity|]. cbn [map forallb]. rewrite Hc. exact IHc.
    - clear -Hall. induction Hall as [|c cs [_ Hc] _ IHc]; [reflexivity|]. cbn [map flat_map]. rewrite Hc, IHc. reflexivity.
  Qed.

  (* derivations by index -> Earley-model trees *)
  Lemma o_dt_wfd d : wf_otree rules d = true -> wfd G lexeme lx_match (o_dt d) (osym d) /\ yield lexeme (o_dt d) = oyield d.
  Proof.
    induction d as [ty v|rid ch IH] using otree_ind'; intros Hwf.
    - split; [|reflexivity]. constructor. unfold EarleyLeg.lx_match. cbn [fst]. apply Nat.eqb_refl.
    - cbn [wf_otree] in Hwf. apply andb_true_iff in Hwf. destruct Hwf as [Hwf Hall].
      apply andb_true_iff in Hwf. destruct Hwf as [Hlt Har]. apply Nat.ltb_lt in Hlt.
      assert (HA : Forall (fun c => wfd G lexeme lx_match (o_dt c) (osym c) /\ yield lexeme (o_dt c) = oyield c) ch).
      { rewrite Forall_forall in *. intros c Hc. apply IH; auto. rewrite forallb_forall in Hall. auto. }
      cbn [Engines.o_dt osym oyield]. split.
      + change (NT (nt_ix (r_origin (rule_n rules rid)))) with (NT (lhs (cfg_of (rule_n rules rid)))).
        constructor; [apply in_G; exact Hlt|].
        unfold EarleyLeg.cfg_of. cbn [rhs]. clear -Har HA. revert Har HA. generalize (r_exp (rule_n rules rid)) as exp.
        induction ch as [|c ch IHc]; intros [|s exp] Har HA; try discriminate; [constructor|].
        cbn [forall2b] in Har. apply andb_true_iff in Har. destruct Har as [Hc Har]. inversion HA as [|? ? [Hw _] HA']; subst.
        cbn [map]. constructor; [|apply IHc; auto]. rewrite <- (ochild_osym _ _ Hc). exact Hw.
      + rewrite yield_DN. unfold yields. clear -HA. induction HA as [|c ch [_ Hc] _ IHc]; [reflexivity|].
        cbn [map flat_map]. rewrite Hc, IHc. reflexivity.
  Qed.

  (* Earley-model trees -> LR trees (same rules, leaves are the lexemes) *)
  Fixpoint dt_lr (d : dt lexeme) : Driver.dtree lexeme :=
    match d with
    | DL _ _ x => Driver.Leaf x
    | DN _ r ks => Driver.Node r (map dt_lr ks)
    end.

  Lemma dt_o_lr d : dt_o rules nt_ix t_ix d = lr_o (dt_lr d).
  Proof.
    induction d as [t x|r ks IH] using (dt_ind2 lexeme); [reflexivity|]. cbn [Engines.dt_o dt_lr Engines.lr_o]. f_equal.
    rewrite map_map. induction IH as [|k ks Hk _ IHk]; [reflexivity|]. cbn [map]. rewrite Hk, IHk. reflexivity.
  Qed.

  Lemma dt_lr_wf d : forall s, wfd G lexeme lx_match d s ->
    wf_tree (dt_lr d) /\ Driver.root lexeme ttype (dt_lr d) = s /\ Driver.yield lexeme (dt_lr d) = yield lexeme d.
  Proof.
    induction d as [t x|r ks IH] using (dt_ind2 lexeme); intros s Hw; inversion Hw as [? ? Hm|? ? Hin HF2]; subst.
    - cbn. unfold EarleyLeg.lx_match in Hm. apply Nat.eqb_eq in Hm. subst t. auto.
    - assert (HA : Forall2 (fun k s => wf_tree (dt_lr k) /\ Driver.root lexeme ttype (dt_lr k) = s
                                       /\ Driver.yield lexeme (dt_lr k) = yield lexeme k) ks (rhs r)).
      { clear -IH HF2. induction HF2 as [|k s ks ss Hk _ IHk]; [constructor|]. inversion IH; subst. constructor; auto. }
      cbn [dt_lr]. split; [|split].
      + apply Driver_proofs.wf_node_iff. split; [exact Hin|]. split.
        * clear -HA. induction HA as [|k s ks ss (_ & Hk & _) _ IHk]; [reflexivity|]. cbn [map]. rewrite Hk, IHk. reflexivity.
        * unfold Driver_proofs.wf_forest. clear -HA. induction HA as [|k s ks ss (Hk & _) _ IHk]; constructor; auto.
      + reflexivity.
      + rewrite yield_DN. unfold yields. cbn [Driver.yield]. clear -HA.
        induction HA as [|k s ks ss (_ & _ & Hk) _ IHk]; [reflexivity|]. cbn [map flat_map]. rewrite Hk, IHk. reflexivity.
  Qed.

  (* the callbacks on the model trees = the chain callbacks bottom-up on the derivation by index *)
  Notation cbo := (cbo rules mp nt_ix t_ix).
  Lemma evalt_lr t : evalt lexeme (option stree) cbo tokv t = eval_chain mp (o_dtree rules (lr_o t)).
  Proof.
    induction t as [[ty v]|r cs IH] using ltree_ind'; [reflexivity|].
    assert (E : map (evalt lexeme (option stree) cbo tokv) cs = map (eval_chain mp) (map (o_dtree rules) (map lr_o cs))).
    { rewrite !map_map. induction IH as [|c cs Hc _ IHc]; [reflexivity|]. cbn [map]. rewrite Hc, IHc. reflexivity. }
    cbn [ValueDriver.evalt Engines.lr_o o_dtree Cnf.eval_chain]. rewrite E. reflexivity.
  Qed.

  Lemma evald_lr d : evald lexeme (option stree) cbo tokv d = evalt lexeme (option stree) cbo tokv (dt_lr d).
  Proof.
    induction d as [t x|r ks IH] using (dt_ind2 lexeme); [reflexivity|]. cbn [Engines.evald dt_lr ValueDriver.evalt]. f_equal.
    rewrite map_map. induction IH as [|k ks Hk _ IHk]; [reflexivity|]. cbn [map]. rewrite Hk, IHk. reflexivity.
  Qed.
End Conv.

Lemma wf_tree_no_root (tok : Type) (ttype : tok -> nat) (G : grammar) (r0 : rule) :
  (forall r, In r G -> ~ In (NT (lhs r0)) (rhs r)) ->
  forall t, Driver_proofs.wf_tree tok ttype (G ++ [r0]) t -> Driver.root tok ttype t <> NT (lhs r0) ->
            Driver_proofs.wf_tree tok ttype G t.
Proof.
  intros Hfresh. induction t as [k|r cs IH] using ltree_ind'; intros Hw Hr; [exact I|].
  apply Driver_proofs.wf_node_iff in Hw. destruct Hw as (Hin & Hroot & Hf).
  apply in_app_iff in Hin. destruct Hin as [Hin|[<-|[]]]; [|cbn in Hr; congruence].
  apply Driver_proofs.wf_node_iff. split; [exact Hin|]. split; [exact Hroot|].
  unfold Driver_proofs.wf_forest in *. rewrite Forall_forall in *. intros c Hc. apply IH; auto.
  intros E. apply (Hfresh r Hin). rewrite <- Hroot, <- E. apply in_map. exact Hc.
Qed.

Lemma pick_single {A C} (g : option (list A)) (f : A -> option C) d' :
  match g with Some [d] => Some d | _ => None end = Some d' ->
  match option_map (map f) g with Some [v] => v | _ => None end = f d'.
Proof. destruct g as [[|x [|? ?]]|]; try discriminate. intros [= ->]. reflexivity. Qed.

Section Legs.
  Variable rules : list rrec.
  Variable mp : bool.
  Variable nt_ix : string -> nat.
  Variable t_ix : string -> nat.
  Hypothesis nt_inj : forall a b, nt_ix a = nt_ix b -> a = b.
  Hypothesis t_inj : forall a b, t_ix a = t_ix b -> a = b.
  Hypothesis Htable : Forall (fun r => rule_wf r mp = true /\ inline_ok r = true) rules.
  Variable start_name : string.
  Variable d : otree.
  Hypothesis Hu : unique_derivation rules start_name d.
  Notation lexeme := EarleyLeg.lexeme.
  Notation G := (cfg_grammar rules nt_ix t_ix).
  Notation ttype := (ttype t_ix).
  Notation lx_match := (lx_match t_ix).
  Notation start := (nt_ix start_name).
  Notation w := (oyield d).
  Notation lr_o := (lr_o rules nt_ix t_ix).

  Lemma osym_d : osym rules nt_ix t_ix d = NT start.
  Proof. destruct Hu as (_ & Hr & _). destruct d as [ty v|rid ch]; [destruct Hr|]. cbn in *. rewrite Hr. reflexivity. Qed.

  Lemma unique_from_lr t :
    Driver_proofs.wf_tree lexeme ttype G t -> Driver.root lexeme ttype t = NT start -> Driver.yield lexeme t = w -> lr_o t = d.
  Proof.
    intros Hw Hr Hy. destruct Hu as (_ & _ & Huniq). destruct (lr_o_wf rules nt_ix t_ix nt_inj t_inj t Hw) as [Hwo Hyo].
    apply Huniq; [exact Hwo| |congruence].
    pose proof (lr_o_root rules nt_ix t_ix t Hw) as Hs. rewrite Hr in Hs.
    destruct t as [k|r cs]; [discriminate|]. cbn [Engines.lr_o osym oroot_is] in *. injection Hs as Hs. apply nt_inj. exact Hs.
  Qed.

  Lemma chain_on_d : eval_chain mp (o_dtree rules d) = shape mp (o_dtree rules d).
  Proof. apply eval_chain_shape. apply (wf_otree_dtree rules mp Htable). apply Hu. Qed.

  (* ---- Earley ---------------------------------------------------------------------------------------- *)
  Theorem earley_leg (order : nlabel lexeme -> list (family lexeme) -> list (family lexeme)) :
    (forall l fs f, In f (order l fs) <-> In f fs) ->
    earley_engine rules mp nt_ix t_ix order start w = shape mp (o_dtree rules d).
  Proof.
    intros Hperm. destruct Hu as (Hwf & _ & _).
    destruct (o_dt_wfd rules nt_ix t_ix d Hwf) as [Hwd Hy]. rewrite osym_d in Hwd.
    set (occ := fun (x : lexeme) (i : nat) => match nth_error w i with Some y => lexeme_eqb x y | None => false end).
    assert (occ_spec : forall x i, occ x i = true <-> nth_error w i = Some x).
    { intros x i. unfold occ. destruct (nth_error w i) as [y|]; [|split; discriminate].
      rewrite lexeme_eqb_spec. split; [intros ->; reflexivity|intros [= ->]; reflexivity]. }
    assert (ps : forall a r, In r (pred_lookup G (pred_table G) a) -> In r G /\ lc_reach G a (lhs r)).
    { intros a r. rewrite pred_lookup_eq. apply predictions_spec. }
    assert (pd : forall a r, In r G -> lhs r = a -> In r (pred_lookup G (pred_table G) a)).
    { intros a r. rewrite pred_lookup_eq. apply predictions_direct. }
    destruct (model_forest_complete G _ lexeme lx_match start w ps pd occ occ_spec _ Hwd Hy) as [Hacc Hden].
    unfold earley_engine. rewrite Hacc. rewrite gres_cb_spec.
    set (fams := snd (iparse G (pred_lookup G (pred_table G)) lexeme lx_match start w)) in *.
    pose proof (graph_resolve_total lexeme lexeme_eqb lexeme_eqb_spec fams order Hperm _ _ _ _ Hden) as Hne.
    destruct (graph_resolve lexeme lexeme_eqb fams order (NSym lexeme start 0 (length w))) as [d'|] eqn:Eg; [|exfalso; apply Hne; exact Eg].
    pose proof (graph_resolve_in_den lexeme lexeme_eqb lexeme_eqb_spec fams order Hperm _ _ _ _ Eg) as Hd'.
    apply (model_forest_exact G _ lexeme lx_match start w ps pd occ occ_spec (or_introl Hacc)) in Hd'.
    destruct Hd' as (d0 & [= <-] & Hw' & Hy').
    etransitivity; [exact (pick_single _ (evald lexeme (option stree) (cbo rules mp nt_ix t_ix) tokv) d' Eg)|].
    destruct (dt_lr_wf rules nt_ix t_ix d' _ Hw') as (Hwt & Hrt & Hyt).
    rewrite evald_lr, evalt_lr.
    rewrite (unique_from_lr _ Hwt Hrt (eq_trans Hyt Hy')). apply chain_on_d.
  Qed.

  (* ---- LALR -------------------------------------------------------------------------------------------- *)
  Variable prio : list Z.
  Variables rootnt tEND fuel : nat.
  Variable A : Automaton.lr0.
  Variable rel : Automaton.relations.
  Variable LA : list (nat * nat * nat).
  Variable R : Driver.rows.
  Variable qe : nat.
  Variable e : lexeme.
  Hypothesis HT : Automaton.compute_lalr (G ++ [mkRule rootnt [NT start]]) prio [length G] tEND fuel = Automaton.ATable A rel LA R.
  Hypothesis Hfresh : forall r, In r G -> ~ In (NT rootnt) (rhs r).
  Hypothesis Hne : start <> rootnt.
  Hypothesis Hqe : Automaton.end_state (G ++ [mkRule rootnt [NT start]]) [length G] A 0 = Some qe.
  Hypothesis Hcf : Lalr_complete.conflict_free A LA.
  Hypothesis He : ttype e = tEND.

  Theorem lalr_leg :
    exists f, lalr_engine rules mp nt_ix t_ix (Driver.ptable_of_rows R 0 qe) f w e = shape mp (o_dtree rules d).
  Proof.
    destruct Hu as (Hwf & _ & _).
    destruct (o_dt_wfd rules nt_ix t_ix d Hwf) as [Hwd Hy]. rewrite osym_d in Hwd.
    pose proof (wfd_derives G lexeme lx_match _ _ Hwd) as Hd. rewrite Hy in Hd.
    apply (derives_tokmap G lexeme nat lx_match (Driver_proofs.tmatch nat (fun k => k)) ttype) in Hd; [|intros t k H; exact H].
    destruct (Lalr_complete.model_complete_user G prio rootnt start tEND fuel A rel LA R qe _ HT Hfresh Hne Hqe Hcf Hd) as (f & tn & Hp).
    exists f.
    pose proof (parse_tokmap lexeme nat ttype ttype (fun k => k) (fun k => eq_refl) (Driver.ptable_of_rows R 0 qe) f w e) as Hm.
    rewrite He, Hp in Hm.
    destruct (Driver.parse lexeme ttype (Driver.ptable_of_rows R 0 qe) f w e) as [c|t'|c|c|c|] eqn:Ep; try discriminate.
    set (rules' := G ++ [mkRule rootnt [NT start]]) in *.
    assert (Hfresh' : forall r, In r rules' -> ~ In (NT rootnt) (rhs r)).
    { intros r Hr. apply in_app_iff in Hr. destruct Hr as [Hr|[<-|[]]]; auto. cbn. intros [E|[]]. congruence. }
    assert (WI : Driver_proofs.wf_items rules' (Automaton_wf.model_ptable R 0 qe) start (Automaton_wf.model_items rules' A)).
    { apply (Automaton_wf.model_wf_items rules' prio [length G] tEND fuel A rel LA R HT) with (r0 := length G) (rootnt := rootnt); auto.
      - repeat constructor. intros [].
      - intros r [<-|[]]. unfold rules'. rewrite app_length. cbn. lia.
      - unfold Automaton.rule_at, rules'. apply nth_middle. }
    pose proof (Driver_proofs.wf_items_table _ _ _ _ WI) as WF.
    destruct (Driver_proofs.driver_sound lexeme ttype rules' _ start WF f w e t' Ep) as (Hwt & Hrt & Hyt & _).
    apply (wf_tree_no_root lexeme ttype G (mkRule rootnt [NT start]) Hfresh) in Hwt; [|rewrite Hrt; cbn; congruence].
    unfold lalr_engine. rewrite vparse_sim, Ep. cbn [omap]. rewrite evalt_lr.
    rewrite (unique_from_lr _ Hwt Hrt Hyt). apply chain_on_d.
  Qed.
End Legs.
