(* Comparison helpers for the generated correspondence cases of C03 / C16 (no proofs). *)
From Coq Require Import String Ascii List Bool Arith.
From LV Require Import Base.Prelude Forest.Sppf Forest.Prio Shape.Chain Shape.Spec Shape.Transform Shape.Ebnf Shape.EarleyLeg Shape.Cnf Shape.CykParse Shape.CnfLink.
Import ListNotations.

Fixpoint stree_eqb (a b : stree) : bool :=
  match a, b with
  | Tok t1 v1, Tok t2 v2 => String.eqb t1 t2 && String.eqb v1 v2
  | NoneV, NoneV => true
  | Tr n1 c1, Tr n2 c2 =>
      String.eqb n1 n2 &&
      (fix go (x y : list stree) : bool :=
         match x, y with
         | [], [] => true
         | a' :: x', b' :: y' => stree_eqb a' b' && go x' y'
         | _, _ => false
         end) c1 c2
  | _, _ => false
  end.

Fixpoint value_eqb (a b : value) : bool :=
  let go := fix go (x y : list value) : bool :=
              match x, y with
              | [], [] => true
              | a' :: x', b' :: y' => value_eqb a' b' && go x' y'
              | _, _ => false
              end in
  match a, b with
  | VTok t1 v1, VTok t2 v2 => String.eqb t1 t2 && String.eqb v1 v2
  | VNone, VNone => true
  | VTree n1 c1, VTree n2 c2 => String.eqb n1 n2 && go c1 c2
  | VUser n1 c1, VUser n2 c2 => String.eqb n1 n2 && go c1 c2
  | _, _ => false
  end.

Fixpoint list_eqb {A} (f : A -> A -> bool) (a b : list A) : bool :=
  match a, b with
  | [], [] => true
  | x :: a', y :: b' => f x y && list_eqb f a' b'
  | _, _ => false
  end.

Definition t3_eqb (a b : nat * bool * nat) : bool :=
  Nat.eqb (fst (fst a)) (fst (fst b)) && Bool.eqb (snd (fst a)) (snd (fst b)) && Nat.eqb (snd a) (snd b).
Definition t2_eqb (a b : nat * bool) : bool := Nat.eqb (fst a) (fst b) && Bool.eqb (snd a) (snd b).

Definition cfilter_eqb (a b : cfilter) : bool :=
  match a, b with
  | CF t1 n1, CF t2 n2 => list_eqb t3_eqb t1 t2 && Nat.eqb n1 n2
  | CFLALR t1 n1, CFLALR t2 n2 => list_eqb t3_eqb t1 t2 && Nat.eqb n1 n2
  | CFNoPH t1, CFNoPH t2 => list_eqb t2_eqb t1 t2
  | _, _ => false
  end.

Definition wrapper_eqb (a b : wrapper) : bool :=
  match a, b with
  | WExpand1, WExpand1 => true
  | WFilter f, WFilter g => cfilter_eqb f g
  | _, _ => false
  end.

(* observation of one call of lark's callback object:
   None = AssertionError while building the callback, Some None = the call raised
   (AttributeError / IndexError), Some (Some t) = returned t *)
Definition cb_obs := option (option stree).

Definition obs_eqb (m : res (option stree)) (o : cb_obs) : bool :=
  match m, o with
  | Ok (Some a), Some (Some b) => stree_eqb a b
  | Ok None, Some None => true
  | AssertFail, None => true
  | _, _ => false
  end.

(* one rule record with the wrapper chain lark built for it (innermost first; None = assertion)
   and calls on several children lists *)
Definition cb_case := (rrec * bool * bool * option (list wrapper) * list (list stree * cb_obs))%type.

Definition cb_check (c : cb_case) : bool :=
  let '(r, mp, amb, chain, calls) := c in
  match wrapper_chain r mp amb, chain with
  | Ok ws, Some ws' => list_eqb wrapper_eqb ws ws'
  | AssertFail, None => true
  | _, _ => false
  end
  && forallb (fun call => obs_eqb (tree_callback r mp amb (fst call)) (snd call)
                          (* the independent specification gives the same answer (chain_spec) *)
                          && (negb (rule_wf r mp) || negb (Nat.eqb (length (fst call)) (length (r_exp r)))
                              || obs_eqb (Ok (spec_rule stree NoneV skids no_user Tr r mp (fst call))) (snd call)))
             calls.

(* end to end: a derivation lark's LALR driver followed (rule records of the compiled grammar)
   and the tree lark returned *)
Definition e2e_case := (bool * dtree * stree)%type.

Definition e2e_check (c : e2e_case) : bool :=
  let '(mp, d, t) := c in
  wf_dtree mp d
  && match shape mp d with Some t' => stree_eqb t t' | None => false end
  && match lalr_run mp (postorder d) with Some [t'] => stree_eqb t t' | _ => false end.

(* FindRuleSize: keep_all, the rule tree, FindRuleSize(keep_all).transform(tree), and the number
   of _EMPTY symbols in the second alternative returned by EBNF_to_BNF.maybe(tree) *)
Definition frs_case := (bool * ebnf * nat * nat)%type.

Definition frs_check (c : frs_case) : bool :=
  let '(ka, e, n, m) := c in
  wf_ebnf e && Nat.eqb (frs ka e) n && Nat.eqb n m && Nat.eqb (longest ka e) n.

(* all C03 case kinds in one list (fewer generated files) *)
(* Earley / resolve leg: rule table of the compiled grammar (rule ids = indices), maybe_placeholders,
   whether a ForestSumVisitor ran, the forest lark built and the tree Lark.parse returned *)
Definition earley_case := (list rrec * bool * bool * Sppf.sym * stree)%type.

Definition earley_check (c : earley_case) : bool :=
  let '(rules, mp, summed, s, t) := c in
  wfb s
  && match (if summed then earley_resolve rules mp s else earley_resolve_none rules mp s) with
     | Some [t'] => stree_eqb t t'
     | _ => false
     end
  (* ... and it is the shape of the derivation the resolve-mode walk selects *)
  && match (if summed then resolve s else resolve_none s) with
     | [d] => wf_dtree mp (to_dtree rules d)
              && match shape mp (to_dtree rules d) with Some t' => stree_eqb t t' | None => false end
     | _ => false
     end.

(* CYK leg.  The CNF grammar cyk.to_cnf built (as a set) against the model *)
Definition cset_incl (a b : list crule) : bool := forallb (fun x => existsb (crule_eqb x) b) a.
Definition cnfg_case := (list rrec * list crule)%type.
(* ... and the hypothesis of C03_cyk_engine evaluated on both: canonical rules only, all enumerated canonical
   rules present, acyclic unit rules (CnfLink.closure_check), CNF shape *)
Definition cnfg_check (c : cnfg_case) : bool :=
  match to_cnf 400 (fst c) with
  | Ok g => cset_incl g (snd c) && cset_incl (snd c) g
            (* closure_check is invariant under set equality: evaluated once, on the grammar lark built *)
            && closure_check (fst c) (snd c) && forallb cnf_shape (snd c)
  | _ => false
  end.
(* the same alone *)
Definition closure_case_check (c : cnfg_case) : bool :=
  closure_check (fst c) (snd c) && forallb cnf_shape (snd c).
(* lenient form: lark's grammar is a subset of the model's and lacks only unit-skip rules (cyk.UnitSkipRule
   equality ignores lhs/rhs, so _remove_unit_rule can drop a second rule: known finding) *)
Definition cnfg_check_lenient (c : cnfg_case) : bool :=
  match to_cnf 400 (fst c) with
  | Ok g => cset_incl (snd c) g
            && forallb (fun x => existsb (crule_eqb x) (snd c) || nonempty (c_skipped x)) g
  | _ => false
  end.

Fixpoint ctree_eqb (a b : ctree) : bool :=
  match a, b with
  | CLeaf t1 v1, CLeaf t2 v2 => String.eqb t1 t2 && String.eqb v1 v2
  | CNode r1 c1, CNode r2 c2 =>
      crule_eqb r1 r2 &&
      (fix go (x y : list ctree) : bool :=
         match x, y with [], [] => true | a' :: x', b' :: y' => ctree_eqb a' b' && go x' y' | _, _ => false end) c1 c2
  | _, _ => false
  end.

Fixpoint otree_eqb (a b : otree) : bool :=
  match a, b with
  | OLeaf t1 v1, OLeaf t2 v2 => String.eqb t1 t2 && String.eqb v1 v2
  | ONode r1 c1, ONode r2 c2 =>
      Nat.eqb r1 r2 &&
      (fix go (x y : list otree) : bool :=
         match x, y with [], [] => true | a' :: x', b' :: y' => otree_eqb a' b' && go x' y' | _, _ => false end) c1 c2
  | _, _ => false
  end.

(* one CYK parse: rule table, maybe_placeholders, the CNF parse tree handed to revert_cnf, the tree
   revert_cnf returned (rule indices through the aliases), the tree Lark.parse returned *)
Definition cyk_case := (list rrec * bool * ctree * otree * stree)%type.

(* 0 = all observations reproduced *)
Definition cyk_diag (c : cyk_case) : nat :=
  let '(rules, mp, cn, o, t) := c in
  if negb (wf_otree rules o) then 1
  else if negb (match to_otree (revert cn) with Some o' => otree_eqb o o' | None => false end) then 2
  else if negb (ctree_eqb (cnf_of rules o) cn) then 3
  else if negb (match shape mp (o_dtree rules o) with Some t' => stree_eqb t t' | None => false end) then 4
  else 0.
Definition cyk_check (c : cyk_case) : bool := Nat.eqb (cyk_diag c) 0.

(* cyk._parse: CNF grammar, tokens, and for every span (start i, length l) the set table[(i, i+l-1)] and the
   dict trees[(i, i+l-1)] lark built *)
Fixpoint cderb (g : list crule) (t : ctree) (s : csym) : bool :=
  match t, s with
  | CLeaf ty _, CT t' => String.eqb ty t'
  | CNode r ch, CN a =>
      cnt_eqb (c_lhs r) a && existsb (crule_eqb r) g &&
      (fix go (x : list ctree) (y : list csym) : bool :=
         match x, y with [], [] => true | c :: x', sy :: y' => cderb g c sy && go x' y' | _, _ => false end) ch (c_rhs r)
  | _, _ => false
  end.

Definition ctoken_eqb (a b : ctoken) : bool := String.eqb (fst a) (fst b) && String.eqb (snd a) (snd b).

Definition parse_case := (list crule * list ctoken * list (nat * nat * list crule * tcell))%type.

Definition parse_check (c : parse_case) : bool :=
  let '(g, w, cells) := c in
  forallb (fun x : nat * nat * list crule * tcell =>
             let '(i, l, rs, ts) := x in
             let m := cyk_cell g w l i in
             cset_incl (fst m) rs && cset_incl rs (fst m)
             (* the same non-terminals have a tree; lark's tree is a CNF derivation of the span *)
             && forallb (fun at_ : cnt * ctree => match tlookup (fst at_) (snd m) with Some _ => true | None => false end) ts
             && forallb (fun at_ : cnt * ctree => match tlookup (fst at_) ts with Some _ => true | None => false end) (snd m)
             && forallb (fun at_ : cnt * ctree =>
                           cderb g (snd at_) (CN (fst at_))
                           && list_eqb ctoken_eqb (cyield (snd at_)) (firstn l (skipn i w))) ts)
          cells.

Inductive c03_case := CaseCB (c : cb_case) | CaseE2E (c : e2e_case) | CaseFRS (c : frs_case)
                    | CaseEARLEY (c : earley_case) | CaseCNFG (c : cnfg_case) | CaseCNFGL (c : cnfg_case) | CaseCYK (c : cyk_case) | CasePARSE (c : parse_case)
                    | CaseCLOSURE (c : cnfg_case).
Definition c03_check (c : c03_case) : bool :=
  match c with CaseCB x => cb_check x | CaseE2E x => e2e_check x | CaseFRS x => frs_check x
             | CaseEARLEY x => earley_check x | CaseCNFG x => cnfg_check x | CaseCNFGL x => cnfg_check_lenient x
             | CaseCYK x => cyk_check x | CasePARSE x => parse_check x | CaseCLOSURE x => closure_case_check x end.

(* C16 ------------------------------------------------------------------------------------ *)
(* the symbolic transformer: callbacks on the listed rule names / terminal types build tagged nodes *)
Fixpoint assoc_str (k : string) (l : list (string * string)) : option string :=
  match l with [] => None | (k', v) :: r => if String.eqb k k' then Some v else assoc_str k r end.

(* rules / toks: (name the callback is attached under, tag of the value it builds).  The tag records which
   callback object ran and the node name it was handed (tree.data / the wrapper's data), as the generated
   python callbacks do, so a callback invoked under the wrong name is visible *)
Definition sym_T (rules toks : list (string * string)) : transformer :=
  mkT (fun n => match assoc_str n rules with Some tag => Some (fun vs => VUser tag vs) | None => None end)
      (fun ty => match assoc_str ty toks with Some tag => Some (fun t v => VUser tag [VTok t v]) | None => None end).

Definition log_eqb (a b : log) : bool := list_eqb path_eqb a b.

(* one tree with the observed value (the same for the four classes), the observed call log of
   Transformer / Transformer_NonRecursive / Transformer_InPlaceRecursive (the same list for the
   three) and the observed call log of Transformer_InPlace *)
Definition tr_case := (list (string * string) * list (string * string) * bool * stree * value * log * log)%type.

Definition tr_check (c : tr_case) : bool :=
  let '(rules, toks, vt, t, v, lpost, lip) := c in
  let T := sym_T rules toks in
  let ok (m : option (value * log)) (l : log) :=
    match m with Some (v', l') => value_eqb v' v && log_eqb l' l | None => false end in
  ok (Some (transform_rec T vt t)) lpost && ok (transform_nr T vt t) lpost
  && ok (transform_ip T vt t) lip && ok (Some (transform_ipr T vt t)) lpost.

(* embedded: derivation, the value lark returned with transformer=T, the tree without *)
Definition emb_case := (list (string * string) * list (string * string) * bool * bool * dtree * value * stree)%type.

Definition emb_check (c : emb_case) : bool :=
  let '(rules, toks, vt, mp, d, v, t) := c in
  let T := sym_T rules toks in
  wf_dtree mp d
  && match embedded T vt mp d with Some v' => value_eqb v v' | None => false end
  && match embedded_run T vt mp (postorder d) with Some [v'] => value_eqb v v' | _ => false end
  && match shape mp d with Some t' => stree_eqb t t' && value_eqb v (tr T vt t') | None => false end.

Inductive c16_case := CaseTR (c : tr_case) | CaseEMB (c : emb_case).
Definition c16_check (c : c16_case) : bool :=
  match c with CaseTR x => tr_check x | CaseEMB x => emb_check x end.
