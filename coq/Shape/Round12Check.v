(* Comparison helpers for the round-12 correspondence cases of C16 / C03 (no proofs). *)
From Coq Require Import String Ascii List Bool Arith.
From LV Require Import Base.Prelude Shape.Chain Shape.Spec Shape.Transform Shape.ChainCheck Shape.GenTie Shape.Lookup
  Shape.VArgs Shape.InPlaceDag.
Import ListNotations.
Local Open Scope string_scope.

Definition tags := list (string * string).

(* an object with a history: tags of the callbacks its attribute state NOW has, the tree, the value the real
   object returned (the same for the four classes) *)
Definition hist_case := (tags * tags * bool * stree * value)%type.
Definition hist_check (c : hist_case) : bool :=
  let '(rt, tk, vt, t, v) := c in
  let T := sym_T rt tk in
  value_eqb (tr T vt t) v
  && value_eqb (fst (transform_rec T vt t)) v
  && match transform_nr T vt t with Some (v', _) => value_eqb v' v | None => false end
  && match transform_ip T vt t with Some (v', _) => value_eqb v' v | None => false end
  && value_eqb (fst (transform_ipr T vt t)) v.

(* merge_transformers(base, prefix=sub): base tags, prefix, sub's own tags *)
Definition merge_case := (tags * tags * string * tags * tags * bool * stree * value)%type.
Definition merge_check (c : merge_case) : bool :=
  let '(rt0, tk0, p, srt, stt, vt, t, v) := c in
  value_eqb (tr (merge_T (sym_T rt0 tk0) (sym_T srt stt) p) vt t) v.

(* v_args adapters: wrapper kind, callback name, func.__name__, children, what the recording function saw through
   Transformer._call_userfunc, through create_callback's wrapping for a Transformer, and for a Transformer_InPlace
   (None = NotImplementedError) *)
Definition rec_f : ufun := fun a =>
  match a with
  | AList ch => VUser "list:" ch
  | AStar ch => VUser "star:" ch
  | ATree d ch _ => VUser ("tree:" ++ d) ch
  | AMeta _ ch => VUser "meta:" ch
  | AMetaStar _ ch => VUser "metastar:" ch
  end.
Definition wrap_of (k : string) : option vwrap :=
  if String.eqb k "inline" then Some VInline
  else if String.eqb k "tree" then Some VTreeW
  else if String.eqb k "meta" then Some VMeta
  else if String.eqb k "meta_inline" then Some VMetaInline
  else if String.eqb k "custom" then Some (VCustom (fun _ d ch _ => VUser ("custom:" ++ d) ch))
  else None.
Definition ovalue_eqb (a b : option value) : bool :=
  match a, b with Some x, Some y => value_eqb x y | None, None => true | _, _ => false end.
Definition vargs_case := (string * string * string * list value * value * option value * option value)%type.
Definition vargs_check (c : vargs_case) : bool :=
  let '(k, name, fname, ch, post, emb, emb_ip) := c in
  let u := mkU rec_f (wrap_of k) in
  value_eqb (posthoc_call u name ch (MSome 0)) post
  && ovalue_eqb (embedded_call u name ch) emb
  && ovalue_eqb (embedded_call_inplace u fname name ch) emb_ip.

(* DAG-shaped inputs: the heap of Tree objects (root = object 0), the order Tree.iter_subtrees returned (as
   addresses), the final value of Transformer_InPlace and of Transformer_InPlaceRecursive *)
Definition dag_case := (tags * tags * bool * dheap * list nat * value * value)%type.
Definition dag_diag (c : dag_case) : nat :=
  let '(rt, tk, vt, H, order, vip, vipr) := c in
  let T := sym_DT rt tk in
  if negb (match iter_subtrees_dag 4000 H 0 with Some o => list_eqb Nat.eqb o order | None => false end) then 1
  else if negb (match transform_ip_dag T vt 4000 H 0 with
                | Some (H', r) => ovalue_eqb (reify 200 H' r) (Some vip)
                | None => false
                end) then 2
  else if negb (match ipr_val T vt 2000 H (XRef 0) with
                | Some (H', r) => ovalue_eqb (reify 200 H' r) (Some vipr)
                | None => false
                end) then 3
  else 0.
Definition dag_check (c : dag_case) : bool := Nat.eqb (dag_diag c) 0.

Inductive c16r_case := CaseOld (c : c16_case) | CaseHIST (c : hist_case) | CaseMERGE (c : merge_case)
                     | CaseVARGS (c : vargs_case) | CaseDAG (c : dag_case).
Definition c16r_check (c : c16r_case) : bool :=
  match c with CaseOld x => c16_check x | CaseHIST x => hist_check x | CaseMERGE x => merge_check x
             | CaseVARGS x => vargs_check x | CaseDAG x => dag_check x end.
