(* Transformer_InPlace: processing the subtrees in iter_subtrees order (reversed breadth-first)
   and then calling the root's callback returns the same value as the recursive Transformer. *)
From Coq Require Import String Ascii List Bool Arith Lia Permutation.
From LV Require Import Base.Prelude Shape.Chain Shape.Spec Shape.Transform Shape.Transform_proofs.
Import ListNotations.

Lemma path_eqb_eq a b : path_eqb a b = true <-> a = b.
Proof.
  revert b; induction a as [|x a IH]; intros [|y b]; simpl; split; intros H; try discriminate; auto.
  - apply andb_true_iff in H. destruct H as [H1 H2]. apply Nat.eqb_eq in H1. apply IH in H2. congruence.
  - injection H as -> ->. rewrite Nat.eqb_refl. apply IH. reflexivity.
Qed.

Lemma path_eqb_refl a : path_eqb a a = true.
Proof. apply path_eqb_eq. reflexivity. Qed.

(* the subtree at a path *)
Fixpoint subtree (t : stree) (p : path) : option stree :=
  match p with
  | [] => Some t
  | i :: p' => match t with
               | Tr _ ch => match nth_error ch i with Some c => subtree c p' | None => None end
               | _ => None
               end
  end.

Lemma subtree_snoc t p i :
  subtree t (p ++ [i]) = match subtree t p with
                         | Some (Tr _ ch) => nth_error ch i
                         | _ => None
                         end.
Proof.
  revert t; induction p as [|j p IH]; intros t; simpl.
  - destruct t as [| n ch |]; auto. destruct (nth_error ch i); auto.
  - destruct t as [| n ch |]; auto. destruct (nth_error ch j); auto.
Qed.

Lemma in_with_paths p q c : forall ch i,
  In (q, c) (with_paths p i ch) <-> exists j, q = p ++ [i + j] /\ nth_error ch j = Some c.
Proof.
  induction ch as [|x ch IH]; intros i; simpl.
  - split; [tauto|]. intros (j & _ & H). destruct j; discriminate.
  - split.
    + intros [H|H].
      * injection H as <- <-. exists 0. rewrite Nat.add_0_r. auto.
      * apply IH in H. destruct H as (j & -> & H). exists (S j). split; auto. f_equal. f_equal. lia.
    + intros ([|j] & -> & H).
      * left. simpl in H. injection H as ->. rewrite Nat.add_0_r. reflexivity.
      * right. apply IH. exists j. split; auto. f_equal. f_equal. lia.
Qed.

Section IP.
  Variable T : transformer.
  Variable vt : bool.
  Variable root : stree.
  Notation tr := (tr T vt).

  Definition cons_ok (x : path * stree) : Prop := subtree root (fst x) = Some (snd x).

  Lemma kids_cons_ok p t : cons_ok (p, t) -> Forall cons_ok (tree_kids p t).
  Proof.
    intros H. apply Forall_forall. intros [q c] Hin. unfold tree_kids in Hin.
    destruct t as [| n ch |]; simpl in Hin; try tauto.
    apply filter_In in Hin. destruct Hin as [Hin _]. apply in_with_paths in Hin.
    destruct Hin as (j & -> & Hj). unfold cons_ok in *. simpl in *.
    rewrite subtree_snoc, H. exact Hj.
  Qed.

  (* ---- facts about the breadth-first queue ------------------------------------------------ *)
  Lemma bfs_incl : forall f q l, bfs f q = Some l -> incl q l.
  Proof.
    induction f as [|f IH]; intros [|[p t] rest] l H; simpl in H; try discriminate.
    - intros x [].
    - intros x [].
    - destruct (bfs f (rest ++ rev (tree_kids p t))) as [l'|] eqn:E; [|discriminate].
      injection H as <-. apply IH in E. intros x [<-|Hx]; [left; auto|right].
      apply E. apply in_or_app. auto.
  Qed.

  Lemma bfs_split : forall f q l, bfs f q = Some l -> forall e, In e l ->
    exists l1 l2, l = l1 ++ e :: l2 /\ incl (tree_kids (fst e) (snd e)) l2.
  Proof.
    induction f as [|f IH]; intros [|[p t] rest] l H e He; simpl in H; try discriminate.
    - injection H as <-. destruct He.
    - injection H as <-. destruct He.
    - destruct (bfs f (rest ++ rev (tree_kids p t))) as [l'|] eqn:E; [|discriminate].
      injection H as <-. destruct He as [<-|He].
      + exists [], l'. split; auto. simpl. apply bfs_incl in E.
        intros x Hx. apply E. apply in_or_app. right. apply in_rev. rewrite rev_involutive. exact Hx.
      + destruct (IH _ _ E e He) as (l1 & l2 & -> & Hk). exists ((p, t) :: l1), l2. auto.
  Qed.

  Lemma bfs_cons_ok : forall f q l, bfs f q = Some l -> Forall cons_ok q -> Forall cons_ok l.
  Proof.
    induction f as [|f IH]; intros [|[p t] rest] l H Hq; simpl in H; try discriminate.
    - injection H as <-. constructor.
    - injection H as <-. constructor.
    - destruct (bfs f (rest ++ rev (tree_kids p t))) as [l'|] eqn:E; [|discriminate].
      injection H as <-. inversion Hq; subst. constructor; auto.
      apply (IH _ _ E). apply Forall_app. split; auto.
      apply Forall_forall. intros x Hx. apply in_rev in Hx.
      eapply Forall_forall in Hx; [exact Hx|]. apply kids_cons_ok. assumption.
  Qed.

  Lemma total_filter (g : path * stree -> bool) l : total (filter g l) <= total l.
  Proof. induction l as [|x l IH]; simpl; auto. destruct (g x); unfold total in *; simpl; lia. Qed.

  Lemma bfs_fuel : forall f q, total q <= f -> exists l, bfs f q = Some l.
  Proof.
    induction f as [|f IH]; intros [|[p t] rest] Hf; simpl; eauto.
    - unfold total in Hf. simpl in Hf. destruct t; simpl in Hf; lia.
    - destruct (IH (rest ++ rev (tree_kids p t))) as [l ->]; simpl; eauto.
      rewrite total_app, total_rev. unfold total in Hf. simpl in Hf. fold (total rest) in Hf.
      destruct t as [ty v| n ch |]; simpl in *; try lia.
      pose proof (total_filter (fun x => is_tree (snd x)) (with_paths p 0 ch)).
      rewrite total_with_paths in H. lia.
  Qed.

  (* ---- the heap invariant ------------------------------------------------------------------- *)
  Definition good (h : heap) : Prop :=
    forall q vs, hlookup h q = Some vs -> forall n ch, subtree root q = Some (Tr n ch) -> vs = map tr ch.

  Lemma ip_children_value h p : good h -> forall ch i,
    (forall j c, nth_error ch j = Some c -> subtree root (p ++ [i + j]) = Some c) ->
    (forall j n ch', nth_error ch j = Some (Tr n ch') -> exists vs, hlookup h (p ++ [i + j]) = Some vs) ->
    fst (ip_children T vt h p i ch) = map tr ch.
  Proof.
    intros Hg. induction ch as [|c ch IH]; intros i Hs Hh; simpl; auto.
    assert (E : fst (ip_children T vt h p (S i) ch) = map tr ch).
    { apply IH.
      - intros j c' Hj. replace (S i + j) with (i + S j) by lia. apply (Hs (S j) c' Hj).
      - intros j n ch' Hj. replace (S i + j) with (i + S j) by lia. apply (Hh (S j) n ch' Hj). }
    destruct (ip_children T vt h p (S i) ch) as [vs l2]. simpl in E. subst vs.
    destruct c as [ty v|n ch'|]; simpl; auto.
    f_equal. unfold cur_children.
    destruct (Hh 0 n ch' eq_refl) as [vs Hvs]. rewrite Nat.add_0_r in Hvs. rewrite Hvs.
    rewrite (Hg _ _ Hvs n ch'); auto.
    specialize (Hs 0 _ eq_refl). rewrite Nat.add_0_r in Hs. exact Hs.
  Qed.

  Lemma ip_fold_snoc a x :
    ip_fold T vt (a ++ [x]) = let '(h', l') := ip_step T vt (fst (ip_fold T vt a)) x in (h', snd (ip_fold T vt a) ++ l').
  Proof. unfold ip_fold. rewrite fold_left_app. reflexivity. Qed.

  Lemma bfs_heap : forall f q l, bfs f q = Some l -> Forall cons_ok q ->
    good (fst (ip_fold T vt (rev l))) /\
    forall p n ch, In (p, Tr n ch) l -> hlookup (fst (ip_fold T vt (rev l))) p = Some (map tr ch).
  Proof.
    induction f as [|f IH]; intros [|[p t] rest] l H Hq; simpl in H; try discriminate.
    - injection H as <-. split; [intros q vs Hl; discriminate|intros ? ? ? []].
    - injection H as <-. split; [intros q vs Hl; discriminate|intros ? ? ? []].
    - destruct (bfs f (rest ++ rev (tree_kids p t))) as [l'|] eqn:E; [|discriminate].
      injection H as <-. inversion Hq as [|? ? Hpt Hrest]; subst.
      assert (Hq' : Forall cons_ok (rest ++ rev (tree_kids p t))).
      { apply Forall_app. split; auto. apply Forall_forall. intros x Hx. apply in_rev in Hx.
        eapply Forall_forall in Hx; [exact Hx|]. apply kids_cons_ok. assumption. }
      destruct (IH _ _ E Hq') as [Hg Hl].
      pose proof (bfs_cons_ok _ _ _ E Hq') as Hc'.
      pose proof (bfs_incl _ _ _ E) as Hincl.
      simpl rev. rewrite ip_fold_snoc.
      set (h := fst (ip_fold T vt (rev l'))) in *.
      destruct t as [ty v|n ch|]; unfold ip_step; simpl.
      + split; auto. intros p' n' ch' [Hx|Hx]; [discriminate|]. apply (Hl _ n' _ Hx).
      + assert (Hv : fst (ip_children T vt h p 0 ch) = map tr ch).
        { apply ip_children_value; auto.
          - intros j c Hj. simpl. rewrite subtree_snoc. unfold cons_ok in Hpt. simpl in Hpt. rewrite Hpt. exact Hj.
          - intros j n' ch' Hj. eexists. apply (Hl _ n' ch'). apply Hincl. apply in_or_app. right.
            apply in_rev. rewrite rev_involutive. unfold tree_kids. apply filter_In. split; auto.
            apply in_with_paths. exists j. auto. }
        destruct (ip_children T vt h p 0 ch) as [vs lg]. simpl in Hv. subst vs. simpl.
        split.
        * intros q vs Hlk n' ch' Hsub. simpl in Hlk. destruct (path_eqb p q) eqn:Epq.
          -- apply path_eqb_eq in Epq. subst q. injection Hlk as <-.
             unfold cons_ok in Hpt. simpl in Hpt. rewrite Hpt in Hsub. injection Hsub as -> ->. reflexivity.
          -- eapply Hg; eauto.
        * intros p' n' ch' [Hx|Hx].
          -- injection Hx as -> -> ->. simpl. rewrite path_eqb_refl. reflexivity.
          -- simpl. destruct (path_eqb p p') eqn:Epq.
             ++ apply path_eqb_eq in Epq. subst p'.
                eapply Forall_forall in Hc'; [|exact Hx]. unfold cons_ok in Hc', Hpt. simpl in *.
                rewrite Hpt in Hc'. injection Hc' as -> ->. reflexivity.
             ++ apply (Hl _ n' _ Hx).
      + split; auto. intros p' n' ch' [Hx|Hx]; [discriminate|]. apply (Hl _ n' _ Hx).
  Qed.

  Hypothesis Hroot : exists n ch, root = Tr n ch.

  Theorem transform_ip_value : exists lg, transform_ip T vt root = Some (tr root, lg).
  Proof.
    destruct Hroot as (n & ch & Hr).
    unfold transform_ip, iter_subtrees.
    destruct (bfs_fuel (ssize root) [([], root)]) as [l Hl]; [unfold total; simpl; lia|].
    rewrite Hl. simpl.
    assert (Hq : Forall cons_ok [([], root)]) by (constructor; [reflexivity|constructor]).
    destruct (bfs_heap _ _ _ Hl Hq) as [Hg Hlk].
    destruct (ip_fold T vt (rev l)) as [h lg] eqn:Ef. simpl in *.
    rewrite Hr. eexists. f_equal. f_equal.
    unfold cur_children. rewrite (Hlk [] n ch).
    - rewrite <- Hr. simpl. rewrite Hr. reflexivity.
    - apply (bfs_incl _ _ _ Hl). left. rewrite Hr. reflexivity.
  Qed.
End IP.
