(* The models of Shape/Chain.v and Shape/Transform.v re-stated over the conditions REGENERATED from the source
   (coq/Gen/ShapeHoles.v, written on every run by translator/gen_shape.py from lark/parse_tree_builder.py,
   lark/visitors.py, lark/parser_frontends.py).  Definitions only; Shape/GenTie_proofs.v proves that the hand
   models are these functions, so a changed condition in lark breaks the proof build (and a changed control
   skeleton breaks the regeneration). *)
From Coq Require Import ZArith String Ascii List Bool Arith.
From LV Require Import Base.Prelude Gen.ShapeHoles Shape.Chain Shape.Spec Shape.Transform.
Import ListNotations.

(* maybe_create_child_filter over the regenerated tests *)
Fixpoint incl_loop_g (keep_all : bool) (ei : list nat) (i : nat) (exp : list sym) (nones : nat)
  : list (nat * bool * nat) * nat :=
  match exp with
  | [] => ([], nones)
  | s :: rest =>
      let nones := nones + nth i ei 0 in
      if g_keep keep_all (s_term s) (s_filter s) then
        let '(l, n) := incl_loop_g keep_all ei (S i) rest 0 in
        ((i, g_should_expand (s_term s) (starts_us (s_name s)), nones) :: l, n)
      else incl_loop_g keep_all ei (S i) rest nones
  end.

Definition maybe_create_child_filter_g (exp : list sym) (keep_all ambiguous : bool) (_ei : list bool)
  : res (option cfilter) :=
  rbind (if nonempty _ei then
           if Nat.eqb (count_false _ei) (length exp) then
             let e := split0 0 _ei in
             if Nat.eqb (length e) (length exp + 1) then Ok e else AssertFail
           else AssertFail
         else Ok (repeat 0 (length exp + 1)))
    (fun ei =>
       let '(to_include, n) := incl_loop_g keep_all ei 0 exp 0 in
       let n := n + nth (length exp) ei 0 in
       if g_filter_needed (nonempty _ei) (Nat.ltb (length to_include) (length exp))
                          (existsb (fun t => snd (fst t)) to_include)
       then if g_placeholder_filter (nonempty _ei) ambiguous
            then Ok (Some (if ambiguous then CF to_include n else CFLALR to_include n))
            else Ok (Some (CFNoPH (map (fun t => (fst (fst t), snd (fst t))) to_include)))
       else Ok None).

(* _init_builders: the wrapper list in the regenerated order; positions and the two ambiguity wrappers are not
   part of Shape/Chain.v (identity on the inputs it is used for) *)
Section Order.
  Variable X : Type.
  Definition wrappers_of_kind (r : rrec) (cf : option cfilter) (k : wkind) : list wrapper :=
    match k with
    | KExpand1 => if g_expand1 (r_expand1 r) (truthy (r_alias r)) then [WExpand1] else []
    | KChildFilter => match cf with Some f => [WFilter f] | None => [] end
    | KPositions | KAmbigExpander | KAmbigInter => []
    end.

  Definition wrapper_chain_g (r : rrec) (maybe_placeholders ambiguous : bool) : res (list wrapper) :=
    rbind (maybe_create_child_filter_g (r_exp r) (r_keep_all r) ambiguous
             (if maybe_placeholders then r_empty r else []))
      (fun cf => Ok (flat_map (wrappers_of_kind r cf) g_wrapper_order)).

  (* ExpandSingleChild.__call__ over the regenerated test *)
  Definition expand_single_g (node_builder : builder X) : builder X :=
    fun children => if g_single (Z.of_nat (length children))
                    then hd_error children else node_builder children.
End Order.

(* Transformer._transform_children / Transformer_NonRecursive.transform: the value of a token child *)
Definition visit_tok_g (T : transformer) (vt : bool) (ty v : string) : value :=
  if g_visit_token vt true then call_token T ty v else VTok ty v.
Definition visit_tok_nr_g (T : transformer) (vt : bool) (ty v : string) : value :=
  if g_visit_token_nr vt true then call_token T ty v else VTok ty v.
(* the embedded parser: _get_lexer_callbacks installs the terminal callbacks unless ... *)
Definition embedded_tok_g (T : transformer) (vt : bool) (ty v : string) : value :=
  if g_no_lexer_callbacks vt then VTok ty v else call_token T ty v.

(* merge_transformers(base, prefix=t): the callbacks of t re-exported as prefix__name, except the skipped
   names (underscore names and `transform`); callbacks of the base stay *)
Definition has_prefix2 (p n : string) : option string :=
  (* n = p ++ "__" ++ rest *)
  let pre := (p ++ "__")%string in
  if String.prefix pre n then Some (substring (String.length pre) (String.length n - String.length pre) n) else None.

Definition merged_lookup {A} (base sub : string -> option A) (prefix : string) (n : string) : option A :=
  match base n with
  | Some f => Some f
  | None => match has_prefix2 prefix n with
            | Some m => if g_merge_skips (starts_us m) (String.eqb m "transform") then None else sub m
            | None => None
            end
  end.

Definition merge_T (base sub : transformer) (prefix : string) : transformer :=
  mkT (merged_lookup (on_rule base) (on_rule sub) prefix) (merged_lookup (on_token base) (on_token sub) prefix).
