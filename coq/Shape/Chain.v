(* Executable model of lark/parse_tree_builder.py for one compiled rule:
   maybe_create_child_filter, ChildFilter / ChildFilterLALR / ChildFilterLALR_NoPlaceholders,
   ExpandSingleChild, and the composition order of ParseTreeBuilder._init_builders /
   create_callback.  No proofs here (see Chain_proofs.v).

   The node type X is a parameter: X = stree when lark builds trees, X = value when the
   user's transformer callbacks are embedded (C16).  [kids] is the `.children` attribute
   (None = AttributeError: the object is not a Tree), [none] is Python's None.

   Not modelled here: PropagatePositions (C06), AmbiguousExpander and
   AmbiguousIntermediateExpander (C04; both are the identity wrapper on children lists
   without `_ambig` / `_iambig` nodes). *)
From Coq Require Import String Ascii List Bool Arith.
From LV Require Import Base.Prelude.
Import ListNotations.

(* ---- compiled rules as lark stores them ------------------------------------------- *)
Record sym := mkSym { s_term : bool;        (* sym.is_term *)
                      s_name : string;      (* sym.name *)
                      s_filter : bool }.    (* sym.filter_out (False for non-terminals) *)

Record rrec := mkR { r_origin : string;            (* rule.origin.name *)
                     r_exp : list sym;             (* rule.expansion *)
                     r_alias : option string;      (* rule.alias *)
                     r_tsrc : option string;       (* rule.options.template_source *)
                     r_keep_all : bool;            (* rule.options.keep_all_tokens *)
                     r_expand1 : bool;             (* rule.options.expand1 *)
                     r_empty : list bool }.        (* rule.options.empty_indices, () = [] *)

Definition starts_us (s : string) : bool :=
  match s with String c _ => Ascii.eqb c "_"%char | EmptyString => false end.

(* Python truthiness of an optional string *)
Definition truthy (o : option string) : bool :=
  match o with Some (String _ _) => true | _ => false end.

(* rule.alias or rule.options.template_source or rule.origin.name *)
Definition cb_name (r : rrec) : string :=
  match r_alias r with
  | Some (String c a) => String c a
  | _ => match r_tsrc r with
         | Some (String c a) => String c a
         | _ => r_origin r
         end
  end.

(* def _should_expand(sym): return not sym.is_term and sym.name.startswith('_') *)
Definition should_expand (s : sym) : bool := negb (s_term s) && starts_us (s_name s).

(* ---- maybe_create_child_filter ------------------------------------------------------ *)
(* [len(ones) for ones in ''.join(str(int(b)) for b in l).split('0')] *)
Fixpoint split0 (cur : nat) (l : list bool) : list nat :=
  match l with
  | [] => [cur]
  | true :: r => split0 (S cur) r
  | false :: r => cur :: split0 0 r
  end.

Fixpoint count_false (l : list bool) : nat :=
  match l with [] => 0 | true :: r => count_false r | false :: r => S (count_false r) end.

(* the for-loop: returns (to_include, nones_to_add at loop exit) *)
Fixpoint incl_loop (keep_all : bool) (ei : list nat) (i : nat) (exp : list sym) (nones : nat)
  : list (nat * bool * nat) * nat :=
  match exp with
  | [] => ([], nones)
  | s :: rest =>
      let nones := nones + nth i ei 0 in
      if keep_all || negb (s_term s && s_filter s) then
        let '(l, n) := incl_loop keep_all ei (S i) rest 0 in
        ((i, should_expand s, nones) :: l, n)
      else incl_loop keep_all ei (S i) rest nones
  end.

Inductive cfilter :=
| CF (ti : list (nat * bool * nat)) (app : nat)       (* ChildFilter *)
| CFLALR (ti : list (nat * bool * nat)) (app : nat)   (* ChildFilterLALR *)
| CFNoPH (ti : list (nat * bool)).                    (* ChildFilterLALR_NoPlaceholders *)

Definition nonempty {A} (l : list A) : bool := match l with [] => false | _ => true end.

(* _empty_indices = [] stands for both None and the empty tuple (both falsy) *)
Definition maybe_create_child_filter (exp : list sym) (keep_all ambiguous : bool) (_ei : list bool)
  : res (option cfilter) :=
  rbind (if nonempty _ei then
           if Nat.eqb (count_false _ei) (length exp) then
             let e := split0 0 _ei in
             if Nat.eqb (length e) (length exp + 1) then Ok e else AssertFail
           else AssertFail
         else Ok (repeat 0 (length exp + 1)))
    (fun ei =>
       let '(to_include, n) := incl_loop keep_all ei 0 exp 0 in
       let n := n + nth (length exp) ei 0 in
       if nonempty _ei || Nat.ltb (length to_include) (length exp)
          || existsb (fun t => snd (fst t)) to_include
       then if nonempty _ei || ambiguous
            then Ok (Some (if ambiguous then CF to_include n else CFLALR to_include n))
            else Ok (Some (CFNoPH (map (fun t => (fst (fst t), snd (fst t))) to_include)))
       else Ok None).

(* ---- the filters and the chain over an abstract node type ----------------------------- *)
Section Run.
  Variable X : Type.
  Variable none : X.
  Variable kids : X -> option (list X).

  (* ChildFilter.__call__ loop; None = IndexError / AttributeError *)
  Fixpoint run_cf (ti : list (nat * bool * nat)) (children filtered : list X) : option (list X) :=
    match ti with
    | [] => Some filtered
    | (i, to_expand, add_none) :: r =>
        let filtered := filtered ++ repeat none add_none in
        match nth_error children i with
        | None => None
        | Some c =>
            if to_expand then
              match kids c with
              | None => None
              | Some k => run_cf r children (filtered ++ k)
              end
            else run_cf r children (filtered ++ [c])
        end
    end.

  (* ChildFilterLALR.__call__ loop: `filtered = children[i].children` when filtered is empty *)
  Fixpoint run_cflalr (ti : list (nat * bool * nat)) (children filtered : list X) : option (list X) :=
    match ti with
    | [] => Some filtered
    | (i, to_expand, add_none) :: r =>
        let filtered := filtered ++ repeat none add_none in
        match nth_error children i with
        | None => None
        | Some c =>
            if to_expand then
              match kids c with
              | None => None
              | Some k => run_cflalr r children (if nonempty filtered then filtered ++ k else k)
              end
            else run_cflalr r children (filtered ++ [c])
        end
    end.

  Fixpoint run_cfnoph (ti : list (nat * bool)) (children filtered : list X) : option (list X) :=
    match ti with
    | [] => Some filtered
    | (i, to_expand) :: r =>
        match nth_error children i with
        | None => None
        | Some c =>
            if to_expand then
              match kids c with
              | None => None
              | Some k => run_cfnoph r children (if nonempty filtered then filtered ++ k else k)
              end
            else run_cfnoph r children (filtered ++ [c])
        end
    end.

  Definition run_filter (f : cfilter) (children : list X) : option (list X) :=
    match f with
    | CF ti app => option_map (fun l => l ++ repeat none app) (run_cf ti children [])
    | CFLALR ti app => option_map (fun l => l ++ repeat none app) (run_cflalr ti children [])
    | CFNoPH ti => run_cfnoph ti children []
    end.

  (* wrapper_chain of _init_builders (positions / ambiguity wrappers left out, see header) *)
  Inductive wrapper := WExpand1 | WFilter (f : cfilter).

  Definition wrapper_chain (r : rrec) (maybe_placeholders ambiguous : bool) : res (list wrapper) :=
    rbind (maybe_create_child_filter (r_exp r) (r_keep_all r) ambiguous
             (if maybe_placeholders then r_empty r else []))
      (fun cf =>
         Ok ((if r_expand1 r && negb (truthy (r_alias r)) then [WExpand1] else [])
               ++ match cf with Some f => [WFilter f] | None => [] end)).

  Definition builder := list X -> option X.

  Definition apply_wrapper (w : wrapper) (node_builder : builder) : builder :=
    match w with
    | WExpand1 => fun children => match children with [c] => Some c | _ => node_builder children end
    | WFilter f => fun children =>
                     match run_filter f children with
                     | Some l => node_builder l
                     | None => None
                     end
    end.

  (* for w in wrapper_chain: f = w(f) *)
  Definition compose (ws : list wrapper) (f : builder) : builder :=
    fold_left (fun f w => apply_wrapper w f) ws f.

  (* create_callback for one rule.  [user] = getattr(transformer, name) (None when there is no
     transformer or no such attribute), [mk] = tree_class. *)
  Definition callback (user : string -> option (list X -> X)) (mk : string -> list X -> X)
             (r : rrec) (maybe_placeholders ambiguous : bool) : res builder :=
    rbind (wrapper_chain r maybe_placeholders ambiguous)
      (fun ws =>
         let name := cb_name r in
         let f : builder := match user name with
                            | Some g => fun ch => Some (g ch)
                            | None => fun ch => Some (mk name ch)
                            end in
         Ok (compose ws f)).

  Definition run_callback user mk r mp amb (children : list X) : res (option X) :=
    match callback user mk r mp amb with
    | Ok f => Ok (f children)
    | AssertFail => AssertFail
    | OutOfFuel => OutOfFuel
    end.
End Run.

(* ---- shaped trees ---------------------------------------------------------------------- *)
Inductive stree :=
| Tok (ty val : string)
| Tr (name : string) (children : list stree)
| NoneV.

Definition skids (t : stree) : option (list stree) :=
  match t with Tr _ ch => Some ch | _ => None end.

Definition no_user : string -> option (list stree -> stree) := fun _ => None.

(* the callback lark installs for rule r when no transformer is given *)
Definition tree_callback (r : rrec) (mp amb : bool) (children : list stree) : res (option stree) :=
  run_callback stree NoneV skids no_user Tr r mp amb children.
