(* v_args wrappers: the embedded call equals the post-hoc call for every wrapper that takes no meta. *)
From Coq Require Import String Ascii List Bool Arith.
From LV Require Import Base.Prelude Shape.Chain Shape.Spec Shape.Shape_proofs Shape.Transform Shape.Transform_proofs Shape.VArgs.
Import ListNotations.
Local Open Scope string_scope.

Lemma posthoc_call_meta_free c d ch m : meta_free c -> posthoc_call c d ch m = posthoc_call c d ch MNone.
Proof.
  unfold meta_free, posthoc_call. destruct (u_wrap c) as [[| | | |w]|]; cbn; intros H; auto; try contradiction.
Qed.

(* one call: create_callback's wrapper around the user function returns what _call_userfunc returns on the node the
   default callback would have built (tree.data = the callback name), whatever that node's meta is *)
Theorem vargs_call_agree c name ch m : meta_free c -> embedded_call c name ch = Some (posthoc_call c name ch m).
Proof.
  intros H. rewrite (posthoc_call_meta_free c name ch m H). revert H.
  unfold meta_free, embedded_call, posthoc_call. destruct (u_wrap c) as [[| | | |w]|]; cbn; intros H; auto; contradiction.
Qed.

Lemma emb_user_is_vargs_T tbl toks : (forall n c, tbl n = Some c -> meta_free c) ->
  forall n, match emb_user tbl n, on_rule (vargs_T tbl toks) n with
            | Some f, Some g => forall vs, f vs = g vs
            | None, None => True
            | _, _ => False
            end.
Proof.
  intros H n. unfold emb_user, vargs_T. cbn [on_rule]. destruct (tbl n) as [c|] eqn:E; cbn; [|exact I].
  intros vs. rewrite (vargs_call_agree c n vs MNone (H n c E)). reflexivity.
Qed.

(* the meta wrappers are refused by the embedded path (documented), and an embedded Transformer_InPlace hands a
   plain callback a Tree instead of the children list (finding F27) *)
Lemma embedded_meta_refused f name ch : embedded_call (mkU f (Some VMeta)) name ch = None /\
                                       embedded_call (mkU f (Some VMetaInline)) name ch = None.
Proof. split; reflexivity. Qed.

Definition f27_f : ufun := fun a => match a with AList ch => VUser "list" ch | ATree d ch _ => VUser "tree" ch | _ => VNone end.
Lemma embedded_inplace_refuted :
  embedded_call_inplace (mkU f27_f None) "a" "a" [] = Some (VUser "tree" []) /\
  posthoc_call (mkU f27_f None) "a" [] MNone = VUser "list" [].
Proof. split; reflexivity. Qed.

(* the whole derivation: building with the wrapped callbacks = transforming the shaped tree afterwards *)
Section Eval.
  Variable tbl : string -> option ucb.
  Variable toks : string -> option (string -> string -> value).
  Hypothesis Hfree : forall n c, tbl n = Some c -> meta_free c.

  Lemma eval_user_ext (user1 user2 : string -> option (list value -> value)) tokf mp :
    (forall n, match user1 n, user2 n with
               | Some f, Some g => forall vs, f vs = g vs
               | None, None => True
               | _, _ => False
               end) ->
    forall d, eval value VNone vkids user1 VTree tokf mp d = eval value VNone vkids user2 VTree tokf mp d.
  Proof.
    intros Hu. fix IH 1. intros [ty v|r ch]; [reflexivity|]. cbn [eval].
    assert (E : map (eval value VNone vkids user1 VTree tokf mp) ch = map (eval value VNone vkids user2 VTree tokf mp) ch).
    { induction ch as [|c ch IHc]; [reflexivity|]. cbn [map]. rewrite (IH c), IHc. reflexivity. }
    rewrite E. destruct (all_some _) as [vs|]; [|reflexivity].
    unfold spec_rule. destruct (spec_children value VNone vkids r mp vs) as [l|]; [|reflexivity].
    specialize (Hu (spec_name r)). destruct (user1 (spec_name r)), (user2 (spec_name r)); try contradiction; [rewrite Hu|]; reflexivity.
  Qed.

  Theorem vargs_embedded_eq_posthoc vt mp d :
    (forall n, starts_us n = true -> tbl n = None) ->
    wf_dtree mp d = true ->
    eval value VNone vkids (emb_user tbl) VTree (visit_tok (vargs_T tbl toks) vt) mp d
    = option_map (tr (vargs_T tbl toks) vt) (shape mp d).
  Proof.
    intros Hus Hwf.
    rewrite (eval_user_ext (emb_user tbl) (on_rule (vargs_T tbl toks)) _ mp (emb_user_is_vargs_T tbl toks Hfree) d).
    apply (embedded_eq_posthoc (vargs_T tbl toks) vt); [|exact Hwf].
    intros n Hn. cbn [vargs_T on_rule]. rewrite (Hus n Hn). reflexivity.
  Qed.
End Eval.
