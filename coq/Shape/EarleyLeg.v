(* The Earley / resolve leg of C03: ForestToParseTree(resolve_ambiguity=True) with lark's real
   per-rule callbacks (the chain of Shape/Chain.v), on the forest model of Forest/Sppf.v and
   Forest/Prio.v, and the bridge to the forest-as-built model of Forest/ExplicitBuild.v.
   Definitions only; proofs in EarleyLeg_proofs.v. *)
From Coq Require Import ZArith String Ascii List Bool Arith.
From LV Require Import Base.Prelude Cfg.Grammar Forest.Sppf Forest.Prio Forest.ExplicitBuild
  Shape.Chain Shape.Spec.
Import ListNotations.

(* ---- ForestToParseTree in resolve mode with arbitrary callbacks ------------------------------ *)
Section ResolveCb.
  Variable X : Type.
  Variable cb : rinfo -> list X -> option X.      (* self.callbacks[node.rule](children) *)
  Variable tokf : string -> string -> X.         (* the value of a TokenNode *)
  Variable keyf : bool -> packed -> key.

  Definition wrap_cb (inter : bool) (p : packed) (ch : option (list X)) : option (list X) :=
    if inter then ch
    else match ch with
         | Some c => option_map (fun v => [v]) (cb (p_rule p) c)
         | None => None
         end.

  (* as Prio.resolve_with: the value of the first packed child in [children] order is kept *)
  Fixpoint resolve_cb (s : Sppf.sym) : option (list X) :=
    match s with
    | TokLeaf a b _ => Some [tokf a b]
    | Sym l fams =>
        match ksort (map (fun p => (keyf (l_inter l) p, wrap_cb (l_inter l) p (resolve_cb_p p))) fams) with
        | [] => Some []
        | (_, t) :: _ => t
        end
    end
  with resolve_cb_p (p : packed) : option (list X) :=
    match p with
    | Pack r lft rgt => lift_app (match lft with None => Some [] | Some s => resolve_cb s end)
                                 (match rgt with None => Some [] | Some s => resolve_cb s end)
    end.

  (* the same callbacks applied bottom-up to a derivation tree *)
  Fixpoint eval_f (t : Sppf.dtree) : option X :=
    match t with
    | DLeaf a b _ => Some (tokf a b)
    | Sppf.DNode r cs => match all_some (map eval_f cs) with
                         | Some vs => cb r vs
                         | None => None
                         end
    end.
End ResolveCb.

(* ---- the compiled grammar as a table of rule records, rule ids = indices ----------------------- *)
Definition dflt_rule : rrec := mkR "" [] None None false false [].

Section Table.
  Variable rules : list rrec.
  Variable mp : bool.

  Definition rule_at (r : rinfo) : rrec := nth (Z.to_nat (r_id r)) rules dflt_rule.

  (* lark's callback object for the rule: the chain of Shape/Chain.v *)
  Definition chain_cb (r : rinfo) (ch : list stree) : option stree :=
    match tree_callback (rule_at r) mp false ch with Ok o => o | _ => None end.

  (* what Lark(parser='earley', ambiguity='resolve').parse returns, on the forest s *)
  Definition earley_resolve (s : Sppf.sym) : option (list stree) := resolve_cb stree chain_cb Tok pkey s.
  Definition earley_resolve_none (s : Sppf.sym) : option (list stree) :=
    resolve_cb stree chain_cb Tok (fun _ => pkey_none) s.

  (* a forest derivation as a derivation tree over the rule records *)
  Fixpoint to_dtree (t : Sppf.dtree) : Spec.dtree :=
    match t with
    | DLeaf a b _ => DTok a b
    | Sppf.DNode r cs => Spec.DNode (rule_at r) (map to_dtree cs)
    end.

  (* ---- the same grammar as a Cfg.Grammar (numbered symbols), for Forest/ExplicitBuild ---------- *)
  Variable nt_ix : string -> nat.
  Variable t_ix : string -> nat.

  Definition cfg_sym (s : Chain.sym) : symbol := if s_term s then T (t_ix (s_name s)) else NT (nt_ix (s_name s)).
  Definition cfg_of (r : rrec) : Grammar.rule := Grammar.mkRule (nt_ix (r_origin r)) (map cfg_sym (r_exp r)).
  Definition cfg_grammar : grammar := map cfg_of rules.

  (* lexemes are (terminal name, text) pairs *)
  Definition lexeme : Type := (string * string)%type.
  Definition lx_match (t : nat) (x : lexeme) : bool := Nat.eqb t (t_ix (fst x)).

  Fixpoint to_dt (t : Sppf.dtree) : dt lexeme :=
    match t with
    | DLeaf a b _ => DL lexeme (t_ix a) (a, b)
    | Sppf.DNode r cs => DN lexeme (cfg_of (rule_at r)) (map to_dt cs)
    end.

  (* the unfolded forest s is an unfolding of the node lbl of the forest F (as built) *)
  Variable F : nlabel lexeme -> family lexeme -> Prop.

  Definition is_nsym (lbl : nlabel lexeme) : bool := match lbl with NSym _ _ _ _ => true | _ => false end.

  Fixpoint unf (s : Sppf.sym) (lbl : nlabel lexeme) : Prop :=
    match s with
    | TokLeaf a b _ => exists i j, lbl = NTok lexeme (t_ix a) (a, b) i j
    | Sym l fams => l_inter l = negb (is_nsym lbl) /\
                    match lbl with NTok _ _ _ _ _ => False | _ => True end /\
                    fold_right (fun p acc => unf_p p lbl /\ acc) True fams
    end
  with unf_p (p : packed) (lbl : nlabel lexeme) : Prop :=
    match p with
    | Pack r lft rgt =>
        exists lo ro, F lbl (cfg_of (rule_at r), lo, ro) /\
          match lft, lo with None, None => True | Some s, Some l' => unf s l' | _, _ => False end /\
          match rgt, ro with None, None => True | Some s, Some l' => unf s l' | _, _ => False end
    end.
End Table.
