(* Executable model of lark/parsers/cyk.py: conversion of the compiled grammar to Chomsky normal
   form (to_cnf = _unit(_bin(_term(g)))) and the reversal of CNF parse trees (revert_cnf,
   unroll_unit_skiprule, Parser._to_tree).  Definitions only; proofs in Cnf_proofs.v.

   Non-terminal names: lark builds '__T_<terminal>' and '__SP_<rule>_<i>' strings; the model keeps
   them structured ([NTerm t], [NSplit rid i] with rid the index of the rule that was split), i.e.
   the string encoding is taken to be injective (checked on every compared grammar by the harness).
   Rule weights (priorities) are left out: they only choose among several CNF parses. *)
From Coq Require Import String Ascii List Bool Arith.
From LV Require Import Base.Prelude Shape.Chain Shape.Spec.
Import ListNotations.

Inductive cnt := NOrig (n : string) | NTerm (t : string) | NSplit (rid i : nat).
Inductive csym := CT (t : string) | CN (n : cnt).
Inductive calias := ARule (rid : nat) | ATermA | ASplitA.

(* cyk.Rule / cyk.UnitSkipRule: [c_skipped] lists (lhs, alias) of the skipped rules, [] for a plain Rule *)
Record crule := mkC { c_lhs : cnt; c_rhs : list csym; c_alias : calias; c_skipped : list (cnt * calias) }.

Definition cnt_eqb (a b : cnt) : bool :=
  match a, b with
  | NOrig x, NOrig y => String.eqb x y
  | NTerm x, NTerm y => String.eqb x y
  | NSplit r i, NSplit r' i' => Nat.eqb r r' && Nat.eqb i i'
  | _, _ => false
  end.
Definition csym_eqb (a b : csym) : bool :=
  match a, b with CT x, CT y => String.eqb x y | CN x, CN y => cnt_eqb x y | _, _ => false end.
Definition calias_eqb (a b : calias) : bool :=
  match a, b with ARule x, ARule y => Nat.eqb x y | ATermA, ATermA => true | ASplitA, ASplitA => true | _, _ => false end.

Fixpoint leqb {A} (f : A -> A -> bool) (a b : list A) : bool :=
  match a, b with [], [] => true | x :: a', y :: b' => f x y && leqb f a' b' | _, _ => false end.

Definition crule_eqb (a b : crule) : bool :=
  cnt_eqb (c_lhs a) (c_lhs b) && leqb csym_eqb (c_rhs a) (c_rhs b) && calias_eqb (c_alias a) (c_alias b)
  && leqb (fun x y => cnt_eqb (fst x) (fst y) && calias_eqb (snd x) (snd y)) (c_skipped a) (c_skipped b).

(* Grammar(rules): a frozenset *)
Fixpoint dedup (l : list crule) : list crule :=
  match l with
  | [] => []
  | x :: r => if existsb (crule_eqb x) r then dedup r else x :: dedup r
  end.

(* ---- Parser._to_rule ------------------------------------------------------------------------ *)
Definition of_sym (s : sym) : csym := if s_term s then CT (s_name s) else CN (NOrig (s_name s)).

Fixpoint init_from (i : nat) (rules : list rrec) : list crule :=
  match rules with
  | [] => []
  | r :: rest => mkC (NOrig (r_origin r)) (map of_sym (r_exp r)) (ARule i) [] :: init_from (S i) rest
  end.

(* ---- _term ------------------------------------------------------------------------------------ *)
Definition is_ct (s : csym) : bool := match s with CT _ => true | CN _ => false end.
Definition termify (s : csym) : csym := match s with CT t => CN (NTerm t) | _ => s end.
Definition term_rule (t : string) : crule := mkC (NTerm t) [CT t] ATermA [].
Definition terms_of (rhs : list csym) : list string :=
  flat_map (fun s => match s with CT t => [t] | CN _ => [] end) rhs.
Definition needs_term (rhs : list csym) : bool := Nat.ltb 1 (length rhs) && existsb is_ct rhs.

Definition term_step (g : list crule) : list crule :=
  dedup (flat_map (fun r => if needs_term (c_rhs r)
                            then mkC (c_lhs r) (map termify (c_rhs r)) (c_alias r) (c_skipped r)
                                 :: map term_rule (terms_of (c_rhs r))
                            else [r]) g).

(* ---- _bin / _split ----------------------------------------------------------------------------- *)
Definition alias_rid (a : calias) : nat := match a with ARule r => r | _ => 0 end.

(* rules for NSplit rid i over the remaining symbols x_i ... x_{n-1} (at least two) *)
Fixpoint split_tail (rid i : nat) (rhs : list csym) : list crule :=
  match rhs with
  | [a; b] => [mkC (NSplit rid i) [a; b] ASplitA []]
  | a :: rest => mkC (NSplit rid i) [a; CN (NSplit rid (S i))] ASplitA [] :: split_tail rid (S i) rest
  | [] => []
  end.

Definition split (r : crule) : list crule :=
  match c_rhs r with
  | x0 :: rest => mkC (c_lhs r) [x0; CN (NSplit (alias_rid (c_alias r)) 1)] (c_alias r) []
                  :: split_tail (alias_rid (c_alias r)) 1 rest
  | [] => []
  end.

Definition bin_step (g : list crule) : list crule :=
  dedup (flat_map (fun r => if Nat.ltb 2 (length (c_rhs r)) then split r else [r]) g).

(* ---- _unit --------------------------------------------------------------------------------------- *)
Definition is_unit (r : crule) : bool := match c_rhs r with [CN _] => true | _ => false end.

(* build_unit_skiprule(unit_rule, target_rule) *)
Definition build_skip (u t : crule) : crule :=
  mkC (c_lhs u) (c_rhs t) (c_alias u) (c_skipped u ++ [(c_lhs t, c_alias t)] ++ c_skipped t).

(* _remove_unit_rule *)
Definition remove_unit (g : list crule) (u : crule) : list crule :=
  match c_rhs u with
  | [CN b] => dedup (filter (fun x => negb (crule_eqb x u)) g
                     ++ map (build_skip u) (filter (fun x => cnt_eqb (c_lhs x) b) g))
  | _ => g
  end.

Fixpoint unit_loop (fuel : nat) (g : list crule) : res (list crule) :=
  match find is_unit g with
  | None => Ok g
  | Some u => match fuel with
              | 0 => OutOfFuel
              | S f => unit_loop f (remove_unit g u)
              end
  end.

Definition to_cnf (fuel : nat) (rules : list rrec) : res (list crule) :=
  unit_loop fuel (bin_step (term_step (init_from 0 rules))).

(* CnfWrapper: every rule is  NT -> T  or  NT -> NT NT  ("CYK doesn't support empty rules") *)
Definition cnf_shape (r : crule) : bool :=
  match c_rhs r with [CT _] => true | [CN _; CN _] => true | _ => false end.

(* ---- parse trees ----------------------------------------------------------------------------------- *)
Inductive ctree := CLeaf (ty val : string) | CNode (r : crule) (ch : list ctree).

Definition is_split (n : cnt) : bool := match n with NSplit _ _ => true | _ => false end.

Fixpoint unroll (lhs : cnt) (orig_rhs : list csym) (sk : list (cnt * calias)) (kids : list ctree)
         (alias : calias) : ctree :=
  match sk with
  | [] => CNode (mkC lhs orig_rhs alias []) kids
  | (l1, a1) :: rest => CNode (mkC lhs [CN l1] alias []) [unroll l1 orig_rhs rest kids a1]
  end.

(* revert_cnf *)
Fixpoint revert (t : ctree) : ctree :=
  match t with
  | CLeaf _ _ => t
  | CNode r ch =>
      match c_lhs r with
      | NTerm _ => match ch with c :: _ => c | [] => t end          (* return node.children[0] *)
      | _ =>
          let kids := flat_map (fun c => match revert c with
                                         | CNode r' ch' as c' => if is_split (c_lhs r') then ch' else [c']
                                         | c' => [c']
                                         end) ch in
          match c_skipped r with
          | [] => CNode r kids
          | sk => unroll (c_lhs r) (c_rhs r) sk kids (c_alias r)
          end
      end
  end.

(* derivations of the original grammar by rule index *)
Inductive otree := OLeaf (ty val : string) | ONode (rid : nat) (ch : list otree).

(* Parser._to_tree: orig_rules[rule.alias] *)
Fixpoint to_otree (t : ctree) : option otree :=
  match t with
  | CLeaf ty v => Some (OLeaf ty v)
  | CNode r ch => match c_alias r with
                  | ARule rid => option_map (ONode rid) (all_some (map to_otree ch))
                  | _ => None
                  end
  end.

Section WithRules.
  Variable rules : list rrec.
  Definition rule_n (rid : nat) : rrec := nth rid rules (mkR "" [] None None false false []).

  Fixpoint o_dtree (d : otree) : dtree :=
    match d with OLeaf ty v => DTok ty v | ONode rid ch => DNode (rule_n rid) (map o_dtree ch) end.

  Fixpoint oyield (d : otree) : list (string * string) :=
    match d with OLeaf ty v => [(ty, v)] | ONode _ ch => flat_map oyield ch end.

  (* ---- the CNF pre-image of a derivation ---------------------------------------------------------- *)
  Definition wrap_term (termified : bool) (c : ctree) : ctree :=
    match c with CLeaf ty v => if termified then CNode (term_rule ty) [c] else c | _ => c end.

  Fixpoint split_tree (rid i : nat) (syms : list csym) (kids : list ctree) : ctree :=
    match syms, kids with
    | [a; b], [ka; kb] => CNode (mkC (NSplit rid i) [a; b] ASplitA []) [ka; kb]
    | a :: rest, ka :: krest =>
        CNode (mkC (NSplit rid i) [a; CN (NSplit rid (S i))] ASplitA []) [ka; split_tree rid (S i) rest krest]
    | _, _ => CLeaf "" ""
    end.

  (* (rhs of the CNF rule used at the node, its children, the skipped unit rules) *)
  Fixpoint cnf_parts (d : otree) : list csym * list ctree * list (cnt * calias) :=
    match d with
    | OLeaf _ _ => ([], [], [])
    | ONode rid ch =>
        match ch with
        | [ONode rid' _ as c] =>
            let '(rhs, kids, sk) := cnf_parts c in
            (rhs, kids, (NOrig (r_origin (rule_n rid')), ARule rid') :: sk)
        | _ =>
            let exp := map of_sym (r_exp (rule_n rid)) in
            let tf := needs_term exp in
            let kids0 := map (fun c => wrap_term tf
                                         match c with
                                         | OLeaf ty v => CLeaf ty v
                                         | ONode rid' _ => let '(rhs, kids, sk) := cnf_parts c in
                                                           CNode (mkC (NOrig (r_origin (rule_n rid'))) rhs (ARule rid') sk) kids
                                         end) ch in
            let e := if tf then map termify exp else exp in
            match e, kids0 with
            | x0 :: (_ :: _ :: _) as rest, k0 :: krest =>
                ([x0; CN (NSplit rid 1)], [k0; split_tree rid 1 (tl e) krest], [])
            | _, _ => (e, kids0, [])
            end
        end
    end.

  Definition cnf_of (d : otree) : ctree :=
    match d with
    | OLeaf ty v => CLeaf ty v
    | ONode rid _ => let '(rhs, kids, sk) := cnf_parts d in
                     CNode (mkC (NOrig (r_origin (rule_n rid))) rhs (ARule rid) sk) kids
    end.

  (* CYK_FrontEnd._transform: the rule callbacks applied bottom-up (iter_subtrees order) *)
  Fixpoint eval_chain (mp : bool) (d : dtree) : option stree :=
    match d with
    | DTok ty v => Some (Tok ty v)
    | DNode r ch => match all_some (map (eval_chain mp) ch) with
                    | Some vs => match tree_callback r mp false vs with Ok o => o | _ => None end
                    | None => None
                    end
    end.

  (* what Lark(parser='cyk').parse returns when the chart parse is the CNF tree c *)
  Definition cyk_result (mp : bool) (c : ctree) : option stree :=
    match to_otree (revert c) with
    | Some o => eval_chain mp (o_dtree o)
    | None => None
    end.

  Fixpoint cyield (t : ctree) : list (string * string) :=
    match t with CLeaf ty v => [(ty, v)] | CNode _ ch => flat_map cyield ch end.

  (* a derivation of the grammar: rule indices in range, children match the rule's symbols *)
  Definition ochild_ok (s : sym) (d : otree) : bool :=
    match d with
    | OLeaf ty _ => s_term s && String.eqb ty (s_name s)
    | ONode rid _ => negb (s_term s) && String.eqb (r_origin (rule_n rid)) (s_name s)
    end.

  Fixpoint wf_otree (d : otree) : bool :=
    match d with
    | OLeaf _ _ => true
    | ONode rid ch => Nat.ltb rid (length rules) && forall2b ochild_ok (r_exp (rule_n rid)) ch && forallb wf_otree ch
    end.
End WithRules.

(* derivations of a CNF grammar (the trees cyk._parse can build) *)
Inductive cder (g : list crule) : ctree -> csym -> Prop :=
| cder_leaf t v : cder g (CLeaf t v) (CT t)
| cder_node r ch : In r g -> Forall2 (cder g) ch (c_rhs r) -> cder g (CNode r ch) (CN (c_lhs r)).
