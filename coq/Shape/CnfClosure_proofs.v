(* closure_check (decidable, evaluated per grammar) implies unit_closure_spec. *)
From Coq Require Import String Ascii List Bool Arith Lia.
From LV Require Import Base.Prelude Shape.Chain Shape.Spec Shape.Cnf Shape.CnfLink Shape.CykParse_proofs.
Import ListNotations.

Lemma csym_eqb_eq a b : csym_eqb a b = true -> a = b.
Proof. destruct a, b; simpl; intros H; try discriminate; [apply String.eqb_eq in H|apply cnt_eqb_eq in H]; congruence. Qed.

Lemma calias_eqb_eq a b : calias_eqb a b = true -> a = b.
Proof. destruct a, b; simpl; intros H; try discriminate; auto. apply Nat.eqb_eq in H. congruence. Qed.

Lemma leqb_eq {A} (f : A -> A -> bool) : (forall x y, f x y = true -> x = y) -> forall a b, leqb f a b = true -> a = b.
Proof.
  intros Hf. induction a as [|x a IH]; intros [|y b] H; simpl in H; try discriminate; auto.
  apply andb_true_iff in H. destruct H as [H1 H2]. f_equal; auto.
Qed.

Lemma crule_eqb_eq a b : crule_eqb a b = true -> a = b.
Proof.
  unfold crule_eqb. intros H. repeat (apply andb_true_iff in H; destruct H as [H ?]).
  destruct a as [l1 r1 a1 s1], b as [l2 r2 a2 s2]; simpl in *.
  apply cnt_eqb_eq in H. apply (leqb_eq _ csym_eqb_eq) in H2. apply calias_eqb_eq in H1.
  apply (leqb_eq (fun x y => cnt_eqb (fst x) (fst y) && calias_eqb (snd x) (snd y))) in H0.
  - congruence.
  - intros [x1 x2] [y1 y2] E. simpl in E. apply andb_true_iff in E. destruct E as [E1 E2].
    apply cnt_eqb_eq in E1. apply calias_eqb_eq in E2. congruence.
Qed.

Lemma existsb_crule r l : existsb (crule_eqb r) l = true -> In r l.
Proof. intros H. apply existsb_exists in H. destruct H as (x & Hin & E). apply crule_eqb_eq in E. subst. exact Hin. Qed.

Section Closure.
  Variable rules : list rrec.
  Notation exp_of := (exp_of rules).
  Notation origin := (origin rules).
  Notation chain := (chain rules).
  Notation canon := (canon rules).
  Notation is_unit_rid := (is_unit_rid rules).
  Notation n := (length rules).

  Lemma is_unit_some rid b : is_unit_rid rid = Some b -> exp_of rid = [CN (NOrig b)].
  Proof. unfold CnfLink.is_unit_rid. destruct (exp_of rid) as [|[t|[x|t|f i]] [|s l]]; intros H; try discriminate. congruence. Qed.

  Lemma is_unit_none rid : is_unit_rid rid = None -> forall b, exp_of rid <> [CN (NOrig b)].
  Proof. unfold CnfLink.is_unit_rid. intros H b E. rewrite E in H. discriminate. Qed.

  Lemma is_unit_of rid b : exp_of rid = [CN (NOrig b)] -> is_unit_rid rid = Some b.
  Proof. unfold CnfLink.is_unit_rid. intros ->. reflexivity. Qed.

  Lemma chainb_sound : forall sk rid f, chainb rules rid sk = Some f -> chain rid sk f.
  Proof.
    induction sk as [|[l a] sk IH]; intros rid f H; simpl in H;
      destruct (Nat.ltb rid n) eqn:El; simpl in H; try discriminate; apply Nat.ltb_lt in El.
    - destruct (is_unit_rid rid) eqn:Eu; [discriminate|]. injection H as <-. constructor; auto. apply is_unit_none. exact Eu.
    - destruct l as [b| |]; try discriminate. destruct a as [r1| |]; try discriminate.
      destruct (is_unit_rid rid) as [b'|] eqn:Eu; [|discriminate].
      destruct (String.eqb b' b && String.eqb (origin r1) b) eqn:Eb; [|discriminate].
      apply andb_true_iff in Eb. destruct Eb as [E1 E2]. apply String.eqb_eq in E1, E2. subst b'. rewrite <- E2.
      constructor; auto. apply is_unit_some. rewrite E2. exact Eu.
  Qed.

  Theorem canonb_sound r : canonb rules r = true -> canon r.
  Proof.
    unfold canonb. destruct r as [l rhs a sk]; cbn [c_lhs c_alias c_skipped c_rhs]. destruct l as [a0|t|f i]; intros H.
    - destruct a as [rid| |]; try discriminate. destruct (chainb rules rid sk) as [f|] eqn:Ec; [|discriminate].
      apply andb_true_iff in H. destruct H as [H1 H2]. apply String.eqb_eq in H1. apply (leqb_eq _ csym_eqb_eq) in H2.
      subst. apply canon_head. apply chainb_sound. exact Ec.
    - apply andb_true_iff in H. destruct H as [H1 H2]. apply crule_eqb_eq in H1. rewrite H1.
      apply existsb_exists in H2. destruct H2 as (rid & Hin & H2). apply in_seq in Hin.
      apply andb_true_iff in H2. destruct H2 as [Ht He]. apply existsb_exists in He. destruct He as (x & Hx & E).
      apply csym_eqb_eq in E. subst x. apply (canon_term rules rid t); auto. lia.
    - apply andb_true_iff in H. destruct H as [H He]. apply andb_true_iff in H. destruct H as [Hlt H3].
      apply Nat.ltb_lt in Hlt. apply Nat.leb_le in H3. apply existsb_crule in He. apply (canon_split rules f); auto.
  Qed.

  Lemma chain_lt rid sk f : chain rid sk f -> rid < n.
  Proof. destruct 1; auto. Qed.

  Lemma chains_sound : forall fuel rid sk f, rid < n -> In (sk, f) (chains rules fuel rid) -> chain rid sk f.
  Proof.
    induction fuel as [|fu IH]; intros rid sk f Hlt H; [destruct H|]. simpl in H.
    destruct (is_unit_rid rid) as [b|] eqn:Eu.
    - apply in_flat_map in H. destruct H as (r1 & Hr1 & H). apply in_seq in Hr1.
      destruct (String.eqb (origin r1) b) eqn:Eb; [|destruct H]. apply String.eqb_eq in Eb.
      apply in_map_iff in H. destruct H as ([sk' f'] & E & Hin). simpl in E. injection E as <- <-.
      constructor; auto. { apply is_unit_some. rewrite Eb. exact Eu. } apply IH; auto. lia.
    - destruct H as [E|[]]. injection E as <- <-. constructor; auto. apply is_unit_none. exact Eu.
  Qed.

  Hypothesis Hrank : unit_rank_ok rules = true.

  Lemma rank_edge rid r1 : rid < n -> r1 < n -> exp_of rid = [CN (NOrig (origin r1))] ->
    urank rules n r1 < urank rules n rid /\ urank rules n rid <= n.
  Proof.
    intros H1 H2 He. unfold unit_rank_ok in Hrank. rewrite forallb_forall in Hrank.
    specialize (Hrank rid ltac:(apply in_seq; lia)). apply andb_true_iff in Hrank. destruct Hrank as [Ha Hb].
    rewrite (is_unit_of rid _ He) in Ha. rewrite forallb_forall in Ha. specialize (Ha r1 ltac:(apply in_seq; lia)).
    rewrite String.eqb_refl in Ha. simpl in Ha. apply Nat.ltb_lt in Ha. apply Nat.leb_le in Hb. auto.
  Qed.

  Lemma rank_le rid : rid < n -> urank rules n rid <= n.
  Proof.
    intros H1. unfold unit_rank_ok in Hrank. rewrite forallb_forall in Hrank.
    specialize (Hrank rid ltac:(apply in_seq; lia)). apply andb_true_iff in Hrank. destruct Hrank as [_ Hb].
    apply Nat.leb_le in Hb. exact Hb.
  Qed.

  Lemma chains_complete rid sk f : chain rid sk f -> forall fuel, urank rules n rid < fuel -> In (sk, f) (chains rules fuel rid).
  Proof.
    induction 1 as [rid Hlt Hnu|rid r1 sk f Hlt He Hch IH]; intros fuel Hf; (destruct fuel as [|fu]; [lia|]); simpl.
    - destruct (is_unit_rid rid) as [b|] eqn:Eu; [exfalso; apply (Hnu b); apply is_unit_some; exact Eu|]. left. reflexivity.
    - rewrite (is_unit_of rid _ He). apply in_flat_map. exists r1. pose proof (chain_lt _ _ _ Hch) as Hr1.
      split; [apply in_seq; lia|]. rewrite String.eqb_refl. apply in_map_iff. exists (sk, f). split; [reflexivity|].
      apply IH. destruct (rank_edge rid r1 Hlt Hr1 He). lia.
  Qed.

  Lemma spec_cnf_sound r : In r (spec_cnf rules) -> canon r.
  Proof.
    unfold spec_cnf. intros H. apply in_app_iff in H. destruct H as [H|H]; [|apply in_app_iff in H; destruct H as [H|H]].
    - apply in_flat_map in H. destruct H as (rid & Hrid & H). apply in_seq in Hrid.
      destruct (tf_of rules rid) eqn:Et; [|destruct H]. apply in_map_iff in H. destruct H as (t & <- & Ht).
      apply (canon_term rules rid t); auto; [lia|]. unfold terms_of in Ht. apply in_flat_map in Ht.
      destruct Ht as ([t'|x] & Hx & Ht'); simpl in Ht'; [|destruct Ht']. destruct Ht' as [<-|[]]. exact Hx.
    - apply in_flat_map in H. destruct H as (rid & Hrid & H). apply in_seq in Hrid.
      destruct (Nat.leb 3 (length (e_of rules rid))) eqn:E3; [|destruct H]. apply Nat.leb_le in E3.
      apply (canon_split rules rid); auto. lia.
    - apply in_flat_map in H. destruct H as (rid & Hrid & H). apply in_seq in Hrid.
      apply in_map_iff in H. destruct H as ([sk f] & <- & Hc). simpl. apply canon_head.
      apply (chains_sound (S n)); auto. lia.
  Qed.

  Lemma spec_cnf_complete r : canon r -> In r (spec_cnf rules).
  Proof.
    unfold spec_cnf. intros H. destruct H as [rid t Hlt Ht Hin|rid r Hlt H3 Hin|rid sk f Hch].
    - apply in_or_app. left. apply in_flat_map. exists rid. split; [apply in_seq; lia|]. rewrite Ht.
      apply in_map. unfold terms_of. apply in_flat_map. exists (CT t). split; auto. simpl. auto.
    - apply in_or_app. right. apply in_or_app. left. apply in_flat_map. exists rid. split; [apply in_seq; lia|].
      apply Nat.leb_le in H3. rewrite H3. exact Hin.
    - apply in_or_app. right. apply in_or_app. right. pose proof (chain_lt _ _ _ Hch) as Hlt.
      apply in_flat_map. exists rid. split; [apply in_seq; lia|]. apply in_map_iff. exists (sk, f). split; [reflexivity|].
      apply chains_complete; auto. pose proof (rank_le rid Hlt). lia.
  Qed.
End Closure.

Theorem closure_check_sound rules g : closure_check rules g = true -> unit_closure_spec rules g.
Proof.
  unfold closure_check. intros H. apply andb_true_iff in H. destruct H as [H Hr]. apply andb_true_iff in H.
  destruct H as [H1 H2]. rewrite forallb_forall in H1, H2. split.
  - intros r Hin. apply canonb_sound. apply H1. exact Hin.
  - intros r Hc. apply existsb_crule. apply H2. apply spec_cnf_complete; auto.
Qed.
