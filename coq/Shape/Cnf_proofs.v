(* cnf_roundtrip (tree level): every derivation of the original grammar has a CNF pre-image
   (TERM, BIN, UNIT applied to the tree) with the same yield whose reversion by revert_cnf is that
   derivation. *)
From Coq Require Import String Ascii List Bool Arith Lia.
From LV Require Import Base.Prelude Shape.Chain Shape.Spec Shape.Chain_proofs Shape.Shape_proofs Shape.Cnf.
Import ListNotations.

Section OtreeInd.
  Variable P : otree -> Prop.
  Hypothesis Hl : forall ty v, P (OLeaf ty v).
  Hypothesis Hn : forall rid ch, Forall P ch -> P (ONode rid ch).
  Fixpoint otree_ind' (d : otree) : P d :=
    match d with
    | OLeaf ty v => Hl ty v
    | ONode rid ch => Hn rid ch ((fix go l : Forall P l :=
                                    match l with [] => Forall_nil P | x :: r => Forall_cons x (otree_ind' x) (go r) end) ch)
    end.
End OtreeInd.

Lemma all_some_app' {A} (a b : list (option A)) : all_some (a ++ b) = lift_app (all_some a) (all_some b).
Proof.
  induction a as [|[x|] a IH]; simpl.
  - destruct (all_some b); reflexivity.
  - rewrite IH. destruct (all_some a), (all_some b); reflexivity.
  - reflexivity.
Qed.

(* what a parent keeps of a reverted child: the children of a `__SP_` node, else the node *)
Definition splice (c : ctree) : list ctree :=
  match revert c with
  | CNode r' ch' as c' => if is_split (c_lhs r') then ch' else [c']
  | c' => [c']
  end.
Definition flatK (kids : list ctree) : list ctree := flat_map splice kids.

Lemma revert_node r ch :
  (forall t, c_lhs r <> NTerm t) ->
  revert (CNode r ch) = unroll (c_lhs r) (c_rhs r) (c_skipped r) (flatK ch) (c_alias r).
Proof.
  intros Hn. destruct r as [l rhs a sk]. cbn [revert c_lhs c_rhs c_alias c_skipped] in *.
  destruct l as [n|t|rid i]; [|exfalso; apply (Hn t); reflexivity|]; destruct sk; reflexivity.
Qed.

Lemma unroll_lhs l rhs sk K a : exists r ch, unroll l rhs sk K a = CNode r ch /\ c_lhs r = l.
Proof. destruct sk as [|[l1 a1] rest]; simpl; eauto. Qed.

Section WithRules.
  Variable rules : list rrec.
  Notation cnf_parts := (cnf_parts rules).
  Notation cnf_of := (cnf_of rules).
  Notation rule_n := (rule_n rules).

  Definition node_of (d : otree) : ctree :=
    match d with
    | OLeaf ty v => CLeaf ty v
    | ONode rid' _ => let '(rhs, kids, sk) := cnf_parts d in
                      CNode (mkC (NOrig (r_origin (rule_n rid'))) rhs (ARule rid') sk) kids
    end.

  Lemma cnf_of_node d : cnf_of d = node_of d.
  Proof. destruct d; reflexivity. Qed.

  (* reverting the BIN chain gives back one `__SP_` node holding all the children *)
  Lemma revert_split_tree rid : forall syms ks i,
    length syms = length ks -> 2 <= length ks ->
    exists r, revert (split_tree rid i syms ks) = CNode r (flatK ks) /\ is_split (c_lhs r) = true.
  Proof.
    induction syms as [|a syms IH]; intros ks i Hl H2; [destruct ks; simpl in *; lia|].
    destruct ks as [|ka ks]; [simpl in H2; lia|].
    destruct syms as [|b syms]; [destruct ks; simpl in *; lia|].
    destruct ks as [|kb ks]; [simpl in *; lia|].
    destruct syms as [|c syms].
    - destruct ks; [|simpl in Hl; lia]. cbn [split_tree]. exists (mkC (NSplit rid i) [a; b] ASplitA []). split; reflexivity.
    - destruct ks as [|kc ks]; [simpl in Hl; lia|].
      change (split_tree rid i (a :: b :: c :: syms) (ka :: kb :: kc :: ks))
        with (CNode (mkC (NSplit rid i) [a; CN (NSplit rid (S i))] ASplitA [])
                    [ka; split_tree rid (S i) (b :: c :: syms) (kb :: kc :: ks)]).
      destruct (IH (kb :: kc :: ks) (S i)) as (r & Hr & Hs); [simpl in *; lia|simpl; lia|].
      exists (mkC (NSplit rid i) [a; CN (NSplit rid (S i))] ASplitA []). split; [|reflexivity].
      cbn [revert c_lhs c_skipped]. f_equal. unfold flatK. cbn [flat_map]. f_equal.
      rewrite app_nil_r. unfold splice at 1. rewrite Hr, Hs. reflexivity.
  Qed.

  Definition mk_child (tf : bool) (c : otree) : ctree := wrap_term tf (node_of c).

  Lemma cnf_parts_nonunit rid ch :
    (forall rid' ch', ch <> [ONode rid' ch']) ->
    cnf_parts (ONode rid ch) =
    let exp := map of_sym (r_exp (rule_n rid)) in
    let tf := needs_term exp in
    let kids0 := map (mk_child tf) ch in
    let e := if tf then map termify exp else exp in
    match e, kids0 with
    | x0 :: (_ :: _ :: _) as rest, k0 :: krest => ([x0; CN (NSplit rid 1)], [k0; split_tree rid 1 (tl e) krest], [])
    | _, _ => (e, kids0, [])
    end.
  Proof.
    intros Hnu. cbn [Cnf.cnf_parts].
    assert (E : map (fun c => wrap_term (needs_term (map of_sym (r_exp (rule_n rid))))
                          match c with
                          | OLeaf ty v => CLeaf ty v
                          | ONode rid' _ => let '(rhs, kids, sk) := cnf_parts c in
                                            CNode (mkC (NOrig (r_origin (rule_n rid'))) rhs (ARule rid') sk) kids
                          end) ch
                = map (mk_child (needs_term (map of_sym (r_exp (rule_n rid))))) ch).
    { apply map_ext. intros [ty v|rid' ch']; reflexivity. }
    destruct ch as [|[ty v|rid' ch'] [|c2 ch2]]; try (rewrite <- E; reflexivity).
    exfalso. eapply Hnu. reflexivity.
  Qed.

  Lemma cnf_parts_unit rid rid' ch' :
    cnf_parts (ONode rid [ONode rid' ch']) =
    let '(rhs, kids, sk) := cnf_parts (ONode rid' ch') in
    (rhs, kids, (NOrig (r_origin (rule_n rid')), ARule rid') :: sk).
  Proof. reflexivity. Qed.

  Lemma splice_mk_child tf c :
    (forall l, match c with
               | OLeaf _ _ => True
               | ONode rid _ => let '(rhs, kids, sk) := cnf_parts c in
                                to_otree (unroll l rhs sk (flatK kids) (ARule rid)) = Some c
               end) ->
    all_some (map to_otree (splice (mk_child tf c))) = Some [c].
  Proof.
    intros IH. destruct c as [ty v|rid ch].
    - unfold mk_child, splice. simpl. destruct tf; reflexivity.
    - unfold mk_child. cbn [node_of wrap_term].
      specialize (IH (NOrig (r_origin (rule_n rid)))).
      destruct (cnf_parts (ONode rid ch)) as [[rhs kids] sk]. cbn [wrap_term].
      unfold splice. rewrite revert_node by (cbn; discriminate). cbn [c_lhs c_rhs c_skipped c_alias].
      destruct (unroll_lhs (NOrig (r_origin (rule_n rid))) rhs sk (flatK kids) (ARule rid)) as (r & ch0 & E & El).
      rewrite E in *. rewrite El. cbn [is_split map all_some]. rewrite IH. reflexivity.
  Qed.

  Lemma oyield_ok_length s d : ochild_ok rules s d = true -> True.
  Proof. auto. Qed.

  Theorem revert_cnf_parts d : wf_otree rules d = true ->
    forall l, match d with
              | OLeaf _ _ => True
              | ONode rid _ => let '(rhs, kids, sk) := cnf_parts d in
                               to_otree (unroll l rhs sk (flatK kids) (ARule rid)) = Some d
              end.
  Proof.
    induction d as [ty v|rid ch IH] using otree_ind'; intros Hwf l; [exact I|].
    cbn [wf_otree] in Hwf. apply andb_true_iff in Hwf. destruct Hwf as [Hwf Hall].
    apply andb_true_iff in Hwf. destruct Hwf as [_ Har]. apply forall2b_length in Har.
    assert (Hkids : forall tf, all_some (map to_otree (flatK (map (mk_child tf) ch))) = Some ch).
    { intros tf. clear Har. induction ch as [|c ch IHc]; [reflexivity|].
      simpl in Hall. apply andb_true_iff in Hall. destruct Hall as [Hc Hall]. inversion IH as [|? ? IHc0 IHr]; subst.
      unfold flatK. cbn [map flat_map]. rewrite map_app, all_some_app'.
      rewrite (splice_mk_child tf c (IHc0 Hc)). fold (flatK (map (mk_child tf) ch)). rewrite (IHc IHr Hall). reflexivity. }
    destruct ch as [|c ch'] eqn:Ech.
    - rewrite cnf_parts_nonunit by (intros; discriminate). cbn zeta.
      destruct (r_exp (rule_n rid)); [|simpl in Har; discriminate]. reflexivity.
    - destruct c as [ty v|rid' ch''] eqn:Ec; [|destruct ch' as [|c2 ch2]].
      + (* first child is a token *)
        rewrite cnf_parts_nonunit by (intros; discriminate). cbn zeta.
        set (exp := map of_sym (r_exp (rule_n rid))). set (tf := needs_term exp).
        set (e := if tf then map termify exp else exp).
        assert (Hle : length e = length (OLeaf ty v :: ch')).
        { unfold e. destruct tf; rewrite ?map_length; unfold exp; rewrite map_length; exact Har. }
        specialize (Hkids tf). cbn [map] in *.
        destruct e as [|x0 [|x1 [|x2 e']]] eqn:Ee; cbn [unroll to_otree]; try (rewrite Hkids; reflexivity).
        destruct (revert_split_tree rid (x1 :: x2 :: e') (map (mk_child tf) ch') 1) as (r & Hr & Hs);
          [simpl in *; rewrite map_length; lia|simpl in *; rewrite map_length; lia|].
        assert (Hsp : splice (split_tree rid 1 (x1 :: x2 :: e') (map (mk_child tf) ch')) = flatK (map (mk_child tf) ch'))
          by (unfold splice; rewrite Hr, Hs; reflexivity).
        cbn [tl c_alias].
        assert (Hg : flatK [mk_child tf (OLeaf ty v); split_tree rid 1 (x1 :: x2 :: e') (map (mk_child tf) ch')]
                     = flatK (mk_child tf (OLeaf ty v) :: map (mk_child tf) ch'))
          by (unfold flatK; cbn [flat_map]; rewrite app_nil_r, Hsp; reflexivity).
        rewrite Hg, Hkids. reflexivity.
      + (* unit rule *)
        rewrite cnf_parts_unit. inversion IH as [|? ? IHc _]; subst.
        simpl in Hall. apply andb_true_iff in Hall. destruct Hall as [Hc _].
        specialize (IHc Hc (NOrig (r_origin (rule_n rid')))).
        destruct (cnf_parts (ONode rid' ch'')) as [[rhs kids] sk]. cbn [unroll to_otree map all_some].
        rewrite IHc. reflexivity.
      + (* several children, the first a node *)
        rewrite cnf_parts_nonunit by (intros; discriminate). cbn zeta.
        set (exp := map of_sym (r_exp (rule_n rid))). set (tf := needs_term exp).
        set (e := if tf then map termify exp else exp).
        assert (Hle : length e = length (ONode rid' ch'' :: c2 :: ch2)).
        { unfold e. destruct tf; rewrite ?map_length; unfold exp; rewrite map_length; exact Har. }
        specialize (Hkids tf). cbn [map] in *.
        destruct e as [|x0 [|x1 [|x2 e']]] eqn:Ee; cbn [unroll to_otree]; try (rewrite Hkids; reflexivity).
        destruct (revert_split_tree rid (x1 :: x2 :: e') (mk_child tf c2 :: map (mk_child tf) ch2) 1) as (r & Hr & Hs);
          [simpl in *; rewrite map_length; lia|simpl in *; rewrite map_length; lia|].
        assert (Hsp : splice (split_tree rid 1 (x1 :: x2 :: e') (mk_child tf c2 :: map (mk_child tf) ch2))
                      = flatK (mk_child tf c2 :: map (mk_child tf) ch2))
          by (unfold splice; rewrite Hr, Hs; reflexivity).
        cbn [tl c_alias].
        assert (Hg : flatK [mk_child tf (ONode rid' ch''); split_tree rid 1 (x1 :: x2 :: e') (mk_child tf c2 :: map (mk_child tf) ch2)]
                     = flatK (mk_child tf (ONode rid' ch'') :: mk_child tf c2 :: map (mk_child tf) ch2))
          by (unfold flatK; cbn [flat_map]; rewrite app_nil_r, Hsp; reflexivity).
        rewrite Hg, Hkids. reflexivity.
  Qed.

  (* every derivation of the original grammar has a CNF pre-image whose reversion is that derivation *)
  Theorem cnf_roundtrip_complete d : wf_otree rules d = true -> to_otree (revert (cnf_of d)) = Some d.
  Proof.
    intros Hwf. destruct d as [ty v|rid ch]; [reflexivity|].
    pose proof (revert_cnf_parts (ONode rid ch) Hwf (NOrig (r_origin (rule_n rid)))) as H.
    unfold Cnf.cnf_of. destruct (cnf_parts (ONode rid ch)) as [[rhs kids] sk].
    rewrite revert_node by (cbn; discriminate). exact H.
  Qed.

  (* ... and the same yield *)
  Lemma cyield_split_tree rid : forall syms ks i, length syms = length ks -> 2 <= length ks ->
    cyield (split_tree rid i syms ks) = flat_map cyield ks.
  Proof.
    induction syms as [|a syms IH]; intros ks i Hl H2; [destruct ks; simpl in *; lia|].
    destruct ks as [|ka ks]; [simpl in H2; lia|].
    destruct syms as [|b syms]; [destruct ks; simpl in *; lia|].
    destruct ks as [|kb ks]; [simpl in *; lia|].
    destruct syms as [|c syms].
    - destruct ks; [|simpl in Hl; lia]. reflexivity.
    - destruct ks as [|kc ks]; [simpl in Hl; lia|].
      change (split_tree rid i (a :: b :: c :: syms) (ka :: kb :: kc :: ks))
        with (CNode (mkC (NSplit rid i) [a; CN (NSplit rid (S i))] ASplitA [])
                    [ka; split_tree rid (S i) (b :: c :: syms) (kb :: kc :: ks)]).
      cbn [cyield flat_map]. rewrite (IH (kb :: kc :: ks) (S i)) by (simpl in *; lia). rewrite app_nil_r. reflexivity.
  Qed.

  Theorem cnf_yield d : wf_otree rules d = true ->
    match d with
    | OLeaf ty v => True
    | ONode _ _ => let '(rhs, kids, sk) := cnf_parts d in flat_map cyield kids = oyield d
    end.
  Proof.
    induction d as [ty v|rid ch IH] using otree_ind'; intros Hwf; [exact I|].
    cbn [wf_otree] in Hwf. apply andb_true_iff in Hwf. destruct Hwf as [Hwf Hall].
    apply andb_true_iff in Hwf. destruct Hwf as [_ Har]. apply forall2b_length in Har.
    assert (Hkids : forall tf, flat_map cyield (map (mk_child tf) ch) = flat_map oyield ch).
    { intros tf. clear Har. induction ch as [|c ch IHc]; [reflexivity|].
      simpl in Hall. apply andb_true_iff in Hall. destruct Hall as [Hc Hall]. inversion IH as [|? ? IHc0 IHr]; subst.
      cbn [map flat_map]. rewrite (IHc IHr Hall). f_equal.
      destruct c as [ty v|rid' ch']; [unfold mk_child; simpl; destruct tf; reflexivity|].
      specialize (IHc0 Hc). unfold mk_child. cbn [node_of wrap_term].
      destruct (cnf_parts (ONode rid' ch')) as [[rhs kids] sk]. cbn [wrap_term cyield]. exact IHc0. }
    destruct ch as [|c ch'] eqn:Ech.
    - rewrite cnf_parts_nonunit by (intros; discriminate). cbn zeta.
      destruct (r_exp (rule_n rid)); [|simpl in Har; discriminate]. reflexivity.
    - assert (Hnon : (forall rid' ch'', c :: ch' <> [ONode rid' ch'']) ->
                     let '(rhs, kids, sk) := cnf_parts (ONode rid (c :: ch')) in flat_map cyield kids = oyield (ONode rid (c :: ch'))).
      { intros Hnu. rewrite cnf_parts_nonunit by exact Hnu. cbn zeta.
        set (exp := map of_sym (r_exp (rule_n rid))). set (tf := needs_term exp).
        set (e := if tf then map termify exp else exp).
        assert (Hle : length e = length (c :: ch')).
        { unfold e. destruct tf; rewrite ?map_length; unfold exp; rewrite map_length; exact Har. }
        specialize (Hkids tf). cbn [map] in *.
        destruct e as [|x0 [|x1 [|x2 e']]] eqn:Ee; try exact Hkids.
        cbn [tl flat_map]. rewrite cyield_split_tree by (simpl in *; rewrite map_length; lia).
        rewrite app_nil_r. exact Hkids. }
      destruct c as [ty v|rid' ch'']; [apply Hnon; intros; discriminate|].
      destruct ch' as [|c2 ch2]; [|apply Hnon; intros; discriminate].
      rewrite cnf_parts_unit. inversion IH as [|? ? IHc _]; subst.
      simpl in Hall. apply andb_true_iff in Hall. destruct Hall as [Hc _]. specialize (IHc Hc).
      destruct (cnf_parts (ONode rid' ch'')) as [[rhs kids] sk]. cbn [oyield flat_map]. rewrite app_nil_r. exact IHc.
  Qed.

  Theorem cnf_roundtrip_yield d : wf_otree rules d = true -> cyield (cnf_of d) = oyield d.
  Proof.
    intros Hwf. destruct d as [ty v|rid ch]; [reflexivity|].
    pose proof (cnf_yield (ONode rid ch) Hwf) as H. unfold Cnf.cnf_of.
    destruct (cnf_parts (ONode rid ch)) as [[rhs kids] sk]. exact H.
  Qed.

  (* ---- CYK's tree for that parse is the shape of the derivation --------------------------------- *)
  Variable mp : bool.
  Hypothesis Htable : Forall (fun r => rule_wf r mp = true /\ inline_ok r = true) rules.

  Lemma eval_chain_shape d : wf_dtree mp d = true -> eval_chain mp d = shape mp d.
  Proof.
    induction d as [ty v|r ch IH] using dtree_ind'; intros Hwf; [reflexivity|].
    cbn [wf_dtree] in Hwf. repeat (apply andb_true_iff in Hwf; destruct Hwf as [Hwf ?]).
    rename H into Hall, H0 into Har.
    cbn [Cnf.eval_chain]. unfold shape. cbn [eval]. fold (shape mp).
    assert (E : map (eval_chain mp) ch = map (shape mp) ch).
    { clear Har. induction ch as [|c ch IHc]; [reflexivity|]. simpl in Hall.
      apply andb_true_iff in Hall. destruct Hall as [Hc Hall]. inversion IH; subst. simpl. f_equal; auto. }
    rewrite E. unfold shape.
    destruct (all_some (map (eval stree NoneV skids no_user Tr Tok mp) ch)) as [vs|] eqn:Ev; [|reflexivity].
    unfold tree_callback. rewrite chain_spec; [reflexivity|exact Hwf|].
    apply all_some_length in Ev. rewrite map_length in Ev. apply forall2b_length in Har. lia.
  Qed.

  Lemma wf_otree_dtree d : wf_otree rules d = true -> wf_dtree mp (o_dtree rules d) = true.
  Proof.
    induction d as [ty v|rid ch IH] using otree_ind'; intros Hwf; [reflexivity|].
    cbn [wf_otree] in Hwf. apply andb_true_iff in Hwf. destruct Hwf as [Hwf Hall].
    apply andb_true_iff in Hwf. destruct Hwf as [Hlt Har]. apply Nat.ltb_lt in Hlt.
    cbn [o_dtree wf_dtree].
    assert (Hin : In (rule_n rid) rules) by (apply nth_In; exact Hlt).
    rewrite Forall_forall in Htable. destruct (Htable _ Hin) as [H1 H2]. rewrite H1, H2. cbn [andb].
    apply andb_true_iff. split.
    - clear Hall IH. revert Har. generalize (r_exp (rule_n rid)) as exp.
      induction ch as [|c ch IHc]; intros [|s exp] Har; simpl in *; try discriminate; auto.
      apply andb_true_iff in Har. destruct Har as [Hc Har]. rewrite (IHc _ Har), andb_true_r.
      destruct c; exact Hc.
    - clear Har. induction ch as [|c ch IHc]; [reflexivity|]. simpl in Hall.
      apply andb_true_iff in Hall. destruct Hall as [Hc Hall]. inversion IH; subst. simpl. rewrite IHc; auto.
      rewrite andb_true_r. auto.
  Qed.

  Theorem cyk_is_shape d : wf_otree rules d = true ->
    cyk_result rules mp (cnf_of d) = shape mp (o_dtree rules d).
  Proof.
    intros Hwf. unfold cyk_result. rewrite (cnf_roundtrip_complete d Hwf).
    apply eval_chain_shape. apply wf_otree_dtree. exact Hwf.
  Qed.
End WithRules.
