(* LR/Driver_proofs.v - soundness of the LALR driver for ANY table satisfying the
   "a state remembers the top of the stack" invariant (wf_table); a local, decidable
   LR(0)-item certificate (wf_items) that implies it; a boolean checker for concrete tables. *)
From Coq Require Import List Arith Bool Lia.
From LV Require Import Cfg.Grammar LR.Driver.
Import ListNotations.

(* ---------- small list facts ---------- *)
Lemma firstn_map {A B} (f : A -> B) n l : firstn n (map f l) = map f (firstn n l).
Proof. revert l; induction n; destruct l; simpl; auto. now rewrite IHn. Qed.

Lemma flat_map_app' {A B} (f : A -> list B) l1 l2 :
  flat_map f (l1 ++ l2) = flat_map f l1 ++ flat_map f l2.
Proof. induction l1; simpl; auto. now rewrite IHl1, app_assoc. Qed.

Lemma firstn_S_nth_error {A} (l : list A) d x :
  nth_error l d = Some x -> firstn (S d) l = firstn d l ++ [x].
Proof.
  revert l; induction d; destruct l; simpl; intros H; try discriminate.
  - now inversion H.
  - f_equal. now apply IHd.
Qed.

Section Trees.
  Variable tok : Type.
  Variable ttype : tok -> nat.
  Variable G : grammar.

  Notation dtree := (dtree tok).
  Notation root := (root tok ttype).
  Notation yield := (yield tok).
  Definition tmatch (t : nat) (k : tok) : bool := Nat.eqb t (ttype k).

  (* well-formed derivation tree of G: every node is a rule of G applied to children whose
     root symbols spell its right-hand side *)
  Fixpoint wf_tree (t : dtree) : Prop :=
    match t with
    | Leaf _ => True
    | Node r cs => In r G /\ map root cs = rhs r /\
                   (fix all (l : list dtree) : Prop :=
                      match l with [] => True | c :: l' => wf_tree c /\ all l' end) cs
    end.

  Definition wf_forest (l : list dtree) : Prop := Forall wf_tree l.

  Lemma wf_node_iff r cs :
    wf_tree (Node r cs) <-> In r G /\ map root cs = rhs r /\ wf_forest cs.
  Proof.
    simpl. assert (E : forall l, (fix all (l : list dtree) : Prop :=
                      match l with [] => True | c :: l' => wf_tree c /\ all l' end) l <-> Forall wf_tree l).
    { induction l; simpl; split; auto; intros H.
      - destruct H; constructor; auto. now apply IHl.
      - inversion H; subst; split; auto. now apply IHl. }
    unfold wf_forest. rewrite E. tauto.
  Qed.

  Fixpoint tsize (t : dtree) : nat :=
    match t with Leaf _ => 1 | Node _ cs => S (list_sum (map tsize cs)) end.

  Lemma wf_tree_derives_aux n :
    forall t, tsize t <= n -> wf_tree t -> derives G tok tmatch [root t] (yield t).
  Proof.
    induction n; intros t Hs Hw.
    - destruct t; simpl in Hs; lia.
    - destruct t as [k | r cs].
      + simpl. apply d_term. unfold tmatch. apply Nat.eqb_refl. constructor.
      + apply wf_node_iff in Hw. destruct Hw as (Hin & Hr & Hf).
        assert (Hcs : derives G tok tmatch (map root cs) (flat_map yield cs)).
        { simpl in Hs. assert (Hb : list_sum (map tsize cs) <= n) by lia. clear Hs Hr.
          induction cs as [|c cs IHcs]; simpl.
          - constructor.
          - inversion Hf; subst. simpl in Hb.
            change (root c :: map root cs) with ([root c] ++ map root cs).
            apply derives_app.
            + apply IHn; auto. lia.
            + apply IHcs; auto. lia. }
        simpl. rewrite <- (app_nil_r (flat_map yield cs)).
        eapply d_nt with (r := r); eauto. rewrite <- Hr. exact Hcs. constructor.
  Qed.

  Lemma wf_tree_derives t : wf_tree t -> derives G tok tmatch [root t] (yield t).
  Proof. intros; eapply wf_tree_derives_aux; eauto. Qed.

  (* ------------------------------------------------------------------------------- *)
  Variable P : ptable.
  Variable start : nat.

  (* paths of the table from the start state, as (state stack, symbol stack), top first *)
  Inductive path : list state -> list symbol -> Prop :=
  | path_init : path [pt_start P] []
  | path_step q ss g X q' :
      path (q :: ss) g -> pt_action P q X = Some (Shift q') -> path (q' :: q :: ss) (X :: g).

  (* the hypothesis on the table.  Nothing about look-aheads: ANY choice of reduce
     look-aheads (LALR, SLR, full rows, conflict resolutions ...) satisfies it as long as a
     reduce by r is only offered in states all of whose access paths end with rhs r. *)
  Record wf_table : Prop := {
    wf_reduce : forall q ss g a r, path (q :: ss) g -> pt_action P q (T a) = Some (Reduce r) ->
                In r G /\ firstn (length (rhs r)) g = rev (rhs r);
    wf_end : forall q X, pt_action P q X = Some (Shift (pt_end P)) -> q = pt_start P /\ X = NT start;
    wf_start : forall q X, pt_action P q X <> Some (Shift (pt_start P)) }.

  (* stack invariant of the driver *)
  Inductive stack_ok : list state -> list dtree -> Prop :=
  | ok_init : stack_ok [pt_start P] []
  | ok_push q ss vs t q' :
      stack_ok (q :: ss) vs -> wf_tree t -> pt_action P q (root t) = Some (Shift q') ->
      stack_ok (q' :: q :: ss) (t :: vs).

  Definition consumed (vs : list dtree) : list tok := flat_map yield (rev vs).

  Definition cfg_ok (c : config tok) : Prop := stack_ok (sstack c) (vstack c).

  Lemma stack_ok_path ss vs : stack_ok ss vs -> path ss (map root vs).
  Proof. induction 1; simpl; econstructor; eauto. Qed.

  Lemma stack_ok_nonempty ss vs : stack_ok ss vs -> ss <> [].
  Proof. destruct 1; discriminate. Qed.

  Lemma stack_ok_length ss vs : stack_ok ss vs -> length ss = S (length vs).
  Proof. induction 1; simpl; auto. Qed.

  Lemma stack_ok_skipn n : forall ss vs, stack_ok ss vs -> n <= length vs ->
    stack_ok (skipn n ss) (skipn n vs).
  Proof.
    induction n; intros ss vs H Hn; simpl; auto.
    destruct H; simpl in *; try lia. apply IHn; auto. lia.
  Qed.

  Lemma stack_ok_forest ss vs : stack_ok ss vs -> wf_forest vs.
  Proof. induction 1; constructor; auto. Qed.

  Lemma stack_ok_at_start ss vs : (forall q X, pt_action P q X <> Some (Shift (pt_start P))) ->
    stack_ok (pt_start P :: ss) vs -> ss = [] /\ vs = [].
  Proof. intros Hs H. inversion H; subst; auto. exfalso. eapply Hs; eauto. Qed.

  Lemma consumed_push t vs : consumed (t :: vs) = consumed vs ++ yield t.
  Proof. unfold consumed. simpl. rewrite flat_map_app'. simpl. now rewrite app_nil_r. Qed.

  Lemma consumed_reduce r n vs : n <= length vs ->
    consumed (Node r (rev (firstn n vs)) :: skipn n vs) = consumed vs.
  Proof.
    intros _. rewrite consumed_push. unfold consumed. simpl.
    rewrite <- flat_map_app', <- rev_app_distr, firstn_skipn. reflexivity.
  Qed.

  Hypothesis WF : wf_table.

  (* what one reduce step does to a good configuration *)
  Lemma reduce_step q ss vs a r :
    stack_ok (q :: ss) vs -> pt_action P q (T a) = Some (Reduce r) ->
    let n := length (rhs r) in
    n <= length vs /\ wf_tree (Node r (rev (firstn n vs))) /\
    stack_ok (skipn n (q :: ss)) (skipn n vs).
  Proof.
    intros Hok Ha n.
    destruct (wf_reduce WF _ _ _ _ _ (stack_ok_path _ _ Hok) Ha) as (Hin & Hsuf).
    assert (Hlen : n <= length vs).
    { apply (f_equal (@length _)) in Hsuf. rewrite rev_length, firstn_length, map_length in Hsuf.
      unfold n. lia. }
    split; [exact Hlen|]. split.
    - apply wf_node_iff. split; [exact Hin|]. split.
      + rewrite map_rev, <- firstn_map. fold n. unfold n at 1. rewrite Hsuf. apply rev_involutive.
      + apply Forall_rev. pose proof (stack_ok_forest _ _ Hok) as Hf. unfold wf_forest in *.
        rewrite <- (firstn_skipn n vs) in Hf. apply Forall_app in Hf. tauto.
    - apply stack_ok_skipn; auto.
  Qed.

  Lemma feed_inv fuel : forall c k e,
    cfg_ok c ->
    match feed tok ttype P fuel c k e with
    | Shifted c' => cfg_ok c' /\ consumed (vstack c') = consumed (vstack c) ++ [k] /\ e = false
    | Accepted t => wf_tree t /\ root t = NT start /\ yield t = consumed (vstack c) /\ e = true
    | Unexpected c' => cfg_ok c' /\ consumed (vstack c') = consumed (vstack c)
    | DAssert c' | DCrash c' => True
    | DFuel => True
    end.
  Proof.
    induction fuel; intros c k e Hc; simpl; auto.
    destruct c as [ss vs]; unfold cfg_ok in *; simpl in *.
    destruct ss as [|q ss]; auto.
    destruct (pt_action P q (T (ttype k))) as [[q' | r]|] eqn:Ha; simpl; auto.
    - destruct (Nat.eqb q' (pt_end P)); auto. destruct e; auto. simpl. split; [|split]; auto.
      + apply ok_push; simpl; auto.
      + apply consumed_push.
    - destruct (reduce_step _ _ _ _ _ Hc Ha) as (Hlen & Hw & Hok').
      remember (skipn (length (rhs r)) (q :: ss)) as ss' eqn:Ess.
      destruct ss' as [|q2 ss2]; auto.
      destruct (pt_action P q2 (NT (lhs r))) as [[q3 | r3]|] eqn:Hg; auto.
      destruct (e && Nat.eqb q3 (pt_end P)) eqn:Hend.
      + apply andb_true_iff in Hend. destruct Hend as (-> & Hq3). apply Nat.eqb_eq in Hq3. subst q3.
        destruct (wf_end WF _ _ Hg) as (-> & Hs). inversion Hs as [Hl].
        destruct (stack_ok_at_start _ _ (wf_start WF) Hok') as (_ & Hvs).
        split; [exact Hw|]. split; [simpl; now rewrite Hl|]. split; auto.
        rewrite <- (consumed_reduce r _ vs Hlen). rewrite Hvs. unfold consumed. simpl.
        now rewrite app_nil_r.
      + specialize (IHfuel (mkConfig (q3 :: q2 :: ss2) (Node r (rev (firstn (length (rhs r)) vs)) :: skipn (length (rhs r)) vs)) k e).
        simpl in IHfuel.
        assert (Hok2 : stack_ok (q3 :: q2 :: ss2) (Node r (rev (firstn (length (rhs r)) vs)) :: skipn (length (rhs r)) vs)).
        { apply ok_push; auto. }
        specialize (IHfuel Hok2). rewrite (consumed_reduce r _ vs Hlen) in IHfuel. exact IHfuel.
  Qed.

  Lemma feed_all_inv fuel : forall w c,
    cfg_ok c ->
    match feed_all tok ttype P fuel c w with
    | Shifted c' => cfg_ok c' /\ consumed (vstack c') = consumed (vstack c) ++ w
    | Accepted _ => False
    | Unexpected c' => cfg_ok c' /\ exists w1 w2, w = w1 ++ w2 /\ consumed (vstack c') = consumed (vstack c) ++ w1
    | _ => True
    end.
  Proof.
    induction w as [|k w IH]; intros c Hc; simpl.
    - split; auto. now rewrite app_nil_r.
    - pose proof (feed_inv fuel c k false Hc) as H1.
      destruct (feed tok ttype P fuel c k false) as [c1|t|c1|c1|c1|] eqn:E; auto.
      + destruct H1 as (Hc1 & Hcons & _). specialize (IH c1 Hc1).
        destruct (feed_all tok ttype P fuel c1 w) as [c2|t|c2|c2|c2|]; auto.
        * destruct IH as (? & ->). split; auto. now rewrite Hcons, <- app_assoc.
        * destruct IH as (? & w1 & w2 & -> & ->). split; auto.
          exists (k :: w1), w2. split; auto. now rewrite Hcons, <- app_assoc.
      + destruct H1 as (_ & _ & _ & H1). discriminate.
      + destruct H1 as (? & ?). split; auto. exists [], (k :: w). split; auto. now rewrite app_nil_r.
  Qed.

  (* driver_sound: an accepted input is a sentence, and the returned value is a derivation
     tree of it *)
  Theorem driver_sound fuel w end_tok t :
    parse tok ttype P fuel w end_tok = Accepted t ->
    wf_tree t /\ root t = NT start /\ yield t = w /\ derives G tok tmatch [NT start] w.
  Proof.
    unfold parse. intros H.
    assert (H0 : cfg_ok (init_config P)) by (unfold cfg_ok; simpl; constructor).
    pose proof (feed_all_inv fuel w _ H0) as H1.
    destruct (feed_all tok ttype P fuel (init_config P) w) as [c|t'|c|c|c|] eqn:E; try discriminate.
    - destruct H1 as (Hc & Hcons). pose proof (feed_inv fuel c end_tok true Hc) as H2.
      rewrite H in H2. destruct H2 as (Hw & Hr & Hy & _).
      simpl in Hcons. rewrite Hcons in Hy.
      repeat split; auto. rewrite <- Hr, <- Hy. now apply wf_tree_derives.
    - contradiction.
  Qed.

  (* a rejected input: the error is raised with a good configuration whose consumed input
     is a prefix of the input (the reductions done before the error keep the invariant) *)
  Theorem driver_error_prefix fuel w c :
    feed_all tok ttype P fuel (init_config P) w = Unexpected c ->
    cfg_ok c /\ exists w1 w2, w = w1 ++ w2 /\ consumed (vstack c) = w1.
  Proof.
    intros H. assert (H0 : cfg_ok (init_config P)) by (unfold cfg_ok; simpl; constructor).
    pose proof (feed_all_inv fuel w _ H0) as H1. rewrite H in H1. exact H1.
  Qed.
End Trees.

(* ------------------------------------------------------------------------------------ *)
(* A local certificate: LR(0)-style item annotation of the states.                        *)
Section Items.
  Variable G : grammar.
  Variable P : ptable.
  Variable start : nat.
  Variable items : state -> list (rule * nat).

  Record wf_items : Prop := {
    wi_reduce : forall q a r, pt_action P q (T a) = Some (Reduce r) ->
                In r G /\ In (r, length (rhs r)) (items q);
    wi_shift : forall q X q' r d, pt_action P q X = Some (Shift q') -> In (r, d) (items q') ->
               d = 0 \/ exists d', d = S d' /\ nth_error (rhs r) d' = Some X /\ In (r, d') (items q);
    wi_init : forall r d, In (r, d) (items (pt_start P)) -> d = 0;
    wi_end : forall q X, pt_action P q X = Some (Shift (pt_end P)) -> q = pt_start P /\ X = NT start;
    wi_start : forall q X, pt_action P q X <> Some (Shift (pt_start P)) }.

  (* lr0_suffix: every item (A -> alpha . beta) of a state reached by a path spelling gamma
     has alpha as a suffix of gamma *)
  Lemma lr0_suffix : wf_items -> forall ss g, path P ss g ->
    forall q ss', ss = q :: ss' -> forall r d, In (r, d) (items q) ->
    firstn d g = rev (firstn d (rhs r)).
  Proof.
    intros W ss g Hp. induction Hp; intros q0 ss0 E r d Hin; inversion E; subst.
    - rewrite (wi_init W _ _ Hin). reflexivity.
    - destruct (wi_shift W _ _ _ _ _ H Hin) as [-> | (d' & -> & Hn & Hin')]; [reflexivity|].
      rewrite (firstn_S_nth_error _ _ _ Hn), rev_app_distr. simpl. f_equal.
      eapply IHHp; eauto.
  Qed.

  Theorem wf_items_table : wf_items -> wf_table G P start.
  Proof.
    intros W. constructor.
    - intros q ss g a r Hp Ha. destruct (wi_reduce W _ _ _ Ha) as (Hin & Hit). split; auto.
      rewrite (lr0_suffix W _ _ Hp q ss eq_refl _ _ Hit). now rewrite firstn_all.
    - apply (wi_end W).
    - apply (wi_start W).
  Qed.
End Items.

(* ------------------------------------------------------------------------------------ *)
(* Boolean checker of the certificate for concrete tables (rows) and concrete item lists *)
Definition rule_eqb (r1 r2 : rule) : bool := if rule_eq_dec r1 r2 then true else false.
Definition ritem_eqb (i1 i2 : rule * nat) : bool := rule_eqb (fst i1) (fst i2) && Nat.eqb (snd i1) (snd i2).
Definition mem_ritem (i : rule * nat) (l : list (rule * nat)) : bool := existsb (ritem_eqb i) l.
Definition mem_rule (r : rule) (l : list rule) : bool := existsb (rule_eqb r) l.

Lemma rule_eqb_eq r1 r2 : rule_eqb r1 r2 = true <-> r1 = r2.
Proof. unfold rule_eqb. destruct (rule_eq_dec r1 r2); split; auto; discriminate. Qed.

Lemma mem_rule_In r l : mem_rule r l = true <-> In r l.
Proof.
  unfold mem_rule. rewrite existsb_exists. split.
  - intros (x & Hx & E). apply rule_eqb_eq in E. now subst.
  - intros H. exists r. split; auto. now apply rule_eqb_eq.
Qed.

Lemma mem_ritem_In i l : mem_ritem i l = true <-> In i l.
Proof.
  unfold mem_ritem, ritem_eqb. rewrite existsb_exists. split.
  - intros (x & Hx & E). apply andb_true_iff in E. destruct E as (E1 & E2).
    apply rule_eqb_eq in E1. apply Nat.eqb_eq in E2. destruct i, x; simpl in *; now subst.
  - intros H. exists i. split; auto. apply andb_true_iff. split.
    now apply rule_eqb_eq. apply Nat.eqb_refl.
Qed.

Section Checker.
  Variable G : grammar.
  Variable R : rows.
  Variable q0 qe : state.
  Variable start : nat.
  Variable IT : list (state * list (rule * nat)).

  Fixpoint items_of (l : list (state * list (rule * nat))) (q : state) : list (rule * nat) :=
    match l with
    | [] => []
    | (q', it) :: l' => if Nat.eqb q q' then it else items_of l' q
    end.

  Definition check_entry (q : state) (e : symbol * action) : bool :=
    match e with
    | (X, Shift q') =>
        negb (Nat.eqb q' q0) &&
        (if Nat.eqb q' qe then Nat.eqb q q0 && symbol_eqb X (NT start) else true) &&
        forallb (fun it : rule * nat =>
                   match snd it with
                   | O => true
                   | S d' => match nth_error (rhs (fst it)) d' with
                             | Some Y => symbol_eqb Y X && mem_ritem (fst it, d') (items_of IT q)
                             | None => false
                             end
                   end) (items_of IT q')
    | (X, Reduce r) => mem_rule r G && mem_ritem (r, length (rhs r)) (items_of IT q)
    end.

  Definition check_table : bool :=
    forallb (fun row : state * list (symbol * action) => forallb (check_entry (fst row)) (snd row)) R &&
    forallb (fun it : rule * nat => Nat.eqb (snd it) 0) (items_of IT q0).

  Lemma assoc_sym_In X row a : assoc_sym X row = Some a -> In (X, a) row.
  Proof.
    induction row as [|[Y b] row IH]; simpl; try discriminate.
    destruct (symbol_eqb_spec X Y); intros H.
    - inversion H; subst; auto.
    - right; auto.
  Qed.

  Lemma row_of_In q row : row_of R q = Some row -> In (q, row) R.
  Proof.
    induction R as [|[q' r'] R' IH]; simpl; try discriminate.
    destruct (Nat.eqb_spec q q'); intros H.
    - inversion H; subst; auto.
    - right; auto.
  Qed.

  Lemma action_entry q X a : rows_action R q X = Some a -> check_table = true -> check_entry q (X, a) = true.
  Proof.
    unfold rows_action, check_table. intros H C. apply andb_true_iff in C. destruct C as (C & _).
    destruct (row_of R q) as [row|] eqn:E; try discriminate.
    rewrite forallb_forall in C. specialize (C _ (row_of_In _ _ E)). simpl in C.
    rewrite forallb_forall in C. apply C. now apply assoc_sym_In.
  Qed.

  Theorem check_table_sound :
    check_table = true -> wf_items G (ptable_of_rows R q0 qe) start (items_of IT).
  Proof.
    intros C. constructor; simpl.
    - intros q a r H. pose proof (action_entry _ _ _ H C) as E. simpl in E.
      apply andb_true_iff in E. destruct E as (E1 & E2).
      split. now apply mem_rule_In. now apply mem_ritem_In.
    - intros q X q' r d H Hin. pose proof (action_entry _ _ _ H C) as E. simpl in E.
      apply andb_true_iff in E. destruct E as (_ & E). rewrite forallb_forall in E.
      specialize (E _ Hin). simpl in E. destruct d as [|d']; auto. right.
      destruct (nth_error (rhs r) d') as [Y|] eqn:En; try discriminate.
      apply andb_true_iff in E. destruct E as (E1 & E2).
      destruct (symbol_eqb_spec Y X); try discriminate. subst Y.
      exists d'. repeat split; auto. now apply mem_ritem_In.
    - intros r d Hin. unfold check_table in C. apply andb_true_iff in C. destruct C as (_ & C).
      rewrite forallb_forall in C. specialize (C _ Hin). simpl in C. now apply Nat.eqb_eq.
    - intros q X H. pose proof (action_entry _ _ _ H C) as E. simpl in E.
      rewrite Nat.eqb_refl in E. apply andb_true_iff in E. destruct E as (E & _).
      apply andb_true_iff in E. destruct E as (_ & E). apply andb_true_iff in E. destruct E as (E1 & E2).
      apply Nat.eqb_eq in E1. destruct (symbol_eqb_spec X (NT start)); try discriminate. auto.
    - intros q X H. pose proof (action_entry _ _ _ H C) as E. simpl in E.
      rewrite Nat.eqb_refl in E. simpl in E. discriminate.
  Qed.
End Checker.

(* the root rule  $root -> start  may be dropped from derivations of the user's start symbol *)
Section Root.
  Variable tok : Type.
  Variable tmatch : nat -> tok -> bool.
  Variable G : grammar.
  Variable r0 : rule.
  Definition no_sym (X : symbol) (l : list symbol) : Prop := ~ In X l.
  Hypothesis fresh : forall r, In r G -> no_sym (NT (lhs r0)) (rhs r).

  Lemma derives_without_root ss w :
    derives (r0 :: G) tok tmatch ss w -> no_sym (NT (lhs r0)) ss -> derives G tok tmatch ss w.
  Proof.
    induction 1; intros Hn.
    - constructor.
    - constructor; auto. apply IHderives. intros Hc; apply Hn; now right.
    - destruct H as [<- | Hin].
      + exfalso. apply Hn. left. now rewrite H0.
      + apply d_nt with (r := r); [exact Hin | exact H0 | |].
        * apply IHderives1. now apply fresh.
        * apply IHderives2. intros Hc; apply Hn; now right.
  Qed.
End Root.
