(* LR/DriverCheck.v - comparison helpers for the harness: the model driver (LR/Driver.v) run on
   lark's OWN exported parse table must reproduce, token by token, what ParserState.feed_token
   did (state stack, choices()/expected, accept/error, result tree); and the exported table
   together with lark's item sets must pass the certificate checker, which by
   Driver_proofs.check_table_sound + driver_sound makes that very table sound.  No proofs here. *)
From Coq Require Import List Arith Bool.
From LV Require Import Cfg.Grammar LR.Driver LR.Driver_proofs LR.Automaton.
Import ListNotations.

Inductive oact := OShift (q : nat) | RuleRef (r : nat).
Inductive otree := OLeaf (t : nat) | ONode (r : nat) (cs : list otree).

(* one fed token: terminal number (0 = $END, fed with is_end=True), outcome code
   (0 shifted, 1 accepted, 2 UnexpectedToken, 3 AssertionError, 4 KeyError/IndexError, 5 no return),
   state stack afterwards (top first), keys: choices() after a shift / e.expected after an error *)
Definition ostep := (nat * nat * list nat * list symbol)%type.
Definition orun := (list ostep * option otree)%type.

Record DCase := mkDCase {
  dc_rules : list rule;              (* user rules ++ root rules *)
  dc_nuser : nat;                    (* number of user rules *)
  dc_rows : list (nat * list (symbol * oact));
  dc_q0 : nat;
  dc_qe : nat;
  dc_start : nat;                    (* the start non-terminal *)
  dc_items : list (nat * list item); (* closure item set of every state *)
  dc_runs : list orun }.

Section DC.
  Variable c : DCase.
  Definition d_rule (i : nat) : rule := nth i (dc_rules c) (mkRule 0 []).
  Definition d_rows : rows :=
    map (fun qr : nat * list (symbol * oact) =>
           (fst qr, map (fun e : symbol * oact =>
                           (fst e, match snd e with OShift q => Shift q | RuleRef r => Reduce (d_rule r) end))
                        (snd qr))) (dc_rows c).
  Definition d_table : ptable := ptable_of_rows d_rows (dc_q0 c) (dc_qe c).
  Definition d_items : list (state * list (rule * nat)) :=
    map (fun qi : nat * list item => (fst qi, map (fun it : item => (d_rule (fst it), snd it)) (snd qi)))
        (dc_items c).
  Definition d_user : grammar := firstn (dc_nuser c) (dc_rules c).

  Definition cert_ok : bool := check_table d_user d_rows (dc_q0 c) (dc_qe c) (dc_start c) d_items.

  Fixpoint tree_of (t : otree) : dtree nat :=
    match t with OLeaf k => Leaf k | ONode r cs => Node (d_rule r) (map tree_of cs) end.

  Fixpoint tree_eqb (a b : dtree nat) : bool :=
    match a, b with
    | Leaf x, Leaf y => Nat.eqb x y
    | Node r cs, Node s ds =>
        (if rule_eq_dec r s then true else false) &&
        (fix all (l1 l2 : list (dtree nat)) : bool :=
           match l1, l2 with
           | [], [] => true
           | x :: l1', y :: l2' => tree_eqb x y && all l1' l2'
           | _, _ => false
           end) cs ds
    | _, _ => false
    end.

  Definition syms_eq (l1 l2 : list symbol) : bool :=
    forallb (fun x => mem_sym x l2) l1 && forallb (fun x => mem_sym x l1) l2.
  Definition stack_eqb (l1 l2 : list nat) : bool := list_eqb Nat.eqb l1 l2.
  Definition top (ss : list nat) : nat := hd 0 ss.

  Definition fuel : nat := 200.

  (* replay one run; returns false at the first disagreement *)
  Fixpoint run_ok (cfg : config nat) (steps : list ostep) (res : option otree) : bool :=
    match steps with
    | [] => match res with None => true | Some _ => false end
    | (t, code, stk, keys) :: rest =>
      match feed nat (fun k => k) d_table fuel cfg t (Nat.eqb t 0) with
      | Shifted c' =>
          Nat.eqb code 0 && stack_eqb (sstack c') stk && syms_eq (choices d_rows (top (sstack c'))) keys &&
          run_ok c' rest res
      | Accepted tr =>
          Nat.eqb code 1 && match rest with [] => true | _ => false end &&
          match res with Some o => tree_eqb tr (tree_of o) | None => false end
      | Unexpected c' =>
          Nat.eqb code 2 && stack_eqb (sstack c') stk &&
          syms_eq (map T (expected d_rows (top (sstack c')))) keys &&
          match rest with [] => true | _ => false end && match res with None => true | _ => false end
      | DAssert _ => Nat.eqb code 3 && match rest with [] => true | _ => false end
      | DCrash _ => Nat.eqb code 4 && match rest with [] => true | _ => false end
      | DFuel => Nat.eqb code 5      (* the real driver did not return within the harness's time limit *)
      end
    end.

  Definition runs_ok : bool :=
    forallb (fun r : orun => run_ok (init_config d_table) (fst r) (snd r)) (dc_runs c).
End DC.

Definition check_dcase (c : DCase) : bool := cert_ok c && runs_ok c.
Definition diag_dcase (c : DCase) : list bool :=
  cert_ok c :: map (fun r : orun => run_ok c (init_config (d_table c)) (fst r) (snd r)) (dc_runs c).
