(* LR/Lalr_complete.v - completeness of the model LALR parser for conflict-free tables (stage C):
   the model driver, run on the model table of a grammar whose table has no shift/reduce and no
   reduce/reduce conflict, accepts every sentence.  The driver is shown to follow any derivation
   tree of the sentence (children left to right, then the reduction), the right action being
   present by La_complete.v and being the only one by conflict-freedom. *)
From Coq Require Import List Arith Bool ZArith Lia.
From LV Require Import Cfg.Grammar LR.Driver LR.Driver_proofs LR.Automaton LR.Automaton_proofs
     LR.Automaton_wf LR.Automaton_la LR.Automaton_complete LR.La_complete.
Import ListNotations.

Definition conflict_free (A : lr0) (LA : list (nat * nat * nat)) : Prop :=
  forall q s, In s (la_terms LA q) -> trans A q (T s) = None /\ length (la_rules LA q s) <= 1.

(* ---------- small steps of feed_token ---------- *)
Section Steps.
  Variable P : ptable.
  Notation cfg := (config nat).
  Notation act := (pt_action P).

  Inductive rstep (a : nat) : cfg -> cfg -> Prop :=
  | rstep_intro q ss vs r q2 ss2 q3 :
      act q (T a) = Some (Reduce r) ->
      skipn (length (rhs r)) (q :: ss) = q2 :: ss2 ->
      act q2 (NT (lhs r)) = Some (Shift q3) ->
      rstep a (mkConfig (q :: ss) vs)
              (mkConfig (q3 :: q2 :: ss2)
                        (Node r (rev (firstn (length (rhs r)) vs)) :: skipn (length (rhs r)) vs)).

  Inductive rsteps (a : nat) : cfg -> cfg -> Prop :=
  | rs_refl c : rsteps a c c
  | rs_step c c1 c2 : rstep a c c1 -> rsteps a c1 c2 -> rsteps a c c2.

  Lemma rsteps_trans a c1 c2 c3 : rsteps a c1 c2 -> rsteps a c2 c3 -> rsteps a c1 c3.
  Proof. induction 1; auto. intros. econstructor; eauto. Qed.

  Lemma rsteps_snoc a c1 c2 c3 : rsteps a c1 c2 -> rstep a c2 c3 -> rsteps a c1 c3.
  Proof. intros H1 H2. eapply rsteps_trans; eauto. econstructor; eauto. constructor. Qed.

  Definition top (c : cfg) : nat := hd 0 (sstack c).

  (* feed the tokens of w (reductions, then a shift, for each), then reduce under look-ahead a *)
  Inductive run : cfg -> list nat -> nat -> cfg -> Prop :=
  | run_nil c a c' : rsteps a c c' -> run c [] a c'
  | run_cons c k w a c1 q ss q' c' :
      rsteps k c c1 -> sstack c1 = q :: ss -> act q (T k) = Some (Shift q') ->
      run (mkConfig (q' :: q :: ss) (Leaf k :: vstack c1)) w a c' ->
      run c (k :: w) a c'.

  Lemma run_app c w1 b c1 : run c w1 b c1 -> forall w2 a c2, run c1 w2 a c2 -> b = hd a w2 -> run c (w1 ++ w2) a c2.
  Proof.
    induction 1 as [c b c1 Hs | c k w b c1 q ss q' c' Hs Hst Ha Hr IH]; intros w2 a c2 H2 Hb; simpl.
    - destruct H2 as [c1' a c2 Hs2 | c1' k w a c1'' q ss q' c2 Hs2 Hst Ha Hr]; simpl in Hb; subst b.
      + constructor. eapply rsteps_trans; eauto.
      + apply run_cons with (c1 := c1'') (q := q) (ss := ss) (q' := q'); auto. eapply rsteps_trans; eauto.
    - apply run_cons with (c1 := c1) (q := q) (ss := ss) (q' := q'); auto.
  Qed.

  Lemma run_snoc c w a c1 : run c w a c1 -> forall c2, rstep a c1 c2 -> run c w a c2.
  Proof.
    induction 1 as [c a c1 Hs | c k w a c1 q ss q' c' Hs Hst Ha Hr IH]; intros c2 Hc2.
    - constructor. eapply rsteps_snoc; eauto.
    - apply run_cons with (c1 := c1) (q := q) (ss := ss) (q' := q'); auto.
  Qed.

  (* ---- connection with feed / feed_all / parse ---- *)
  Notation feed := (feed nat (fun k => k) P).

  Lemma feed_shift a c c1 : rsteps a c c1 -> forall q ss q', sstack c1 = q :: ss ->
    act q (T a) = Some (Shift q') -> q' <> pt_end P ->
    exists f, forall f', f <= f' ->
      feed f' c a false = Shifted (mkConfig (q' :: q :: ss) (Leaf a :: vstack c1)).
  Proof.
    induction 1 as [c | c c1 c2 Hst Hs IH]; intros q ss q' Hss Ha Hne.
    - exists 1. intros f' Hf. destruct f' as [|f']; [lia|]. simpl. rewrite Hss, Ha.
      destruct (Nat.eqb_spec q' (pt_end P)); [contradiction|reflexivity].
    - destruct (IH q ss q' Hss Ha Hne) as (f & Hf). exists (S f). intros f' Hf'.
      destruct f' as [|f']; [lia|]. destruct Hst as [q0 ss0 vs0 r q2 ss2 q3 Hr Hsk Hg]. simpl.
      rewrite Hr. simpl in Hsk. rewrite Hsk, Hg. simpl. apply Hf. lia.
  Qed.

  Lemma feed_accept a c1 c2 : rsteps a c1 c2 -> forall c, rstep a c c1 -> top c2 = pt_end P ->
    exists f, forall f', f <= f' -> exists t, feed f' c a true = Accepted t.
  Proof.
    induction 1 as [c1 | c1 c1' c2 Hst Hs IH]; intros c Hc Ht.
    - exists 1. intros f' Hf. destruct f' as [|f']; [lia|].
      destruct Hc as [q0 ss0 vs0 r q2 ss2 q3 Hr Hsk Hg]. simpl. rewrite Hr. simpl in Hsk. rewrite Hsk, Hg.
      unfold top in Ht. simpl in Ht. rewrite Ht, Nat.eqb_refl. simpl. eauto.
    - destruct (IH c1 Hst Ht) as (f & Hf). exists (S f). intros f' Hf'. destruct f' as [|f']; [lia|].
      destruct Hc as [q0 ss0 vs0 r q2 ss2 q3 Hr Hsk Hg]. simpl. rewrite Hr. simpl in Hsk. rewrite Hsk, Hg.
      destruct (Nat.eqb q3 (pt_end P)); simpl; eauto. apply Hf. lia.
  Qed.

  Notation feed_all := (feed_all nat (fun k => k) P).

  Lemma run_feed_all c w a c' : run c w a c' ->
    (forall q k q', act q (T k) = Some (Shift q') -> q' <> pt_end P) -> top c <> pt_end P ->
    exists c1 f, (forall f', f <= f' -> feed_all f' c w = Shifted c1) /\ rsteps a c1 c' /\ top c1 <> pt_end P.
  Proof.
    intros H Hne. induction H as [c a c' Hs | c k w a c1 q ss q' c' Hs Hst Ha Hr IH]; intros Ht.
    - exists c, 0. repeat split; auto.
    - destruct (feed_shift k c c1 Hs q ss q' Hst Ha (Hne _ _ _ Ha)) as (f1 & Hf1).
      destruct IH as (c2 & f2 & Hf2 & Hs2 & Ht2).
      { unfold top. simpl. eapply Hne; eauto. }
      exists c2, (max f1 f2). repeat split; auto. intros f' Hf. simpl.
      rewrite Hf1 by lia. apply Hf2. lia.
  Qed.
End Steps.

Lemma derives_forest rules ss w :
  derives rules nat (tmatch nat (fun k => k)) ss w ->
  exists cs, wf_forest nat (fun k => k) rules cs /\ map (root nat (fun k => k)) cs = ss /\
             flat_map (yield nat) cs = w.
Proof.
  induction 1 as [| t k ss w Hm Hd IH | a r ss w1 w2 Hin Hl Hd1 IH1 Hd2 IH2].
  - exists []. repeat split. constructor.
  - destruct IH as (cs & Hw & Hr & Hy). exists (Leaf k :: cs). unfold tmatch in Hm. apply Nat.eqb_eq in Hm.
    repeat split; simpl; try congruence. constructor; simpl; auto.
  - destruct IH1 as (cs1 & Hw1 & Hr1 & Hy1). destruct IH2 as (cs2 & Hw2 & Hr2 & Hy2).
    exists (Node r cs1 :: cs2). repeat split; simpl; try congruence.
    constructor; auto. apply wf_node_iff. auto.
Qed.

Section Model.
  Variable rules : list rule.
  Variable prio : list Z.
  Variable tEND fuel : nat.
  Variable A : lr0.
  Variable rel : relations.
  Variable LA : list (nat * nat * nat).
  Variable R : rows.
  Variable r0 rootnt start qe : nat.
  Hypothesis HT : compute_lalr rules prio [r0] tEND fuel = ATable A rel LA R.
  Hypothesis Hv : r0 < length rules.
  Hypothesis Hr0 : rule_at rules r0 = mkRule rootnt [NT start].
  Hypothesis fresh : forall r, In r rules -> ~ In (NT rootnt) (rhs r).
  Hypothesis Hqe : end_state rules [r0] A 0 = Some qe.
  Hypothesis Hgoto : trans A 0 (NT start) = Some qe.
  Hypothesis CF : conflict_free A LA.

  Notation P := (model_ptable R 0 qe).
  Notation act := (pt_action P).
  Notation rule_at := (rule_at rules).
  Notation nts := (nt_transitions rules A).
  Notation FollowOf := (FollowOf rules tEND A r0).
  Notation wf_tree := (wf_tree nat (fun k => k) rules).
  Notation wf_forest := (wf_forest nat (fun k => k) rules).
  Notation root := (root nat (fun k => k)).
  Notation yield := (yield nat).
  Notation tsize := (tsize nat).

  Let HB : build_lr0 rules [r0] fuel = Some A := HA rules prio [r0] tEND fuel A rel LA R HT.
  Let ND := ND1' r0.

  Lemma LA_eq : LA = la_triples (compute_relations rules [r0] tEND A).
  Proof. destruct (HT_parts rules prio [r0] tEND fuel A rel LA R HT) as (_ & E1 & E2 & _). now rewrite E2, E1. Qed.

  Lemma act_eq q X : q < nstates A -> act q X = assoc_sym X (row rules prio A LA q).
  Proof.
    intros Hq. destruct (HT_parts rules prio [r0] tEND fuel A rel LA R HT) as (_ & _ & _ & ER).
    simpl. rewrite ER. unfold rows_action, table_rows. rewrite row_of_seq. simpl.
    apply Nat.ltb_lt in Hq. now rewrite Hq.
  Qed.

  Lemma act_shift q X q' : trans A q X = Some q' -> act q X = Some (Shift q').
  Proof.
    intros H. destruct (trans_spec rules [r0] fuel A HB ND _ _ _ H) as (Hq & _).
    rewrite act_eq by exact Hq. now apply shift_preferred.
  Qed.

  Lemma assoc_reduce_entries q a i :
    In a (la_terms LA q) -> decide prio (la_rules LA q a) = Use i ->
    mem_sym (T a) (map fst (trans_of A q)) = false ->
    assoc_sym (T a) (reduce_entries rules prio A LA q) = Some (Reduce (rule_at i)).
  Proof.
    intros Ha Hd Hm. unfold reduce_entries.
    induction (la_terms LA q) as [|s l IH]; [contradiction|]. simpl.
    destruct (Nat.eq_dec s a) as [->|Hne].
    - rewrite Hd, Hm. simpl. now rewrite Nat.eqb_refl.
    - destruct Ha as [Ha|Ha]; [contradiction|].
      rewrite assoc_sym_app.
      assert (E : assoc_sym (T a) (match decide prio (la_rules LA q s) with
                                   | Use r => if mem_sym (T s) (map fst (trans_of A q)) then []
                                              else [(T s, Reduce (rule_at r))]
                                   | Collision => [] end) = None).
      { destruct (decide prio (la_rules LA q s)); auto.
        destruct (mem_sym (T s) (map fst (trans_of A q))); auto; simpl;
          destruct (Nat.eqb_spec a s); try congruence; reflexivity. }
      rewrite E. auto.
  Qed.

  Lemma act_reduce q a i : q < nstates A -> In (q, a, i) LA -> act q (T a) = Some (Reduce (rule_at i)).
  Proof.
    intros Hq HLA. rewrite act_eq by exact Hq.
    assert (Ha : In a (la_terms LA q)).
    { unfold la_terms. apply dedup_nat_In, in_flat_map. exists (q, a, i). split; auto.
      rewrite Nat.eqb_refl. now left. }
    assert (Hi : In i (la_rules LA q a)).
    { unfold la_rules. apply dedup_nat_In, in_flat_map. exists (q, a, i). split; auto.
      rewrite !Nat.eqb_refl. now left. }
    destruct (CF q a Ha) as (Hnt & Hlen).
    assert (El : la_rules LA q a = [i]).
    { destruct (la_rules LA q a) as [|x [|y l]]; simpl in *; try lia; try contradiction.
      destruct Hi as [->|[]]. reflexivity. }
    unfold row. rewrite assoc_sym_app, assoc_shift_entries.
    unfold trans in Hnt. rewrite Hnt. simpl.
    apply assoc_reduce_entries; auto.
    - now rewrite El.
    - now apply assoc_trans_mem.
  Qed.

  Lemma trans_item q X q' : trans A q X = Some q' ->
    q < nstates A /\ exists it, In it (closure_of A q) /\ next_sym rules it = Some X.
  Proof.
    intros H. destruct (trans_spec rules [r0] fuel A HB ND _ _ _ H) as (Hq & HX & _). split; auto.
    now apply next_syms_In.
  Qed.

  Lemma hd_snoc {B} (d x : B) l : hd d (l ++ [x]) = hd x l.
  Proof. destruct l; reflexivity. Qed.

  (* the driver follows a forest that continues rule i (started at y = (qo, lhs)) from state q *)
  Lemma sim_forest n a
        (IHt : forall t, tsize t <= n -> wf_tree t -> forall q ss vs b q',
                 trans A q (root t) = Some q' ->
                 (forall r cs, t = Node r cs -> FollowOf (q, lhs r) b) ->
                 run P (mkConfig (q :: ss) vs) (yield t) b (mkConfig (q' :: q :: ss) (t :: vs)))
        y i :
    In y nts -> In (i, 0) (closure_of A (fst y)) -> lhs (rule_at i) = snd y -> FollowOf y a ->
    forall cs, (forall c, In c cs -> tsize c <= n) -> wf_forest cs ->
    forall pre q ss vs, rhs (rule_at i) = pre ++ map root cs -> goto_star A (fst y) pre = Some q ->
    exists ps, length ps = length cs /\
               run P (mkConfig (q :: ss) vs) (flat_map yield cs) a (mkConfig (ps ++ q :: ss) (rev cs ++ vs)) /\
               goto_star A q (map root cs) = Some (hd q ps).
  Proof.
    intros Hy Hit Hl HF cs. induction cs as [|c cs IH]; intros Hsz Hw pre q ss vs Er Hg.
    - exists []. repeat split. simpl. constructor. constructor.
    - inversion Hw as [|? ? Hwc Hwcs]; subst. simpl in Er.
      assert (Hitq : In (i, 0 + length pre) (closure_of A q)).
      { apply (item_along rules fuel A r0 HB i pre (fst y) q 0); auto. simpl. rewrite Er.
        rewrite firstn_app, Nat.sub_diag, firstn_all. simpl. now rewrite app_nil_r. }
      simpl in Hitq.
      assert (Hn : next_sym rules (i, length pre) = Some (root c)).
      { unfold next_sym. simpl. rewrite Er, nth_error_app2, Nat.sub_diag; auto. }
      destruct (item_trans rules fuel A r0 HB _ _ _ Hitq Hn) as (q1 & Hq1).
      assert (Hrun1 : run P (mkConfig (q :: ss) vs) (yield c) (hd a (flat_map yield cs))
                          (mkConfig (q1 :: q :: ss) (c :: vs))).
      { apply IHt; auto. apply Hsz; now left.
        intros r' csc ->. simpl in *.
        apply (la_complete_child rules tEND fuel A r0 HB y i pre (lhs r') (map root cs) q a cs); auto. }
      destruct (IH (fun c' Hc' => Hsz c' (or_intror Hc')) Hwcs (pre ++ [root c]) q1 (q :: ss) (c :: vs)) as (ps & Hlen & Hrun2 & Hg2).
      { rewrite <- app_assoc. exact Er. }
      { rewrite goto_star_app, Hg. simpl. now rewrite Hq1. }
      exists (ps ++ [q1]). split; [rewrite app_length; simpl; lia|]. split.
      + simpl. rewrite <- !app_assoc. simpl. eapply run_app; eauto.
      + simpl. rewrite Hq1, hd_snoc. exact Hg2.
  Qed.

  Lemma firstn_rev_app {B} (cs vs : list B) : firstn (length cs) (rev cs ++ vs) = rev cs.
  Proof. rewrite firstn_app, rev_length, Nat.sub_diag. simpl. rewrite app_nil_r. apply firstn_all2. rewrite rev_length. lia. Qed.
  Lemma skipn_rev_app {B} (cs vs : list B) : skipn (length cs) (rev cs ++ vs) = vs.
  Proof. rewrite skipn_app, rev_length, Nat.sub_diag. simpl. rewrite skipn_all2; [reflexivity|rewrite rev_length; lia]. Qed.
  Lemma skipn_app_len {B} (ps l : list B) n : length ps = n -> skipn n (ps ++ l) = l.
  Proof. intros <-. rewrite skipn_app, Nat.sub_diag. simpl. now rewrite skipn_all. Qed.

  (* the driver follows a derivation tree *)
  Lemma sim n : forall t, tsize t <= n -> wf_tree t -> forall q ss vs b q',
    trans A q (root t) = Some q' ->
    (forall r cs, t = Node r cs -> FollowOf (q, lhs r) b) ->
    run P (mkConfig (q :: ss) vs) (yield t) b (mkConfig (q' :: q :: ss) (t :: vs)).
  Proof.
    induction n; intros t Hs Hw q ss vs b q' Ht HF.
    - destruct t; simpl in Hs; lia.
    - destruct t as [k | r cs].
      + simpl. apply run_cons with (c1 := mkConfig (q :: ss) vs) (q := q) (ss := ss) (q' := q').
        * constructor.
        * reflexivity.
        * now apply act_shift.
        * simpl. constructor. constructor.
      + apply wf_node_iff in Hw. destruct Hw as (Hin & Hr & Hwcs).
        destruct (rule_index rules r Hin) as (i & Hi & Ei).
        destruct (trans_item _ _ _ Ht) as (Hq & it & Hit & Hn). simpl in Hn.
        assert (Hy : In (q, lhs r) nts) by (apply (nts_In rules fuel A r0 HB); eauto).
        assert (Hi0 : In (i, 0) (closure_of A q)).
        { eapply (predicted rules fuel A r0 HB); eauto. now rewrite Ei. }
        destruct (sim_forest n b IHn (q, lhs r) i Hy Hi0 (f_equal lhs Ei) (HF r cs eq_refl) cs) with
            (pre := @nil symbol) (q := q) (ss := ss) (vs := vs) as (ps & Hlen & Hrun & Hg); auto.
        { intros c Hc. simpl in Hs. assert (tsize c <= list_sum (map tsize cs)).
          { clear - Hc. induction cs as [|c' cs IH]; [contradiction|]. simpl. destruct Hc as [->|Hc]; [lia|].
            specialize (IH Hc). lia. }
          lia. }
        { simpl. now rewrite Ei, Hr. }
        simpl yield. eapply run_snoc; [exact Hrun|].
        assert (Hlr : length (rhs r) = length cs) by (rewrite <- Hr; apply map_length).
        assert (HLA : In (hd q ps, b, i) LA).
        { rewrite LA_eq. apply (la_complete_reduce rules tEND fuel A r0 HB (q, lhs r) i (hd q ps) b); auto.
          - simpl. now rewrite Ei.
          - simpl. now rewrite Ei, <- Hr.
          - exact (HF r cs eq_refl). }
        assert (Hqn : hd q ps < nstates A).
        { rewrite LA_eq in HLA. apply (proj1 (proj2 (proj2 (la_closure rules [r0] tEND A)) _ _ _)) in HLA.
          destruct HLA as (k & Hk & Hlb & _). simpl in Hlb.
          destruct (nth_error (nt_transitions rules A) k) as [x|] eqn:Ex.
          - rewrite (nth_map_error _ _ k x [] Ex) in Hlb. unfold lookback in Hlb.
            apply (proj1 (dedup_pair_In _ _)) in Hlb. apply in_flat_map in Hlb. destruct Hlb as (r' & _ & Hlb).
            destruct (snd (walk A (fst x) (rhs (rule_at r')))); [|contradiction].
            destruct (existsb _ (closure_of A n0)) eqn:Ee; [|contradiction].
            destruct Hlb as [E|[]]. inversion E; subst.
            apply existsb_exists in Ee. destruct Ee as (it' & Hit' & _).
            eapply (item_state_lt rules fuel A r0 HB); eauto.
          - apply nth_error_None in Ex. simpl in Hk. lia. }
        pose proof (act_reduce _ _ _ Hqn HLA) as Hact. rewrite Ei in Hact.
        assert (Hps : exists ps', ps ++ q :: ss = hd q ps :: ps').
        { destruct ps; simpl; eauto. }
        destruct Hps as (ps' & Eps). rewrite Eps.
        pose proof (rstep_intro P b (hd q ps) ps' (rev cs ++ vs) r q ss q' Hact) as Hst.
        assert (Hsk : skipn (length (rhs r)) (hd q ps :: ps') = q :: ss).
        { rewrite <- Eps, Hlr. now apply skipn_app_len. }
        specialize (Hst Hsk (act_shift _ _ _ Ht)).
        rewrite Hlr, firstn_rev_app, skipn_rev_app, rev_involutive in Hst. exact Hst.
  Qed.

  Lemma WIm : wf_items rules P start (model_items rules A).
  Proof.
    apply (model_wf_items rules prio [r0] tEND fuel A rel LA R HT ND) with (r0 := r0) (rootnt := rootnt); auto.
    intros r [<-|[]]. exact Hv.
  Qed.

  Lemma follow_root : FollowOf (0, start) tEND.
  Proof.
    destruct (trans_item _ _ _ Hgoto) as (_ & it & Hit & Hn).
    apply follow_read. apply read_dr.
    - apply (nts_In rules fuel A r0 HB). eauto.
    - unfold directly_reads. apply dedup_nat_In, in_app_iff. left.
      unfold is_root_trans. simpl. unfold next_sym. simpl. rewrite Hr0. simpl. rewrite Nat.eqb_refl. now left.
  Qed.

  (* completeness of the model parser on a conflict-free table *)
  Theorem model_complete w :
    derives rules nat (tmatch nat (fun k => k)) [NT start] w ->
    exists f t, parse nat (fun k => k) P f w tEND = Accepted t.
  Proof.
    intros Hd. destruct (derives_forest rules _ _ Hd) as (cs & Hw & Hr & Hy).
    destruct cs as [|t [|t2 cs]]; try discriminate. simpl in Hr, Hy. rewrite app_nil_r in Hy.
    inversion Hr as [Hrt]. inversion Hw as [|? ? Hwt _]; subst.
    assert (Hrun : run P (mkConfig [0] []) (yield t) tEND (mkConfig [qe; 0] [t])).
    { apply (sim (tsize t)); auto. rewrite Hrt. exact Hgoto.
      intros r cs ->. simpl in Hrt. inversion Hrt as [E]. rewrite E. exact follow_root. }
    assert (Hne : forall q k q', act q (T k) = Some (Shift q') -> q' <> pt_end P).
    { intros q k q' Ha E. simpl in E. subst q'. destruct (wi_end _ _ _ _ WIm _ _ Ha) as (_ & E). discriminate. }
    assert (Htop : top (mkConfig [0] (@nil (dtree nat))) <> pt_end P).
    { unfold top. simpl. intros E. apply (wi_start _ _ _ _ WIm 0 (NT start)).
      pose proof (act_shift _ _ _ Hgoto) as Hs0. rewrite <- E in Hs0 at 2. exact Hs0. }
    destruct (run_feed_all P _ _ _ _ Hrun Hne Htop) as (c1 & f1 & Hf1 & Hs & Ht1).
    inversion Hs as [c Ec | c c1' c2 Hst Hs' E1 E2]; subst.
    - exfalso. apply Ht1. reflexivity.
    - destruct (feed_accept P tEND _ _ Hs' _ Hst eq_refl) as (f2 & Hf2).
      destruct (Hf2 (max f1 f2)) as (t' & Ht'); [lia|].
      exists (max f1 f2), t'. unfold parse. change (init_config P) with (mkConfig [0] (@nil (dtree nat))).
      rewrite Hf1 by lia. exact Ht'.
  Qed.
End Model.

(* every non-root kernel of the automaton is the goto of a state of the automaton *)
Lemma bfs_pred rules roots fuel : forall work seen ks,
  bfs rules fuel work seen = Some ks -> incl work seen ->
  (forall K, In K seen -> In K (root_kernels roots) \/
                          exists K0 X, In K0 seen /\ K = goto_kernel rules (closure rules K0) X) ->
  forall K, In K ks -> In K (root_kernels roots) \/
                       exists K0 X, In K0 ks /\ K = goto_kernel rules (closure rules K0) X.
Proof.
  induction fuel; intros work seen ks H HI Inv K HK; simpl in H.
  - destruct work; [|discriminate]. inversion H; subst. auto.
  - destruct work as [|K1 work'].
    + inversion H; subst. auto.
    + set (C := closure rules K1) in *.
      set (new := add_new (map (goto_kernel rules C) (next_syms rules C)) seen) in *.
      apply (IHfuel _ _ _ H); auto.
      * intros x Hx. apply in_app_iff in Hx. apply in_app_iff. destruct Hx as [Hx|Hx]; auto.
        left. apply HI. now right.
      * intros K2 HK2. apply in_app_iff in HK2. destruct HK2 as [HK2|HK2].
        -- destruct (Inv K2 HK2) as [Hr|(K0 & X & HK0 & E)]; auto.
           right. exists K0, X. split; auto. apply in_app_iff. now left.
        -- right. destruct (add_new_spec (map (goto_kernel rules C) (next_syms rules C)) seen) as (Hn1 & _).
           destruct (Hn1 _ HK2) as (Hm & _). apply in_map_iff in Hm. destruct Hm as (X & <- & _).
           exists K1, X. split; auto. apply in_app_iff. left. apply HI. now left.
Qed.

Section Final.
  Variable rules : list rule.
  Variable prio : list Z.
  Variable tEND fuel : nat.
  Variable A : lr0.
  Variable rel : relations.
  Variable LA : list (nat * nat * nat).
  Variable R : rows.
  Variable r0 rootnt start qe : nat.
  Hypothesis HT : compute_lalr rules prio [r0] tEND fuel = ATable A rel LA R.
  Hypothesis Hv : r0 < length rules.
  Hypothesis Hr0 : rule_at rules r0 = mkRule rootnt [NT start].
  Hypothesis fresh : forall r, In r rules -> ~ In (NT rootnt) (rhs r).
  Hypothesis Hqe : end_state rules [r0] A 0 = Some qe.

  Let HB : build_lr0 rules [r0] fuel = Some A := HA rules prio [r0] tEND fuel A rel LA R HT.
  Let ND := ND1' r0.

  (* the root item (r0, 0) occurs only in the root kernel *)
  Lemma root_item_kernel K : In K (kernels A) -> In (r0, 0) (closure rules K) -> K = [(r0, 0)].
  Proof.
    intros HK Hc. apply closure_In in Hc. destruct Hc as [Hc|(_ & _ & kit & a & Hkit & Hnk & Hreach)].
    - destruct (built_shape rules [r0] fuel A HB ND) as (_ & _ & _ & Hok & _).
      destruct (Hok K HK) as [Hr|Hg].
      + simpl in Hr. destruct Hr as [<-|[]]. reflexivity.
      + destruct (gotoish_dots rules _ _ Hg Hc) as (d & Hd). discriminate.
    - exfalso. simpl in Hreach. rewrite Hr0 in Hreach. simpl in Hreach.
      apply next_sym_valid in Hnk. destruct Hnk as (Hv' & Hin).
      apply reach_occurs in Hreach. destruct Hreach as [<-|(r & Hr1 & Hr2)].
      + eapply fresh; [apply rule_at_In; exact Hv'|exact Hin].
      + eapply fresh; eauto.
  Qed.

  Lemma goto_end : trans A 0 (NT start) = Some qe.
  Proof.
    assert (Hk0 : nth_error (kernels A) 0 = Some [(r0, 0)])
      by (apply (root_kernel_at rules prio [r0] tEND fuel A rel LA R HT ND 0 r0 eq_refl)).
    assert (H00 : In (r0, 0) (closure_of A 0)).
    { rewrite (closure_of_nth rules [r0] fuel A HB ND), (nth_error_some_nth _ _ [] _ Hk0).
      apply closure_kernel. now left. }
    assert (Hn0 : next_sym rules (r0, 0) = Some (NT start)) by (unfold next_sym; simpl; now rewrite Hr0).
    destruct (item_trans rules fuel A r0 HB _ _ _ H00 Hn0) as (q' & Hq').
    destruct (trans_spec rules [r0] fuel A HB ND _ _ _ Hq') as (_ & _ & Hkq').
    (* the end state *)
    unfold end_state in Hqe. apply find_index_spec in Hqe. destruct Hqe as (C & HC & Hex).
    simpl in Hex. apply existsb_exists in Hex. destruct Hex as (it & Hit & Hsat).
    apply andb_true_iff in Hsat. destruct Hsat as (Hf & Hsat). apply Nat.eqb_eq in Hf.
    unfold is_satisfied in Hsat. apply Nat.eqb_eq in Hsat. rewrite Hf, Hr0 in Hsat. simpl in Hsat.
    destruct (built_shape rules [r0] fuel A HB ND) as (Hc & _ & _ & _ & NDk).
    rewrite Hc in HC. apply nth_error_map' in HC. destruct HC as (Ke & HKe & ->).
    apply closure_In in Hit. destruct Hit as [Hit|(H0 & _)]; [|lia].
    (* Ke is a goto of some state *)
    pose proof HB as HB'. unfold build_lr0 in HB'.
    destruct (bfs rules fuel (root_kernels [r0]) (root_kernels [r0])) as [ks|] eqn:Eb; [|discriminate].
    assert (Eks : kernels A = ks) by (inversion HB'; reflexivity).
    assert (HKe' : In Ke ks) by (rewrite <- Eks; eapply nth_error_In; eauto).
    destruct (bfs_pred rules [r0] fuel _ _ _ Eb (incl_refl _) (fun K HK => or_introl HK) Ke HKe')
      as [Hroot|(K0 & X & HK0 & EKe)].
    - simpl in Hroot. destruct Hroot as [<-|[]]. destruct Hit as [Hit|[]]. destruct it; simpl in *.
      inversion Hit. lia.
    - rewrite EKe in Hit. apply goto_kernel_In in Hit. destruct Hit as (d' & Hd & Hcl & Hnx).
      assert (d' = 0) by lia. subst d'. rewrite Hf in Hcl, Hnx.
      rewrite Hn0 in Hnx. inversion Hnx; subst X.
      rewrite <- Eks in HK0. rewrite (root_item_kernel K0 HK0 Hcl) in EKe.
      assert (Eq : nth_error (kernels A) qe = nth_error (kernels A) q').
      { rewrite HKe, Hkq', EKe. f_equal. f_equal.
        now rewrite (closure_of_nth rules [r0] fuel A HB ND), (nth_error_some_nth _ _ [] _ Hk0). }
      assert (qe = q').
      { apply (proj1 (NoDup_nth_error (kernels A)) NDk); auto. apply nth_error_Some. rewrite HKe. discriminate. }
      now subst q'.
  Qed.

  Theorem model_complete_end w :
    conflict_free A LA ->
    derives rules nat (tmatch nat (fun k => k)) [NT start] w ->
    exists f t, parse nat (fun k => k) (ptable_of_rows R 0 qe) f w tEND = Accepted t.
  Proof.
    intros CF Hd.
    exact (model_complete rules prio tEND fuel A rel LA R r0 rootnt start qe HT Hv Hr0 fresh Hqe goto_end CF w Hd).
  Qed.
End Final.

(* user level: lark's rule order G ++ [$root -> start] *)
Theorem model_complete_user (G : grammar) (prio : list Z) (rootnt start tEND fuel : nat)
        (A : lr0) (rel : relations) (LA : list (nat * nat * nat)) (R : rows) (qe : nat) (w : list nat) :
  compute_lalr (G ++ [mkRule rootnt [NT start]]) prio [length G] tEND fuel = ATable A rel LA R ->
  (forall r, In r G -> ~ In (NT rootnt) (rhs r)) -> start <> rootnt ->
  end_state (G ++ [mkRule rootnt [NT start]]) [length G] A 0 = Some qe ->
  conflict_free A LA ->
  derives G nat (tmatch nat (fun k => k)) [NT start] w ->
  exists f t, parse nat (fun k => k) (ptable_of_rows R 0 qe) f w tEND = Accepted t.
Proof.
  intros HT Hfresh Hne Hqe CF Hd.
  apply (model_complete_end (G ++ [mkRule rootnt [NT start]]) prio tEND fuel A rel LA R (length G) rootnt start qe HT); auto.
  - rewrite app_length. simpl. lia.
  - unfold rule_at. apply nth_middle.
  - intros r Hr. apply in_app_iff in Hr. destruct Hr as [Hr|[<-|[]]]; auto.
    simpl. intros [E|[]]. inversion E. congruence.
  - eapply derives_incl; [|exact Hd]. intros r Hr. apply in_app_iff. now left.
Qed.

(* a boolean test for conflict-freedom (used for the non-vacuity example) *)
Definition conflict_free_b (A : lr0) (LA : list (nat * nat * nat)) : bool :=
  forallb (fun t : nat * nat * nat =>
             let '(q, s, _) := t in
             match trans A q (T s) with None => true | Some _ => false end &&
             Nat.leb (length (la_rules LA q s)) 1) LA.

Lemma conflict_free_b_sound A LA : conflict_free_b A LA = true -> conflict_free A LA.
Proof.
  intros H q s Hs. unfold la_terms in Hs. apply (proj1 (dedup_nat_In _ _)) in Hs.
  apply in_flat_map in Hs. destruct Hs as (((q', s'), r) & Hin & Hs).
  destruct (Nat.eqb_spec q q'); [|contradiction]. destruct Hs as [<-|[]]. subst q'.
  unfold conflict_free_b in H. rewrite forallb_forall in H. specialize (H _ Hin). simpl in H.
  apply andb_true_iff in H. destruct H as (H1 & H2). apply Nat.leb_le in H2. split; auto.
  destruct (trans A q (T s')); [discriminate|reflexivity].
Qed.
