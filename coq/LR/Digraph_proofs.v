(* LR/Digraph_proofs.v - the as-coded digraph()/traverse() (LR/Digraph.v) against the least
   solution of  F x = G x  U  U { F y | y in R x }.
   * digraph_coded_acyclic: for every ACYCLIC relation (a rank strictly decreasing along edges),
     with one set object per node (the first call of compute_lookaheads), the coded algorithm
     terminates within its fuel, no assert fails, and F x is exactly the least solution
     (sound and complete); the stack discipline degenerates: every node is its own SCC.
   * digraph_twice_aliasing_refuted: with two calls as in compute_lookaheads and a cycle in the
     first relation, the coded result is strictly larger than the least solution (3 nodes). *)
From Coq Require Import List Arith Bool ZArith Lia.
From LV Require Import LR.Automaton LR.Automaton_proofs LR.Digraph.
Import ListNotations.

(* ---------- list update ---------- *)
Lemma upd_length {A} (l : list A) i v : length (upd l i v) = length l.
Proof. revert i; induction l; destruct i; simpl; auto. Qed.

Lemma nth_upd_eq {A} (l : list A) i v d : i < length l -> nth i (upd l i v) d = v.
Proof. revert i; induction l; destruct i; simpl; intros; try lia; auto. apply IHl. lia. Qed.

Lemma nth_upd_neq {A} (l : list A) i j v d : i <> j -> nth j (upd l i v) d = nth j l d.
Proof. revert i j; induction l; destruct i, j; simpl; intros; try congruence; auto. Qed.

Lemma union_In t a b : In t (union a b) <-> In t a \/ In t b.
Proof.
  unfold union. rewrite in_app_iff, filter_In. split.
  - intros [H|(H & _)]; auto.
  - intros [H|H]; auto. destruct (in_dec Nat.eq_dec t a); auto. right. split; auto.
    destruct (mem_nat t a) eqn:E; auto. apply mem_nat_In in E. contradiction.
Qed.

(* ---------- the least solution ---------- *)
Section LS.
  Variable R : list (list nat).
  Variable G : list (list nat).
  Inductive ls : nat -> nat -> Prop :=
  | ls_base x t : In t (nth x G []) -> ls x t
  | ls_step x y t : In y (nth x R []) -> ls y t -> ls x t.
End LS.

Section Acyclic.
  Variable n : nat.
  Variable R : list (list nat).
  Variable G : list (list nat).
  Variable rk : nat -> nat.
  Hypothesis HG : length G = n.
  Hypothesis Hrange : forall x y, In y (nth x R []) -> y < n.
  Hypothesis Hrank : forall x y, In y (nth x R []) -> rk y < rk x.

  Notation ls := (ls R G).
  Notation gc := (seq 0 n).
  Local Open Scope Z_scope.

  Record ok (st : dstate) : Prop := {
    ok_lN : length (dN st) = n;
    ok_lF : length (dF st) = n;
    ok_lH : length (dH st) = n;
    ok_vals : forall v, (v < n)%nat -> getN st v = 0 \/ getN st v = -1 \/ 0 < getN st v;
    ok_unv : forall v, (v < n)%nat -> getN st v = 0 -> forall t, In t (cell st v) <-> In t (nth v G []);
    ok_done : forall v, (v < n)%nat -> getN st v = -1 ->
              getF st v = Some v /\ forall t, In t (cell st v) <-> ls v t }.

  (* what a call of traverse leaves untouched *)
  Definition frame (st st' : dstate) : Prop :=
    forall v, (v < n)%nat ->
      (getN st v <> 0 -> getN st' v = getN st v /\ getF st' v = getF st v /\ cell st' v = cell st v) /\
      (getN st v = 0 -> getN st' v = 0 \/ getN st' v = -1).

  Definition frame_but (x : nat) (st st' : dstate) : Prop :=
    forall v, (v < n)%nat -> v <> x ->
      (getN st v <> 0 -> getN st' v = getN st v /\ getF st' v = getF st v /\ cell st' v = cell st v) /\
      (getN st v = 0 -> getN st' v = 0 \/ getN st' v = -1).

  Lemma frame_to_but x st st' : frame st st' -> frame_but x st st'.
  Proof. intros H v Hv _. now apply H. Qed.

  Lemma frame_but_refl x st : frame_but x st st.
  Proof. intros v Hv _. split; auto. Qed.

  Lemma frame_but_trans x a b c : frame_but x a b -> frame_but x b c -> frame_but x a c.
  Proof.
    intros H1 H2 v Hv Hvx. destruct (H1 v Hv Hvx) as (A1 & A2). destruct (H2 v Hv Hvx) as (B1 & B2). split.
    - intros Hn. destruct (A1 Hn) as (E1 & E2 & E3). rewrite <- E1 in Hn.
      destruct (B1 Hn) as (F1 & F2 & F3). repeat split; congruence.
    - intros H0. destruct (A2 H0) as [E|E]; auto.
      assert (Hn : getN b v <> 0) by lia. destruct (B1 Hn) as (F1 & _). right. congruence.
  Qed.

  Lemma gc_nth x : (x < n)%nat -> nth x gc O = x.
  Proof. intros. rewrite seq_nth; auto. Qed.

  Lemma ls_inv x t : ls x t -> In t (nth x G []) \/ exists y, In y (nth x R []) /\ ls y t.
  Proof. destruct 1; eauto. Qed.

  (* the loop  for y in R[x]  of traverse, for a node x whose successors all have smaller rank *)
  Section Loop.
    Variable f : nat.
    Variable x : nat.
    Variable S0 : list nat.
    Variable d : Z.
    Hypothesis Hx : (x < n)%nat.
    Hypothesis Hd : 0 < d.
    Hypothesis Hf : (rk x <= f)%nat.
    (* induction hypothesis on the fuel *)
    Hypothesis IHt : forall y st, ok st -> (y < n)%nat -> getN st y = 0 -> (rk y < f)%nat ->
      (forall s, (s < n)%nat -> 0 < getN st s -> (rk y < rk s)%nat) ->
      exists st', traverse R gc f y st = Some st' /\ ok st' /\ dS st' = dS st /\ getN st' y = -1 /\ frame st st'.

    Record linv (done : list nat) (st : dstate) : Prop := {
      li_ok : ok st;
      li_N : getN st x = d;
      li_F : getF st x = Some x;
      li_S : dS st = x :: S0;
      li_sound : forall t, In t (cell st x) -> ls x t;
      li_G : forall t, In t (nth x G []) -> In t (cell st x);
      li_done : forall y t, In y done -> ls y t -> In t (cell st x);
      li_rank : forall s, (s < n)%nat -> 0 < getN st s -> s = x \/ (rk x < rk s)%nat }.

    Definition loop :=
      (fix loop (ys : list nat) (st : dstate) : option dstate :=
         match ys with
         | [] => Some st
         | y :: ys' =>
           match (if getN st y =? 0 then traverse R gc f y st else Some st) with
           | None => None
           | Some st' =>
             let n_x := getN st' x in
             let n_y := getN st' y in
             if negb (0 <? n_x) then None
             else if n_y =? 0 then None
             else
               let N'' := if (0 <? n_y) && (n_y <? n_x) then upd (dN st') x n_y else dN st' in
               match getF st' x, getF st' y with
               | Some cx, Some cy =>
                   loop ys' (mkD (dS st') N'' (dF st') (upd (dH st') cx (union (cell st' cx) (cell st' cy))))
               | _, _ => None
               end
           end
         end).

    Lemma loop_cons y ys st :
      loop (y :: ys) st =
      match (if getN st y =? 0 then traverse R gc f y st else Some st) with
      | None => None
      | Some st' =>
        let n_x := getN st' x in
        let n_y := getN st' y in
        if negb (0 <? n_x) then None
        else if n_y =? 0 then None
        else
          let N'' := if (0 <? n_y) && (n_y <? n_x) then upd (dN st') x n_y else dN st' in
          match getF st' x, getF st' y with
          | Some cx, Some cy =>
              loop ys (mkD (dS st') N'' (dF st') (upd (dH st') cx (union (cell st' cx) (cell st' cy))))
          | _, _ => None
          end
      end.
    Proof. reflexivity. Qed.

    Lemma loop_ok : forall ys done st0 st, done ++ ys = nth x R [] -> linv done st -> frame_but x st0 st ->
      exists st', loop ys st = Some st' /\ linv (nth x R []) st' /\ frame_but x st0 st'.
    Proof.
      induction ys as [|y ys IH]; intros done st0 st Hsplit Hinv Hfr.
      - rewrite app_nil_r in Hsplit. subst done. exists st. auto.
      - assert (Hyin : In y (nth x R [])) by (rewrite <- Hsplit; apply in_app_iff; right; now left).
        pose proof (Hrange x y Hyin) as Hy. pose proof (Hrank x y Hyin) as Hrk.
        assert (Hyx : y <> x) by (intros ->; lia).
        (* the state after the optional recursive call *)
        assert (Hcall : exists st', (if getN st y =? 0 then traverse R gc f y st else Some st) = Some st' /\
                                   linv done st' /\ getN st' y = -1 /\ frame st st').
        { destruct (Z.eqb_spec (getN st y) 0) as [E0|E0].
          - destruct (IHt y st (li_ok _ _ Hinv) Hy E0) as (st' & Ht & Hok' & HS' & HNy & Hfr'); [lia| |].
            + intros s Hs Hpos. destruct (li_rank _ _ Hinv s Hs Hpos) as [->|]; lia.
            + exists st'. split; auto. split; [|split; auto].
              assert (Hxn : getN st x <> 0) by (rewrite (li_N _ _ Hinv); lia).
              destruct (proj1 (Hfr' x Hx) Hxn) as (E1 & E2 & E3).
              constructor; auto.
              * rewrite E1. apply (li_N _ _ Hinv).
              * rewrite E2. apply (li_F _ _ Hinv).
              * rewrite HS'. apply (li_S _ _ Hinv).
              * rewrite E3. apply (li_sound _ _ Hinv).
              * rewrite E3. apply (li_G _ _ Hinv).
              * rewrite E3. apply (li_done _ _ Hinv).
              * intros s Hs Hpos. destruct (Hfr' s Hs) as (A1 & A2).
                destruct (Z.eq_dec (getN st s) 0) as [Z0|Z0].
                -- destruct (A2 Z0); lia.
                -- destruct (A1 Z0) as (E & _). rewrite E in Hpos. apply (li_rank _ _ Hinv s Hs Hpos).
          - exists st. split; auto. split; auto. split; [|intros v Hv; split; auto].
            destruct (ok_vals _ (li_ok _ _ Hinv) y Hy) as [H0|[H1|Hp]]; auto; try contradiction.
            destruct (li_rank _ _ Hinv y Hy Hp) as [->|]; lia. }
        destruct Hcall as (st' & Hc & Hinv' & HNy & Hfr').
        rewrite loop_cons, Hc. cbv zeta. rewrite (li_N _ _ Hinv'), HNy.
        destruct (Z.ltb_spec 0 d); [|lia]. simpl negb. cbv iota.
        change (-1 =? 0) with false. cbv iota.
        change (0 <? -1) with false. simpl andb. cbv iota.
        rewrite (li_F _ _ Hinv').
        destruct (ok_done _ (li_ok _ _ Hinv') y Hy HNy) as (HFy & Hcy). rewrite HFy.
        set (st2 := mkD (dS st') (dN st') (dF st') (upd (dH st') x (union (cell st' x) (cell st' y)))).
        assert (Hcx2 : cell st2 x = union (cell st' x) (cell st' y)).
        { unfold cell, st2. simpl. apply nth_upd_eq. rewrite (ok_lH _ (li_ok _ _ Hinv')). exact Hx. }
        assert (Hco : forall v, v <> x -> cell st2 v = cell st' v).
        { intros v Hv. unfold cell, st2. simpl. apply nth_upd_neq. auto. }
        assert (Hinv2 : linv (done ++ [y]) st2).
        { destruct Hinv' as [Hok' HN' HF' HS' Hso' HG' Hdo' Hra'].
          constructor; auto.
          - destruct Hok' as [l1 l2 l3 v1 u1 d1]. constructor; auto.
            + unfold st2. simpl. now rewrite upd_length.
            + intros v Hv H0 t. rewrite Hco; [now apply u1|]. intros ->. unfold getN in *. simpl in H0. lia.
            + intros v Hv H1. rewrite Hco; [now apply d1|]. intros ->. unfold getN in *. simpl in H1. lia.
          - intros t Ht. rewrite Hcx2 in Ht. apply union_In in Ht. destruct Ht as [Ht|Ht]; auto.
            apply ls_step with y; auto. now apply Hcy.
          - intros t Ht. rewrite Hcx2. apply union_In. left. auto.
          - intros y' t Hy' Hls. rewrite Hcx2. apply union_In. apply in_app_iff in Hy'.
            destruct Hy' as [Hy'|[<-|[]]]; [left; eauto|right; now apply Hcy]. }
        assert (Hfr2 : frame_but x st0 st2).
        { apply (frame_but_trans x st0 st); auto. apply (frame_but_trans x st st'); [now apply frame_to_but|].
          intros v Hv Hvx. split; auto. }
        destruct (IH (done ++ [y]) st0 st2) as (st3 & Hl & Hinv3 & Hfr3); auto.
        { rewrite <- app_assoc. exact Hsplit. }
        exists st3. auto.
    Qed.
  End Loop.

  Lemma traverse_S f x st :
    traverse R gc (S f) x st =
    let S1 := x :: dS st in
    let d := Z.of_nat (length S1) in
    let st1 := mkD S1 (upd (dN st) x d) (upd (dF st) x (Some (nth x gc O))) (dH st) in
    match loop f x (nth x R []) st1 with
    | None => None
    | Some st2 =>
        if getN st2 x =? d then
          match getF st2 x with
          | Some fx => match pop_until x fx (dS st2) (dN st2) (dF st2) with
                       | Some (S', N', F') => Some (mkD S' N' F' (dH st2))
                       | None => None
                       end
          | None => None
          end
        else Some st2
    end.
  Proof. reflexivity. Qed.

  Lemma traverse_ok f : forall x st, ok st -> (x < n)%nat -> getN st x = 0 -> (rk x < f)%nat ->
    (forall s, (s < n)%nat -> 0 < getN st s -> (rk x < rk s)%nat) ->
    exists st', traverse R gc f x st = Some st' /\ ok st' /\ dS st' = dS st /\ getN st' x = -1 /\ frame st st'.
  Proof.
    induction f as [|f IHf]; intros x st Hok Hx HN0 Hrkf Hstack; [lia|].
    rewrite traverse_S. cbv zeta.
    set (d := Z.of_nat (length (x :: dS st))).
    set (st1 := mkD (x :: dS st) (upd (dN st) x d) (upd (dF st) x (Some (nth x gc O))) (dH st)).
    assert (Hd : 0 < d) by (unfold d; simpl length; lia).
    destruct Hok as [l1 l2 l3 v1 u1 d1].
    assert (HN1x : getN st1 x = d) by (unfold getN, st1; simpl; apply nth_upd_eq; lia).
    assert (HN1o : forall v, v <> x -> getN st1 v = getN st v) by (intros v Hv; unfold getN, st1; simpl; apply nth_upd_neq; auto).
    assert (HF1x : getF st1 x = Some x).
    { unfold getF, st1. simpl. rewrite nth_upd_eq by lia. now rewrite gc_nth. }
    assert (HF1o : forall v, v <> x -> getF st1 v = getF st v) by (intros v Hv; unfold getF, st1; simpl; apply nth_upd_neq; auto).
    assert (Hc1 : forall v, cell st1 v = cell st v) by reflexivity.
    assert (Hinv1 : linv x (dS st) d [] st1).
    { constructor; auto.
      - constructor; simpl; rewrite ?upd_length; auto.
        + intros v Hv. destruct (Nat.eq_dec v x) as [->|Hvx]; [rewrite HN1x; lia|rewrite HN1o; auto].
        + intros v Hv H0. destruct (Nat.eq_dec v x) as [->|Hvx]; [rewrite HN1x in H0; lia|].
          rewrite HN1o in H0 by auto. rewrite Hc1. now apply u1.
        + intros v Hv H1. destruct (Nat.eq_dec v x) as [->|Hvx]; [rewrite HN1x in H1; lia|].
          rewrite HN1o in H1 by auto. rewrite HF1o, Hc1 by auto. now apply d1.
      - intros t Ht. rewrite Hc1 in Ht. apply ls_base. now apply (u1 x Hx HN0).
      - intros t Ht. rewrite Hc1. now apply (u1 x Hx HN0).
      - intros y t [].
      - intros s Hs Hp. destruct (Nat.eq_dec s x) as [->|Hsx]; auto. right. rewrite HN1o in Hp by auto. auto. }
    assert (Hfr1 : frame_but x st st1).
    { intros v Hv Hvx. rewrite HN1o, HF1o, Hc1 by auto. split; auto. }
    destruct (loop_ok f x (dS st) d Hx Hd ltac:(lia)
                (fun y st' Ho Hy H0 Hr Hs => IHf y st' Ho Hy H0 Hr Hs)
                (nth x R []) [] st st1 eq_refl Hinv1 Hfr1) as (st2 & Hl & Hinv2 & Hfr2).
    rewrite Hl. destruct Hinv2 as [Hok2 HN2 HF2 HS2 Hso2 HG2 Hdo2 Hra2].
    rewrite HN2, Z.eqb_refl, HF2, HS2. simpl pop_until. rewrite Nat.eqb_refl.
    set (st3 := mkD (dS st) (upd (dN st2) x (-1)) (upd (dF st2) x (Some x)) (dH st2)).
    destruct Hok2 as [m1 m2 m3 w1 w2 w3].
    assert (HN3x : getN st3 x = -1) by (unfold getN, st3; simpl; apply nth_upd_eq; lia).
    assert (HN3o : forall v, v <> x -> getN st3 v = getN st2 v) by (intros v Hv; unfold getN, st3; simpl; apply nth_upd_neq; auto).
    assert (HF3x : getF st3 x = Some x) by (unfold getF, st3; simpl; apply nth_upd_eq; lia).
    assert (HF3o : forall v, v <> x -> getF st3 v = getF st2 v) by (intros v Hv; unfold getF, st3; simpl; apply nth_upd_neq; auto).
    assert (Hc3 : forall v, cell st3 v = cell st2 v) by reflexivity.
    exists st3. split; [reflexivity|]. split; [|split; [reflexivity|split; [exact HN3x|]]].
    - constructor; simpl; rewrite ?upd_length; auto.
      + intros v Hv. destruct (Nat.eq_dec v x) as [->|Hvx]; [rewrite HN3x; lia|rewrite HN3o; auto].
      + intros v Hv H0. destruct (Nat.eq_dec v x) as [->|Hvx]; [rewrite HN3x in H0; lia|].
        rewrite HN3o in H0 by auto. rewrite Hc3. now apply w2.
      + intros v Hv H1. destruct (Nat.eq_dec v x) as [->|Hvx].
        * split; auto. intros t. rewrite Hc3. split; auto.
          intros Hls. destruct (ls_inv _ _ Hls) as [Hg|(y & Hy & Hly)]; eauto.
        * rewrite HN3o in H1 by auto. rewrite HF3o, Hc3 by auto. now apply w3.
    - intros v Hv. destruct (Nat.eq_dec v x) as [->|Hvx].
      + split; [intros Hn; contradiction|]. intros _. right. exact HN3x.
      + rewrite HN3o, HF3o, Hc3 by auto. now apply Hfr2.
  Qed.

  (* ---- the outer loop and the theorem ---- *)
  Hypothesis Hrkb : forall x, (x < n)%nat -> (rk x < S n)%nat.

  Definition quiet (st : dstate) : Prop :=
    ok st /\ dS st = [] /\ forall v, (v < n)%nat -> getN st v = 0 \/ getN st v = -1.

  Lemma outer_ok : forall xs st, quiet st -> (forall x, In x xs -> (x < n)%nat) ->
    exists st', outer R gc (S n) xs st = Some st' /\ quiet st' /\
                (forall v, (v < n)%nat -> getN st v = -1 -> getN st' v = -1) /\
                (forall x, In x xs -> getN st' x = -1).
  Proof.
    induction xs as [|x xs IH]; intros st (Hok & HS & Hq) Hxs; cbn [outer].
    - exists st. split; [reflexivity|]. split; [exact (conj Hok (conj HS Hq))|]. split; auto. intros x [].
    - assert (Hx : (x < n)%nat) by (apply Hxs; now left).
      destruct (Z.eqb_spec (getN st x) 0) as [E0|E0].
      + destruct (traverse_ok (S n) x st Hok Hx E0 (Hrkb x Hx)) as (st1 & Ht & Hok1 & HS1 & HN1 & Hfr1).
        { intros s Hs Hp. destruct (Hq s Hs); lia. }
        rewrite Ht.
        assert (Hq1 : quiet st1).
        { split; auto. split; [congruence|]. intros v Hv. destruct (Hfr1 v Hv) as (A1 & A2).
          destruct (Hq v Hv) as [Z0|Z1]; auto. right. destruct A1 as (E & _); [lia|]. congruence. }
        destruct (IH st1 Hq1 (fun y Hy => Hxs y (or_intror Hy))) as (st' & Ho & Hq' & Hk & Hall).
        exists st'. split; auto. split; auto. split.
        * intros v Hv H1. apply Hk; auto. destruct (Hfr1 v Hv) as (A1 & _). destruct A1 as (E & _); [lia|]. congruence.
        * intros y [<-|Hy]; auto.
      + destruct (IH st (conj Hok (conj HS Hq)) (fun y Hy => Hxs y (or_intror Hy))) as (st' & Ho & Hq' & Hk & Hall).
        exists st'. split; auto. split; auto. split; auto.
        intros y [<-|Hy]; auto. apply Hk; auto. destruct (Hq x Hx); [contradiction|auto].
  Qed.

  Lemma nth_repeat' {A} (a d : A) m i : nth i (repeat a m) d = a \/ nth i (repeat a m) d = d.
  Proof. revert i; induction m; destruct i; simpl; auto. Qed.

  Theorem digraph_coded_acyclic :
    exists F H, digraph_coded n R gc G = Some (F, H) /\
                length F = n /\ length H = n /\
                (forall x, (x < n)%nat -> nth x F None = Some x) /\
                forall x, (x < n)%nat -> forall t, In t (fset F H x) <-> ls x t.
  Proof.
    unfold digraph_coded.
    set (st0 := mkD [] (repeat 0 n) (repeat None n) G).
    assert (HN0 : forall v, (v < n)%nat -> getN st0 v = 0).
    { intros v Hv. unfold getN, st0. simpl. apply nth_repeat. }
    assert (Hq0 : quiet st0).
    { split; [|split; auto].
      - constructor; simpl; rewrite ?repeat_length; auto.
        + intros v Hv H0 t. reflexivity.
        + intros v Hv H1. rewrite HN0 in H1 by auto. lia. }
    destruct (outer_ok (seq 0 n) st0 Hq0) as (st' & Ho & (Hok' & _ & _) & _ & Hall).
    { intros x Hx. apply in_seq in Hx. lia. }
    rewrite Ho. exists (dF st'), (dH st'). split; auto.
    split; [apply (ok_lF _ Hok')|]. split; [apply (ok_lH _ Hok')|].
    assert (Hd : forall x, (x < n)%nat -> getF st' x = Some x /\ forall t, In t (cell st' x) <-> ls x t).
    { intros x Hx. apply (ok_done _ Hok' x Hx). apply Hall. apply in_seq. lia. }
    split.
    - intros x Hx. apply (Hd x Hx).
    - intros x Hx t. destruct (Hd x Hx) as (HF & Hc). unfold fset. unfold getF in HF. rewrite HF. exact (Hc t).
  Qed.
End Acyclic.

Lemma cells_identity n F : length F = n -> (forall x, x < n -> nth x F None = Some x) ->
  map (fun c : option nat => match c with Some c => c | None => O end) F = seq 0 n.
Proof.
  intros HL HF. apply (nth_ext _ _ O O).
  - now rewrite map_length, seq_length.
  - intros i Hi. rewrite map_length, HL in Hi. rewrite seq_nth by exact Hi. simpl.
    set (f := fun c : option nat => match c with Some c => c | None => O end).
    rewrite (nth_indep _ O (f None)) by (rewrite map_length; lia).
    rewrite map_nth. now rewrite (HF i Hi).
Qed.

(* both calls of compute_lookaheads, both relations acyclic: the second result is the least solution
   of the second system over the first result (whose cells hold the least solution of the first) *)
Theorem digraph_twice_acyclic n R1 R2 G rk1 rk2 :
  length G = n ->
  (forall x y, In y (nth x R1 []) -> y < n) -> (forall x y, In y (nth x R1 []) -> rk1 y < rk1 x) ->
  (forall x, x < n -> rk1 x < S n) ->
  (forall x y, In y (nth x R2 []) -> y < n) -> (forall x y, In y (nth x R2 []) -> rk2 y < rk2 x) ->
  (forall x, x < n -> rk2 x < S n) ->
  exists H1 F1' F2,
    digraph_twice n R1 R2 G = Some (F1', F2) /\ length H1 = n /\
    (forall x, x < n -> forall t, In t (nth x H1 []) <-> ls R1 G x t) /\
    (forall x, x < n -> forall t, In t (nth x F2 []) <-> ls R2 H1 x t).
Proof.
  intros HG Hr1 Hk1 Hb1 Hr2 Hk2 Hb2. unfold digraph_twice.
  destruct (digraph_coded_acyclic n R1 G rk1 HG Hr1 Hk1 Hb1) as (F1 & H1 & E1 & LF1 & LH1 & Hid1 & Hs1).
  rewrite E1. rewrite (cells_identity n F1 LF1 Hid1).
  destruct (digraph_coded_acyclic n R2 H1 rk2 LH1 Hr2 Hk2 Hb2) as (F2 & H2 & E2 & LF2 & LH2 & Hid2 & Hs2).
  rewrite E2. exists H1. eexists. eexists. split; [reflexivity|]. split; auto. split.
  - intros x Hx t. specialize (Hs1 x Hx t). unfold fset in Hs1. rewrite (Hid1 x Hx) in Hs1. exact Hs1.
  - intros x Hx t.
    assert (E : nth x (map (fset F2 H2) (seq 0 n)) [] = fset F2 H2 x).
    { rewrite (nth_indep _ [] (fset F2 H2 O)) by (rewrite map_length, seq_length; exact Hx).
      rewrite map_nth. now rewrite seq_nth. }
    rewrite E. apply Hs2. exact Hx.
Qed.

(* ---------- aliasing: two calls as in compute_lookaheads ---------- *)
(* nodes 0,1 form a cycle of the first relation (their Read sets become ONE object); in the second
   relation only 0 -> 2.  The coded result gives node 1 the element 2 as well; the least solution of
   the second system over the least solution of the first does not.  (lark computes the same as the
   coded model: harness stream digraph-coded-twice.) *)
Example digraph_twice_aliasing_refuted :
  digraph_twice 3 [[1]; [0]; []] [[2]; []; []] [[0]; [1]; [2]]
  = Some ([[0; 1; 2]; [0; 1; 2]; [2]], [[0; 1; 2]; [0; 1; 2]; [2]]) /\
  ~ ls [[2]; []; []] [[0; 1]; [0; 1]; [2]] 1 2.
Proof.
  split; [vm_compute; reflexivity|].
  intros H. inversion H as [x t Hin | x y t Hy Hl]; subst; simpl in *.
  - destruct Hin as [E|[E|[]]]; discriminate.
  - contradiction.
Qed.
