(* LR/Automaton_complete.v - completeness facts about the model of lalr_analysis.py that the
   completeness half of C02 needs (stage A): NULLABLE contains every non-terminal that derives
   the empty string, item-set closures are closed under prediction, and a finished BFS has a
   transition for every symbol an item expects (goto is total on the automaton). *)
From Coq Require Import List Arith Bool ZArith Lia.
From LV Require Import Cfg.Grammar LR.Driver LR.Driver_proofs LR.Automaton LR.Automaton_proofs LR.Automaton_wf.
Import ListNotations.

(* ---------- a bounded inflationary iteration reaches a closed set ---------- *)
Section IterClosed.
  Variable f : list nat -> list nat.
  Variable Closed : list nat -> Prop.
  Variable U : list nat.
  Hypothesis closed_dec : forall S, {Closed S} + {~ Closed S}.
  Hypothesis f_keeps : forall S, NoDup S -> incl S U -> NoDup (f S) /\ incl (f S) U.
  Hypothesis f_grows : forall S, NoDup S -> ~ Closed S -> length S < length (f S).
  Hypothesis f_closed : forall S, Closed S -> Closed (f S).

  Lemma iter_keeps_closed n : forall S, Closed S -> Closed (iter n f S).
  Proof. induction n; simpl; auto. Qed.

  Lemma iter_closed n : forall S, NoDup S -> incl S U -> length U < length S + n -> Closed (iter n f S).
  Proof.
    induction n; intros S ND HI HL; simpl.
    - pose proof (NoDup_incl_length ND HI). lia.
    - destruct (closed_dec S) as [C|C].
      + apply iter_keeps_closed. now apply f_closed.
      + destruct (f_keeps S ND HI) as (ND' & HI'). apply IHn; auto.
        pose proof (f_grows S ND C). lia.
  Qed.
End IterClosed.

Section Complete.
  Variable rules : list rule.

  Notation rule_at := (rule_at rules).
  Notation next_sym := (next_sym rules).
  Notation closure := (closure rules).
  Notation goto_kernel := (goto_kernel rules).
  Notation next_syms := (next_syms rules).

  (* ================= NULLABLE ================= *)
  Definition null_closed (N : list nat) : Prop :=
    forall r, In r rules -> forallb (sym_nullable N) (rhs r) = true -> In (lhs r) N.

  Definition nstep (N : list nat) (r : rule) : list nat :=
    if forallb (sym_nullable N) (rhs r) && negb (mem_nat (lhs r) N) then lhs r :: N else N.

  Lemma nullable_step_fold N : nullable_step rules N = fold_left nstep rules N.
  Proof. reflexivity. Qed.

  Lemma sym_nullable_mono N N' X : incl N N' -> sym_nullable N X = true -> sym_nullable N' X = true.
  Proof.
    destruct X; simpl; auto. intros HI H. apply mem_nat_In. apply HI. now apply mem_nat_In.
  Qed.

  Lemma forallb_nullable_mono N N' l : incl N N' ->
    forallb (sym_nullable N) l = true -> forallb (sym_nullable N') l = true.
  Proof.
    intros HI. rewrite !forallb_forall. intros H x Hx. eapply sym_nullable_mono; eauto.
  Qed.

  Lemma fold_nstep_props l : forall N,
    let N' := fold_left nstep l N in
    incl N N' /\ length N <= length N' /\
    (NoDup N -> NoDup N') /\
    (forall x, In x N' -> In x N \/ exists r, In r l /\ lhs r = x) /\
    (length N' = length N -> N' = N /\ forall r, In r l -> forallb (sym_nullable N) (rhs r) = true -> In (lhs r) N).
  Proof.
    induction l as [|r l IH]; intros N; simpl.
    - repeat split; auto. apply incl_refl. intros r [].
    - destruct (IH (nstep N r)) as (I1 & I2 & I3 & I4 & I5).
      assert (HS : incl N (nstep N r) /\ length N <= length (nstep N r) /\ (NoDup N -> NoDup (nstep N r))).
      { unfold nstep. destruct (forallb (sym_nullable N) (rhs r) && negb (mem_nat (lhs r) N)) eqn:E.
        - split; [apply incl_tl, incl_refl|]. split; [simpl; lia|]. intros ND. constructor; auto.
          apply andb_true_iff in E. destruct E as (_ & E). apply negb_true_iff in E.
          intros Hin. apply mem_nat_In in Hin. congruence.
        - split; [apply incl_refl|]. split; auto. }
      destruct HS as (S1 & S2 & S3).
      split; [eapply incl_tran; eauto|]. split; [lia|]. split; [auto|]. split.
      + intros x Hx. destruct (I4 x Hx) as [Hx'|(r' & Hr' & El)].
        * unfold nstep in Hx'. destruct (forallb (sym_nullable N) (rhs r) && negb (mem_nat (lhs r) N)); auto.
          destruct Hx' as [<-|Hx']; auto. right. exists r. auto.
        * right. exists r'. auto.
      + intros HL. assert (HL1 : length (nstep N r) = length N) by lia.
        assert (E1 : nstep N r = N).
        { unfold nstep in *. destruct (forallb (sym_nullable N) (rhs r) && negb (mem_nat (lhs r) N)); auto.
          simpl in HL1. lia. }
        rewrite E1 in *. destruct (I5 HL) as (E2 & H2). split; auto.
        intros r' [<-|Hr'] Hf; auto.
        unfold nstep in E1. rewrite Hf in E1. simpl in E1.
        destruct (mem_nat (lhs r) N) eqn:Em; simpl in E1.
        * now apply mem_nat_In.
        * exfalso. apply (f_equal (@length _)) in E1. simpl in E1. lia.
  Qed.

  Definition lhss : list nat := map lhs rules.

  Lemma null_closed_fix N : null_closed N -> nullable_step rules N = N.
  Proof.
    intros C. rewrite nullable_step_fold.
    assert (G : forall l, incl l rules -> fold_left nstep l N = N).
    { induction l as [|r l IH]; intros HI; simpl; auto.
      assert (E : nstep N r = N).
      { unfold nstep. destruct (forallb (sym_nullable N) (rhs r)) eqn:Ef; simpl; auto.
        assert (Hin : In (lhs r) N) by (apply C; auto; apply HI; now left).
        apply mem_nat_In in Hin. now rewrite Hin. }
      rewrite E. apply IH. intros x Hx. apply HI. now right. }
    apply G, incl_refl.
  Qed.

  Lemma null_closed_dec N : {null_closed N} + {~ null_closed N}.
  Proof.
    unfold null_closed.
    assert (G : forall l, {forall r, In r l -> forallb (sym_nullable N) (rhs r) = true -> In (lhs r) N} +
                          {~ forall r, In r l -> forallb (sym_nullable N) (rhs r) = true -> In (lhs r) N}).
    { induction l as [|r l IH].
      - left. intros r [].
      - destruct IH as [IH|IH].
        + destruct (forallb (sym_nullable N) (rhs r)) eqn:Ef.
          * destruct (in_dec Nat.eq_dec (lhs r) N) as [Hi|Hi].
            -- left. intros r' [<-|Hr'] Hf; auto.
            -- right. intros H. apply Hi. apply H; auto. now left.
          * left. intros r' [<-|Hr'] Hf; auto. congruence.
        + right. intros H. apply IH. intros r' Hr'. apply H. now right. }
    apply G.
  Qed.

  Theorem nullable_set_closed : null_closed (nullable_set rules).
  Proof.
    unfold nullable_set.
    apply (iter_closed (nullable_step rules) null_closed lhss null_closed_dec).
    - intros S ND HI. rewrite nullable_step_fold.
      destruct (fold_nstep_props rules S) as (I1 & I2 & I3 & I4 & I5). split; auto.
      intros x Hx. destruct (I4 x Hx) as [Hx'|(r & Hr & <-)]; auto.
      unfold lhss. now apply in_map.
    - intros S ND NC. rewrite nullable_step_fold.
      destruct (fold_nstep_props rules S) as (I1 & I2 & I3 & I4 & I5).
      destruct (Nat.eq_dec (length (fold_left nstep rules S)) (length S)) as [E|E]; [|lia].
      exfalso. apply NC. destruct (I5 E) as (_ & H). exact H.
    - intros S C. now rewrite null_closed_fix.
    - constructor.
    - intros x [].
    - unfold lhss. rewrite map_length. simpl. lia.
  Qed.

  (* every symbol list that derives the empty string consists of NULLABLE symbols *)
  Theorem nullable_complete (tok : Type) (tm : nat -> tok -> bool) ss w :
    derives rules tok tm ss w -> w = [] -> forallb (nullable rules) ss = true.
  Proof.
    induction 1 as [| |a r ss w1 w2 Hin Hl Hd1 IH1 Hd2 IH2]; intros E; auto; try discriminate.
    apply app_eq_nil in E. destruct E as (-> & ->). simpl. rewrite (IH2 eq_refl), andb_true_r.
    unfold nullable. simpl. apply mem_nat_In. rewrite <- Hl.
    apply nullable_set_closed; [exact Hin | exact (IH1 eq_refl)].
  Qed.
End Complete.

Section Complete2.
  Variable rules : list rule.
  Notation rule_at := (rule_at rules).
  Notation next_sym := (next_sym rules).
  Notation closure := (closure rules).
  Notation goto_kernel := (goto_kernel rules).
  Notation next_syms := (next_syms rules).

  (* ================= expand_rule / reach ================= *)
  Definition reach_closed (S0 : list nat) : Prop := incl (first_nts_of rules S0) S0.

  Lemma first_nts_ext S0 S1 : (forall x, In x S0 <-> In x S1) -> first_nts_of rules S0 = first_nts_of rules S1.
  Proof.
    intros H. unfold first_nts_of. apply flat_map_ext. intros r.
    assert (E : mem_nat (lhs r) S0 = mem_nat (lhs r) S1).
    { destruct (mem_nat (lhs r) S0) eqn:E0, (mem_nat (lhs r) S1) eqn:E1; auto.
      - apply mem_nat_In, H, mem_nat_In in E0. congruence.
      - apply mem_nat_In, H, mem_nat_In in E1. congruence. }
    now rewrite E.
  Qed.

  Lemma reach_step_In S0 x : In x (reach_step rules S0) <-> In x S0 \/ In x (first_nts_of rules S0).
  Proof. unfold reach_step. rewrite dedup_nat_In, in_app_iff. tauto. Qed.

  Definition all_firsts : list nat :=
    flat_map (fun r => match rhs r with NT b :: _ => [b] | _ => [] end) rules.

  Lemma first_nts_incl S0 : incl (first_nts_of rules S0) all_firsts.
  Proof.
    intros x Hx. unfold first_nts_of in Hx. apply in_flat_map in Hx. destruct Hx as (r & Hr & Hx).
    destruct (mem_nat (lhs r) S0); [|contradiction].
    unfold all_firsts. apply in_flat_map. exists r. auto.
  Qed.

  Lemma all_firsts_length : length all_firsts <= length rules.
  Proof.
    unfold all_firsts. induction rules as [|r l IH]; simpl; auto.
    rewrite app_length. destruct (rhs r) as [|[t|b] rest]; simpl; lia.
  Qed.

  Lemma reach_closed_dec S0 : {reach_closed S0} + {~ reach_closed S0}.
  Proof.
    unfold reach_closed, incl.
    induction (first_nts_of rules S0) as [|x l IH].
    - left. intros a [].
    - destruct IH as [IH|IH].
      + destruct (in_dec Nat.eq_dec x S0).
        * left. intros a [<-|Ha]; auto.
        * right. intros H. apply n. apply H. now left.
      + right. intros H. apply IH. intros a Ha. apply H. now right.
  Qed.

  Theorem reach_is_closed a : reach_closed (reach rules a) /\ In a (reach rules a).
  Proof.
    split.
    - unfold reach.
      apply (iter_closed (reach_step rules) reach_closed (a :: all_firsts) reach_closed_dec).
      + intros S ND HI. split; [apply dedup_nat_NoDup|].
        intros x Hx. apply reach_step_In in Hx. destruct Hx as [Hx|Hx]; auto.
        right. exact (first_nts_incl S x Hx).
      + intros S ND NC.
        destruct (le_lt_dec (length (reach_step rules S)) (length S)) as [Hle|]; auto.
        exfalso. apply NC. intros x Hx.
        assert (HI : incl S (reach_step rules S)) by (intros y Hy; apply reach_step_In; auto).
        assert (HI' : incl (reach_step rules S) S).
        { apply NoDup_length_incl; auto. }
        apply HI'. apply reach_step_In. auto.
      + intros S C. unfold reach_closed in *.
        assert (E : first_nts_of rules (reach_step rules S) = first_nts_of rules S).
        { apply first_nts_ext. intros x. rewrite reach_step_In. split; auto. intros [H|H]; auto. }
        rewrite E. intros x Hx. apply reach_step_In. auto.
      + repeat constructor. intros [].
      + intros x [<-|[]]. now left.
      + simpl. pose proof all_firsts_length. lia.
    - unfold reach.
      assert (G : forall n S, In a S -> In a (iter n (reach_step rules) S)).
      { induction n; simpl; auto. intros S H. apply IHn. apply reach_step_In. auto. }
      apply G. now left.
  Qed.

  Lemma expand_rule_complete a i :
    i < length rules -> In (lhs (rule_at i)) (reach rules a) -> In (i, 0) (expand_rule rules a).
  Proof.
    intros Hi Hr. unfold expand_rule. apply in_flat_map. exists i. split.
    - unfold rule_ids. apply in_seq. lia.
    - apply mem_nat_In in Hr. rewrite Hr. now left.
  Qed.

  (* closures are closed under prediction *)
  Theorem closure_predicts K it b i :
    In it (closure K) -> next_sym it = Some (NT b) -> i < length rules -> lhs (rule_at i) = b ->
    In (i, 0) (closure K).
  Proof.
    intros Hit Hn Hi Hl.
    assert (Hexp : forall kit a, In kit K -> next_sym kit = Some (NT a) -> In b (reach rules a) -> In (i, 0) (closure K)).
    { intros kit a Hk Hna Hb. unfold Automaton.closure. apply sort_items_In, in_app_iff. right.
      apply in_flat_map. exists kit. split; auto. rewrite Hna. apply expand_rule_complete; auto. now rewrite Hl. }
    apply closure_In in Hit. destruct Hit as [Hk|(H0 & Hv & kit & a & Hk & Hna & Hr)].
    - apply (Hexp it b Hk Hn). apply reach_is_closed.
    - apply (Hexp kit a Hk Hna). destruct (reach_is_closed a) as (C & _). apply C.
      unfold first_nts_of. apply in_flat_map. exists (rule_at (fst it)). split; [now apply rule_at_In|].
      apply mem_nat_In in Hr. rewrite Hr.
      unfold Automaton.next_sym in Hn. rewrite H0 in Hn.
      destruct (rhs (rule_at (fst it))) as [|[t|c] rest]; simpl in Hn; try discriminate.
      inversion Hn; subst. now left.
  Qed.

  (* ================= BFS completeness: goto is total ================= *)
  Lemma add_new_complete ks : forall seen K, In K ks -> In K seen \/ In K (add_new ks seen).
  Proof.
    induction ks as [|K0 ks IH]; intros seen K H; [contradiction|]. simpl.
    destruct (existsb (kernel_eqb K0) seen) eqn:E.
    - destruct H as [<-|H]; auto. left. apply existsb_exists in E. destruct E as (y & Hy & Ey).
      apply kernel_eqb_eq in Ey. now subst.
    - destruct H as [<-|H]; [right; now left|].
      destruct (IH (seen ++ [K0]) K H) as [H1|H1].
      + apply in_app_iff in H1. destruct H1 as [H1|[<-|[]]]; auto. right; now left.
      + right; now right.
  Qed.

  Definition goto_closed (seen : list (list item)) (K : list item) : Prop :=
    forall X, In X (next_syms (closure K)) -> In (goto_kernel (closure K) X) seen.

  Lemma bfs_complete fuel : forall work seen ks,
    bfs rules fuel work seen = Some ks ->
    (forall K, In K seen -> In K work \/ goto_closed seen K) ->
    forall K, In K ks -> goto_closed ks K.
  Proof.
    induction fuel; intros work seen ks H Inv K HK; simpl in H.
    - destruct work; [|discriminate]. inversion H; subst. destruct (Inv K HK) as [[]|]; auto.
    - destruct work as [|K0 work'].
      + inversion H; subst. destruct (Inv K HK) as [[]|]; auto.
      + set (C := closure K0) in *.
        set (new := add_new (map (goto_kernel C) (next_syms C)) seen) in *.
        apply (IHfuel _ _ _ H); auto.
        intros K1 HK1. apply in_app_iff in HK1.
        assert (Hmono : forall K2, goto_closed seen K2 -> goto_closed (seen ++ new) K2).
        { intros K2 HC X HX. apply in_app_iff. left. now apply HC. }
        destruct HK1 as [HK1|HK1].
        * destruct (Inv K1 HK1) as [[<-|Hw]|Hc].
          -- right. intros X HX.
             destruct (add_new_complete (map (goto_kernel C) (next_syms C)) seen (goto_kernel C X)) as [H1|H1].
             ++ apply in_map. exact HX.
             ++ apply in_app_iff. now left.
             ++ apply in_app_iff. now right.
          -- left. apply in_app_iff. now left.
          -- right. now apply Hmono.
        * left. apply in_app_iff. now right.
  Qed.

  Lemma index_of_In {A} (eqb : A -> A -> bool) (Heq : forall x y, eqb x y = true <-> x = y) x l :
    In x l -> exists i, index_of eqb x l = Some i.
  Proof.
    induction l as [|y l IH]; intros H; [contradiction|]. simpl.
    destruct (eqb x y) eqn:E; eauto.
    destruct H as [->|H].
    - assert (eqb x x = true) by now apply Heq. congruence.
    - destruct (IH H) as (i & ->). simpl. eauto.
  Qed.

  Section Built.
    Variable roots : list nat.
    Variable fuel : nat.
    Variable A : lr0.
    Hypothesis HA : build_lr0 rules roots fuel = Some A.
    Hypothesis ND_roots : NoDup roots.

    (* every symbol expected by an item of a state has a transition *)
    Theorem trans_total q X :
      q < nstates A -> In X (next_syms (closure_of A q)) -> exists q', trans A q X = Some q'.
    Proof.
      intros Hq HX.
      pose proof HA as HA'. unfold build_lr0 in HA'.
      destruct (bfs rules fuel (root_kernels roots) (root_kernels roots)) as [ks|] eqn:E; [|discriminate].
      assert (Ek : kernels A = ks) by (inversion HA'; reflexivity).
      assert (GC : forall K, In K ks -> goto_closed ks K).
      { apply (bfs_complete _ _ _ _ E). intros K HK. now left. }
      destruct (built_shape rules roots fuel A HA ND_roots) as (Hc & Ht & _).
      set (K := nth q (kernels A) []).
      assert (HK : In K ks) by (rewrite <- Ek; apply nth_In; exact Hq).
      assert (ECl : closure_of A q = closure K) by (apply (closure_of_nth rules roots fuel A HA ND_roots)).
      rewrite ECl in HX.
      destruct (index_of_In kernel_eqb kernel_eqb_eq _ _ (GC K HK X HX)) as (q' & Hq').
      exists q'. unfold trans, trans_of. rewrite Ht.
      assert (E2 : nth q (map (trans_row rules (kernels A)) (closures A)) [] = trans_row rules (kernels A) (closure_of A q)).
      { unfold closure_of. change [] with (trans_row rules (kernels A) []) at 1. apply map_nth. }
      rewrite E2, ECl, Ek. unfold trans_row.
      assert (G : forall l, In X l ->
                 assoc_trans X (flat_map (fun X0 => match index_of kernel_eqb (goto_kernel (closure K) X0) ks with
                                                    | Some q0 => [(X0, q0)] | None => [] end) l) = Some q').
      { induction l as [|Y l IH]; intros HI; [contradiction|]. simpl.
        destruct (symbol_eq_dec X Y) as [<-|Hne].
        - rewrite Hq'. simpl. destruct (symbol_eqb_spec X X); congruence.
        - destruct HI as [->|HI]; [congruence|].
          destruct (index_of kernel_eqb (goto_kernel (closure K) Y) ks); simpl; auto.
          destruct (symbol_eqb_spec X Y); [congruence|auto]. }
      apply G. exact HX.
    Qed.
  End Built.
End Complete2.
