(* LR/La_complete.v - completeness of the model's look-ahead sets (stage B of the completeness
   half of C02), in tree form: along any derivation tree, the token that follows the yield of a
   node is in Follow of the non-terminal transition at which the node starts, hence in the
   look-ahead set of the node's rule in the state reached after its children
   ("S' =>rm* alpha A a z  implies  a in Follow(goto*(q0, alpha), A)"). *)
From Coq Require Import List Arith Bool ZArith Lia.
From LV Require Import Cfg.Grammar LR.Driver LR.Driver_proofs LR.Automaton LR.Automaton_proofs
     LR.Automaton_wf LR.Automaton_la LR.Automaton_complete.
Import ListNotations.

Lemma nth_map_error {A B} (f : A -> B) l i x d : nth_error l i = Some x -> nth i (map f l) d = f x.
Proof. revert i; induction l; destruct i; simpl; intros H; try discriminate; auto. now inversion H. Qed.

Lemma pair_eqb_eq x y : pair_eqb x y = true <-> x = y.
Proof. apply aitem_eqb_eq. Qed.

Section Sol.
  Variable nts : list ntrans.
  Variable rf : ntrans -> list ntrans.
  Variable G0 F : list (list nat).
  Hypothesis LS : least_solution nts (map rf nts) G0 F.

  Definition Of (F' : list (list nat)) (x : ntrans) (t : nat) : Prop :=
    exists i, index_of pair_eqb x nts = Some i /\ M F' i t.

  Lemma index_nth x i : index_of pair_eqb x nts = Some i -> nth_error nts i = Some x /\ i < length nts.
  Proof.
    intros H. destruct (index_of_spec _ _ _ _ H) as (y & Hy & E). apply pair_eqb_eq in E. subst y.
    split; auto. apply (proj1 (nth_error_Some nts i)). unfold ntrans in *. rewrite Hy. discriminate.
  Qed.

  Lemma sol_base x i t : index_of pair_eqb x nts = Some i -> In t (nth i G0 []) -> Of F x t.
  Proof.
    intros Hi Ht. exists i. split; auto. apply (proj1 LS). split; [apply (index_nth _ _ Hi)|]. now left.
  Qed.

  Lemma sol_edge x y t : In x nts -> In y (rf x) -> Of F y t -> Of F x t.
  Proof.
    intros Hx Hy (j & Hj & Hm).
    destruct (index_of_In pair_eqb pair_eqb_eq x nts Hx) as (i & Hi).
    exists i. split; auto. apply (proj1 LS). destruct (index_nth _ _ Hi) as (Hn & Hlt). split; auto.
    right. exists j. split; auto. split; auto. exists y. split; auto.
    unfold Rs. now rewrite (nth_map_error rf nts i x [] Hn).
  Qed.
End Sol.

Section Rel.
  Variable rules : list rule.
  Variable tEND fuel : nat.
  Variable A : lr0.
  Variable r0 : nat.
  Hypothesis HB : build_lr0 rules [r0] fuel = Some A.

  Notation rule_at := (rule_at rules).
  Notation next_sym := (next_sym rules).
  Notation nts := (nt_transitions rules A).
  Notation rel := (compute_relations rules [r0] tEND A).

  Lemma ND1' : NoDup [r0].
  Proof. repeat constructor. intros []. Qed.

  Lemma next_syms_item q X : In X (next_syms rules (closure_of A q)) <->
    exists it, In it (closure_of A q) /\ next_sym it = Some X.
  Proof. apply next_syms_In. Qed.

  Lemma closure_of_nil q : nstates A <= q -> closure_of A q = [].
  Proof.
    intros H. unfold closure_of. apply nth_overflow.
    destruct (built_shape rules [r0] fuel A HB ND1') as (Hc & _). rewrite Hc, map_length. exact H.
  Qed.

  Lemma item_state_lt q it : In it (closure_of A q) -> q < nstates A.
  Proof.
    intros H. destruct (lt_dec q (nstates A)); auto. rewrite closure_of_nil in H by lia. contradiction.
  Qed.

  Lemma nts_In q a : In (q, a) nts <-> exists it, In it (closure_of A q) /\ next_sym it = Some (NT a).
  Proof.
    unfold nt_transitions. rewrite in_flat_map. split.
    - intros (q' & Hq' & H). apply in_map_iff in H. destruct H as (a' & E & Ha'). inversion E; subst.
      unfold nt_next in Ha'. apply in_flat_map in Ha'. destruct Ha' as (X & HX & Ha').
      destruct X as [t|b]; [contradiction|]. destruct Ha' as [->|[]]. now apply next_syms_item.
    - intros (it & Hit & Hn). exists q. split; [apply in_seq; pose proof (item_state_lt _ _ Hit); lia|].
      apply in_map_iff. exists a. split; auto. unfold nt_next. apply in_flat_map. exists (NT a).
      split; [apply next_syms_item; eauto|now left].
  Qed.

  (* moving the dot along a transition *)
  Lemma item_advance q i d X q' :
    In (i, d) (closure_of A q) -> next_sym (i, d) = Some X -> trans A q X = Some q' ->
    In (i, S d) (closure_of A q').
  Proof.
    intros Hit Hn Ht.
    destruct (trans_spec rules [r0] fuel A HB ND1' _ _ _ Ht) as (_ & _ & Hk).
    rewrite (closure_of_nth rules [r0] fuel A HB ND1' q'), (nth_error_some_nth _ _ [] _ Hk).
    apply closure_kernel. apply goto_kernel_In. exists d. auto.
  Qed.

  Lemma item_trans q it X : In it (closure_of A q) -> next_sym it = Some X -> exists q', trans A q X = Some q'.
  Proof.
    intros Hit Hn. apply (trans_total rules [r0] fuel A HB ND1'); [eapply item_state_lt; eauto|].
    apply next_syms_item. eauto.
  Qed.

  Lemma predicted q it b i :
    In it (closure_of A q) -> next_sym it = Some (NT b) -> i < length rules -> lhs (rule_at i) = b ->
    In (i, 0) (closure_of A q).
  Proof.
    rewrite (closure_of_nth rules [r0] fuel A HB ND1' q). apply closure_predicts.
  Qed.

  (* goto* along a symbol list *)
  Fixpoint goto_star (q : nat) (ss : list symbol) : option nat :=
    match ss with
    | [] => Some q
    | s :: ss' => match trans A q s with Some q' => goto_star q' ss' | None => None end
    end.

  Lemma walk_snd q ss : snd (walk A q ss) = goto_star q ss.
  Proof.
    revert q; induction ss as [|s ss IH]; intros q; simpl; auto.
    destruct (trans A q s) as [q'|]; simpl; auto. specialize (IH q'). destruct (walk A q' ss). simpl in *. auto.
  Qed.

  Lemma walk_fst q pre s post q2 :
    goto_star q pre = Some q2 -> In (q2, s, post) (fst (walk A q (pre ++ s :: post))).
  Proof.
    revert q; induction pre as [|x pre IH]; intros q H; simpl in *.
    - inversion H; subst. destruct (trans A q2 s); [destruct (walk A n post)|]; simpl; auto.
    - destruct (trans A q x) as [q'|]; [|discriminate]. specialize (IH q' H).
      destruct (walk A q' (pre ++ s :: post)). simpl in *. auto.
  Qed.

  Lemma goto_star_app q a b : goto_star q (a ++ b) =
    match goto_star q a with Some q' => goto_star q' b | None => None end.
  Proof. revert q; induction a as [|x a IH]; intros q; simpl; auto. destruct (trans A q x); auto. Qed.

  (* ---- membership in the relations ---- *)
  Lemma dr_In q a p t it :
    trans A q (NT a) = Some p -> In it (closure_of A p) -> next_sym it = Some (T t) ->
    In t (directly_reads rules [r0] tEND A (q, a)).
  Proof.
    intros Ht Hit Hn. unfold directly_reads. apply dedup_nat_In, in_app_iff. right. simpl. rewrite Ht.
    unfold t_next. apply in_flat_map. exists (T t). split; [apply next_syms_item; eauto|now left].
  Qed.

  Lemma reads_In q a p c it :
    trans A q (NT a) = Some p -> In it (closure_of A p) -> next_sym it = Some (NT c) ->
    nullable rules (NT c) = true -> In (p, c) (reads rules A (q, a)).
  Proof.
    intros Ht Hit Hn Hnu. unfold reads. simpl. rewrite Ht. apply in_map_iff. exists c. split; auto.
    apply filter_In. split; auto. unfold nt_next. apply in_flat_map. exists (NT c).
    split; [apply next_syms_item; eauto|now left].
  Qed.

  Lemma start_items_In x i : In (i, 0) (closure_of A (fst x)) -> lhs (rule_at i) = snd x ->
    In i (start_items rules A x).
  Proof.
    intros Hit Hl. unfold start_items. apply in_flat_map. exists (i, 0). split; auto. simpl.
    rewrite Hl, !Nat.eqb_refl. now left.
  Qed.

  Lemma includes_In y i pre c post q2 :
    In y nts -> In (i, 0) (closure_of A (fst y)) -> lhs (rule_at i) = snd y ->
    rhs (rule_at i) = pre ++ NT c :: post -> goto_star (fst y) pre = Some q2 ->
    forallb (nullable rules) post = true ->
    In y (includes rules A (q2, c)).
  Proof.
    intros Hy Hit Hl Er Hg Hnu. unfold includes, includes_from. apply dedup_pair_In, in_flat_map.
    exists ((q2, c), y). split.
    - unfold includes_pairs. apply in_flat_map. exists y. split; auto.
      apply in_flat_map. exists i. split; [now apply start_items_In|].
      apply in_flat_map. exists (q2, NT c, post). split.
      + rewrite Er. now apply walk_fst.
      + rewrite Hnu. now left.
    - simpl. assert (E : pair_eqb (q2, c) (q2, c) = true) by now apply pair_eqb_eq. rewrite E. now left.
  Qed.

  Lemma lookback_In x i q2 :
    In (i, 0) (closure_of A (fst x)) -> lhs (rule_at i) = snd x ->
    goto_star (fst x) (rhs (rule_at i)) = Some q2 ->
    In (i, length (rhs (rule_at i))) (closure_of A q2) ->
    In (q2, i) (lookback rules A x).
  Proof.
    intros Hit Hl Hg Hc. unfold lookback. apply dedup_pair_In, in_flat_map. exists i.
    split; [now apply start_items_In|]. rewrite walk_snd, Hg.
    assert (E : existsb (fun it : item => Nat.eqb (fst it) i && is_satisfied rules it) (closure_of A q2) = true).
    { apply existsb_exists. exists (i, length (rhs (rule_at i))). split; auto. simpl.
      unfold is_satisfied. simpl. now rewrite !Nat.eqb_refl. }
    rewrite E. now left.
  Qed.

  (* ---- Read / Follow as relations on non-terminal transitions ---- *)
  Definition ReadOf (x : ntrans) (t : nat) : Prop := Of nts (read_sets rel) x t.
  Definition FollowOf (x : ntrans) (t : nat) : Prop := Of nts (follow_sets rel) x t.

  Lemma LSr : least_solution nts (map (reads rules A) nts) (map (directly_reads rules [r0] tEND A) nts) (read_sets rel).
  Proof. exact (proj1 (la_closure rules [r0] tEND A)). Qed.
  Lemma LSf : least_solution nts (map (includes_from (includes_pairs rules A)) nts) (read_sets rel) (follow_sets rel).
  Proof. exact (proj1 (proj2 (la_closure rules [r0] tEND A))). Qed.

  Lemma read_dr x t : In x nts -> In t (directly_reads rules [r0] tEND A x) -> ReadOf x t.
  Proof.
    intros Hx Ht. destruct (index_of_In pair_eqb pair_eqb_eq x nts Hx) as (i & Hi).
    apply (sol_base nts _ _ _ LSr x i t Hi).
    destruct (index_nth nts x i Hi) as (Hn & _). now rewrite (nth_map_error _ nts i x [] Hn).
  Qed.

  Lemma read_reads x y t : In x nts -> In y (reads rules A x) -> ReadOf y t -> ReadOf x t.
  Proof. apply (sol_edge nts _ _ _ LSr). Qed.

  Lemma follow_read x t : ReadOf x t -> FollowOf x t.
  Proof. intros (i & Hi & Hm). apply (sol_base nts _ _ _ LSf x i t Hi). exact Hm. Qed.

  Lemma follow_includes x y t : In x nts -> In y (includes rules A x) -> FollowOf y t -> FollowOf x t.
  Proof. apply (sol_edge nts _ _ _ LSf). Qed.

  Lemma la_from_follow x q i t :
    In x nts -> In (q, i) (lookback rules A x) -> FollowOf x t -> In (q, t, i) (la_triples rel).
  Proof.
    intros Hx Hlb (k & Hk & Hm). apply (proj2 (proj2 (la_closure rules [r0] tEND A))).
    destruct (index_nth nts x k Hk) as (Hn & Hlt). exists k. split; auto. split; auto.
    simpl. now rewrite (nth_map_error _ nts k x [] Hn).
  Qed.

  (* ================= trees ================= *)
  Notation tm := (tmatch nat (fun k : nat => k)).
  Notation wf_tree := (wf_tree nat (fun k => k) rules).
  Notation wf_forest := (wf_forest nat (fun k => k) rules).
  Notation root := (root nat (fun k => k)).
  Notation yield := (yield nat).
  Notation tsize := (tsize nat).
  Definition fsize (cs : list (dtree nat)) : nat := list_sum (map tsize cs).

  Lemma forest_derives cs : wf_forest cs -> derives rules nat tm (map root cs) (flat_map yield cs).
  Proof.
    induction 1 as [|c cs Hc Hcs IH]; simpl; [constructor|].
    change (root c :: map root cs) with ([root c] ++ map root cs).
    apply derives_app; auto. now apply wf_tree_derives.
  Qed.

  Lemma skipn_cons_inv {B} (l : list B) j x m : skipn j l = x :: m -> nth_error l j = Some x /\ skipn (S j) l = m.
  Proof.
    revert j; induction l as [|y l IH]; intros j H.
    - destruct j; discriminate.
    - destruct j; simpl in *.
      + inversion H; auto.
      + now apply IH.
  Qed.

  Lemma tsize_pos t : 1 <= tsize t.
  Proof. destruct t; simpl; lia. Qed.

  Lemma rule_index r : In r rules -> exists i, i < length rules /\ rule_at i = r.
  Proof. intros H. destruct (In_nth _ _ (mkRule 0 []) H) as (i & Hi & E). exists i. auto. Qed.

  Lemma nullable_nt c : wf_tree c -> yield c = [] -> forall a, root c = NT a -> nullable rules (NT a) = true.
  Proof.
    intros Hw Hy a Hr. pose proof (wf_tree_derives nat (fun k => k) rules c Hw) as Hd.
    rewrite Hy, Hr in Hd. pose proof (nullable_complete rules nat tm _ _ Hd eq_refl) as Hn.
    simpl in Hn. now rewrite andb_true_r in Hn.
  Qed.

  (* the first token of a forest that continues an item of state p can be read after any
     non-terminal transition into p *)
  Lemma forest_first_read n : forall cs, fsize cs <= n -> wf_forest cs ->
    forall p i j b rest,
      In (i, j) (closure_of A p) -> map root cs = skipn j (rhs (rule_at i)) ->
      flat_map yield cs = b :: rest ->
      forall x, In x nts -> trans A (fst x) (NT (snd x)) = Some p -> ReadOf x b.
  Proof.
    induction n; intros cs Hs Hw p i j b rest Hit Hroots Hy x Hx Htx.
    - destruct cs as [|c cs]; [discriminate|]. unfold fsize in Hs. simpl in Hs. pose proof (tsize_pos c). lia.
    - destruct cs as [|c cs]; [discriminate|].
      inversion Hw as [|? ? Hwc Hwcs]; subst. simpl in Hroots. symmetry in Hroots.
      destruct (skipn_cons_inv _ _ _ _ Hroots) as (Hnth & Hrest).
      assert (Hn : next_sym (i, j) = Some (root c)) by exact Hnth.
      unfold fsize in Hs. simpl in Hs.
      destruct c as [k | r' csc].
      + (* a terminal leaf: directly read *)
        simpl in Hy. inversion Hy; subst k. destruct x as (q, a). simpl in Htx.
        apply read_dr; auto. eapply dr_In; eauto.
      + apply wf_node_iff in Hwc. destruct Hwc as (Hin' & Hr' & Hwcsc). simpl in Hn.
        simpl in Hy. destruct (flat_map yield csc) as [|b' rest'] eqn:Eyc.
        * (* empty subtree: continue after a nullable transition *)
          simpl in Hy.
          assert (Hnul : nullable rules (NT (lhs r')) = true).
          { apply (nullable_nt (Node r' csc)); auto. apply wf_node_iff; auto. }
          destruct (item_trans _ _ _ Hit Hn) as (p1 & Hp1).
          assert (Hy1 : In (p, lhs r') nts) by (apply nts_In; eauto).
          apply (read_reads x (p, lhs r')); auto.
          { destruct x as (q, a). simpl in Htx. eapply reads_In; eauto. }
          apply (IHn cs) with (p := p1) (i := i) (j := S j) (rest := rest); auto.
          -- pose proof (tsize_pos (Node r' csc)). unfold fsize. lia.
          -- eapply item_advance; eauto.
        * (* the token is the first one of the subtree: descend *)
          simpl in Hy. inversion Hy; subst b'.
          destruct (rule_index r' Hin') as (i' & Hi' & Ei').
          apply (IHn csc) with (p := p) (i := i') (j := 0) (rest := rest'); auto.
          -- simpl in Hs. unfold fsize. lia.
          -- eapply predicted; eauto. now rewrite Ei'.
          -- simpl. now rewrite Ei'.
  Qed.

  Lemma item_along i : forall pre q0 q d,
    In (i, d) (closure_of A q0) -> firstn (length pre) (skipn d (rhs (rule_at i))) = pre ->
    goto_star q0 pre = Some q -> In (i, d + length pre) (closure_of A q).
  Proof.
    induction pre as [|s pre IH]; intros q0 q d Hit Hp Hg; simpl in *.
    - inversion Hg; subst. now rewrite Nat.add_0_r.
    - destruct (skipn d (rhs (rule_at i))) as [|s' m] eqn:Es; [discriminate|]. inversion Hp; subst s'.
      destruct (skipn_cons_inv _ _ _ _ Es) as (Hnth & Hrest).
      destruct (trans A q0 s) as [q1|] eqn:Et; [|discriminate].
      rewrite ?H1.
      replace (d + S (length pre)) with (S d + length pre) by lia.
      apply (IH q1 q (S d)); auto.
      + eapply item_advance; eauto.
      + now rewrite Hrest.
  Qed.

  (* la_complete, one level of a tree: the token that follows a child of a rule started at the
     non-terminal transition y is in Follow of the child's own transition *)
  Theorem la_complete_child y i pre c post q a cs :
    In y nts -> In (i, 0) (closure_of A (fst y)) -> lhs (rule_at i) = snd y ->
    rhs (rule_at i) = pre ++ NT c :: post -> goto_star (fst y) pre = Some q ->
    wf_forest cs -> map root cs = post ->
    FollowOf y a ->
    FollowOf (q, c) (hd a (flat_map yield cs)).
  Proof.
    intros Hy Hit Hl Er Hg Hw Hroots HF.
    assert (Hitq : In (i, 0 + length pre) (closure_of A q)).
    { apply (item_along i pre (fst y) q 0); auto. simpl. rewrite Er.
      rewrite firstn_app, Nat.sub_diag, firstn_all. simpl. now rewrite app_nil_r. }
    simpl in Hitq.
    assert (Hn : next_sym (i, length pre) = Some (NT c)).
    { unfold Automaton.next_sym. simpl. rewrite Er, nth_error_app2, Nat.sub_diag; auto. }
    assert (Hx : In (q, c) nts) by (apply nts_In; eauto).
    destruct (flat_map yield cs) as [|b rest] eqn:Ey; simpl.
    - apply (follow_includes (q, c) y); auto.
      eapply includes_In; eauto.
      rewrite <- Hroots. apply (nullable_complete rules nat tm _ _ (forest_derives cs Hw)). exact Ey.
    - apply follow_read.
      destruct (item_trans _ _ _ Hitq Hn) as (p & Hp).
      apply (forest_first_read (fsize cs) cs (le_n _) Hw p i (S (length pre)) b rest); auto.
      + eapply item_advance; eauto.
      + rewrite Hroots, Er. rewrite skipn_app.
        replace (S (length pre) - length pre) with 1 by lia.
        rewrite skipn_all2 by lia. reflexivity.
  Qed.

  (* ... and the token that follows the whole rule is a look-ahead of its reduction *)
  Theorem la_complete_reduce y i qn a :
    In y nts -> In (i, 0) (closure_of A (fst y)) -> lhs (rule_at i) = snd y ->
    goto_star (fst y) (rhs (rule_at i)) = Some qn -> FollowOf y a ->
    In (qn, a, i) (la_triples rel).
  Proof.
    intros Hy Hit Hl Hg HF. apply (la_from_follow y); auto. apply lookback_In; auto.
    apply (item_along i (rhs (rule_at i)) (fst y) qn 0); auto. simpl. apply firstn_all.
  Qed.
End Rel.
