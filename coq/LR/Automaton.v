(* LR/Automaton.v - executable model of lark/parsers/lalr_analysis.py (LALR_Analyzer) and the
   parts of grammar_analysis.py it uses.  No proofs here (see Automaton_proofs.v).

   Grammar = list of rules [rules] in lark's order  parser_conf.rules ++ lr0 root rules
   ($root_<start> -> start, WITHOUT $END: the end marker enters through directly_reads);
   an item (RulePtr) is (rule index, dot).  Item sets are duplicate-free lists sorted by
   (rule index, dot), so a kernel is a canonical value and states are identified by their
   kernel (as lark's [cache] does); state numbers are positions in the BFS discovery list
   and are NEVER compared with lark's numbers (the harness renames by kernel).

   Modelling decisions (each one is exercised by the correspondence check):
   * calculate_sets: only NULLABLE is needed here; round-robin iteration, |rules|+1 rounds.
   * expand_rule: left-corner reachability over first symbols, |rules|+1 rounds.
   * compute_lr0_states: worklist BFS over kernels with explicit fuel (one unit per state
     popped); out of fuel is reported as [AFuel].
   * digraph/traverse (Tarjan SCC with set aliasing) is modelled by its specification:
       F x = G x  U  U { F y | x R y }   (least solution = union of G over R-reachable
     nodes), computed by |X| rounds of simultaneous iteration.  lark's in-place aliasing
     F[x] = G[x] can only differ from this inside a non-trivial cycle of [reads].
   * compute_lalr1_states: for each state, Shift entries for all transitions first; then
     for every look-ahead terminal: more than one rule -> sort by priority (descending,
     stable), keep the first if strictly greater than the second, else record a
     reduce/reduce collision; the surviving rule is entered as Reduce only if the terminal
     has no Shift (shift preferred).  Any collision -> GrammarError ([AConflict]). *)
From Coq Require Import List Arith Bool ZArith.
From LV Require Import Cfg.Grammar LR.Driver.
Import ListNotations.

Definition item := (nat * nat)%type.          (* rule index, dot *)
Definition ntrans := (nat * nat)%type.        (* state, non-terminal: a non-terminal transition *)

Definition item_eqb (a b : item) : bool := Nat.eqb (fst a) (fst b) && Nat.eqb (snd a) (snd b).
Definition item_ltb (a b : item) : bool :=
  Nat.ltb (fst a) (fst b) || (Nat.eqb (fst a) (fst b) && Nat.ltb (snd a) (snd b)).

Fixpoint insert_item (x : item) (l : list item) : list item :=
  match l with
  | [] => [x]
  | y :: l' => if item_eqb x y then l else if item_ltb x y then x :: l else y :: insert_item x l'
  end.
Definition sort_items (l : list item) : list item := fold_right insert_item [] l.

Fixpoint mem_nat (x : nat) (l : list nat) : bool :=
  match l with [] => false | y :: l' => Nat.eqb x y || mem_nat x l' end.
Fixpoint mem_sym (x : symbol) (l : list symbol) : bool :=
  match l with [] => false | y :: l' => symbol_eqb x y || mem_sym x l' end.
Fixpoint mem_item (x : item) (l : list item) : bool :=
  match l with [] => false | y :: l' => item_eqb x y || mem_item x l' end.
Definition pair_eqb (a b : nat * nat) : bool := item_eqb a b.
Definition mem_pair := mem_item.

Fixpoint dedup_with {A} (eqb : A -> A -> bool) (l : list A) : list A :=
  match l with
  | [] => []
  | x :: l' => if existsb (eqb x) l' then dedup_with eqb l' else x :: dedup_with eqb l'
  end.
Definition dedup_nat := dedup_with Nat.eqb.
Definition dedup_sym := dedup_with symbol_eqb.
Definition dedup_pair := dedup_with pair_eqb.

Fixpoint list_eqb {A} (eqb : A -> A -> bool) (l1 l2 : list A) : bool :=
  match l1, l2 with
  | [], [] => true
  | x :: l1', y :: l2' => eqb x y && list_eqb eqb l1' l2'
  | _, _ => false
  end.
Definition kernel_eqb := list_eqb item_eqb.

Fixpoint index_of {A} (eqb : A -> A -> bool) (x : A) (l : list A) : option nat :=
  match l with
  | [] => None
  | y :: l' => if eqb x y then Some 0 else option_map S (index_of eqb x l')
  end.

Fixpoint find_index {A} (p : A -> bool) (l : list A) : option nat :=
  match l with
  | [] => None
  | y :: l' => if p y then Some 0 else option_map S (find_index p l')
  end.

Fixpoint iter {A} (n : nat) (f : A -> A) (x : A) : A :=
  match n with O => x | S n' => iter n' f (f x) end.

(* p.sort(key=lambda r: r[0], reverse=True): stable insertion sort, descending priority *)
Fixpoint insert_desc (x : Z * nat) (l : list (Z * nat)) : list (Z * nat) :=
  match l with
  | [] => [x]
  | y :: l' => if Z.ltb (fst y) (fst x) then x :: l else y :: insert_desc x l'
  end.
Definition sort_desc (l : list (Z * nat)) : list (Z * nat) := fold_right insert_desc [] l.

Inductive la_decision := Use (r : nat) | Collision.

Section Auto.
  Variable rules : list rule.
  Variable prio : list Z.            (* r.options.priority or 0, parallel to rules *)
  Variable roots : list nat.         (* indices of the root rules, one per start symbol *)
  Variable tEND : nat.               (* the terminal number of $END *)

  Definition rule_at (i : nat) : rule := nth i rules (mkRule 0 []).
  Definition prio_of (i : nat) : Z := nth i prio 0%Z.
  Definition next_sym (it : item) : option symbol := nth_error (rhs (rule_at (fst it))) (snd it).
  Definition is_satisfied (it : item) : bool := Nat.eqb (snd it) (length (rhs (rule_at (fst it)))).
  Definition rule_ids : list nat := seq 0 (length rules).

  (* ---- calculate_sets: NULLABLE ---- *)
  Definition sym_nullable (N : list nat) (X : symbol) : bool :=
    match X with NT a => mem_nat a N | T _ => false end.
  Definition nullable_step (N : list nat) : list nat :=
    fold_left (fun N r => if forallb (sym_nullable N) (rhs r) && negb (mem_nat (lhs r) N)
                          then lhs r :: N else N) rules N.
  Definition nullable_set : list nat := iter (S (length rules)) nullable_step [].
  Definition nullable (X : symbol) : bool := sym_nullable nullable_set X.

  (* ---- expand_rule ---- *)
  Definition first_nts_of (S0 : list nat) : list nat :=
    flat_map (fun r => if mem_nat (lhs r) S0
                       then match rhs r with NT b :: _ => [b] | _ => [] end else []) rules.
  Definition reach_step (S0 : list nat) : list nat := dedup_nat (S0 ++ first_nts_of S0).
  Definition reach (a : nat) : list nat := iter (S (length rules)) reach_step [a].
  Definition expand_rule (a : nat) : list item :=
    let R := reach a in
    flat_map (fun i => if mem_nat (lhs (rule_at i)) R then [(i, 0)] else []) rule_ids.

  Definition closure (K : list item) : list item :=
    sort_items (K ++ flat_map (fun it => match next_sym it with
                                         | Some (NT a) => expand_rule a
                                         | _ => [] end) K).

  Definition next_syms (C : list item) : list symbol :=
    dedup_sym (flat_map (fun it => match next_sym it with Some X => [X] | None => [] end) C).

  Definition goto_kernel (C : list item) (X : symbol) : list item :=
    sort_items (flat_map (fun it => match next_sym it with
                                    | Some Y => if symbol_eqb X Y then [(fst it, S (snd it))] else []
                                    | None => [] end) C).

  (* ---- compute_lr0_states ---- *)
  Definition root_kernels : list (list item) := map (fun r => [(r, 0)]) roots.

  Fixpoint add_new (ks : list (list item)) (seen : list (list item)) : list (list item) :=
    match ks with
    | [] => []
    | K :: ks' => if existsb (kernel_eqb K) seen then add_new ks' seen
                  else K :: add_new ks' (seen ++ [K])
    end.

  Fixpoint bfs (fuel : nat) (work seen : list (list item)) : option (list (list item)) :=
    match fuel with
    | O => match work with [] => Some seen | _ => None end
    | S fuel' =>
      match work with
      | [] => Some seen
      | K :: work' =>
        let C := closure K in
        let new := add_new (map (goto_kernel C) (next_syms C)) seen in
        bfs fuel' (work' ++ new) (seen ++ new)
      end
    end.

  Record lr0 := mkLr0 {
    kernels : list (list item);
    closures : list (list item);
    transs : list (list (symbol * nat)) }.

  Definition trans_row (ks : list (list item)) (C : list item) : list (symbol * nat) :=
    flat_map (fun X => match index_of kernel_eqb (goto_kernel C X) ks with
                       | Some q => [(X, q)] | None => [] end) (next_syms C).

  Definition build_lr0 (fuel : nat) : option lr0 :=
    match bfs fuel root_kernels root_kernels with
    | None => None
    | Some ks => let cs := map closure ks in Some (mkLr0 ks cs (map (trans_row ks) cs))
    end.

  Section WithLr0.
    Variable A : lr0.
    Definition nstates : nat := length (kernels A).
    Definition closure_of (q : nat) : list item := nth q (closures A) [].
    Definition trans_of (q : nat) : list (symbol * nat) := nth q (transs A) [].
    Fixpoint assoc_trans (X : symbol) (l : list (symbol * nat)) : option nat :=
      match l with [] => None | (Y, q) :: l' => if symbol_eqb X Y then Some q else assoc_trans X l' end.
    Definition trans (q : nat) (X : symbol) : option nat := assoc_trans X (trans_of q).

    (* ---- compute_reads_relations ---- *)
    Definition nt_next (C : list item) : list nat :=
      flat_map (fun X => match X with NT a => [a] | T _ => [] end) (next_syms C).
    Definition t_next (C : list item) : list nat :=
      flat_map (fun X => match X with T t => [t] | NT _ => [] end) (next_syms C).

    Definition nt_transitions : list ntrans :=
      flat_map (fun q => map (fun a => (q, a)) (nt_next (closure_of q))) (seq 0 nstates).

    (* root state i is state i (BFS starts from the root kernels in order) *)
    Definition is_root_trans (x : ntrans) : bool :=
      Nat.ltb (fst x) (length roots) &&
      match next_sym (nth (fst x) roots 0, 0) with Some (NT a) => Nat.eqb a (snd x) | _ => false end.

    Definition directly_reads (x : ntrans) : list nat :=
      dedup_nat ((if is_root_trans x then [tEND] else []) ++
                 match trans (fst x) (NT (snd x)) with
                 | Some q' => t_next (closure_of q')
                 | None => [] end).

    Definition reads (x : ntrans) : list ntrans :=
      match trans (fst x) (NT (snd x)) with
      | Some q' => map (fun c => (q', c))
                       (filter (fun c => nullable (NT c)) (nt_next (closure_of q')))
      | None => []
      end.

    (* ---- compute_includes_lookback ---- *)
    (* walk q ss: the (state before, symbol, rest after the symbol) triples met while reading
       ss from q, and the final state *)
    Fixpoint walk (q : nat) (ss : list symbol) : list (nat * symbol * list symbol) * option nat :=
      match ss with
      | [] => ([], Some q)
      | s :: ss' => match trans q s with
                    | None => ([(q, s, ss')], None)
                    | Some q' => let (l, f) := walk q' ss' in ((q, s, ss') :: l, f)
                    end
      end.

    (* items of [x]: closure items with origin = the non-terminal AND index 0 *)
    Definition start_items (x : ntrans) : list nat :=
      flat_map (fun it : item => if Nat.eqb (lhs (rule_at (fst it))) (snd x) && Nat.eqb (snd it) 0
                                 then [fst it] else []) (closure_of (fst x)).

    (* pairs (nt2, nt): nt2 includes nt *)
    Definition includes_pairs : list (ntrans * ntrans) :=
      flat_map (fun x =>
        flat_map (fun r =>
          flat_map (fun tr : nat * symbol * list symbol =>
                      match tr with
                      | (q2, NT c, rest) => if forallb nullable rest then [((q2, c), x)] else []
                      | _ => [] end)
                   (fst (walk (fst x) (rhs (rule_at r)))))
          (start_items x))
        nt_transitions.

    Definition includes_from (ip : list (ntrans * ntrans)) (x : ntrans) : list ntrans :=
      dedup_pair (flat_map (fun p : ntrans * ntrans => if pair_eqb (fst p) x then [snd p] else []) ip).
    Definition includes (x : ntrans) : list ntrans := includes_from includes_pairs x.

    (* lookback[x] = { (final state, rule) } *)
    Definition lookback (x : ntrans) : list (nat * nat) :=
      dedup_pair (flat_map (fun r =>
        match snd (walk (fst x) (rhs (rule_at r))) with
        | Some q2 => if existsb (fun it : item => Nat.eqb (fst it) r && is_satisfied it) (closure_of q2)
                     then [(q2, r)] else []
        | None => [] end) (start_items x)).

    (* the four relations as tables parallel to nt_transitions (computed once) *)
    Record relations := mkRel {
      r_nts : list ntrans;
      r_dr : list (list nat);
      r_reads : list (list ntrans);
      r_includes : list (list ntrans);
      r_lookback : list (list (nat * nat)) }.

    Definition compute_relations : relations :=
      let nts := nt_transitions in
      let ip := includes_pairs in
      mkRel nts (map directly_reads nts) (map reads nts) (map (includes_from ip) nts) (map lookback nts).

    (* ---- digraph (specification form) ---- *)
    Definition lookup_F (nts : list ntrans) (F : list (list nat)) (x : ntrans) : list nat :=
      match index_of pair_eqb x nts with Some i => nth i F [] | None => [] end.
    Definition digraph_step (nts : list ntrans) (R : list (list ntrans)) (G0 F : list (list nat)) : list (list nat) :=
      map (fun rg : list ntrans * list nat => dedup_nat (snd rg ++ flat_map (lookup_F nts F) (fst rg)))
          (combine R G0).
    Definition digraph (nts : list ntrans) (R : list (list ntrans)) (G0 : list (list nat)) : list (list nat) :=
      iter (length nts) (digraph_step nts R G0) G0.

    (* ---- compute_lookaheads ---- *)
    Definition read_sets (rel : relations) : list (list nat) := digraph (r_nts rel) (r_reads rel) (r_dr rel).
    Definition follow_sets (rel : relations) : list (list nat) :=
      digraph (r_nts rel) (r_includes rel) (read_sets rel).

    (* all (state, terminal, rule) triples:  state.lookaheads[terminal].add(rule) *)
    Definition la_triples_of (lookbacks : list (list (nat * nat))) (follow : list (list nat)) : list (nat * nat * nat) :=
      flat_map (fun lf : list (nat * nat) * list nat =>
        flat_map (fun qr : nat * nat => map (fun s => (fst qr, s, snd qr)) (snd lf)) (fst lf))
        (combine lookbacks follow).
    Definition la_triples (rel : relations) : list (nat * nat * nat) :=
      la_triples_of (r_lookback rel) (follow_sets rel).

    Definition la_terms (LA : list (nat * nat * nat)) (q : nat) : list nat :=
      dedup_nat (flat_map (fun t : nat * nat * nat => let '(q', s, _) := t in
                             if Nat.eqb q q' then [s] else []) LA).
    Definition la_rules (LA : list (nat * nat * nat)) (q s : nat) : list nat :=
      dedup_nat (flat_map (fun t : nat * nat * nat => let '(q', s', r) := t in
                             if Nat.eqb q q' && Nat.eqb s s' then [r] else []) LA).

    (* ---- compute_lalr1_states ---- *)
    Definition decide (rs : list nat) : la_decision :=
      match rs with
      | [r] => Use r
      | _ => match sort_desc (map (fun r => (prio_of r, r)) rs) with
             | (p1, r1) :: (p2, _) :: _ => if Z.ltb p2 p1 then Use r1 else Collision
             | _ => Collision
             end
      end.

    Definition shift_entries (q : nat) : list (symbol * action) :=
      map (fun e : symbol * nat => (fst e, Shift (snd e))) (trans_of q).

    Definition reduce_entries (LA : list (nat * nat * nat)) (q : nat) : list (symbol * action) :=
      flat_map (fun s => match decide (la_rules LA q s) with
                         | Use r => if mem_sym (T s) (map fst (trans_of q)) then []
                                    else [(T s, Reduce (rule_at r))]
                         | Collision => [] end) (la_terms LA q).

    Definition row (LA : list (nat * nat * nat)) (q : nat) : list (symbol * action) :=
      shift_entries q ++ reduce_entries LA q.

    Definition collisions (LA : list (nat * nat * nat)) : list (nat * nat * list nat) :=
      flat_map (fun q =>
        flat_map (fun s => match decide (la_rules LA q s) with
                           | Collision => [(q, s, la_rules LA q s)]
                           | Use _ => [] end) (la_terms LA q)) (seq 0 nstates).

    Definition table_rows (LA : list (nat * nat * nat)) : rows := map (fun q => (q, row LA q)) (seq 0 nstates).

    (* the LR(0) item sets as a certificate annotation for Driver_proofs.check_table *)
    Definition item_rules (q : nat) : list (rule * nat) :=
      map (fun it : item => (rule_at (fst it), snd it)) (closure_of q).
    Definition items_annot : list (state * list (rule * nat)) :=
      map (fun q => (q, item_rules q)) (seq 0 nstates).

    (* end_states[start]: the state containing the satisfied root item *)
    Definition end_state (i : nat) : option nat :=
      let r := nth i roots 0 in
      find_index (fun C : list item => existsb (fun it : item => Nat.eqb (fst it) r && is_satisfied it) C)
                 (closures A).
  End WithLr0.

  Inductive analysis :=
  | ATable (A : lr0) (rel : relations) (LA : list (nat * nat * nat)) (R : rows)   (* parse table built *)
  | AConflict (A : lr0) (rel : relations) (LA : list (nat * nat * nat))
              (cs : list (nat * nat * list nat))                                    (* GrammarError *)
  | AFuel.

  Definition compute_lalr (fuel : nat) : analysis :=
    match build_lr0 fuel with
    | None => AFuel
    | Some A =>
        let rel := compute_relations A in
        let LA := la_triples rel in
        match collisions A LA with
        | [] => ATable A rel LA (table_rows A LA)
        | cs => AConflict A rel LA cs
        end
    end.
End Auto.
