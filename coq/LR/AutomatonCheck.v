(* LR/AutomatonCheck.v - comparison helpers for the harness: does the model of lalr_analysis.py
   (LR/Automaton.v) reproduce what lark computed for one grammar?  States are matched by kernel
   item set, never by number.  No proofs here. *)
From Coq Require Import List Arith Bool ZArith.
From LV Require Import Cfg.Grammar LR.Driver LR.Automaton LR.Digraph.
Import ListNotations.

Definition kern := list item.
Definition knt := (nat * nat)%type.     (* (position of the state in ac_states, non-terminal) *)

(* a table entry as lark has it: Shift to the state with that kernel | Reduce by rule number *)
Inductive kact := KShift (i : nat) | KReduce (r : nat).   (* i = position in ac_states *)

Record ACase := mkACase {
  ac_rules : list rule;
  ac_prio : list Z;
  ac_roots : list nat;
  ac_fuel : nat;
  ac_nullable : list nat;
  (* kernel, closure, transitions, lookaheads (terminal, rules) *)
  ac_states : list (kern * list item * list (symbol * nat) * list (nat * list nat));
  ac_nts : list knt;
  ac_dr : list (knt * list nat);
  ac_reads : list (knt * list knt);
  ac_includes : list (knt * list knt);
  ac_lookback : list (knt * list (nat * nat));
  ac_error : bool;
  ac_table : list (nat * list (symbol * kact)) }.

Definition subset {A} (mem : A -> list A -> bool) (l1 l2 : list A) : bool := forallb (fun x => mem x l2) l1.
Definition set_eq {A} (mem : A -> list A -> bool) (l1 l2 : list A) : bool := subset mem l1 l2 && subset mem l2 l1.
Definition nats_eq := set_eq mem_nat.
Definition pairs_eq := set_eq mem_pair.

Definition symq_eqb (a b : symbol * nat) : bool := symbol_eqb (fst a) (fst b) && Nat.eqb (snd a) (snd b).
Definition mem_symq (x : symbol * nat) (l : list (symbol * nat)) : bool := existsb (symq_eqb x) l.

Definition act_eqb (a b : action) : bool :=
  match a, b with
  | Shift p, Shift q => Nat.eqb p q
  | Reduce r, Reduce s => if rule_eq_dec r s then true else false
  | _, _ => false
  end.
Definition entry_eqb (a b : symbol * action) : bool := symbol_eqb (fst a) (fst b) && act_eqb (snd a) (snd b).
Definition mem_entry (x : symbol * action) (l : list (symbol * action)) : bool := existsb (entry_eqb x) l.

Definition knt_eqb (a b : knt) : bool := Nat.eqb (fst a) (fst b) && Nat.eqb (snd a) (snd b).
Fixpoint assoc_knt {B} (x : knt) (l : list (knt * B)) : option B :=
  match l with [] => None | (y, b) :: l' => if knt_eqb x y then Some b else assoc_knt x l' end.

Section Check.
  Variable c : ACase.
  Definition A_rules := ac_rules c.
  Definition END_T := 0.

  Definition kid (A : lr0) (k : kern) : option nat := index_of kernel_eqb k (kernels A).
  Definition kid' (A : lr0) (k : kern) : nat := match kid A k with Some q => q | None => length (kernels A) end.
  (* model state number of the i-th observed state; ids computed once per case *)
  Definition case_ids (A : lr0) : list nat :=
    map (fun s : kern * list item * list (symbol * nat) * list (nat * list nat) =>
           let '(k, _, _, _) := s in kid' A k) (ac_states c).
  Definition sid (ids : list nat) (i : nat) : nat := nth i ids (length ids + 1000).
  Definition nt_id (ids : list nat) (x : knt) : ntrans := (sid ids (fst x), snd x).
  (* inverse: observed position of model state q *)
  Definition pos_of (ids : list nat) (q : nat) : nat :=
    match index_of Nat.eqb q ids with Some i => i | None => length ids + 1000 end.

  Definition root_lhs : list nat := map (fun r => lhs (rule_at A_rules r)) (ac_roots c).

  (* stage 1: the set of states *)
  Definition chk_states (A : lr0) : bool :=
    Nat.eqb (length (kernels A)) (length (ac_states c)) &&
    forallb (fun s : kern * list item * list (symbol * nat) * list (nat * list nat) =>
               let '(k, _, _, _) := s in match kid A k with Some _ => true | None => false end) (ac_states c).

  (* stage 2: closures and transitions *)
  Definition chk_closure_trans (A : lr0) (ids : list nat) : bool :=
    forallb (fun s : kern * list item * list (symbol * nat) * list (nat * list nat) =>
               let '(k, cl, tr, _) := s in
               let q := kid' A k in
               kernel_eqb (closure_of A q) cl &&
               set_eq mem_symq (trans_of A q) (map (fun e : symbol * nat => (fst e, sid ids (snd e))) tr))
            (ac_states c).

  (* stage 3: NULLABLE (root symbols are not compared: lark's root rule carries $END) *)
  Definition chk_nullable : bool :=
    nats_eq (filter (fun a => negb (mem_nat a root_lhs)) (nullable_set A_rules)) (ac_nullable c).

  (* stage 4: non-terminal transitions and the four relations *)
  Definition chk_nts (ids : list nat) (rel : relations) : bool :=
    pairs_eq (r_nts rel) (map (nt_id ids) (ac_nts c)).

  Definition chk_rel {B C} (ids : list nat) (model : list C) (obs : list (knt * B)) (dflt : B)
             (cmp : C -> B -> bool) (rel : relations) (need_all : bool) : bool :=
    forallb (fun xm : ntrans * C =>
               let x := fst xm in
               match assoc_knt (pos_of ids (fst x), snd x) obs with
               | Some b => cmp (snd xm) b
               | None => if need_all then false else cmp (snd xm) dflt
               end) (combine (r_nts rel) model) &&
    forallb (fun o : knt * B => mem_pair (nt_id ids (fst o)) (r_nts rel)) obs.

  Definition chk_dr (ids : list nat) (rel : relations) : bool :=
    chk_rel ids (r_dr rel) (ac_dr c) [] (fun m o => nats_eq m o) rel true.
  Definition chk_reads (ids : list nat) (rel : relations) : bool :=
    chk_rel ids (r_reads rel) (ac_reads c) [] (fun m o => pairs_eq m (map (nt_id ids) o)) rel true.
  Definition chk_includes (ids : list nat) (rel : relations) : bool :=
    chk_rel ids (r_includes rel) (ac_includes c) [] (fun m o => pairs_eq m (map (nt_id ids) o)) rel false.
  Definition chk_lookback (ids : list nat) (rel : relations) : bool :=
    chk_rel ids (r_lookback rel) (ac_lookback c) []
            (fun m o => pairs_eq m (map (fun e : nat * nat => (sid ids (fst e), snd e)) o)) rel true.

  (* stage 5: look-ahead sets per state *)
  Definition chk_la (A : lr0) (LA : list (nat * nat * nat)) : bool :=
    forallb (fun s : kern * list item * list (symbol * nat) * list (nat * list nat) =>
               let '(k, _, _, las) := s in
               let q := kid' A k in
               nats_eq (la_terms LA q) (map fst las) &&
               forallb (fun e : nat * list nat => nats_eq (la_rules LA q (fst e)) (snd e)) las)
            (ac_states c).

  (* stage 6: GrammarError yes/no and the table *)
  Definition chk_table (ids : list nat) (R : rows) : bool :=
    forallb (fun kr : nat * list (symbol * kact) =>
               let q := sid ids (fst kr) in
               match row_of R q with
               | None => false
               | Some row =>
                   set_eq mem_entry row
                          (map (fun e : symbol * kact =>
                                  (fst e, match snd e with
                                          | KShift i => Shift (sid ids i)
                                          | KReduce r => Reduce (rule_at A_rules r) end)) (snd kr))
               end) (ac_table c).

  (* ---- tolerant forms for grammars with a reads-cycle (never LR(k)): lark's digraph aliases the
     Read set object of all members of a reads-SCC (LR/Digraph.v, digraph_twice_aliasing_refuted), so
     its look-ahead sets may be LARGER than the least solution computed by this model.  Tolerated:
     lark's LA is a superset per (state, terminal, rule), and table rows agree except for additional
     Reduce entries on terminals for which the model's row has no entry at all (such an entry makes
     the parser reduce and then reject before shifting: language, shift preference and accepts() are
     unchanged).  NOT tolerated: any other difference, in particular the GrammarError flag. ---- *)
  Definition chk_la_sup (A : lr0) (LA : list (nat * nat * nat)) : bool :=
    forallb (fun s : kern * list item * list (symbol * nat) * list (nat * list nat) =>
               let '(k, _, _, las) := s in
               let q := kid' A k in
               subset mem_nat (la_terms LA q) (map fst las) &&
               forallb (fun e : nat * list nat => subset mem_nat (la_rules LA q (fst e)) (snd e)) las)
            (ac_states c).

  Definition chk_table_tol (ids : list nat) (R : rows) : bool :=
    forallb (fun kr : nat * list (symbol * kact) =>
               let q := sid ids (fst kr) in
               match row_of R q with
               | None => false
               | Some row =>
                   let obs := map (fun e : symbol * kact =>
                                     (fst e, match snd e with
                                             | KShift i => Shift (sid ids i)
                                             | KReduce r => Reduce (rule_at A_rules r) end)) (snd kr) in
                   subset mem_entry row obs &&
                   forallb (fun e : symbol * action =>
                              mem_entry e row ||
                              match snd e, assoc_sym (fst e) row with
                              | Reduce _, None => true
                              | _, _ => false
                              end) obs
               end) (ac_table c).

  Definition stages_tol : list bool :=
    match compute_lalr A_rules (ac_prio c) (ac_roots c) END_T (ac_fuel c) with
    | AFuel => [false]
    | ATable A rel LA R =>
        let ids := case_ids A in
        [true; chk_states A; chk_closure_trans A ids; chk_nullable; chk_nts ids rel; chk_dr ids rel; chk_reads ids rel;
         chk_includes ids rel; chk_lookback ids rel; chk_la_sup A LA; negb (ac_error c); chk_table_tol ids R]
    | AConflict A rel LA _ =>
        let ids := case_ids A in
        [true; chk_states A; chk_closure_trans A ids; chk_nullable; chk_nts ids rel; chk_dr ids rel; chk_reads ids rel;
         chk_includes ids rel; chk_lookback ids rel; chk_la_sup A LA; ac_error c; true]
    end.

  Definition stages : list bool :=
    match compute_lalr A_rules (ac_prio c) (ac_roots c) END_T (ac_fuel c) with
    | AFuel => [false]
    | ATable A rel LA R =>
        let ids := case_ids A in
        [true; chk_states A; chk_closure_trans A ids; chk_nullable; chk_nts ids rel; chk_dr ids rel; chk_reads ids rel;
         chk_includes ids rel; chk_lookback ids rel; chk_la A LA; negb (ac_error c); chk_table ids R]
    | AConflict A rel LA _ =>
        let ids := case_ids A in
        [true; chk_states A; chk_closure_trans A ids; chk_nullable; chk_nts ids rel; chk_dr ids rel; chk_reads ids rel;
         chk_includes ids rel; chk_lookback ids rel; chk_la A LA; ac_error c; true]
    end.
End Check.

Definition check_acase (c : ACase) : bool := forallb (fun b => b) (stages c).
Definition check_acase_tol (c : ACase) : bool := forallb (fun b => b) (stages_tol c).

(* ---- grammars with a reads-cycle: the look-aheads are computed by the AS-CODED digraph (LR/Digraph.v)
   run with lark's own node order and iteration orders (exported by the harness), so that the set
   aliasing of lark's digraph() is reproduced exactly; states, NULLABLE and the four relations are the
   model's (stages 0-8 must agree as always); look-ahead sets, GrammarError yes/no and the table are
   then compared EXACTLY with what the coded algorithm yields. ---- *)
Definition coded_stages (cc : ACase * list knt * list (list knt) * list (list knt)) : list bool :=
  let '(c, onts, oreads, oincl) := cc in
  let rules := ac_rules c in
  match build_lr0 rules (ac_roots c) (ac_fuel c) with
  | None => [false]
  | Some A =>
      let ids := case_ids c A in
      let nodes := map (nt_id ids) onts in
      let idx := map (fun ys : list knt =>
                        flat_map (fun y => match index_of pair_eqb (nt_id ids y) nodes with
                                           | Some j => [j] | None => [] end) ys) in
      match digraph_twice (length nodes) (idx oreads) (idx oincl)
                          (map (directly_reads rules (ac_roots c) END_T A) nodes) with
      | None => [false]
      | Some (_, F2) =>
          let LAc := la_triples_of (map (lookback rules A) nodes) F2 in
          let coll := match collisions (ac_prio c) A LAc with [] => false | _ => true end in
          firstn 9 (stages c) ++
          [chk_la c A LAc; Bool.eqb coll (ac_error c);
           if coll then true else chk_table c ids (table_rows rules (ac_prio c) A LAc)]
      end
  end.
Definition check_acase_coded (cc : ACase * list knt * list (list knt) * list (list knt)) : bool :=
  forallb (fun b => b) (coded_stages cc).

(* which stages fail (0-based), for the harness's diagnostics *)
Fixpoint failing (i : nat) (l : list bool) : list nat :=
  match l with [] => [] | b :: l' => if b then failing (S i) l' else i :: failing (S i) l' end.
Definition diag_acase (c : ACase) : list nat := failing 0 (stages c).
Definition diag_acase_tol (c : ACase) : list nat := failing 0 (stages_tol c).
Definition diag_acase_coded (cc : ACase * list knt * list (list knt) * list (list knt)) : list nat := failing 0 (coded_stages cc).

(* digraph against its specification on an arbitrary (X, R, G): used to drive lark's
   digraph()/traverse() directly with random relations, including cyclic ones.
   nodes are (n, 0) pairs *)
Definition check_digraph (cse : list (nat * list nat * list nat) * list (list nat)) : bool :=
  let nodes := map (fun e : nat * list nat * list nat => (fst (fst e), 0)) (fst cse) in
  let R := map (fun e : nat * list nat * list nat => map (fun y => (y, 0)) (snd (fst e))) (fst cse) in
  let G0 := map (fun e : nat * list nat * list nat => snd e) (fst cse) in
  let F := digraph nodes R G0 in
  Nat.eqb (length F) (length (snd cse)) &&
  forallb (fun p : list nat * list nat => nats_eq (fst p) (snd p)) (combine F (snd cse)).
