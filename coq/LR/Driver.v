(* LR/Driver.v - executable model of the LALR driver
     lark/parsers/lalr_parser_state.py : ParserState.feed_token
     lark/parsers/lalr_parser.py       : _Parser.parse_from_state  (token loop + $END)
   over an ABSTRACT parse table.  No proofs here (see Driver_proofs.v).

   ---------------------------------------------------------------------------------
   INTERFACE (what other blocks - C13 interactive, C08 errors, C14 scan - may rely on)

     state   := nat
     action  := Shift q | Reduce r                 (r : Cfg.Grammar.rule = (lhs, rhs))
     ptable  := { pt_action : state -> symbol -> option action ;   states[q][name]
                  pt_start  : state ;                               ParseConf.start_state
                  pt_end    : state }                               ParseConf.end_state
       One ptable per start symbol.  The table is keyed by [symbol] (T t | NT a); lark keys
       it by NAME (token.type / rule.origin.name) - the model assumes terminal and rule
       names are disjoint (lark: upper- vs lower-case).  The goto after a reduce is, as in
       lark, the [Shift] entry found under the rule's origin in the same table.

     Section parameters:  tok : Type,  ttype : tok -> nat   (token.type as terminal number)
     dtree   := Leaf k | Node r children                    (values = derivation trees, i.e.
                                                             callbacks[rule] = Node rule)
     config  := { sstack : list state ; vstack : list dtree }   BOTH TOP-FIRST
                (Python's state_stack[-1] is [hd sstack]; value_stack[-n:] is
                 [rev (firstn n vstack)])
     init_config P = ([pt_start P], [])

     feed P fuel c k is_end : outcome        one call of feed_token(token=k, is_end)
       Shifted c'     returned None after the shift (c' = stacks afterwards)
       Accepted t     is_end and the end state was reached: value_stack[-1] returned
       Unexpected c'  UnexpectedToken raised; c' = the stacks AT THAT MOMENT (reductions
                      already performed by this call stay performed, as in the code)
       DAssert c'     one of the three [assert]s failed
       DCrash c'      KeyError / IndexError (missing goto entry, empty state stack)
       DFuel          the model's fuel ran out (one unit per loop iteration = per reduce)

     feed_all P fuel c w        for token in w: feed_token(token)           (is_end=False)
     parse P fuel w end_tok     parse_from_state: feed_all from init_config, then
                                feed_token(end_tok, True)
     Concrete tables:  rows := list (state * list (symbol * action)),
       rows_action, ptable_of_rows, choices (= keys of the row = InteractiveParser.choices()),
       expected (= terminals of the row = UnexpectedToken.expected).
   --------------------------------------------------------------------------------- *)
From Coq Require Import List Arith Bool.
From LV Require Import Cfg.Grammar.
Import ListNotations.

Definition state := nat.

Inductive action := Shift (q : state) | Reduce (r : rule).

Record ptable := mkPtable {
  pt_action : state -> symbol -> option action;
  pt_start : state;
  pt_end : state }.

Section Driver.
  Variable tok : Type.
  Variable ttype : tok -> nat.

  Inductive dtree := Leaf (k : tok) | Node (r : rule) (cs : list dtree).

  Definition root (t : dtree) : symbol :=
    match t with Leaf k => T (ttype k) | Node r _ => NT (lhs r) end.

  Fixpoint yield (t : dtree) : list tok :=
    match t with Leaf k => [k] | Node _ cs => flat_map yield cs end.

  Record config := mkConfig { sstack : list state; vstack : list dtree }.

  Inductive outcome :=
  | Shifted (c : config)
  | Accepted (t : dtree)
  | Unexpected (c : config)
  | DAssert (c : config)
  | DCrash (c : config)
  | DFuel.

  Variable P : ptable.

  Definition init_config : config := mkConfig [pt_start P] [].

  (* while True: ... of feed_token; one unit of fuel per iteration *)
  Fixpoint feed (fuel : nat) (c : config) (k : tok) (is_end : bool) : outcome :=
    match fuel with
    | O => DFuel
    | S fuel' =>
      match sstack c with
      | [] => DCrash c                                    (* state_stack[-1]: IndexError *)
      | q :: _ =>
        match pt_action P q (T (ttype k)) with
        | None => Unexpected c                            (* KeyError -> UnexpectedToken *)
        | Some (Shift q') =>
            if Nat.eqb q' (pt_end P) then DAssert c       (* assert arg != end_state *)
            else if is_end then DAssert c                 (* assert not is_end *)
            else Shifted (mkConfig (q' :: sstack c) (Leaf k :: vstack c))
        | Some (Reduce r) =>
            let n := length (rhs r) in
            let s := rev (firstn n (vstack c)) in         (* value_stack[-size:] *)
            let ss := skipn n (sstack c) in               (* del state_stack[-size:] *)
            let vs := skipn n (vstack c) in               (* del value_stack[-size:] *)
            match ss with
            | [] => DCrash (mkConfig ss vs)               (* state_stack[-1]: IndexError *)
            | q2 :: _ =>
              match pt_action P q2 (NT (lhs r)) with
              | Some (Shift q3) =>
                  let c' := mkConfig (q3 :: ss) (Node r s :: vs) in
                  if is_end && Nat.eqb q3 (pt_end P) then Accepted (Node r s)
                  else feed fuel' c' k is_end
              | Some (Reduce _) => DAssert (mkConfig ss vs)   (* assert _action is Shift *)
              | None => DCrash (mkConfig ss vs)               (* KeyError *)
              end
            end
        end
      end
    end.

  (* for token in lexer: state.feed_token(token) *)
  Fixpoint feed_all (fuel : nat) (c : config) (w : list tok) : outcome :=
    match w with
    | [] => Shifted c
    | k :: w' =>
      match feed fuel c k false with
      | Shifted c' => feed_all fuel c' w'
      | o => o
      end
    end.

  (* parse_from_state: all tokens, then feed_token(end_token, True) *)
  Definition parse (fuel : nat) (w : list tok) (end_tok : tok) : outcome :=
    match feed_all fuel init_config w with
    | Shifted c => feed fuel c end_tok true
    | o => o
    end.
End Driver.

Arguments Leaf {tok} k.
Arguments Node {tok} r cs.
Arguments mkConfig {tok} sstack vstack.
Arguments sstack {tok} c.
Arguments vstack {tok} c.
Arguments Shifted {tok} c.
Arguments Accepted {tok} t.
Arguments Unexpected {tok} c.
Arguments DAssert {tok} c.
Arguments DCrash {tok} c.
Arguments DFuel {tok}.
Arguments init_config {tok} P.

(* ---- concrete tables (what lark's ParseTable.states is: a dict of dicts) ---- *)
Definition rows := list (state * list (symbol * action)).

Fixpoint assoc_sym (X : symbol) (l : list (symbol * action)) : option action :=
  match l with
  | [] => None
  | (Y, a) :: l' => if symbol_eqb X Y then Some a else assoc_sym X l'
  end.

Fixpoint row_of (R : rows) (q : state) : option (list (symbol * action)) :=
  match R with
  | [] => None
  | (q', row) :: R' => if Nat.eqb q q' then Some row else row_of R' q
  end.

Definition rows_action (R : rows) (q : state) (X : symbol) : option action :=
  match row_of R q with Some row => assoc_sym X row | None => None end.

Definition ptable_of_rows (R : rows) (q0 qe : state) : ptable := mkPtable (rows_action R) q0 qe.

(* InteractiveParser.choices(): the keys of the current row *)
Definition choices (R : rows) (q : state) : list symbol :=
  match row_of R q with Some row => map fst row | None => [] end.

(* UnexpectedToken.expected: the upper-case (= terminal) keys of the row *)
Definition expected (R : rows) (q : state) : list nat :=
  flat_map (fun X => match X with T t => [t] | NT _ => [] end) (choices R q).
