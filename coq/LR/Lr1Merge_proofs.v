(* LR/Lr1Merge_proofs.v - every canonical LR(1) look-ahead is a look-ahead of the model of
   lalr_analysis.py.  The canonical LR(1) construction is specified inductively, path-wise
   (an item with look-ahead is valid for a symbol string g: initial item, goto, closure with
   FIRST of the remainder followed by the parent's look-ahead); the LALR(1) look-ahead set of a
   complete item in the LR(0) state q is the union over all g leading to q.  Invariant: a valid
   item [A -> alpha . beta, a] for g = delta alpha has a in Follow(goto*(0, delta), A); the
   closure step is DR/reads (FIRST of the remainder) or includes (nullable remainder), the
   final step is lookback. *)
From Coq Require Import List Arith Bool ZArith Lia.
From LV Require Import Cfg.Grammar LR.Driver LR.Driver_proofs LR.Automaton LR.Automaton_proofs
     LR.Automaton_wf LR.Automaton_la LR.Automaton_complete LR.La_complete LR.Lr1Merge.
Import ListNotations.

Section Spec.
  Variable rules : list rule.
  Variable r0 tEND : nat.
  Notation rule_at := (rule_at rules).
  Notation nullable := (nullable rules).

  (* FIRST, inductively *)
  Inductive first_sym : symbol -> nat -> Prop :=
  | fs_t t : first_sym (T t) t
  | fs_nt j pre Y post b :
      j < length rules -> rhs (rule_at j) = pre ++ Y :: post -> forallb nullable pre = true ->
      first_sym Y b -> first_sym (NT (lhs (rule_at j))) b.

  Definition first_str (ss : list symbol) (b : nat) : Prop :=
    exists pre Y post, ss = pre ++ Y :: post /\ forallb nullable pre = true /\ first_sym Y b.

  (* canonical LR(1): [rule i, dot d, look-ahead a] is valid for the symbol string g *)
  Inductive lr1_valid : list symbol -> nat -> nat -> nat -> Prop :=
  | v_init : lr1_valid [] r0 0 tEND
  | v_goto g i d a X :
      lr1_valid g i d a -> nth_error (rhs (rule_at i)) d = Some X -> lr1_valid (g ++ [X]) i (S d) a
  | v_clos g i d a B j b :
      lr1_valid g i d a -> nth_error (rhs (rule_at i)) d = Some (NT B) ->
      j < length rules -> lhs (rule_at j) = B ->
      (first_str (skipn (S d) (rhs (rule_at i))) b \/
       (forallb nullable (skipn (S d) (rhs (rule_at i))) = true /\ b = a)) ->
      lr1_valid g j 0 b.
End Spec.

Lemma split_at_nth {B} (l : list B) d x : nth_error l d = Some x -> l = firstn d l ++ x :: skipn (S d) l.
Proof.
  revert d; induction l as [|y l IH]; intros [|d] H; simpl in *; try discriminate.
  - now inversion H.
  - f_equal. now apply IH.
Qed.

Section Sound.
  Variable rules : list rule.
  Variable tEND fuel : nat.
  Variable A : lr0.
  Variable r0 rootnt start : nat.
  Hypothesis HB : build_lr0 rules [r0] fuel = Some A.
  Hypothesis Hv : r0 < length rules.
  Hypothesis Hr0 : rule_at rules r0 = mkRule rootnt [NT start].

  Notation rule_at := (rule_at rules).
  Notation next_sym := (next_sym rules).
  Notation nts := (nt_transitions rules A).
  Notation ReadOf := (ReadOf rules tEND A r0).
  Notation FollowOf := (FollowOf rules tEND A r0).
  Notation first_sym := (first_sym rules).
  Notation first_str := (first_str rules).
  Notation lr1_valid := (lr1_valid rules r0 tEND).
  Notation goto_star := (goto_star A).
  Let ND := ND1' r0.

  (* reading over a nullable prefix *)
  Lemma skip_nullable Y b i post
        (HY : forall p e, In (i, e) (closure_of A p) -> next_sym (i, e) = Some Y ->
                          forall x, In x nts -> trans A (fst x) (NT (snd x)) = Some p -> ReadOf x b) :
    forall pre p e, In (i, e) (closure_of A p) -> skipn e (rhs (rule_at i)) = pre ++ Y :: post ->
      forallb (nullable rules) pre = true ->
      forall x, In x nts -> trans A (fst x) (NT (snd x)) = Some p -> ReadOf x b.
  Proof.
    induction pre as [|N pre IH]; intros p e Hit Hsk Hnu x Hx Htx.
    - destruct (skipn_cons_inv _ _ _ _ Hsk) as (Hn & _). eapply HY; eauto.
    - simpl in Hsk. destruct (skipn_cons_inv _ _ _ _ Hsk) as (Hn & Hrest).
      simpl in Hnu. apply andb_true_iff in Hnu. destruct Hnu as (HnN & Hnu).
      destruct N as [t|c]; [discriminate|].
      assert (Hn' : next_sym (i, e) = Some (NT c)) by exact Hn.
      destruct (item_trans rules fuel A r0 HB _ _ _ Hit Hn') as (p1 & Hp1).
      assert (Hy : In (p, c) nts) by (apply (nts_In rules fuel A r0 HB); eauto).
      apply (read_reads rules tEND A r0 x (p, c)); auto.
      { destruct x as (q, a). simpl in Htx. eapply reads_In; eauto. }
      apply (IH p1 (S e)); auto.
      eapply (item_advance rules fuel A r0 HB); eauto.
  Qed.

  Lemma read_first_sym Y b : first_sym Y b ->
    forall p i e, In (i, e) (closure_of A p) -> next_sym (i, e) = Some Y ->
    forall x, In x nts -> trans A (fst x) (NT (snd x)) = Some p -> ReadOf x b.
  Proof.
    induction 1 as [t | j pre Y post b Hj Hr Hnu Hf IH]; intros p i e Hit Hn x Hx Htx.
    - destruct x as (q, a). simpl in Htx. apply (read_dr rules tEND A r0); auto. eapply dr_In; eauto.
    - assert (Hj0 : In (j, 0) (closure_of A p)) by (eapply (predicted rules fuel A r0 HB); eauto).
      apply (skip_nullable Y b j post (fun p' e' => IH p' j e') pre p 0); auto.
  Qed.

  Lemma read_first_str p i e b :
    In (i, e) (closure_of A p) -> first_str (skipn e (rhs (rule_at i))) b ->
    forall x, In x nts -> trans A (fst x) (NT (snd x)) = Some p -> ReadOf x b.
  Proof.
    intros Hit (pre & Y & post & Hsk & Hnu & Hf).
    apply (skip_nullable Y b i post (fun p' e' => read_first_sym Y b Hf p' i e') pre p e); auto.
  Qed.

  Lemma root_item0 : In (r0, 0) (closure_of A 0).
  Proof.
    destruct (built_shape rules [r0] fuel A HB ND) as (_ & _ & (tl & Hp) & _).
    rewrite (closure_of_nth rules [r0] fuel A HB ND). rewrite Hp. simpl.
    apply closure_kernel. now left.
  Qed.

  Lemma follow_root' q : In (r0, 0) (closure_of A 0) -> trans A 0 (NT start) = Some q -> FollowOf (0, start) tEND.
  Proof.
    intros H0 Ht. apply follow_read. apply (read_dr rules tEND A r0).
    - apply (nts_In rules fuel A r0 HB). exists (r0, 0). split; auto.
      unfold Automaton.next_sym. simpl. now rewrite Hr0.
    - unfold directly_reads. apply dedup_nat_In, in_app_iff. left.
      unfold is_root_trans. simpl. unfold Automaton.next_sym. simpl. rewrite Hr0. simpl. rewrite Nat.eqb_refl. now left.
  Qed.

  Definition inv (g : list symbol) (i d a : nat) : Prop :=
    (exists q, goto_star 0 g = Some q /\ In (i, d) (closure_of A q)) /\
    ((i = r0 /\ a = tEND /\ g = firstn d (rhs (rule_at r0))) \/
     (exists delta qo, g = delta ++ firstn d (rhs (rule_at i)) /\ goto_star 0 delta = Some qo /\
                       In (qo, lhs (rule_at i)) nts /\ In (i, 0) (closure_of A qo) /\
                       FollowOf (qo, lhs (rule_at i)) a)).

  Lemma valid_inv g i d a : lr1_valid g i d a -> inv g i d a.
  Proof.
    induction 1 as [| g i d a X Hval IH Hn | g i d a B j b Hval IH Hn Hj Hl Hb].
    - split.
      + exists 0. split; auto. apply root_item0.
      + left. auto.
    - destruct IH as ((q & Hg & Hit) & Hc).
      assert (Hn' : next_sym (i, d) = Some X) by exact Hn.
      destruct (item_trans rules fuel A r0 HB _ _ _ Hit Hn') as (q' & Hq').
      split.
      + exists q'. split; [rewrite goto_star_app, Hg; simpl; now rewrite Hq'|].
        eapply (item_advance rules fuel A r0 HB); eauto.
      + destruct Hc as [(-> & -> & ->)|(delta & qo & -> & Hgo & Hy & Hi0 & HF)].
        * left. repeat split; auto. now rewrite (firstn_S_nth_error _ _ _ Hn).
        * right. exists delta, qo. rewrite (firstn_S_nth_error _ _ _ Hn), app_assoc. auto.
    - destruct IH as ((q & Hg & Hit) & Hc).
      assert (Hn' : next_sym (i, d) = Some (NT B)) by exact Hn.
      assert (Hj0 : In (j, 0) (closure_of A q)) by (eapply (predicted rules fuel A r0 HB); eauto).
      split; [exists q; auto|]. right. exists g, q. rewrite Hl.
      assert (HyB : In (q, B) nts) by (apply (nts_In rules fuel A r0 HB); eauto).
      split; [simpl; now rewrite app_nil_r|]. split; auto. split; auto. split; auto.
      destruct (item_trans rules fuel A r0 HB _ _ _ Hit Hn') as (p & Hp).
      destruct Hb as [Hfs | (Hnu & ->)].
      + apply follow_read. apply (read_first_str p i (S d)); auto.
        eapply (item_advance rules fuel A r0 HB); eauto.
      + destruct Hc as [(-> & -> & Eg)|(delta & qo & Eg & Hgo & Hy & Hi0 & HF)].
        * (* parent is the root item *)
          rewrite Hr0 in Hn. simpl in Hn. destruct d as [|[|d]]; simpl in Hn; try discriminate.
          inversion Hn as [EB]. rewrite Hr0 in Eg. simpl in Eg. subst g. simpl in Hg. inversion Hg; subst q.
          rewrite <- EB in *. eapply follow_root'; eauto.
        * apply (follow_includes rules tEND A r0 (q, B) (qo, lhs (rule_at i))); auto.
          apply (includes_In rules A (qo, lhs (rule_at i)) i (firstn d (rhs (rule_at i))) B
                   (skipn (S d) (rhs (rule_at i))) q); auto.
          -- now apply split_at_nth.
          -- simpl. rewrite Eg, goto_star_app, Hgo in Hg. exact Hg.
  Qed.

  (* every canonical LR(1) look-ahead of a complete item of a non-root rule, for a path g leading
     to the LR(0) state q, is a look-ahead of the model *)
  Theorem lr1_subset_la g i a q :
    lr1_valid g i (length (rhs (rule_at i))) a -> i <> r0 -> goto_star 0 g = Some q ->
    In (q, a, i) (la_triples (compute_relations rules [r0] tEND A)).
  Proof.
    intros Hval Hne Hg. destruct (valid_inv _ _ _ _ Hval) as (_ & [(E & _)|(delta & qo & Eg & Hgo & Hy & Hi0 & HF)]).
    - contradiction.
    - apply (la_complete_reduce rules tEND fuel A r0 HB (qo, lhs (rule_at i)) i q a); auto.
      simpl. rewrite firstn_all in Eg. rewrite Eg, goto_star_app, Hgo in Hg. exact Hg.
  Qed.
End Sound.

(* ---------- the executable construction only produces valid items ---------- *)
Lemma item1_eqb_eq (a b : item1) : item1_eqb a b = true <-> a = b.
Proof.
  destruct a as ((i, d), t), b as ((j, e), u). simpl. rewrite !andb_true_iff, !Nat.eqb_eq.
  split; [intros ((-> & ->) & ->); auto | intros H; inversion H; auto].
Qed.

Lemma insert1_In x y l : In x (insert1 y l) <-> x = y \/ In x l.
Proof.
  induction l as [|z l IH]; simpl.
  - intuition.
  - destruct (item1_eqb y z) eqn:E.
    + apply item1_eqb_eq in E. subst. simpl. intuition.
    + destruct (item1_ltb y z); simpl; rewrite ?IH; intuition.
Qed.

Lemma sort1_In x l : In x (sort1 l) <-> In x l.
Proof. induction l as [|y l IH]; simpl; [tauto|]. rewrite insert1_In, IH. intuition. Qed.

Section Exec.
  Variable rules : list rule.
  Variable r0 tEND : nat.
  Notation rule_at := (rule_at rules).
  Notation first_sym := (first_sym rules).
  Notation first_str := (first_str rules).
  Notation lr1_valid := (lr1_valid rules r0 tEND).

  Definition tbl_sound (F : list (nat * list nat)) : Prop :=
    forall a b, In b (first_of F a) -> first_sym (NT a) b.

  Lemma first_seq_sound F : tbl_sound F -> forall ss b, In b (first_seq rules F ss) -> first_str ss b.
  Proof.
    intros HF. induction ss as [|X ss IH]; intros b Hb; cbn [first_seq] in Hb; [contradiction|].
    destruct X as [t|c].
    - destruct Hb as [<-|[]]. exists [], (T t), ss. repeat split. constructor.
    - apply in_app_iff in Hb. destruct Hb as [Hb|Hb].
      + exists [], (NT c), ss. repeat split. now apply HF.
      + destruct (nullable rules (NT c)) eqn:En; [|contradiction].
        destruct (IH b Hb) as (pre & Y & post & -> & Hnu & Hf).
        exists (NT c :: pre), Y, post. repeat split; auto. cbn [forallb]. now rewrite En.
  Qed.

  Lemma rule_index' r : In r rules -> exists j, j < length rules /\ rule_at j = r.
  Proof. intros H. destruct (In_nth _ _ (mkRule 0 []) H) as (i & Hi & E). exists i. auto. Qed.

  Lemma first_step_sound F : tbl_sound F -> tbl_sound (first_step rules F).
  Proof.
    intros HF a b Hb. unfold first_of, first_step in Hb. apply in_flat_map in Hb.
    destruct Hb as ((a', l) & Hin & Hb). simpl in Hb. destruct (Nat.eqb_spec a' a); [|contradiction]. subst a'.
    apply in_map_iff in Hin. destruct Hin as (a0 & E & _). inversion E; subst a0 l.
    apply (proj1 (dedup_nat_In _ _)) in Hb. apply in_flat_map in Hb. destruct Hb as (r & Hr & Hb).
    destruct (Nat.eqb_spec (lhs r) a); [|contradiction].
    destruct (first_seq_sound F HF _ _ Hb) as (pre & Y & post & Er & Hnu & Hf).
    destruct (rule_index' r Hr) as (j & Hj & Ej). subst a. rewrite <- Ej in *.
    eapply fs_nt; eauto.
  Qed.

  Lemma first_tbl_sound : tbl_sound (first_tbl rules).
  Proof.
    unfold first_tbl.
    assert (G : forall n F, tbl_sound F -> tbl_sound (iter n (first_step rules) F)).
    { induction n; simpl; auto. intros F HF. apply IHn. now apply first_step_sound. }
    apply G. intros a b Hb. unfold first_of in Hb. apply in_flat_map in Hb.
    destruct Hb as ((a', l) & Hin & Hb). apply in_map_iff in Hin. destruct Hin as (a0 & E & _).
    inversion E; subst. simpl in Hb. destruct (Nat.eqb a' a); contradiction.
  Qed.

  Lemma first_str_snoc rest a b :
    first_str (rest ++ [T a]) b ->
    first_str rest b \/ (forallb (nullable rules) rest = true /\ b = a).
  Proof.
    intros (pre & Y & post & E & Hnu & Hf). revert pre E Hnu.
    induction rest as [|X rest IH]; intros pre E Hnu; simpl in E.
    - destruct pre as [|p pre].
      + simpl in E. inversion E; subst. right. split; auto. inversion Hf; auto.
      + simpl in E. inversion E as [[E1 E2]]. destruct pre; discriminate.
    - destruct pre as [|p pre]; simpl in E.
      + inversion E; subst. left. eexists [], _, rest. split; [reflexivity|]. auto.
      + inversion E as [[E1 E2]]. subst p. simpl in Hnu. apply andb_true_iff in Hnu. destruct Hnu as (HX & Hnu).
        destruct (IH pre E2 Hnu) as [(pre' & Y' & post' & -> & Hnu' & Hf')|(Hn' & ->)].
        * left. exists (X :: pre'), Y', post'. repeat split; auto. simpl. now rewrite HX.
        * right. split; auto. simpl. now rewrite HX.
  Qed.

  Definition all_valid (g : list symbol) (J : list item1) : Prop :=
    forall i d a, In (i, d, a) J -> lr1_valid g i d a.

  Section WithF.
    Variable F : list (nat * list nat).
    Hypothesis HF : tbl_sound F.

    Lemma predict_valid g it : (let '(i, d, a) := it in lr1_valid g i d a) ->
      all_valid g (predict rules F it).
    Proof.
      destruct it as ((i, d), a). intros Hv j e b Hin. unfold predict in Hin.
      destruct (nth_error (rhs (rule_at i)) d) as [[t|B]|] eqn:En; try contradiction.
      apply in_flat_map in Hin. destruct Hin as (j' & Hj' & Hin). apply in_seq in Hj'.
      destruct (Nat.eqb_spec (lhs (rule_at j')) B); [|contradiction].
      apply in_map_iff in Hin. destruct Hin as (t & E & Ht). inversion E; subst j e b.
      apply (proj1 (dedup_nat_In _ _)) in Ht.
      eapply v_clos; eauto; [lia|].
      apply first_str_snoc. eapply first_seq_sound; eauto.
    Qed.

    Lemma closure1_step_valid g J : all_valid g J -> all_valid g (closure1_step rules F J).
    Proof.
      intros HJ i d a Hin. unfold closure1_step in Hin. apply sort1_In, in_app_iff in Hin.
      destruct Hin as [Hin|Hin]; auto. apply in_flat_map in Hin. destruct Hin as (((i', d'), a') & Hit & Hin).
      apply (predict_valid g (i', d', a') (HJ _ _ _ Hit) _ _ _ Hin).
    Qed.

    Lemma closure1_valid g K : all_valid g K -> all_valid g (closure1 rules F K).
    Proof.
      intros HK. unfold closure1.
      assert (G : forall n J, all_valid g J -> all_valid g (closure1_fix rules n F J)).
      { induction n; simpl; auto. intros J HJ. pose proof (closure1_step_valid g J HJ).
        destruct (Nat.eqb _ _); auto. }
      apply G. intros i d a Hin. apply (proj1 (sort1_In _ _)) in Hin. auto.
    Qed.

    Lemma goto1_valid g J X : all_valid g J -> all_valid (g ++ [X]) (goto1 rules F J X).
    Proof.
      intros HJ. unfold goto1. apply closure1_valid. intros i d a Hin.
      apply in_flat_map in Hin. destruct Hin as (((i', d'), a') & Hit & Hin). simpl in Hin.
      destruct (nth_error (rhs (rule_at i')) d') as [Y|] eqn:En; [|contradiction].
      destruct (symbol_eqb_spec X Y); [|contradiction]. subst Y. destruct Hin as [E|[]]. inversion E; subst.
      eapply v_goto; eauto.
    Qed.

    Lemma add_new1_sub ks : forall seen K, In K (add_new1 ks seen) -> In K ks.
    Proof.
      induction ks as [|K0 ks IH]; intros seen K H; simpl in H; [contradiction|].
      destruct (existsb (state1_eqb K0) seen).
      - right. eauto.
      - destruct H as [<-|H]; [now left|right; eauto].
    Qed.

    Lemma bfs1_valid fuel : forall work seen S1,
      bfs1 rules fuel F work seen = Some S1 -> incl work seen ->
      (forall J, In J seen -> exists g, all_valid g J) ->
      forall J, In J S1 -> exists g, all_valid g J.
    Proof.
      induction fuel; intros work seen S1 H HI Inv J HJ; simpl in H.
      - destruct work; [|discriminate]. inversion H; subst. auto.
      - destruct work as [|J0 work'].
        + inversion H; subst. auto.
        + apply (IHfuel _ _ _ H); auto.
          * intros x Hx. apply in_app_iff in Hx. apply in_app_iff. destruct Hx as [Hx|Hx]; auto.
            left. apply HI. now right.
          * intros J1 HJ1. apply in_app_iff in HJ1. destruct HJ1 as [HJ1|HJ1]; auto.
            apply add_new1_sub in HJ1. apply in_map_iff in HJ1. destruct HJ1 as (X & <- & _).
            destruct (Inv J0 (HI J0 (or_introl eq_refl))) as (g & Hg).
            exists (g ++ [X]). now apply goto1_valid.
    Qed.
  End WithF.

  Theorem states1_valid fuel S1 J :
    states1 rules r0 tEND fuel = Some S1 -> In J S1 -> exists g, all_valid g J.
  Proof.
    unfold states1. intros H HJ.
    apply (bfs1_valid (first_tbl rules) first_tbl_sound fuel _ _ _ H (incl_refl _)); auto.
    intros J' [<-|[]]. exists []. apply closure1_valid; [apply first_tbl_sound|].
    intros i d a [E|[]]. inversion E; subst. constructor.
  Qed.
End Exec.

(* the executable canonical LR(1) states: every look-ahead of a complete item of a non-root rule
   is a look-ahead of the model at the LR(0) state reached by the same symbol string *)
Theorem exec_lr1_subset_la rules tEND fuel A r0 rootnt start fuel1 S1 J :
  build_lr0 rules [r0] fuel = Some A -> r0 < length rules ->
  rule_at rules r0 = mkRule rootnt [NT start] ->
  states1 rules r0 tEND fuel1 = Some S1 -> In J S1 ->
  exists g, forall i a, In (i, length (rhs (rule_at rules i)), a) J -> i <> r0 ->
    exists q, goto_star A 0 g = Some q /\
              (forall it, In it J -> In (fst it) (closure_of A q)) /\
              In (q, a, i) (la_triples (compute_relations rules [r0] tEND A)).
Proof.
  intros HB Hv Hr0 HS HJ. destruct (states1_valid rules r0 tEND fuel1 S1 J HS HJ) as (g & Hg).
  exists g. intros i a Hin Hne.
  pose proof (Hg _ _ _ Hin) as Hval.
  destruct (valid_inv rules tEND fuel A r0 rootnt start HB Hr0 _ _ _ _ Hval) as ((q & Hq & _) & _).
  exists q. split; auto. split.
  - intros ((i', d'), a') Hit. simpl.
    destruct (valid_inv rules tEND fuel A r0 rootnt start HB Hr0 _ _ _ _ (Hg _ _ _ Hit)) as ((q' & Hq' & Hit') & _).
    congruence.
  - eapply lr1_subset_la; eauto.
Qed.
