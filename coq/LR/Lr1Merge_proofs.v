(* LR/Lr1Merge_proofs.v - every canonical LR(1) look-ahead is a look-ahead of the model of
   lalr_analysis.py.  The canonical LR(1) construction is specified inductively, path-wise
   (an item with look-ahead is valid for a symbol string g: initial item, goto, closure with
   FIRST of the remainder followed by the parent's look-ahead); the LALR(1) look-ahead set of a
   complete item in the LR(0) state q is the union over all g leading to q.  Invariant: a valid
   item [A -> alpha . beta, a] for g = delta alpha has a in Follow(goto*(0, delta), A); the
   closure step is DR/reads (FIRST of the remainder) or includes (nullable remainder), the
   final step is lookback. *)
From Coq Require Import List Arith Bool ZArith Lia.
From LV Require Import Cfg.Grammar LR.Driver LR.Driver_proofs LR.Automaton LR.Automaton_proofs
     LR.Automaton_wf LR.Automaton_la LR.Automaton_complete LR.La_complete LR.Lr1Merge.
Import ListNotations.

Section Spec.
  Variable rules : list rule.
  Variable r0 tEND : nat.
  Notation rule_at := (rule_at rules).
  Notation nullable := (nullable rules).

  (* FIRST, inductively *)
  Inductive first_sym : symbol -> nat -> Prop :=
  | fs_t t : first_sym (T t) t
  | fs_nt j pre Y post b :
      j < length rules -> rhs (rule_at j) = pre ++ Y :: post -> forallb nullable pre = true ->
      first_sym Y b -> first_sym (NT (lhs (rule_at j))) b.

  Definition first_str (ss : list symbol) (b : nat) : Prop :=
    exists pre Y post, ss = pre ++ Y :: post /\ forallb nullable pre = true /\ first_sym Y b.

  (* canonical LR(1): [rule i, dot d, look-ahead a] is valid for the symbol string g *)
  Inductive lr1_valid : list symbol -> nat -> nat -> nat -> Prop :=
  | v_init : lr1_valid [] r0 0 tEND
  | v_goto g i d a X :
      lr1_valid g i d a -> nth_error (rhs (rule_at i)) d = Some X -> lr1_valid (g ++ [X]) i (S d) a
  | v_clos g i d a B j b :
      lr1_valid g i d a -> nth_error (rhs (rule_at i)) d = Some (NT B) ->
      j < length rules -> lhs (rule_at j) = B ->
      (first_str (skipn (S d) (rhs (rule_at i))) b \/
       (forallb nullable (skipn (S d) (rhs (rule_at i))) = true /\ b = a)) ->
      lr1_valid g j 0 b.
End Spec.

Lemma split_at_nth {B} (l : list B) d x : nth_error l d = Some x -> l = firstn d l ++ x :: skipn (S d) l.
Proof.
  revert d; induction l as [|y l IH]; intros [|d] H; simpl in *; try discriminate.
  - now inversion H.
  - f_equal. now apply IH.
Qed.

Section Sound.
  Variable rules : list rule.
  Variable tEND fuel : nat.
  Variable A : lr0.
  Variable r0 rootnt start : nat.
  Hypothesis HB : build_lr0 rules [r0] fuel = Some A.
  Hypothesis Hv : r0 < length rules.
  Hypothesis Hr0 : rule_at rules r0 = mkRule rootnt [NT start].

  Notation rule_at := (rule_at rules).
  Notation next_sym := (next_sym rules).
  Notation nts := (nt_transitions rules A).
  Notation ReadOf := (ReadOf rules tEND A r0).
  Notation FollowOf := (FollowOf rules tEND A r0).
  Notation first_sym := (first_sym rules).
  Notation first_str := (first_str rules).
  Notation lr1_valid := (lr1_valid rules r0 tEND).
  Notation goto_star := (goto_star A).
  Let ND := ND1' r0.

  (* reading over a nullable prefix *)
  Lemma skip_nullable Y b i post
        (HY : forall p e, In (i, e) (closure_of A p) -> next_sym (i, e) = Some Y ->
                          forall x, In x nts -> trans A (fst x) (NT (snd x)) = Some p -> ReadOf x b) :
    forall pre p e, In (i, e) (closure_of A p) -> skipn e (rhs (rule_at i)) = pre ++ Y :: post ->
      forallb (nullable rules) pre = true ->
      forall x, In x nts -> trans A (fst x) (NT (snd x)) = Some p -> ReadOf x b.
  Proof.
    induction pre as [|N pre IH]; intros p e Hit Hsk Hnu x Hx Htx.
    - destruct (skipn_cons_inv _ _ _ _ Hsk) as (Hn & _). eapply HY; eauto.
    - simpl in Hsk. destruct (skipn_cons_inv _ _ _ _ Hsk) as (Hn & Hrest).
      simpl in Hnu. apply andb_true_iff in Hnu. destruct Hnu as (HnN & Hnu).
      destruct N as [t|c]; [discriminate|].
      assert (Hn' : next_sym (i, e) = Some (NT c)) by exact Hn.
      destruct (item_trans rules fuel A r0 HB _ _ _ Hit Hn') as (p1 & Hp1).
      assert (Hy : In (p, c) nts) by (apply (nts_In rules fuel A r0 HB); eauto).
      apply (read_reads rules tEND A r0 x (p, c)); auto.
      { destruct x as (q, a). simpl in Htx. eapply reads_In; eauto. }
      apply (IH p1 (S e)); auto.
      eapply (item_advance rules fuel A r0 HB); eauto.
  Qed.

  Lemma read_first_sym Y b : first_sym Y b ->
    forall p i e, In (i, e) (closure_of A p) -> next_sym (i, e) = Some Y ->
    forall x, In x nts -> trans A (fst x) (NT (snd x)) = Some p -> ReadOf x b.
  Proof.
    induction 1 as [t | j pre Y post b Hj Hr Hnu Hf IH]; intros p i e Hit Hn x Hx Htx.
    - destruct x as (q, a). simpl in Htx. apply (read_dr rules tEND A r0); auto. eapply dr_In; eauto.
    - assert (Hj0 : In (j, 0) (closure_of A p)) by (eapply (predicted rules fuel A r0 HB); eauto).
      apply (skip_nullable Y b j post (fun p' e' => IH p' j e') pre p 0); auto.
  Qed.

  Lemma read_first_str p i e b :
    In (i, e) (closure_of A p) -> first_str (skipn e (rhs (rule_at i))) b ->
    forall x, In x nts -> trans A (fst x) (NT (snd x)) = Some p -> ReadOf x b.
  Proof.
    intros Hit (pre & Y & post & Hsk & Hnu & Hf).
    apply (skip_nullable Y b i post (fun p' e' => read_first_sym Y b Hf p' i e') pre p e); auto.
  Qed.

  Lemma root_item0 : In (r0, 0) (closure_of A 0).
  Proof.
    destruct (built_shape rules [r0] fuel A HB ND) as (_ & _ & (tl & Hp) & _).
    rewrite (closure_of_nth rules [r0] fuel A HB ND). rewrite Hp. simpl.
    apply closure_kernel. now left.
  Qed.

  Lemma follow_root' q : In (r0, 0) (closure_of A 0) -> trans A 0 (NT start) = Some q -> FollowOf (0, start) tEND.
  Proof.
    intros H0 Ht. apply follow_read. apply (read_dr rules tEND A r0).
    - apply (nts_In rules fuel A r0 HB). exists (r0, 0). split; auto.
      unfold Automaton.next_sym. simpl. now rewrite Hr0.
    - unfold directly_reads. apply dedup_nat_In, in_app_iff. left.
      unfold is_root_trans. simpl. unfold Automaton.next_sym. simpl. rewrite Hr0. simpl. rewrite Nat.eqb_refl. now left.
  Qed.

  Definition inv (g : list symbol) (i d a : nat) : Prop :=
    (exists q, goto_star 0 g = Some q /\ In (i, d) (closure_of A q)) /\
    ((i = r0 /\ a = tEND /\ g = firstn d (rhs (rule_at r0))) \/
     (exists delta qo, g = delta ++ firstn d (rhs (rule_at i)) /\ goto_star 0 delta = Some qo /\
                       In (qo, lhs (rule_at i)) nts /\ In (i, 0) (closure_of A qo) /\
                       FollowOf (qo, lhs (rule_at i)) a)).

  Lemma valid_inv g i d a : lr1_valid g i d a -> inv g i d a.
  Proof.
    induction 1 as [| g i d a X Hval IH Hn | g i d a B j b Hval IH Hn Hj Hl Hb].
    - split.
      + exists 0. split; auto. apply root_item0.
      + left. auto.
    - destruct IH as ((q & Hg & Hit) & Hc).
      assert (Hn' : next_sym (i, d) = Some X) by exact Hn.
      destruct (item_trans rules fuel A r0 HB _ _ _ Hit Hn') as (q' & Hq').
      split.
      + exists q'. split; [rewrite goto_star_app, Hg; simpl; now rewrite Hq'|].
        eapply (item_advance rules fuel A r0 HB); eauto.
      + destruct Hc as [(-> & -> & ->)|(delta & qo & -> & Hgo & Hy & Hi0 & HF)].
        * left. repeat split; auto. now rewrite (firstn_S_nth_error _ _ _ Hn).
        * right. exists delta, qo. rewrite (firstn_S_nth_error _ _ _ Hn), app_assoc. auto.
    - destruct IH as ((q & Hg & Hit) & Hc).
      assert (Hn' : next_sym (i, d) = Some (NT B)) by exact Hn.
      assert (Hj0 : In (j, 0) (closure_of A q)) by (eapply (predicted rules fuel A r0 HB); eauto).
      split; [exists q; auto|]. right. exists g, q. rewrite Hl.
      assert (HyB : In (q, B) nts) by (apply (nts_In rules fuel A r0 HB); eauto).
      split; [simpl; now rewrite app_nil_r|]. split; auto. split; auto. split; auto.
      destruct (item_trans rules fuel A r0 HB _ _ _ Hit Hn') as (p & Hp).
      destruct Hb as [Hfs | (Hnu & ->)].
      + apply follow_read. apply (read_first_str p i (S d)); auto.
        eapply (item_advance rules fuel A r0 HB); eauto.
      + destruct Hc as [(-> & -> & Eg)|(delta & qo & Eg & Hgo & Hy & Hi0 & HF)].
        * (* parent is the root item *)
          rewrite Hr0 in Hn. simpl in Hn. destruct d as [|[|d]]; simpl in Hn; try discriminate.
          inversion Hn as [EB]. rewrite Hr0 in Eg. simpl in Eg. subst g. simpl in Hg. inversion Hg; subst q.
          rewrite <- EB in *. eapply follow_root'; eauto.
        * apply (follow_includes rules tEND A r0 (q, B) (qo, lhs (rule_at i))); auto.
          apply (includes_In rules A (qo, lhs (rule_at i)) i (firstn d (rhs (rule_at i))) B
                   (skipn (S d) (rhs (rule_at i))) q); auto.
          -- now apply split_at_nth.
          -- simpl. rewrite Eg, goto_star_app, Hgo in Hg. exact Hg.
  Qed.

  (* every canonical LR(1) look-ahead of a complete item of a non-root rule, for a path g leading
     to the LR(0) state q, is a look-ahead of the model *)
  Theorem lr1_subset_la g i a q :
    lr1_valid g i (length (rhs (rule_at i))) a -> i <> r0 -> goto_star 0 g = Some q ->
    In (q, a, i) (la_triples (compute_relations rules [r0] tEND A)).
  Proof.
    intros Hval Hne Hg. destruct (valid_inv _ _ _ _ Hval) as (_ & [(E & _)|(delta & qo & Eg & Hgo & Hy & Hi0 & HF)]).
    - contradiction.
    - apply (la_complete_reduce rules tEND fuel A r0 HB (qo, lhs (rule_at i)) i q a); auto.
      simpl. rewrite firstn_all in Eg. rewrite Eg, goto_star_app, Hgo in Hg. exact Hg.
  Qed.
End Sound.
