(* LR/Viable_proofs.v - never-late half of "the error is reported at the first offending
   token" for the LALR driver: with a valid item annotation (Viable.wf_items_v) and productive
   rule bodies, every configuration the driver reaches has consumed a viable prefix, every
   token it shifts keeps the prefix viable, and an UnexpectedToken is raised with a viable
   consumed input.  Only LR(0) item validity is used - nothing about look-ahead sets. *)
From Coq Require Import List Arith Bool Lia.
From LV Require Import Cfg.Grammar Earley.Spec Earley.Prefix LR.Driver LR.Driver_proofs LR.Viable.
Import ListNotations.

Section VP.
  Variable tok : Type.
  Variable ttype : tok -> nat.
  Variable G : grammar.
  Variable P : ptable.
  Variable start : nat.
  Variable items : state -> list (rule * nat).

  Notation tm := (tmatch tok ttype).
  Notation derives := (derives G tok tm).
  Notation viable := (viable G tok tm start).
  Notation item_viable := (item_viable_lr G start tok tm).
  Notation stack_ok := (stack_ok tok ttype G P).
  Notation consumed := (consumed tok).
  Notation justified := (justified G P start items).

  Hypothesis WV : wf_items_v G P start items.
  Hypothesis Hprod : productive_bodies G tok tm.

  Let WI := wv_items _ _ _ _ WV.
  Let WT : wf_table G P start := wf_items_table G P start items WI.

  Lemma viable_weaken p u : viable (p ++ u) -> viable p.
  Proof. intros (v & Hv). exists (u ++ v). now rewrite app_assoc. Qed.

  (* a closure item inherits viability from the item that predicts it *)
  Lemma clos_viable c r r' d' :
    item_viable c r' d' -> In r' G -> nth_error (rhs r') d' = Some (NT (lhs r)) -> In r G ->
    item_viable c r 0.
  Proof.
    intros IV Hin' Hn Hin u Hu. simpl in Hu.
    destruct (Hprod r' (S d') Hin') as (u2 & Hu2).
    assert (Hd : derives (skipn d' (rhs r')) (u ++ u2)).
    { rewrite (skipn_nth _ _ _ Hn). eapply d_nt with (r := r); eauto. }
    apply IV in Hd. rewrite app_assoc in Hd. exact (viable_weaken _ _ Hd).
  Qed.

  (* moving the dot over the root symbol of the tree just pushed *)
  Lemma advance_viable c r d' (t : dtree tok) :
    item_viable c r d' -> nth_error (rhs r) d' = Some (root tok ttype t) -> wf_tree tok ttype G t ->
    item_viable (c ++ yield tok t) r (S d').
  Proof.
    intros IV Hn Hw u Hu.
    assert (Hd : derives (skipn d' (rhs r)) (yield tok t ++ u)).
    { rewrite (skipn_nth _ _ _ Hn).
      change (root tok ttype t :: skipn (S d') (rhs r)) with ([root tok ttype t] ++ skipn (S d') (rhs r)).
      apply derives_app; auto. now apply wf_tree_derives. }
    apply IV in Hd. now rewrite <- app_assoc.
  Qed.

  (* item validity: every justified item of the top state can still be completed *)
  Lemma stack_items_viable ss vs : stack_ok ss vs ->
    forall q ss', ss = q :: ss' -> forall r d, justified q r d -> item_viable (consumed vs) r d.
  Proof.
    induction 1 as [|q0 ss0 vs0 t q' Hok IH Hw Ha]; intros q ss' E r d HJ; inversion E; subst.
    - induction HJ as [r d Hin | r Hq Hin Hr | r r' d' HJ' IH' Hin' Hn Hin].
      + apply (wi_init _ _ _ _ WI) in Hin. discriminate.
      + intros u Hu. rewrite Hr in Hu. simpl in Hu. exists []. now rewrite app_nil_r.
      + eapply clos_viable; eauto.
    - induction HJ as [r d Hin | r Hq Hin Hr | r r' d' HJ' IH' Hin' Hn Hin].
      + destruct (wi_shift _ _ _ _ WI _ _ _ _ _ Ha Hin) as [E0 | (d' & Ed & Hn & Hin')]; [discriminate|].
        inversion Ed; subst d'. rewrite consumed_push.
        apply advance_viable; auto.
        apply (IH q0 ss0 eq_refl). apply (wv_just _ _ _ _ WV). exact Hin'.
      + exfalso. apply (wi_start _ _ _ _ WI q0 (root tok ttype t)). now rewrite <- Hq.
      + eapply clos_viable; eauto.
  Qed.

  (* the consumed input of every reachable configuration is a viable prefix *)
  Lemma stack_viable ss vs : stack_ok ss vs -> viable (consumed vs).
  Proof.
    destruct 1 as [|q ss vs t q' Hok Hw Ha].
    - destruct (wv_root _ _ _ _ WV) as (r & Hin & Hr).
      destruct (Hprod r 0 Hin) as (u & Hu). simpl in Hu. rewrite Hr in Hu.
      exists u. exact Hu.
    - destruct (wv_src _ _ _ _ WV _ _ _ Ha) as (r & d & Hit & Hin & Hn).
      pose proof (stack_items_viable _ _ Hok q ss eq_refl r d (wv_just _ _ _ _ WV _ _ _ Hit)) as IV.
      pose proof (advance_viable _ _ _ _ IV Hn Hw) as IV'.
      destruct (Hprod r (S d) Hin) as (u2 & Hu2).
      rewrite consumed_push. exact (viable_weaken _ _ (IV' _ Hu2)).
  Qed.

  (* a Shift on the type of token k keeps the prefix viable *)
  Lemma stack_shift_viable q ss vs k q' :
    stack_ok (q :: ss) vs -> pt_action P q (T (ttype k)) = Some (Shift q') ->
    viable (consumed vs ++ [k]).
  Proof.
    intros Hok Ha.
    destruct (wv_src _ _ _ _ WV _ _ _ Ha) as (r & d & Hit & Hin & Hn).
    pose proof (stack_items_viable _ _ Hok q ss eq_refl r d (wv_just _ _ _ _ WV _ _ _ Hit)) as IV.
    destruct (Hprod r (S d) Hin) as (u2 & Hu2).
    assert (Hd : derives (skipn d (rhs r)) (k :: u2)).
    { rewrite (skipn_nth _ _ _ Hn). constructor; auto. unfold tmatch. apply Nat.eqb_refl. }
    apply IV in Hd. change (k :: u2) with ([k] ++ u2) in Hd. rewrite app_assoc in Hd.
    exact (viable_weaken _ _ Hd).
  Qed.

  (* ---- the driver ---- *)
  Notation cfg_ok := (cfg_ok tok ttype G P).

  (* one feed_token call that ends in a shift (after any number of reductions) *)
  Theorem feed_shift_viable fuel : forall c k e c',
    cfg_ok c -> feed tok ttype P fuel c k e = Shifted c' -> viable (consumed (vstack c) ++ [k]).
  Proof.
    induction fuel; intros c k e c' Hc H; simpl in H; [discriminate|].
    destruct c as [ss vs]; unfold Driver_proofs.cfg_ok in *; simpl in *.
    destruct ss as [|q ss]; [discriminate|].
    destruct (pt_action P q (T (ttype k))) as [[q' | r]|] eqn:Ha; try discriminate.
    - eapply stack_shift_viable; eauto.
    - destruct (reduce_step tok ttype G P start WT _ _ _ _ _ Hc Ha) as (Hlen & Hw & Hok').
      remember (skipn (length (rhs r)) (q :: ss)) as ss' eqn:Ess.
      destruct ss' as [|q2 ss2]; [discriminate|].
      destruct (pt_action P q2 (NT (lhs r))) as [[q3 | r3]|] eqn:Hg; try discriminate.
      destruct (e && Nat.eqb q3 (pt_end P)); [discriminate|].
      rewrite <- (consumed_reduce tok r _ vs Hlen).
      eapply (IHfuel (mkConfig (q3 :: q2 :: ss2) (Node r (rev (firstn (length (rhs r)) vs)) :: skipn (length (rhs r)) vs))); eauto.
      simpl. apply ok_push; auto.
  Qed.

  (* C08, LALR, never late (1): if after consuming u the driver shifts token k, then u ++ [k]
     can be extended to a sentence *)
  Theorem lalr_shift_viable fuel u c k c' :
    feed_all tok ttype P fuel (init_config P) u = Shifted c ->
    feed tok ttype P fuel c k false = Shifted c' ->
    viable (u ++ [k]).
  Proof.
    intros H1 H2.
    assert (H0 : cfg_ok (init_config P)) by (unfold Driver_proofs.cfg_ok; simpl; constructor).
    pose proof (feed_all_inv tok ttype G P start WT fuel u _ H0) as HI. rewrite H1 in HI.
    destruct HI as (Hc & Hcons). simpl in Hcons. rewrite <- Hcons.
    eapply feed_shift_viable; eauto.
  Qed.

  (* (2): when UnexpectedToken is raised, what has been consumed is a viable prefix (and a
     prefix of the input): the error is never reported later than the first offending token *)
  Theorem lalr_error_not_late fuel w c :
    feed_all tok ttype P fuel (init_config P) w = Unexpected c ->
    exists w1 w2, w = w1 ++ w2 /\ consumed (vstack c) = w1 /\ viable w1.
  Proof.
    intros H.
    destruct (driver_error_prefix tok ttype G P start WT fuel w c H) as (Hc & w1 & w2 & E & Hcons).
    exists w1, w2. repeat split; auto. rewrite <- Hcons.
    unfold Driver_proofs.cfg_ok in Hc. eapply stack_viable; eauto.
  Qed.

  (* (3): accepts(): a token whose trial feed from a reachable configuration succeeds can
     legally come next; and a successful trial feed of $END means the consumed input is a sentence *)
  Theorem accepts_sound_model fuel c k c' :
    cfg_ok c -> feed tok ttype P fuel c k false = Shifted c' -> viable (consumed (vstack c) ++ [k]).
  Proof. intros; eapply feed_shift_viable; eauto. Qed.

  Theorem accepts_end_sound fuel c k t :
    cfg_ok c -> feed tok ttype P fuel c k true = Accepted t ->
    derives [NT start] (consumed (vstack c)).
  Proof.
    intros Hc H. pose proof (feed_inv tok ttype G P start WT fuel c k true Hc) as HI.
    rewrite H in HI. destruct HI as (Hw & Hr & Hy & _). rewrite <- Hy, <- Hr.
    now apply wf_tree_derives.
  Qed.
End VP.
