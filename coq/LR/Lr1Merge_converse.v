(* LR/Lr1Merge_converse.v - the converse inclusion: for grammars whose rule bodies are productive,
   every look-ahead the model of lalr_analysis.py computes (DeRemer-Pennello: lookback + Follow,
   Follow the least solution over includes from Read, Read the least solution over reads from DR)
   is the look-ahead of a canonical LR(1) item, valid for a symbol string leading to the same
   LR(0) state.  Milestones:
     valid_exists   every LR(0) item of the state reached by g is LR(1)-valid for g (some look-ahead)
     state_path     every LR(0) state is reached by some symbol string
     read_witness   t in Read(p,A)  ->  an item of p with the dot before A has t in FIRST of its rest
                                        (or it is the root item and t = $END)
     follow_witness t in Follow(p,A) -> for some g leading to p, a valid LR(1) item [B -> a . A b, u]
                                        with t in FIRST(b u)
     la_subset_lr1  (q, t, i) in LA  -> [rule i complete, t] is valid for some g leading to q. *)
From Coq Require Import List Arith Bool ZArith Lia.
From LV Require Import Cfg.Grammar LR.Driver LR.Driver_proofs LR.Automaton LR.Automaton_proofs
     LR.Automaton_wf LR.Automaton_la LR.Automaton_complete LR.La_complete LR.Lr1Merge LR.Lr1Merge_proofs.
Import ListNotations.

Section Conv1.
  Variable rules : list rule.
  Variable r0 tEND : nat.
  Notation tm := (tmatch nat (fun k : nat => k)).
  Notation rule_at := (rule_at rules).
  Notation first_sym := (first_sym rules).
  Notation first_str := (first_str rules).
  Notation lr1_valid := (lr1_valid rules r0 tEND).
  Hypothesis Hprod : forall r d, In r rules -> exists u, derives rules nat tm (skipn d (rhs r)) u.

  Lemma nullable_NT a r : In r rules -> lhs r = a -> derives rules nat tm (rhs r) [] ->
    nullable rules (NT a) = true.
  Proof.
    intros Hin Hl Hd.
    assert (H : derives rules nat tm [NT a] ([] ++ [])) by (eapply d_nt; eauto; constructor).
    pose proof (nullable_complete rules nat tm _ _ H eq_refl) as Hn. simpl in Hn.
    now rewrite andb_true_r in Hn.
  Qed.

  (* derivational FIRST is contained in the inductive FIRST *)
  Lemma derives_first ss w : derives rules nat tm ss w -> forall b u, w = b :: u -> first_str ss b.
  Proof.
    induction 1 as [| t k ss w Hm Hd IH | a r ss w1 w2 Hin Hl Hd1 IH1 Hd2 IH2]; intros b u E.
    - discriminate.
    - inversion E; subst. unfold tmatch in Hm. apply Nat.eqb_eq in Hm. subst t.
      exists [], (T b), ss. repeat split. constructor.
    - destruct w1 as [|b' w1'].
      + simpl in E. destruct (IH2 b u E) as (pre & Y & post & -> & Hnu & Hf).
        exists (NT a :: pre), Y, post. repeat split; auto. cbn [forallb].
        rewrite (nullable_NT a r Hin Hl Hd1). exact Hnu.
      + simpl in E. inversion E; subst b'.
        destruct (IH1 b w1' eq_refl) as (pre & Y & post & Er & Hnu & Hf).
        destruct (rule_index' rules r Hin) as (j & Hj & Ej).
        exists [], (NT a), ss. repeat split. rewrite <- Hl, <- Ej.
        apply fs_nt with (pre := pre) (Y := Y) (post := post); auto. now rewrite Ej.
  Qed.

  (* a look-ahead for the closure step always exists (productivity) *)
  Lemma la_exists i d a B : i < length rules -> nth_error (rhs (rule_at i)) d = Some (NT B) ->
    exists b, first_str (skipn (S d) (rhs (rule_at i))) b \/
              (forallb (nullable rules) (skipn (S d) (rhs (rule_at i))) = true /\ b = a).
  Proof.
    intros Hi Hn. destruct (Hprod (rule_at i) (S d) (rule_at_In rules i Hi)) as (u & Hu).
    destruct u as [|b u].
    - exists a. right. split; auto. exact (nullable_complete rules nat tm _ _ Hu eq_refl).
    - exists b. left. eapply derives_first; eauto.
  Qed.

  Lemma reach_first a0 : forall b, In b (reach rules a0) ->
    forall t, first_sym (NT b) t -> first_sym (NT a0) t.
  Proof.
    unfold reach.
    assert (G : forall n S0, (forall b, In b S0 -> forall t, first_sym (NT b) t -> first_sym (NT a0) t) ->
                forall b, In b (iter n (reach_step rules) S0) -> forall t, first_sym (NT b) t -> first_sym (NT a0) t).
    { induction n; simpl; auto. intros S0 H. apply IHn.
      intros b Hb t Ht. unfold reach_step in Hb. apply (proj1 (dedup_nat_In _ _)) in Hb.
      apply in_app_iff in Hb. destruct Hb as [Hb|Hb]; [eapply H; eauto|].
      unfold first_nts_of in Hb. apply in_flat_map in Hb. destruct Hb as (r & Hr & Hb).
      destruct (mem_nat (lhs r) S0) eqn:Em; [|contradiction]. apply mem_nat_In in Em.
      destruct (rhs r) as [|[t'|c] rest] eqn:Er; try contradiction. destruct Hb as [->|[]].
      destruct (rule_index' rules r Hr) as (j & Hj & Ej).
      apply (H (lhs r) Em). rewrite <- Ej.
      apply fs_nt with (pre := []) (Y := NT b) (post := rest); auto. now rewrite Ej. }
    apply G. intros b [<-|[]] t Ht. exact Ht.
  Qed.

  (* closures of LR(1)-valid kernels are LR(1)-valid *)
  Lemma closure_valid g K :
    (forall it, In it K -> exists a, lr1_valid g (fst it) (snd it) a) ->
    forall it, In it (closure rules K) -> exists a, lr1_valid g (fst it) (snd it) a.
  Proof.
    intros HK it Hit. apply closure_In in Hit.
    destruct Hit as [Hit|(H0 & Hv & kit & a0 & Hkit & Hnk & Hreach)]; auto.
    rewrite H0.
    assert (Q : forall b, In b (reach rules a0) ->
                forall j, j < length rules -> lhs (rule_at j) = b -> exists t, lr1_valid g j 0 t).
    { unfold reach.
      assert (G : forall n S0,
                 (forall b, In b S0 -> forall j, j < length rules -> lhs (rule_at j) = b -> exists t, lr1_valid g j 0 t) ->
                 forall b, In b (iter n (reach_step rules) S0) ->
                 forall j, j < length rules -> lhs (rule_at j) = b -> exists t, lr1_valid g j 0 t).
      { induction n; simpl; auto. intros S0 H. apply IHn.
        intros b Hb j Hj Hl. unfold reach_step in Hb. apply (proj1 (dedup_nat_In _ _)) in Hb.
        apply in_app_iff in Hb. destruct Hb as [Hb|Hb]; [eapply H; eauto|].
        unfold first_nts_of in Hb. apply in_flat_map in Hb. destruct Hb as (r & Hr & Hb).
        destruct (mem_nat (lhs r) S0) eqn:Em; [|contradiction]. apply mem_nat_In in Em.
        destruct (rhs r) as [|[t'|c] rest] eqn:Er; try contradiction. destruct Hb as [->|[]].
        destruct (rule_index' rules r Hr) as (j' & Hj' & Ej').
        destruct (H (lhs r) Em j' Hj' (f_equal lhs Ej')) as (t' & Ht').
        assert (Hn0 : nth_error (rhs (rule_at j')) 0 = Some (NT b)) by (rewrite Ej', Er; reflexivity).
        destruct (la_exists j' 0 t' b Hj' Hn0) as (t & Hla).
        exists t. eapply v_clos; eauto. }
      apply G. intros b [<-|[]] j Hj Hl.
      destruct (HK kit Hkit) as (a' & Hva).
      destruct (next_sym_valid rules kit _ Hnk) as (Hkv & _).
      destruct (la_exists (fst kit) (snd kit) a' a0 Hkv Hnk) as (t & Hla).
      exists t. eapply v_clos; eauto. }
    apply (Q _ Hreach); auto.
  Qed.
End Conv1.

(* ---------- every LR(0) state is reached by some symbol string ---------- *)
Inductive rk (rules : list rule) (r0 : nat) (S0 : list (list item)) : list item -> Prop :=
| rk_root : rk rules r0 S0 [(r0, 0)]
| rk_step K0 X : rk rules r0 S0 K0 -> In K0 S0 -> In X (next_syms rules (closure rules K0)) ->
                 rk rules r0 S0 (goto_kernel rules (closure rules K0) X).

Lemma rk_mono rules r0 S0 S1 K : incl S0 S1 -> rk rules r0 S0 K -> rk rules r0 S1 K.
Proof. intros HI. induction 1; [constructor|]. apply rk_step; auto. Qed.

Lemma bfs_rk rules r0 fuel : forall work seen ks,
  bfs rules fuel work seen = Some ks -> incl work seen ->
  (forall K, In K seen -> rk rules r0 seen K) ->
  forall K, In K ks -> rk rules r0 ks K.
Proof.
  induction fuel; intros work seen ks H HI Inv K HK; simpl in H.
  - destruct work; [|discriminate]. inversion H; subst. auto.
  - destruct work as [|K1 work'].
    + inversion H; subst. auto.
    + set (C := closure rules K1) in *.
      set (new := add_new (map (goto_kernel rules C) (next_syms rules C)) seen) in *.
      apply (IHfuel _ _ _ H); auto.
      * intros x Hx. apply in_app_iff in Hx. apply in_app_iff. destruct Hx as [Hx|Hx]; auto.
        left. apply HI. now right.
      * intros K2 HK2. apply in_app_iff in HK2. destruct HK2 as [HK2|HK2].
        -- apply (rk_mono rules r0 seen); auto. intros x Hx. apply in_app_iff. now left.
        -- destruct (add_new_spec (map (goto_kernel rules C) (next_syms rules C)) seen) as (Hn1 & _).
           destruct (Hn1 _ HK2) as (Hm & _). apply in_map_iff in Hm. destruct Hm as (X & <- & HX).
           apply rk_step; auto.
           ++ apply (rk_mono rules r0 seen); [intros x Hx; apply in_app_iff; now left|].
              apply Inv. apply HI. now left.
           ++ apply in_app_iff. left. apply HI. now left.
Qed.

Lemma skipn_nth' {B} (l : list B) d x : nth_error l d = Some x -> skipn d l = x :: skipn (S d) l.
Proof.
  revert d; induction l as [|y l IH]; intros [|d] H; simpl in *; try discriminate.
  - now inversion H.
  - now apply IH.
Qed.

Section Conv2.
  Variable rules : list rule.
  Variable tEND fuel : nat.
  Variable A : lr0.
  Variable r0 rootnt start : nat.
  Hypothesis HB : build_lr0 rules [r0] fuel = Some A.
  Hypothesis Hv : r0 < length rules.
  Hypothesis Hr0 : rule_at rules r0 = mkRule rootnt [NT start].
  Notation tm := (tmatch nat (fun k : nat => k)).
  Hypothesis Hprod : forall r d, In r rules -> exists u, derives rules nat tm (skipn d (rhs r)) u.

  Notation rule_at := (rule_at rules).
  Notation next_sym := (next_sym rules).
  Notation nts := (nt_transitions rules A).
  Notation rel := (compute_relations rules [r0] tEND A).
  Notation first_sym := (first_sym rules).
  Notation first_str := (first_str rules).
  Notation lr1_valid := (lr1_valid rules r0 tEND).
  Notation goto_star := (goto_star A).
  Let ND := ND1' r0.

  Lemma kernel0 : nth_error (kernels A) 0 = Some [(r0, 0)].
  Proof.
    destruct (built_shape rules [r0] fuel A HB ND) as (_ & _ & (tl & Hp) & _). rewrite Hp. reflexivity.
  Qed.

  Lemma closure_of_kernel q K : nth_error (kernels A) q = Some K -> closure_of A q = closure rules K.
  Proof. intros H. rewrite (closure_of_nth rules [r0] fuel A HB ND). now rewrite (nth_error_some_nth _ _ [] _ H). Qed.

  Lemma not_into_0 q X : trans A q X <> Some 0.
  Proof.
    intros H. destruct (trans_spec rules [r0] fuel A HB ND _ _ _ H) as (_ & _ & Hk).
    rewrite kernel0 in Hk. inversion Hk as [E].
    assert (Hin : In (r0, 0) (goto_kernel rules (closure_of A q) X)) by (rewrite <- E; now left).
    apply goto_kernel_In in Hin. destruct Hin as (d' & Hd & _). discriminate.
  Qed.

  Lemma dot0_valid q i : In (i, 0) (closure_of A q) -> i < length rules.
  Proof.
    intros H. rewrite (closure_of_nth rules [r0] fuel A HB ND) in H. apply closure_In in H.
    destruct H as [H|(_ & H & _)]; auto.
    destruct (lt_dec q (nstates A)) as [Hq|Hq].
    - destruct (built_shape rules [r0] fuel A HB ND) as (_ & _ & _ & Hok & _).
      destruct (Hok (nth q (kernels A) []) (nth_In _ _ Hq)) as [Hr|Hg].
      + simpl in Hr. destruct Hr as [Hr|[]]. rewrite <- Hr in H. destruct H as [E|[]]. inversion E; subst. exact Hv.
      + destruct (gotoish_dots rules _ _ Hg H) as (d & Hd). discriminate.
    - rewrite nth_overflow in H by (unfold nstates in Hq; lia). contradiction.
  Qed.

  (* ---- milestone: every LR(0) item of the state reached by g is LR(1)-valid for g ---- *)
  Theorem valid_exists g : forall q, goto_star 0 g = Some q ->
    forall it, In it (closure_of A q) -> exists a, lr1_valid g (fst it) (snd it) a.
  Proof.
    induction g as [|X g IH] using rev_ind; intros q Hg it Hit.
    - simpl in Hg. inversion Hg; subst q. rewrite (closure_of_kernel 0 _ kernel0) in Hit.
      apply (closure_valid rules r0 tEND Hprod [] [(r0, 0)]); auto.
      intros it' [<-|[]]. exists tEND. constructor.
    - rewrite goto_star_app in Hg. destruct (goto_star 0 g) as [q1|] eqn:Eg; [|discriminate].
      simpl in Hg. destruct (trans A q1 X) as [q'|] eqn:Et; [|discriminate]. inversion Hg; subst q'.
      destruct (trans_spec rules [r0] fuel A HB ND _ _ _ Et) as (_ & _ & Hk).
      rewrite (closure_of_kernel q _ Hk) in Hit.
      apply (closure_valid rules r0 tEND Hprod (g ++ [X]) (goto_kernel rules (closure_of A q1) X)); auto.
      intros kit Hkit. apply goto_kernel_In in Hkit. destruct Hkit as (d' & Hd & Hc & Hn).
      destruct (IH q1 eq_refl _ Hc) as (a & Ha). simpl in Ha. exists a. rewrite Hd.
      eapply v_goto; eauto.
  Qed.

  (* ---- milestone: every LR(0) state is reached by some symbol string ---- *)
  Lemma rk_path K : rk rules r0 (kernels A) K -> In K (kernels A) ->
    exists q g, nth_error (kernels A) q = Some K /\ goto_star 0 g = Some q.
  Proof.
    induction 1 as [|K0 X Hrk IH HK0 HX]; intros HK.
    - exists 0, []. split; [apply kernel0|reflexivity].
    - destruct (IH HK0) as (q0 & g & Hq0 & Hg).
      assert (Hlt : q0 < nstates A) by (unfold nstates; apply nth_error_Some; rewrite Hq0; discriminate).
      rewrite <- (closure_of_kernel q0 _ Hq0) in *.
      destruct (trans_total rules [r0] fuel A HB ND q0 X Hlt HX) as (q' & Hq').
      destruct (trans_spec rules [r0] fuel A HB ND _ _ _ Hq') as (_ & _ & Hk).
      exists q', (g ++ [X]). split; auto. rewrite goto_star_app, Hg. simpl. now rewrite Hq'.
  Qed.

  Theorem state_path q : q < nstates A -> exists g, goto_star 0 g = Some q.
  Proof.
    intros Hq. pose proof HB as HB'. unfold build_lr0 in HB'.
    destruct (bfs rules fuel (root_kernels [r0]) (root_kernels [r0])) as [ks|] eqn:Eb; [|discriminate].
    assert (Eks : kernels A = ks) by (inversion HB'; reflexivity).
    set (K := nth q (kernels A) []).
    assert (HK : In K (kernels A)) by (apply nth_In; exact Hq).
    assert (Hrk : rk rules r0 (kernels A) K).
    { rewrite Eks. apply (bfs_rk rules r0 fuel _ _ _ Eb (incl_refl _)).
      - intros K' [<-|[]]. constructor.
      - now rewrite <- Eks. }
    destruct (rk_path K Hrk HK) as (q' & g & Hq' & Hg). exists g.
    destruct (built_shape rules [r0] fuel A HB ND) as (_ & _ & _ & _ & NDk).
    assert (q' = q).
    { apply (proj1 (NoDup_nth_error (kernels A)) NDk).
      - apply nth_error_Some. rewrite Hq'. discriminate.
      - rewrite Hq'. symmetry. apply List.nth_error_nth'. exact Hq. }
    now subst q'.
  Qed.

  (* ---- witnesses ---- *)
  Definition R0 (x : ntrans) (t : nat) : Prop :=
    exists i d, In (i, d) (closure_of A (fst x)) /\ nth_error (rhs (rule_at i)) d = Some (NT (snd x)) /\
                first_str (skipn (S d) (rhs (rule_at i))) t.
  Definition R0' (x : ntrans) (t : nat) : Prop := R0 x t \/ (x = (0, start) /\ t = tEND).

  Definition W (x : ntrans) (t : nat) : Prop :=
    exists g i d a, goto_star 0 g = Some (fst x) /\ lr1_valid g i d a /\
                    nth_error (rhs (rule_at i)) d = Some (NT (snd x)) /\
                    (first_str (skipn (S d) (rhs (rule_at i))) t \/
                     (forallb (nullable rules) (skipn (S d) (rhs (rule_at i))) = true /\ t = a)).

  (* something readable from an item of goto(p, a) is in FIRST of the rest of an item of p *)
  Lemma H1 p a p1 it1 t :
    trans A p (NT a) = Some p1 -> In it1 (closure_of A p1) ->
    first_str (skipn (snd it1) (rhs (rule_at (fst it1)))) t -> R0 (p, a) t.
  Proof.
    intros Ht Hit Hf. destruct (trans_spec rules [r0] fuel A HB ND _ _ _ Ht) as (_ & _ & Hk).
    rewrite (closure_of_kernel p1 _ Hk) in Hit. apply closure_In in Hit.
    destruct Hit as [Hit|(H0 & Hv1 & kit & a0 & Hkit & Hnk & Hreach)].
    - apply goto_kernel_In in Hit. destruct Hit as (d' & Hd & Hc & Hn).
      exists (fst it1), d'. cbn [fst snd]. split; auto. split; auto. now rewrite <- Hd.
    - apply goto_kernel_In in Hkit. destruct Hkit as (d' & Hd & Hc & Hn).
      exists (fst kit), d'. cbn [fst snd]. split; auto. split; auto.
      rewrite H0 in Hf. simpl in Hf. destruct Hf as (pre & Y & post & Er & Hnu & Hfs).
      assert (Hfa : first_sym (NT a0) t).
      { apply (reach_first rules a0 _ Hreach). apply fs_nt with (pre := pre) (Y := Y) (post := post); auto. }
      unfold Automaton.next_sym in Hnk. rewrite Hd in Hnk.
      rewrite (skipn_nth' _ _ _ Hnk). exists [], (NT a0), (skipn (S (S d')) (rhs (rule_at (fst kit)))). auto.
  Qed.

  (* ---- milestone: Read ---- *)
  Theorem read_witness k t : M (read_sets rel) k t -> forall x, nth_error nts k = Some x -> R0' x t.
  Proof.
    apply (proj2 (LSr rules tEND A r0) (fun k t => forall x, nth_error nts k = Some x -> R0' x t)).
    - (* directly reads *)
      intros i t' Hi Ht x Hx. unfold Gs in Ht.
      rewrite (nth_map_error _ nts i x [] Hx) in Ht.
      destruct x as (p, a).
      unfold directly_reads in Ht. apply (proj1 (dedup_nat_In _ _)) in Ht. apply in_app_iff in Ht.
      destruct Ht as [Ht|Ht].
      + right. destruct (is_root_trans rules [r0] (p, a)) eqn:Er; [|contradiction].
        destruct Ht as [<-|[]]. split; auto.
        unfold is_root_trans in Er. simpl in Er. apply andb_true_iff in Er. destruct Er as (E1 & E2).
        apply Nat.ltb_lt in E1. assert (p = 0) by lia. subst p. simpl in E2.
        unfold Automaton.next_sym in E2. simpl in E2. rewrite Hr0 in E2. simpl in E2.
        apply Nat.eqb_eq in E2. now subst a.
      + left. simpl in Ht. destruct (trans A p (NT a)) as [p1|] eqn:Et; [|contradiction].
        unfold t_next in Ht. apply in_flat_map in Ht. destruct Ht as (X & HX & Ht).
        destruct X as [t0|]; [|contradiction]. destruct Ht as [->|[]].
        apply next_syms_In in HX. destruct HX as (it1 & Hit1 & Hn1).
        apply (H1 p a p1 it1 t' Et Hit1). unfold Automaton.next_sym in Hn1.
        rewrite (skipn_nth' _ _ _ Hn1). exists [], (T t'), (skipn (S (snd it1)) (rhs (rule_at (fst it1)))).
        repeat split. constructor.
    - (* reads *)
      intros i j t' (Hi & y & Hy & Hj) Hphi x Hx. unfold Rs in Hy.
      rewrite (nth_map_error _ nts i x [] Hx) in Hy.
      destruct (index_nth nts y j Hj) as (Hyj & _). specialize (Hphi y Hyj).
      destruct x as (p, a). left.
      unfold reads in Hy. simpl in Hy. destruct (trans A p (NT a)) as [p1|] eqn:Et; [|contradiction].
      apply in_map_iff in Hy. destruct Hy as (c & <- & Hc). apply filter_In in Hc. destruct Hc as (_ & Hnul).
      destruct Hphi as [(i1 & d1 & Hit1 & Hn1 & Hf1)|(E & _)].
      + simpl in Hit1, Hn1. apply (H1 p a p1 (i1, d1) t' Et Hit1). simpl.
        rewrite (skipn_nth' _ _ _ Hn1). destruct Hf1 as (pre & Y & post & Er & Hnu & Hfs).
        exists (NT c :: pre), Y, post. rewrite Er. repeat split; auto. cbn [forallb]. unfold nullable at 1. cbn [sym_nullable]. now rewrite Hnul.
      + exfalso. inversion E; subst. eapply not_into_0; eauto.
  Qed.

  Lemma valid_along i a : forall pre g d, lr1_valid g i d a ->
    firstn (length pre) (skipn d (rhs (rule_at i))) = pre -> lr1_valid (g ++ pre) i (d + length pre) a.
  Proof.
    induction pre as [|X pre IH]; intros g d Hval Hp; simpl in *.
    - now rewrite app_nil_r, Nat.add_0_r.
    - destruct (skipn d (rhs (rule_at i))) as [|X' m] eqn:Es; [discriminate|]. inversion Hp as [[E1 E2]].
      destruct (skipn_cons_inv _ _ _ _ Es) as (Hnth & Hrest). subst X'.
      rewrite ?E2.
      replace (g ++ X :: pre) with ((g ++ [X]) ++ pre) by (rewrite <- app_assoc; reflexivity).
      replace (d + S (length pre)) with (S d + length pre) by lia.
      apply IH; [eapply v_goto; eauto | rewrite Hrest; exact E2].
  Qed.

  Lemma walk_fst_inv : forall ss q q2 s post, In (q2, s, post) (fst (walk A q ss)) ->
    exists pre, ss = pre ++ s :: post /\ goto_star q pre = Some q2.
  Proof.
    induction ss as [|x ss IH]; intros q q2 s post H; simpl in H; [contradiction|].
    destruct (trans A q x) as [q'|] eqn:Et.
    - destruct (walk A q' ss) as (l, f) eqn:Ew. simpl in H. destruct H as [E|H].
      + inversion E; subst. exists []. auto.
      + assert (H' : In (q2, s, post) (fst (walk A q' ss))) by (rewrite Ew; exact H).
        destruct (IH _ _ _ _ H') as (pre & -> & Hg). exists (x :: pre). split; auto. simpl. now rewrite Et.
    - simpl in H. destruct H as [E|[]]. inversion E; subst. exists []. auto.
  Qed.

  Lemma start_items_inv x r : In r (start_items rules A x) ->
    In (r, 0) (closure_of A (fst x)) /\ lhs (rule_at r) = snd x.
  Proof.
    unfold start_items. rewrite in_flat_map. intros ((i, d) & Hit & H). simpl in H.
    destruct (Nat.eqb (lhs (rule_at i)) (snd x) && Nat.eqb d 0) eqn:E; [|contradiction].
    destruct H as [<-|[]]. apply andb_true_iff in E. destruct E as (E1 & E2).
    apply Nat.eqb_eq in E1. apply Nat.eqb_eq in E2. subst d. auto.
  Qed.

  (* from a witness for (p, A): the initial item of any rule of A started in p, with that look-ahead *)
  Lemma W_start x t r : W x t -> In r (start_items rules A x) ->
    exists g, goto_star 0 g = Some (fst x) /\ lr1_valid g r 0 t.
  Proof.
    intros (g & i & d & a & Hg & Hval & Hn & Hla) Hr. destruct (start_items_inv x r Hr) as (Hit & Hl).
    exists g. split; auto. eapply v_clos; eauto. eapply dot0_valid; eauto.
  Qed.

  (* ---- milestone: Follow ---- *)
  Theorem follow_witness k t : M (follow_sets rel) k t -> forall x, nth_error nts k = Some x -> W x t.
  Proof.
    apply (proj2 (LSf rules tEND A r0) (fun k t => forall x, nth_error nts k = Some x -> W x t)).
    - (* Read *)
      intros i t' Hi Ht x Hx. destruct (read_witness i t' Ht x Hx) as [(i1 & d1 & Hit & Hn & Hf)|(E & ->)].
      + destruct (state_path (fst x)) as (g & Hg).
        { eapply (item_state_lt rules fuel A r0 HB); eauto. }
        destruct (valid_exists g _ Hg _ Hit) as (a & Ha). simpl in Ha.
        exists g, i1, d1, a. auto.
      + rewrite E. exists [], r0, 0, tEND. simpl. split; auto. split; [constructor|].
        rewrite Hr0. simpl. split; auto.
    - (* includes *)
      intros i j t' (Hi & y & Hy & Hj) Hphi x Hx. unfold Rs in Hy.
      rewrite (nth_map_error _ nts i x [] Hx) in Hy.
      destruct (index_nth nts y j Hj) as (Hyj & _). specialize (Hphi y Hyj).
      unfold includes_from in Hy. apply (proj1 (dedup_pair_In _ _)) in Hy. apply in_flat_map in Hy.
      destruct Hy as ((x', y') & Hpair & Hy). simpl in Hy.
      destruct (pair_eqb x' x) eqn:Ex; [|contradiction]. apply pair_eqb_eq in Ex. destruct Hy as [->|[]]. subst x'.
      unfold includes_pairs in Hpair. apply in_flat_map in Hpair. destruct Hpair as (y0 & Hy0 & Hpair).
      apply in_flat_map in Hpair. destruct Hpair as (r & Hr & Hpair).
      apply in_flat_map in Hpair. destruct Hpair as (((q2, s), rest) & Hw & Hpair).
      destruct s as [tt|c]; [contradiction|].
      destruct (forallb (nullable rules) rest) eqn:Hnu; [|contradiction].
      destruct Hpair as [E|[]]. inversion E; subst y0. clear E.
      destruct (walk_fst_inv _ _ _ _ _ Hw) as (pre & Er & Hgp).
      destruct (W_start y t' r Hphi Hr) as (g & Hg & Hval).
      pose proof (valid_along r t' pre g 0 Hval) as Hal. simpl in Hal.
      rewrite Er in Hal. rewrite firstn_app, Nat.sub_diag, firstn_all in Hal. simpl in Hal. rewrite app_nil_r in Hal.
      specialize (Hal eq_refl).
      exists (g ++ pre), r, (length pre), t'. cbn [fst snd].
      split; [rewrite goto_star_app, Hg; exact Hgp|]. split; [exact Hal|].
      rewrite Er. split.
      + rewrite nth_error_app2, Nat.sub_diag; auto.
      + right. split; auto. rewrite skipn_app. replace (S (length pre) - length pre) with 1 by lia.
        rewrite skipn_all2 by lia. simpl. exact Hnu.
  Qed.

  (* ---- the converse inclusion ---- *)
  Theorem la_subset_lr1 q t i :
    In (q, t, i) (la_triples rel) ->
    exists g, goto_star 0 g = Some q /\ lr1_valid g i (length (rhs (rule_at i))) t.
  Proof.
    intros H. apply (proj1 (proj2 (proj2 (la_closure rules [r0] tEND A)) _ _ _)) in H.
    destruct H as (k & Hk & Hlb & Hm). simpl in Hlb.
    destruct (nth_error nts k) as [x|] eqn:Ex; [|apply nth_error_None in Ex; simpl in Hk; lia].
    rewrite (nth_map_error _ nts k x [] Ex) in Hlb.
    unfold lookback in Hlb. apply (proj1 (dedup_pair_In _ _)) in Hlb. apply in_flat_map in Hlb.
    destruct Hlb as (r & Hr & Hlb). rewrite walk_snd in Hlb.
    destruct (goto_star (fst x) (rhs (rule_at r))) as [q2|] eqn:Eg; [|contradiction].
    destruct (existsb _ (closure_of A q2)); [|contradiction]. destruct Hlb as [E|[]]. inversion E; subst q2 r.
    destruct (W_start x t i (follow_witness k t Hm x Ex) Hr) as (g & Hg & Hval).
    pose proof (valid_along i t (rhs (rule_at i)) g 0 Hval) as Hal. simpl in Hal.
    rewrite firstn_all in Hal. specialize (Hal eq_refl).
    exists (g ++ rhs (rule_at i)). split; [rewrite goto_star_app, Hg; exact Eg|exact Hal].
  Qed.
End Conv2.

Lemma root_index_valid rules r0 rootnt start :
  rule_at rules r0 = mkRule rootnt [NT start] -> r0 < length rules.
Proof.
  intros H. destruct (lt_dec r0 (length rules)); auto.
  unfold rule_at in H. rewrite nth_overflow in H by lia. discriminate.
Qed.

(* the model's look-ahead sets ARE the LALR(1) look-ahead sets (productive rule bodies) *)
Theorem la_is_lalr1 rules tEND fuel A r0 rootnt start q a i :
  build_lr0 rules [r0] fuel = Some A ->
  rule_at rules r0 = mkRule rootnt [NT start] ->
  (forall r d, In r rules -> exists u, derives rules nat (tmatch nat (fun k => k)) (skipn d (rhs r)) u) ->
  i <> r0 ->
  (In (q, a, i) (la_triples (compute_relations rules [r0] tEND A)) <->
   exists g, goto_star A 0 g = Some q /\ lr1_valid rules r0 tEND g i (length (rhs (rule_at rules i))) a).
Proof.
  intros HB Hr0 Hprod Hne. pose proof (root_index_valid rules r0 rootnt start Hr0) as Hv. split.
  - apply (la_subset_lr1 rules tEND fuel A r0 rootnt start HB Hv Hr0 Hprod).
  - intros (g & Hg & Hval). eapply lr1_subset_la; eauto.
Qed.
