(* LR/DriverGen_proofs.v - the hand models equal the drivers written over the REGENERATED conditions:
     gfeed  = Driver.feed    (stacks reversed: Python order vs top-first)
     gparse = Driver.parse
     gdecide = Automaton.decide, grow = row, gcollisions = collisions, gcompute_lalr = compute_lalr.
   The proofs unfold the definitions of Gen/LalrHoles.v: when an edit of the source changes one of them in a
   way that matters (`if is_end and ...` loses a conjunct, `>` becomes `>=`, the `if size:` guard goes away,
   a slice bound changes, reverse=True is dropped ...) the corresponding proof no longer goes through. *)
From Coq Require Import List Arith Bool ZArith Lia.
From LV Require Import Cfg.Grammar LR.Driver LR.Automaton Gen.LalrHoles LR.DriverGen.
Import ListNotations.

(* ---- Python slices on reversed lists ---- *)
Lemma py_last_rev {A} (l : list A) : py_last (rev l) = match l with [] => None | x :: _ => Some x end.
Proof. unfold py_last. rewrite rev_involutive. reflexivity. Qed.

Lemma py_lo_neg {A} (n : nat) (l : list A) : 0 < n -> py_lo (- Z.of_nat n) l = length l - n.
Proof.
  intros Hn. unfold py_lo.
  replace (- Z.of_nat n <? 0)%Z with true by (symmetry; apply Z.ltb_lt; lia).
  rewrite Z.opp_involutive, Nat2Z.id. reflexivity.
Qed.

Lemma py_from_rev {A} (n : nat) (l : list A) : 0 < n ->
  py_from (- Z.of_nat n) (rev l) = rev (firstn n l).
Proof.
  intros Hn. unfold py_from. rewrite py_lo_neg by auto. rewrite rev_length, skipn_rev.
  destruct (Nat.le_gt_cases n (length l)).
  - replace (length l - (length l - n)) with n by lia. reflexivity.
  - replace (length l - (length l - n)) with (length l) by lia.
    rewrite !firstn_all2 by lia. reflexivity.
Qed.

Lemma py_del_from_rev {A} (n : nat) (l : list A) : 0 < n ->
  py_del_from (- Z.of_nat n) (rev l) = rev (skipn n l).
Proof.
  intros Hn. unfold py_del_from. rewrite py_lo_neg by auto. rewrite rev_length, firstn_rev.
  destruct (Nat.le_gt_cases n (length l)).
  - replace (length l - (length l - n)) with n by lia. reflexivity.
  - replace (length l - (length l - n)) with (length l) by lia.
    rewrite !skipn_all2 by lia. reflexivity.
Qed.

Lemma zeqb_nat a b : Z.eqb (Z.of_nat a) (Z.of_nat b) = Nat.eqb a b.
Proof.
  destruct (Nat.eqb_spec a b) as [->|N]; [apply Z.eqb_refl|].
  apply Z.eqb_neq. lia.
Qed.

Section GD.
  Variable tok : Type.
  Variable ttype : tok -> nat.
  Variable P : ptable.

  Definition cfg_py (c : config tok) : gconfig tok := mkG (rev (sstack c)) (rev (vstack c)).
  Definition out_py (o : outcome tok) : goutcome tok :=
    match o with
    | Shifted c => GShifted (cfg_py c)
    | Accepted t => GAccepted t
    | Unexpected c => GUnexpected (cfg_py c)
    | DAssert c => GAssert (cfg_py c)
    | DCrash c => GCrash (cfg_py c)
    | DFuel => GFuel
    end.

  (* ParserState.feed_token over the regenerated conditions = the hand model, for every table, every
     configuration, every token and both values of is_end *)
  Theorem gfeed_eq_feed fuel : forall c k is_end,
    gfeed tok ttype P fuel (cfg_py c) k is_end = out_py (feed tok ttype P fuel c k is_end).
  Proof.
    induction fuel as [|fuel IH]; intros c k is_end; [reflexivity|].
    destruct c as [ss vs]. cbn [gfeed feed cfg_py g_states g_values sstack vstack].
    rewrite py_last_rev. destruct ss as [|q ss]; [reflexivity|].
    destruct (pt_action P q (T (ttype k))) as [[q'|r]|]; [| |reflexivity].
    - (* shift *)
      unfold ft_arg_ok, ft_is_shift, ft_shift_ok. cbn [is_shift_b arg_z negb].
      rewrite zeqb_nat, negb_involutive.
      destruct (Nat.eqb q' (pt_end P)); [reflexivity|].
      cbn [negb]. rewrite negb_involutive. destruct is_end; [reflexivity|].
      cbn [out_py cfg_py sstack vstack rev]. reflexivity.
    - (* reduce *)
      unfold ft_arg_ok, ft_is_shift. cbn [is_shift_b arg_z].
      replace (Z.eqb (-1) (Z.of_nat (pt_end P))) with false by (symmetry; apply Z.eqb_neq; lia).
      cbn [negb].
      unfold ft_pop_guard, ft_lo_values, ft_lo_del_states, ft_lo_del_values.
      remember (length (rhs r)) as n eqn:En.
      assert (Hsv : (if negb (Z.eqb (Z.of_nat n) 0) then py_from (- Z.of_nat n) (rev vs) else [])
                    = rev (firstn n vs)).
      { destruct n as [|n]; [reflexivity|].
        replace (Z.eqb (Z.of_nat (S n)) 0) with false by (symmetry; apply Z.eqb_neq; lia).
        cbn [negb]. apply py_from_rev. lia. }
      assert (Hss : (if negb (Z.eqb (Z.of_nat n) 0) then py_del_from (- Z.of_nat n) (rev (q :: ss)) else rev (q :: ss))
                    = rev (skipn n (q :: ss))).
      { destruct n as [|n]; [reflexivity|].
        replace (Z.eqb (Z.of_nat (S n)) 0) with false by (symmetry; apply Z.eqb_neq; lia).
        cbn [negb]. apply py_del_from_rev. lia. }
      assert (Hvs : (if negb (Z.eqb (Z.of_nat n) 0) then py_del_from (- Z.of_nat n) (rev vs) else rev vs)
                    = rev (skipn n vs)).
      { destruct n as [|n]; [reflexivity|].
        replace (Z.eqb (Z.of_nat (S n)) 0) with false by (symmetry; apply Z.eqb_neq; lia).
        cbn [negb]. apply py_del_from_rev. lia. }
      cbn zeta. rewrite Hsv, Hss, Hvs. rewrite py_last_rev.
      destruct (skipn n (q :: ss)) as [|q2 ss2] eqn:Esk; [reflexivity|].
      destruct (pt_action P q2 (NT (lhs r))) as [[q3|r2]|]; [| reflexivity | reflexivity].
      unfold ft_goto_ok, ft_accept. cbn [is_shift_b arg_z negb].
      rewrite zeqb_nat.
      destruct (is_end && Nat.eqb q3 (pt_end P)); [reflexivity|].
      specialize (IH (mkConfig (q3 :: q2 :: ss2) (Node r (rev (firstn n vs)) :: skipn n vs)) k is_end).
      cbn [cfg_py sstack vstack rev] in IH. exact IH.
  Qed.

  Lemma gfeed_all_eq fuel : forall w c,
    gfeed_all tok ttype P fuel (cfg_py c) w = out_py (feed_all tok ttype P fuel c w).
  Proof.
    induction w as [|k w IH]; intros c; [reflexivity|].
    cbn [gfeed_all feed_all]. unfold pfs_loop_is_end, ft_is_end_default.
    rewrite gfeed_eq_feed. destruct (feed tok ttype P fuel c k false); cbn [out_py]; auto.
  Qed.

  (* _Parser.parse_from_state over the regenerated flags = the hand model *)
  Theorem gparse_eq_parse fuel w end_tok :
    gparse tok ttype P fuel w end_tok = out_py (parse tok ttype P fuel w end_tok).
  Proof.
    unfold gparse, parse. change (ginit tok P) with (cfg_py (init_config P)).
    rewrite gfeed_all_eq. destruct (feed_all tok ttype P fuel (init_config P) w); cbn [out_py]; auto.
    unfold pfs_end_is_end. apply gfeed_eq_feed.
  Qed.
End GD.

(* the end token fed by parse_from_state and by feed_eof has type $END, and the loop uses is_end = False *)
Lemma end_token_pinned :
  pfs_end_type_is_END = true /\ ip_eof_type_is_END = true /\ pfs_loop_is_end = false /\ pfs_end_is_end = true.
Proof. repeat split; reflexivity. Qed.

(* ---- the resolution block of compute_lalr1_states ---- *)
Theorem gdecide_eq_decide prio rs : gdecide prio rs = decide prio rs.
Proof.
  unfold gdecide, decide, rr_needs_resolution, rr_sort_descending, rr_winner.
  destruct rs as [|r1 [|r2 rs]]; [reflexivity | reflexivity |].
  replace (Z.gtb (Z.of_nat (length (r1 :: r2 :: rs))) 1) with true
    by (symmetry; rewrite Z.gtb_ltb; apply Z.ltb_lt; cbn [length]; lia).
  destruct (sort_desc _) as [|[p1 x1] [|[p2 x2] l]]; auto.
  rewrite Z.gtb_ltb. reflexivity.
Qed.

Theorem grow_eq_row rules prio A LA q : grow rules prio A LA q = row rules prio A LA q.
Proof.
  unfold grow, row, greduce_entries, reduce_entries, sr_keeps_shift. f_equal.
  apply flat_map_ext. intros s. rewrite gdecide_eq_decide. reflexivity.
Qed.

Theorem gcollisions_eq prio A LA : gcollisions prio A LA = collisions prio A LA.
Proof.
  unfold gcollisions, collisions. apply flat_map_ext. intros q. apply flat_map_ext. intros s.
  rewrite gdecide_eq_decide. reflexivity.
Qed.

Theorem gcompute_lalr_eq rules prio roots tEND fuel :
  gcompute_lalr rules prio roots tEND fuel = compute_lalr rules prio roots tEND fuel.
Proof.
  unfold gcompute_lalr, compute_lalr. destruct (build_lr0 rules roots fuel) as [A|]; [|reflexivity].
  cbn zeta. rewrite gcollisions_eq. unfold rr_raises.
  destruct (collisions prio A _) as [|c cs]; cbn [negb].
  - f_equal. unfold gtable_rows, table_rows. apply map_ext. intros q. now rewrite grow_eq_row.
  - reflexivity.
Qed.

(* the priority a rule without one gets (r.options.priority or <default>) is the default the model's
   [prio_of] uses for an index outside the exported list, and what the harness exports for None *)
Lemma prio_default_pinned : rr_prio_default = 0%Z.
Proof. reflexivity. Qed.
