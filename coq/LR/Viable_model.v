(* LR/Viable_model.v - the table built by the model of lalr_analysis.py (LR/Automaton.v) carries
   a VALID item annotation (Viable.wf_items_v) for every grammar with one start symbol; hence
   the never-late theorems of Viable_proofs.v hold for the model driver on the model table,
   stated over the USER grammar with Earley/Prefix.v's [viable] and [productive_bodies]. *)
From Coq Require Import List Arith Bool ZArith Lia.
From LV Require Import Cfg.Grammar Earley.Spec Earley.Prefix LR.Driver LR.Driver_proofs
     LR.Automaton LR.Automaton_proofs LR.Automaton_wf LR.Viable LR.Viable_proofs.
Import ListNotations.

Section VM.
  Variable rules : list rule.
  Variable prio : list Z.
  Variable tEND fuel : nat.
  Variable A : lr0.
  Variable rel : relations.
  Variable LA : list (nat * nat * nat).
  Variable R : rows.
  Variable r0 rootnt start qe : nat.
  Hypothesis HT : compute_lalr rules prio [r0] tEND fuel = ATable A rel LA R.
  Hypothesis Hv : r0 < length rules.
  Hypothesis Hr0 : rule_at rules r0 = mkRule rootnt [NT start].
  Hypothesis fresh : forall r, In r rules -> ~ In (NT rootnt) (rhs r).
  Hypothesis Hqe : end_state rules [r0] A 0 = Some qe.

  Lemma ND1 : NoDup [r0].
  Proof. repeat constructor. intros []. Qed.

  Notation Pm := (model_ptable R 0 qe).
  Notation itemsm := (model_items rules A).
  Notation just := (justified rules Pm start itemsm).

  Let HB := HA rules prio [r0] tEND fuel A rel LA R HT.

  Lemma item_in q it : In it (closure_of A q) -> In (rule_at rules (fst it), snd it) (itemsm q).
  Proof. intros H. apply (items_In rules prio [r0] tEND fuel A rel LA R HT ND1). eauto. Qed.

  (* items of the kernel of state q are justified *)
  Lemma kernel_item_justified q it :
    In it (nth q (kernels A) []) -> just q (rule_at rules (fst it)) (snd it).
  Proof.
    intros Hk. destruct it as (i, d). simpl. destruct d as [|d].
    - assert (Hq : q < nstates A).
      { destruct (lt_dec q (nstates A)); auto. rewrite nth_overflow in Hk; [contradiction|unfold nstates in *; lia]. }
      destruct (kernel_at rules prio [r0] tEND fuel A rel LA R HT ND1 q Hq) as [Hr|Hg].
      + unfold root_kernels in Hr. simpl in Hr. destruct Hr as [Hr|[]].
        rewrite <- Hr in Hk. destruct Hk as [Hk|[]]. inversion Hk; subst i.
        assert (q = 0).
        { destruct (built_shape rules [r0] fuel A HB ND1) as (_ & _ & _ & _ & NDk).
          eapply (proj1 (NoDup_nth_error (kernels A))); eauto.
          rewrite (root_kernel_at rules prio [r0] tEND fuel A rel LA R HT ND1 0 r0 eq_refl).
          rewrite Hr. apply List.nth_error_nth'. exact Hq. }
        subst q. apply j_root; auto.
        * now apply rule_at_In.
        * now rewrite Hr0.
      + destruct (gotoish_dots rules _ _ Hg Hk) as (d' & Hd). simpl in Hd. discriminate.
    - apply j_kernel. apply (item_in q (i, S d)).
      rewrite (closure_of_nth rules [r0] fuel A HB ND1). now apply closure_kernel.
  Qed.

  (* every rule of a non-terminal reachable through first symbols is justified as a closure item *)
  Definition all_rules_justified (q b : nat) : Prop :=
    forall i, i < length rules -> lhs (rule_at rules i) = b -> just q (rule_at rules i) 0.

  Lemma iter_reach_justified q n : forall S0,
    (forall b, In b S0 -> all_rules_justified q b) ->
    forall b, In b (iter n (reach_step rules) S0) -> all_rules_justified q b.
  Proof.
    induction n; simpl; intros S0 H b Hb; auto.
    apply (IHn (reach_step rules S0)); auto.
    intros b' Hb'. unfold reach_step in Hb'. apply (proj1 (dedup_nat_In _ _)) in Hb'.
    apply in_app_iff in Hb'. destruct Hb' as [Hb'|Hb']; auto.
    unfold first_nts_of in Hb'. apply in_flat_map in Hb'. destruct Hb' as (r & Hr & Hb').
    destruct (mem_nat (lhs r) S0) eqn:Em; [|contradiction]. apply mem_nat_In in Em.
    destruct (rhs r) as [|[t|c] rest] eqn:Er; try contradiction. destruct Hb' as [->|[]].
    destruct (In_nth _ _ (mkRule 0 []) Hr) as (i' & Hi' & Ei').
    intros i Hi El.
    apply j_clos with (r' := rule_at rules i') (d' := 0).
    - apply (H (lhs r) Em i' Hi'). unfold rule_at. now rewrite Ei'.
    - now apply rule_at_In.
    - rewrite El. unfold rule_at. rewrite Ei', Er. reflexivity.
    - now apply rule_at_In.
  Qed.

  Lemma model_justified q it : In it (closure_of A q) -> just q (rule_at rules (fst it)) (snd it).
  Proof.
    intros H. pose proof H as H'. rewrite (closure_of_nth rules [r0] fuel A HB ND1) in H'.
    apply closure_In in H'. destruct H' as [Hk|(H0 & Hi & kit & a & Hkit & Hn & Hreach)].
    - now apply kernel_item_justified.
    - rewrite H0. unfold reach in Hreach.
      apply (iter_reach_justified q (S (length rules)) [a]) with (b := lhs (rule_at rules (fst it))); auto.
      intros b [<-|[]] i Hi' El.
      apply j_clos with (r' := rule_at rules (fst kit)) (d' := snd kit).
      + now apply kernel_item_justified.
      + apply rule_at_In. apply (next_sym_valid rules kit _ Hn).
      + unfold next_sym in Hn. now rewrite El.
      + now apply rule_at_In.
  Qed.

  Theorem model_wf_items_v : wf_items_v rules Pm start itemsm.
  Proof.
    constructor.
    - apply (model_wf_items rules prio [r0] tEND fuel A rel LA R HT ND1) with (r0 := r0) (rootnt := rootnt); auto.
      intros r [<-|[]]. exact Hv.
    - intros q r d Hin. apply (items_In rules prio [r0] tEND fuel A rel LA R HT ND1) in Hin.
      destruct Hin as (it & Hit & -> & ->). now apply model_justified.
    - intros q X q' Ha. apply (action_shift rules prio [r0] tEND fuel A rel LA R HT) in Ha.
      destruct (trans_spec rules [r0] fuel A HB ND1 _ _ _ Ha) as (_ & HX & _).
      apply next_syms_In in HX. destruct HX as (it & Hit & Hn).
      exists (rule_at rules (fst it)), (snd it). split; [now apply item_in|]. split.
      + apply rule_at_In. apply (next_sym_valid rules it _ Hn).
      + exact Hn.
    - exists (rule_at rules r0). split; [now apply rule_at_In|now rewrite Hr0].
  Qed.
End VM.

(* ---- user level: rules = G ++ [$root -> start], viability in the USER grammar ---- *)
Section User.
  Variable G : grammar.
  Variable prio : list Z.
  Variable rootnt start tEND fuel : nat.
  Variable A : lr0.
  Variable rel : relations.
  Variable LA : list (nat * nat * nat).
  Variable R : rows.
  Variable qe : nat.
  Notation rules := (G ++ [mkRule rootnt [NT start]]).
  Notation tm := (tmatch nat (fun k : nat => k)).
  Hypothesis HT : compute_lalr rules prio [length G] tEND fuel = ATable A rel LA R.
  Hypothesis fresh : forall r, In r G -> ~ In (NT rootnt) (rhs r).
  Hypothesis Hne : start <> rootnt.
  Hypothesis Hqe : end_state rules [length G] A 0 = Some qe.
  Hypothesis Hprod : productive_bodies G nat tm.
  Hypothesis Hstart : exists r, In r G /\ lhs r = start.

  Notation Pm := (ptable_of_rows R 0 qe).

  Lemma fresh' : forall r, In r rules -> ~ In (NT rootnt) (rhs r).
  Proof.
    intros r Hr. apply in_app_iff in Hr. destruct Hr as [Hr|[<-|[]]]; auto.
    simpl. intros [E|[]]. inversion E. congruence.
  Qed.

  Lemma prod' : productive_bodies rules nat tm.
  Proof.
    intros r d Hr. apply in_app_iff in Hr. destruct Hr as [Hr|[<-|[]]].
    - destruct (Hprod r d Hr) as (u & Hu). exists u. eapply derives_incl; [|exact Hu].
      intros x Hx. apply in_app_iff. now left.
    - simpl. destruct d as [|[|d]]; simpl.
      + destruct Hstart as (r & Hr & Hl). destruct (Hprod r 0 Hr) as (u & Hu). simpl in Hu.
        exists u. rewrite <- (app_nil_r u). apply d_nt with (r := r); auto.
        * apply in_app_iff. now left.
        * eapply derives_incl; [|exact Hu]. intros x Hx. apply in_app_iff. now left.
        * constructor.
      + exists []. constructor.
      + exists []. constructor.
  Qed.

  Lemma WVu : wf_items_v rules (model_ptable R 0 qe) start (model_items rules A).
  Proof.
    apply (model_wf_items_v rules prio tEND fuel A rel LA R (length G) rootnt start qe HT); auto.
    - rewrite app_length. simpl. lia.
    - unfold rule_at. apply nth_middle.
    - apply fresh'.
  Qed.

  Lemma viable_user p : viable rules nat tm start p -> viable G nat tm start p.
  Proof.
    intros (v & Hv). exists v.
    apply (derives_without_root nat tm G (mkRule rootnt [NT start])).
    - exact fresh.
    - eapply derives_incl; [|exact Hv]. intros r Hr. apply in_app_iff in Hr.
      destruct Hr as [Hr|[<-|[]]]; [now right|now left].
    - simpl. intros [E|[]]. inversion E. congruence.
  Qed.

  Theorem model_shift_viable fuel' u c k c' :
    feed_all nat (fun k => k) Pm fuel' (init_config Pm) u = Shifted c ->
    feed nat (fun k => k) Pm fuel' c k false = Shifted c' ->
    viable G nat tm start (u ++ [k]).
  Proof.
    intros H1 H2. apply viable_user.
    exact (lalr_shift_viable nat (fun k => k) rules (model_ptable R 0 qe) start _ WVu prod' fuel' u c k c' H1 H2).
  Qed.

  Theorem model_error_not_late fuel' w c :
    feed_all nat (fun k => k) Pm fuel' (init_config Pm) w = Unexpected c ->
    exists w1 w2, w = w1 ++ w2 /\ consumed nat (vstack c) = w1 /\ viable G nat tm start w1.
  Proof.
    intros H.
    destruct (lalr_error_not_late nat (fun k => k) rules (model_ptable R 0 qe) start _ WVu prod' fuel' w c H)
      as (w1 & w2 & E & Hc & Hvi).
    exists w1, w2. repeat split; auto. now apply viable_user.
  Qed.

  (* accepts(): trial feeds from any configuration reached by feeding u *)
  Theorem model_accepts_sound fuel' u c k c' :
    feed_all nat (fun k => k) Pm fuel' (init_config Pm) u = Shifted c ->
    feed nat (fun k => k) Pm fuel' c k false = Shifted c' ->
    viable G nat tm start (u ++ [k]).
  Proof. exact (model_shift_viable fuel' u c k c'). Qed.

  (* ... and '$END' is in accepts() only after a sentence *)
  Theorem model_accepts_end_sound fuel' u c t :
    feed_all nat (fun k => k) Pm fuel' (init_config Pm) u = Shifted c ->
    feed nat (fun k => k) Pm fuel' c tEND true = Accepted t ->
    derives G nat tm [NT start] u.
  Proof.
    intros H1 H2.
    assert (S : parse nat (fun k => k) Pm fuel' u tEND = Accepted t) by (unfold parse; now rewrite H1).
    exact (proj2 (model_table_sound_user G prio rootnt start tEND fuel A rel LA R qe fuel' u t HT fresh Hne Hqe S)).
  Qed.
End User.
