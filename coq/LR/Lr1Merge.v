(* LR/Lr1Merge.v - an independent, executable specification of the LALR(1) look-ahead sets:
   canonical LR(1) item sets (LR(0) item + look-ahead terminal; closure with FIRST of the
   remainder; goto; reachable states by fuelled BFS) merged by LR(0) core.  Exponential in
   general, meant for the small grammars of the correspondence streams, where it is compared
   by vm_compute with the look-ahead sets of the model of lalr_analysis.py (LR/Automaton.v).
   No proofs here (see Lr1Merge_proofs.v). *)
From Coq Require Import List Arith Bool ZArith.
From LV Require Import Cfg.Grammar LR.Driver LR.Automaton.
Import ListNotations.

Definition item1 := (nat * nat * nat)%type.      (* rule index, dot, look-ahead terminal *)

Definition item1_eqb (a b : item1) : bool :=
  let '(i, d, t) := a in let '(j, e, u) := b in Nat.eqb i j && Nat.eqb d e && Nat.eqb t u.
Definition item1_ltb (a b : item1) : bool :=
  let '(i, d, t) := a in let '(j, e, u) := b in
  Nat.ltb i j || (Nat.eqb i j && (Nat.ltb d e || (Nat.eqb d e && Nat.ltb t u))).

Fixpoint insert1 (x : item1) (l : list item1) : list item1 :=
  match l with
  | [] => [x]
  | y :: l' => if item1_eqb x y then l else if item1_ltb x y then x :: l else y :: insert1 x l'
  end.
Definition sort1 (l : list item1) : list item1 := fold_right insert1 [] l.
Definition mem1 (x : item1) (l : list item1) : bool := existsb (item1_eqb x) l.
Definition state1_eqb := list_eqb item1_eqb.

Section Lr1.
  Variable rules : list rule.
  Variable r0 : nat.                 (* the root rule  $root -> start *)
  Variable tEND : nat.

  Notation rule_at := (rule_at rules).

  (* ---- FIRST: bounded simultaneous iteration over the non-terminals ---- *)
  Definition nts_of : list nat := dedup_nat (map lhs rules).
  Definition terms_of : list nat :=
    dedup_nat (flat_map (fun r => flat_map (fun X => match X with T t => [t] | NT _ => [] end) (rhs r)) rules).

  Definition first_of (F : list (nat * list nat)) (a : nat) : list nat :=
    flat_map (fun p : nat * list nat => if Nat.eqb (fst p) a then snd p else []) F.

  (* FIRST of a symbol string under the table F *)
  Fixpoint first_seq (F : list (nat * list nat)) (ss : list symbol) : list nat :=
    match ss with
    | [] => []
    | T t :: _ => [t]
    | NT b :: ss' => first_of F b ++ (if nullable rules (NT b) then first_seq F ss' else [])
    end.

  Definition first_step (F : list (nat * list nat)) : list (nat * list nat) :=
    map (fun a => (a, dedup_nat (flat_map (fun r => if Nat.eqb (lhs r) a then first_seq F (rhs r) else []) rules)))
        nts_of.

  Definition first_rounds : nat := S (length nts_of * S (length terms_of)).
  Definition first_tbl : list (nat * list nat) := iter first_rounds first_step (map (fun a => (a, [])) nts_of).

  (* ---- closure ---- *)
  Definition item1_next (it : item1) : option symbol := let '(i, d, _) := it in nth_error (rhs (rule_at i)) d.

  Definition predict (F : list (nat * list nat)) (it : item1) : list item1 :=
    let '(i, d, a) := it in
    match nth_error (rhs (rule_at i)) d with
    | Some (NT b) =>
        let las := dedup_nat (first_seq F (skipn (S d) (rhs (rule_at i)) ++ [T a])) in
        flat_map (fun j => if Nat.eqb (lhs (rule_at j)) b then map (fun t => (j, 0, t)) las else [])
                 (seq 0 (length rules))
    | _ => []
    end.

  Definition closure1_step (F : list (nat * list nat)) (J : list item1) : list item1 :=
    sort1 (J ++ flat_map (predict F) J).

  Fixpoint closure1_fix (fuel : nat) (F : list (nat * list nat)) (J : list item1) : list item1 :=
    match fuel with
    | O => J
    | S f => let J' := closure1_step F J in
             if Nat.eqb (length J') (length J) then J' else closure1_fix f F J'
    end.

  Definition closure_fuel : nat := S (length rules * S (S (length terms_of))).
  Definition closure1 (F : list (nat * list nat)) (K : list item1) : list item1 :=
    closure1_fix closure_fuel F (sort1 K).

  Definition goto1 (F : list (nat * list nat)) (J : list item1) (X : symbol) : list item1 :=
    closure1 F (flat_map (fun it : item1 => let '(i, d, a) := it in
                            match item1_next it with
                            | Some Y => if symbol_eqb X Y then [(i, S d, a)] else []
                            | None => [] end) J).

  Definition next_syms1 (J : list item1) : list symbol :=
    dedup_sym (flat_map (fun it => match item1_next it with Some X => [X] | None => [] end) J).

  (* ---- reachable states ---- *)
  Fixpoint add_new1 (ks seen : list (list item1)) : list (list item1) :=
    match ks with
    | [] => []
    | K :: ks' => if existsb (state1_eqb K) seen then add_new1 ks' seen else K :: add_new1 ks' (seen ++ [K])
    end.

  Fixpoint bfs1 (fuel : nat) (F : list (nat * list nat)) (work seen : list (list item1)) : option (list (list item1)) :=
    match fuel with
    | O => match work with [] => Some seen | _ => None end
    | S fuel' =>
      match work with
      | [] => Some seen
      | J :: work' =>
          let new := add_new1 (map (goto1 F J) (next_syms1 J)) seen in
          bfs1 fuel' F (work' ++ new) (seen ++ new)
      end
    end.

  Definition states1 (fuel : nat) : option (list (list item1)) :=
    let F := first_tbl in
    let J0 := closure1 F [(r0, 0, tEND)] in
    bfs1 fuel F [J0] [J0].

  (* ---- merge by LR(0) core ---- *)
  Definition core (J : list item1) : list item := sort_items (map (fun it : item1 => fst it) J).

  (* look-aheads of the complete item of rule i in the LR(0) state with item set C *)
  Definition lr1_la (S1 : list (list item1)) (C : list item) (i : nat) : list nat :=
    dedup_nat (flat_map (fun J => if kernel_eqb (core J) C
                                  then flat_map (fun it : item1 => let '(j, d, a) := it in
                                                   if Nat.eqb j i && Nat.eqb d (length (rhs (rule_at i))) then [a] else []) J
                                  else []) S1).
End Lr1.

(* ---- comparison with the model of lalr_analysis.py (harness) ---- *)
Definition set_eq_nat (l1 l2 : list nat) : bool :=
  forallb (fun x => mem_nat x l2) l1 && forallb (fun x => mem_nat x l1) l2.

(* case = (rules, root rule index, fuel); $END = 0, no priorities needed for look-aheads.
   true iff the model's LA(q, i) equals the merged LR(1) look-aheads for every state q and every
   non-root rule i *)
Definition check_lr1 (c : list rule * nat * nat) : bool :=
  let '(rules, r0, fuel) := c in
  match build_lr0 rules [r0] fuel, states1 rules r0 0 fuel with
  | Some A, Some S1 =>
      let LA := la_triples (compute_relations rules [r0] 0 A) in
      forallb (fun q =>
        forallb (fun i => if Nat.eqb i r0 then true else
                   set_eq_nat (flat_map (fun t : nat * nat * nat => let '(q', s, r) := t in
                                           if Nat.eqb q q' && Nat.eqb r i then [s] else []) LA)
                              (lr1_la rules S1 (closure_of A q) i))
                (seq 0 (length rules)))
        (seq 0 (nstates A))
  | _, _ => false
  end.
