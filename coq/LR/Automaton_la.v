(* LR/Automaton_la.v - la_closure: the model's digraph (hence Read, Follow and the look-ahead
   sets) is the LEAST solution of the DeRemer-Pennello equations
       F x = G x  U  U { F y | x R y }.
   |X| rounds of simultaneous iteration suffice (shortest witnesses are cycle-free paths). *)
From Coq Require Import List Arith Bool Lia.
From LV Require Import Cfg.Grammar LR.Driver LR.Automaton LR.Automaton_proofs LR.Automaton_wf.
Import ListNotations.

Section Digraph.
  Variable nts : list ntrans.
  Variable R : list (list ntrans).
  Variable G0 : list (list nat).
  Let n := length nts.
  Hypothesis HR : length R = n.
  Hypothesis HG : length G0 = n.

  Definition Gs (i : nat) : list nat := nth i G0 [].
  Definition Rs (i : nat) : list ntrans := nth i R [].
  Definition edge (i j : nat) : Prop := i < n /\ exists y, In y (Rs i) /\ index_of pair_eqb y nts = Some j.
  Definition M (F : list (list nat)) (i : nat) (t : nat) : Prop := In t (nth i F []).

  Lemma index_of_lt {A} (eqb : A -> A -> bool) x l j : index_of eqb x l = Some j -> j < length l.
  Proof.
    revert j; induction l as [|z l IH]; simpl; intros j H; try discriminate.
    destruct (eqb x z). inversion H; lia.
    destruct (index_of eqb x l); try discriminate. inversion H. specialize (IH _ eq_refl). lia.
  Qed.

  Lemma edge_lt i j : edge i j -> i < n /\ j < n.
  Proof. intros (Hi & y & _ & Hy). split; auto. eapply index_of_lt; eauto. Qed.

  Lemma step_length F : length (digraph_step nts R G0 F) = n.
  Proof. unfold digraph_step. rewrite map_length, combine_length, HR, HG. apply Nat.min_id. Qed.

  Lemma nth_combine {A B} (l1 : list A) (l2 : list B) i da db :
    i < length l1 -> i < length l2 -> nth i (combine l1 l2) (da, db) = (nth i l1 da, nth i l2 db).
  Proof.
    revert l2 i; induction l1; destruct l2, i; simpl; intros; try lia; auto. apply IHl1; lia.
  Qed.

  Lemma step_M F i t :
    M (digraph_step nts R G0 F) i t <->
    i < n /\ (In t (Gs i) \/ exists j, edge i j /\ M F j t).
  Proof.
    unfold M, digraph_step. destruct (lt_dec i n) as [Hi|Hi].
    - set (f := fun rg : list ntrans * list nat => dedup_nat (snd rg ++ flat_map (lookup_F nts F) (fst rg))).
      rewrite (nth_indep _ [] (f ([], []))) by (rewrite map_length, combine_length, HR, HG, Nat.min_id; exact Hi).
      rewrite map_nth, nth_combine by lia. unfold f. simpl.
      rewrite dedup_nat_In, in_app_iff, in_flat_map. fold (Gs i) (Rs i). split.
      + intros [H|(y & Hy & H)]; split; auto. right.
        unfold lookup_F in H. destruct (index_of pair_eqb y nts) as [j|] eqn:E; [|contradiction].
        exists j. split; auto. split; auto. exists y; auto.
      + intros (_ & [H|(j & (_ & y & Hy & E) & H)]); auto. right. exists y. split; auto.
        unfold lookup_F. now rewrite E.
    - split; [|tauto]. rewrite nth_overflow; [contradiction|].
      rewrite map_length, combine_length, HR, HG, Nat.min_id. lia.
  Qed.

  (* bounded reachability *)
  Inductive W : nat -> nat -> nat -> Prop :=
  | W0 k i t : i < n -> In t (Gs i) -> W k i t
  | WS k i j t : edge i j -> W k j t -> W (S k) i t.

  Lemma iter_S {A} (f : A -> A) k x : iter (S k) f x = f (iter k f x).
  Proof. revert x; induction k; simpl; intros; auto. now rewrite <- IHk. Qed.

  Lemma iter_M k : forall i t, M (iter k (digraph_step nts R G0) G0) i t <-> W k i t.
  Proof.
    induction k; intros i t.
    - simpl. unfold M. split.
      + intros H. apply W0; auto. destruct (lt_dec i n); auto.
        rewrite nth_overflow in H; [contradiction|lia].
      + intros H. inversion H; subst. assumption.
    - rewrite iter_S, step_M. split.
      + intros (Hi & [H|(j & He & H)]); [now apply W0|]. apply WS with j; auto. now apply IHk.
      + intros H. inversion H; subst.
        * split; auto.
        * split; [apply (edge_lt _ _ H1)|]. right. exists j. split; auto. now apply IHk.
  Qed.

  (* paths *)
  Inductive wpath : list nat -> Prop :=
  | wp1 i : i < n -> wpath [i]
  | wpS i j p : edge i j -> wpath (j :: p) -> wpath (i :: j :: p).

  Lemma wpath_suffix a : forall i b, wpath (a ++ i :: b) -> wpath (i :: b).
  Proof.
    induction a as [|x a IH]; simpl; intros i b H; auto.
    inversion H; subst.
    - destruct a; discriminate.
    - apply IH. rewrite <- H1. exact H3.
  Qed.

  Lemma wpath_lt p : wpath p -> forall x, In x p -> x < n.
  Proof.
    induction 1; intros x Hx.
    - destruct Hx as [<-|[]]; auto.
    - destruct Hx as [<-|Hx]; auto. apply (edge_lt _ _ H).
  Qed.

  Lemma last_app_cons {A} (a : list A) x b d : last (a ++ x :: b) d = last (x :: b) d.
  Proof. induction a as [|y a IH]; auto. simpl app. rewrite <- IH. simpl. destruct (a ++ x :: b) eqn:E; auto. destruct a; discriminate. Qed.

  Lemma NoDup_app_r {A} (a b : list A) : NoDup (a ++ b) -> NoDup b.
  Proof. induction a; simpl; auto. intros H. inversion H; auto. Qed.

  Lemma shorten p : forall i, wpath (i :: p) ->
    exists p', wpath (i :: p') /\ last (i :: p') 0 = last (i :: p) 0 /\ NoDup (i :: p') /\ incl p' p.
  Proof.
    induction p as [|j p IH]; intros i H.
    - exists []. repeat split; auto. constructor; auto. constructor. intros x [].
    - inversion H; subst. destruct (IH j H4) as (q & Hq & Hl & Hnd & Hinc).
      destruct (in_dec Nat.eq_dec i (j :: q)) as [Hin|Hnin].
      + apply in_split in Hin. destruct Hin as (a & b & E).
        exists b. split; [|split; [|split]].
        * apply (wpath_suffix a). rewrite <- E. exact Hq.
        * transitivity (last (j :: q) 0).
          -- rewrite E. symmetry. apply last_app_cons.
          -- rewrite Hl. reflexivity.
        * apply (NoDup_app_r a). rewrite <- E. exact Hnd.
        * intros x Hx. assert (Hx' : In x (j :: q)) by (rewrite E; apply in_app_iff; right; now right).
          destruct Hx' as [<-|Hx']; [now left|right; auto].
      + exists (j :: q). split; [|split; [|split]].
        * apply wpS; auto.
        * simpl in *. exact Hl.
        * constructor; auto.
        * intros x [<-|Hx]; [now left|right; auto].
  Qed.

  Lemma W_path k i t : W k i t -> exists p, wpath (i :: p) /\ In t (Gs (last (i :: p) 0)).
  Proof.
    induction 1.
    - exists []. split; auto. now constructor.
    - destruct IHW as (p & Hp & Ht). exists (j :: p). split; [now apply wpS|]. exact Ht.
  Qed.

  Lemma path_W p : forall i t, wpath (i :: p) -> In t (Gs (last (i :: p) 0)) -> W (length p) i t.
  Proof.
    induction p as [|j p IH]; intros i t H Ht.
    - inversion H; subst. now apply W0.
    - inversion H; subst. simpl length. apply WS with j; auto.
  Qed.

  Lemma W_mono k i t : W k i t -> forall k', k <= k' -> W k' i t.
  Proof.
    induction 1; intros k' Hk.
    - now apply W0.
    - destruct k'; [lia|]. apply WS with j; auto. apply IHW. lia.
  Qed.

  (* every witness can be found within n - 1 steps *)
  Lemma W_bound k i t : W k i t -> W (n - 1) i t.
  Proof.
    intros H. destruct (W_path _ _ _ H) as (p & Hp & Ht).
    destruct (shorten _ _ Hp) as (p' & Hp' & Hl & Hnd & _).
    rewrite <- Hl in Ht. apply (W_mono (length p')); [now apply path_W|].
    assert (Hlen : length (i :: p') <= length (seq 0 n)).
    { apply NoDup_incl_length; auto. intros x Hx. apply in_seq. pose proof (wpath_lt _ Hp' x Hx). lia. }
    rewrite seq_length in Hlen. simpl in Hlen. lia.
  Qed.

  Definition Fd : list (list nat) := digraph nts R G0.

  Lemma Fd_W i t : M Fd i t <-> exists k, W k i t.
  Proof.
    unfold Fd, digraph. fold n. rewrite iter_M. split; [eauto|].
    intros (k & H). apply (W_mono (n - 1)); [now apply (W_bound k)|lia].
  Qed.

  (* the result solves the equations ... *)
  Theorem digraph_solution i t :
    M Fd i t <-> i < n /\ (In t (Gs i) \/ exists j, edge i j /\ M Fd j t).
  Proof.
    rewrite Fd_W. split.
    - intros (k & H). inversion H; subst.
      + split; auto.
      + split; [apply (edge_lt _ _ H0)|]. right. exists j. split; auto. apply Fd_W. eauto.
    - intros (Hi & [H|(j & He & H)]).
      + exists 0. now apply W0.
      + apply Fd_W in H. destruct H as (k & H). exists (S k). now apply WS with j.
  Qed.

  (* ... and is below every other solution *)
  Theorem digraph_least (Phi : nat -> nat -> Prop) :
    (forall i t, i < n -> In t (Gs i) -> Phi i t) ->
    (forall i j t, edge i j -> Phi j t -> Phi i t) ->
    forall i t, M Fd i t -> Phi i t.
  Proof.
    intros H1 H2 i t H. apply Fd_W in H. destruct H as (k & H).
    induction H; eauto.
  Qed.
End Digraph.

Lemma digraph_length nts R G0 : length R = length nts -> length G0 = length nts ->
  length (digraph nts R G0) = length nts.
Proof.
  intros HR HG. unfold digraph.
  assert (G : forall k F, length F = length nts -> length (iter k (digraph_step nts R G0) F) = length nts).
  { induction k; simpl; auto. intros F HF. apply IHk. now apply step_length. }
  now apply G.
Qed.

(* a list of equations "F solves and is least" packaged as a predicate *)
Definition least_solution (nts : list ntrans) (R : list (list ntrans)) (G0 F : list (list nat)) : Prop :=
  (forall i t, M F i t <-> i < length nts /\ (In t (Gs G0 i) \/ exists j, edge nts R i j /\ M F j t)) /\
  (forall Phi : nat -> nat -> Prop,
     (forall i t, i < length nts -> In t (Gs G0 i) -> Phi i t) ->
     (forall i j t, edge nts R i j -> Phi j t -> Phi i t) ->
     forall i t, M F i t -> Phi i t).

Theorem digraph_least_solution nts R G0 :
  length R = length nts -> length G0 = length nts -> least_solution nts R G0 (digraph nts R G0).
Proof.
  intros HR HG. split.
  - intros i t. apply (digraph_solution nts R G0 HR HG).
  - intros Phi. apply (digraph_least nts R G0 HR HG).
Qed.

Lemma in_combine_nth {A B} (l1 : list A) (l2 : list B) a b da db :
  length l1 = length l2 ->
  (In (a, b) (combine l1 l2) <-> exists i, i < length l1 /\ nth i l1 da = a /\ nth i l2 db = b).
Proof.
  revert l2; induction l1 as [|x l1 IH]; destruct l2 as [|y l2]; simpl; intros HL; try discriminate.
  - split; [tauto|]. intros (i & Hi & _). lia.
  - rewrite IH by lia. split.
    + intros [E|(i & Hi & H1 & H2)].
      * inversion E; subst. exists 0. repeat split; auto. lia.
      * exists (S i). repeat split; auto. lia.
    + intros (i & Hi & H1 & H2). destruct i.
      * left. congruence.
      * right. exists i. repeat split; auto. lia.
Qed.

(* la_closure: Read is the least solution over [reads] from DR, Follow the least solution
   over [includes] from Read, and LA(q, r) is the union of Follow over lookback *)
Theorem la_closure rules roots tEND A :
  let rel := compute_relations rules roots tEND A in
  least_solution (r_nts rel) (r_reads rel) (r_dr rel) (read_sets rel) /\
  least_solution (r_nts rel) (r_includes rel) (read_sets rel) (follow_sets rel) /\
  forall q s r, In (q, s, r) (la_triples rel) <->
                exists i, i < length (r_nts rel) /\ In (q, r) (nth i (r_lookback rel) []) /\ M (follow_sets rel) i s.
Proof.
  intros rel.
  assert (L1 : length (r_reads rel) = length (r_nts rel)) by (unfold rel, compute_relations; simpl; apply map_length).
  assert (L2 : length (r_dr rel) = length (r_nts rel)) by (unfold rel, compute_relations; simpl; apply map_length).
  assert (L3 : length (r_includes rel) = length (r_nts rel)) by (unfold rel, compute_relations; simpl; apply map_length).
  assert (L4 : length (r_lookback rel) = length (r_nts rel)) by (unfold rel, compute_relations; simpl; apply map_length).
  assert (L5 : length (read_sets rel) = length (r_nts rel)) by (apply digraph_length; auto).
  assert (L6 : length (follow_sets rel) = length (r_nts rel)) by (apply digraph_length; auto).
  split; [|split].
  - apply digraph_least_solution; auto.
  - apply digraph_least_solution; auto.
  - intros q s r. unfold la_triples, la_triples_of. rewrite in_flat_map. split.
    + intros ((lb, f) & Hc & H). apply in_flat_map in H. destruct H as ((q', r') & Hlb & H).
      apply in_map_iff in H. destruct H as (s' & E & Hs). simpl in E. inversion E; subst.
      apply (in_combine_nth _ _ _ _ [] []) in Hc; [|lia]. destruct Hc as (i & Hi & H1 & H2).
      exists i. rewrite L4 in Hi. split; auto. split.
      * now rewrite H1.
      * unfold M. now rewrite H2.
    + intros (i & Hi & Hlb & Hs). exists (nth i (r_lookback rel) [], nth i (follow_sets rel) []). split.
      * apply (in_combine_nth _ _ _ _ [] []); [lia|]. exists i. rewrite L4. auto.
      * apply in_flat_map. exists (q, r). split; auto. apply in_map_iff. exists s. auto.
Qed.
