(* LR/Viable.v - definitions for the never-late half of C08 on the LALR side.
   An LR(0)-style item annotation of a parse table is VALID when, besides the local shape
   conditions of Driver_proofs.wf_items, every item of every state is justified:
     - a kernel item (dot > 0) by being there,
     - the root item  $root -> . start  in the start state,
     - a closure item  B -> . gamma  by a justified item  A -> alpha . B beta  of the same state,
   and every Shift on X leaves from a state that has an item expecting X.
   From this alone (no look-ahead correctness) every configuration of the driver spells a
   viable prefix when rule bodies are productive (Viable_proofs.v).  [viable] and
   [productive_bodies] are those of Earley/Prefix.v, so both halves of C08 speak the same
   language.  No proofs here. *)
From Coq Require Import List Arith Bool.
From LV Require Import Cfg.Grammar Earley.Spec Earley.Prefix LR.Driver LR.Driver_proofs.
Import ListNotations.

Section Viable.
  Variable G : grammar.              (* the rules the table mentions, INCLUDING the root rule *)
  Variable P : ptable.
  Variable start : nat.
  Variable items : state -> list (rule * nat).

  Inductive justified (q : state) : rule -> nat -> Prop :=
  | j_kernel r d : In (r, S d) (items q) -> justified q r (S d)
  | j_root r : q = pt_start P -> In r G -> rhs r = [NT start] -> justified q r 0
  | j_clos r r' d' : justified q r' d' -> In r' G -> nth_error (rhs r') d' = Some (NT (lhs r)) ->
                     In r G -> justified q r 0.

  Record wf_items_v : Prop := {
    wv_items : wf_items G P start items;
    wv_just : forall q r d, In (r, d) (items q) -> justified q r d;
    wv_src : forall q X q', pt_action P q X = Some (Shift q') ->
             exists r d, In (r, d) (items q) /\ In r G /\ nth_error (rhs r) d = Some X;
    wv_root : exists r, In r G /\ rhs r = [NT start] }.

  Section Tok.
    Variable tok : Type.
    Variable tmatch : nat -> tok -> bool.
    (* what is left of the item's rule can still be completed to a sentence after c *)
    Definition item_viable_lr (c : list tok) (r : rule) (d : nat) : Prop :=
      forall u, derives G tok tmatch (skipn d (rhs r)) u -> viable G tok tmatch start (c ++ u).
  End Tok.
End Viable.
