(* LR/DriverGen.v - ParserState.feed_token, _Parser.parse_from_state and the conflict resolution of
   LALR_Analyzer.compute_lalr1_states written over the decision conditions that the translator
   REGENERATES from the source on every run (Gen/LalrHoles.v, translator/gen_lalr.py): the statement
   skeleton below follows the pinned template line by line, every `if` / `assert` / slice bound is the
   regenerated Gallina term.  Lists are in PYTHON order here (the top of a stack is the LAST element),
   slices have Python's semantics (negative bounds count from the end, out-of-range bounds are clipped).
   LR/DriverGen_proofs.v proves these functions equal to the hand models LR/Driver.feed / parse and
   LR/Automaton.decide / row / compute_lalr.  Model only, no proofs. *)
From Coq Require Import List Arith Bool ZArith.
From LV Require Import Cfg.Grammar LR.Driver LR.Automaton Gen.LalrHoles.
Import ListNotations.

(* ---- Python list operations ---- *)
(* the index at which l[lo:] starts *)
Definition py_lo {A} (lo : Z) (l : list A) : nat :=
  if (lo <? 0)%Z then length l - Z.to_nat (- lo) else Nat.min (Z.to_nat lo) (length l).
Definition py_from {A} (lo : Z) (l : list A) : list A := skipn (py_lo lo l) l.       (* l[lo:]     *)
Definition py_del_from {A} (lo : Z) (l : list A) : list A := firstn (py_lo lo l) l.  (* del l[lo:] *)
Definition py_last {A} (l : list A) : option A :=                                     (* l[-1]; None = IndexError *)
  match rev l with [] => None | x :: _ => Some x end.

Section GDriver.
  Variable tok : Type.
  Variable ttype : tok -> nat.
  Variable P : ptable.

  Record gconfig := mkG { g_states : list state; g_values : list (dtree tok) }.   (* Python order *)

  Inductive goutcome :=
  | GShifted (c : gconfig)
  | GAccepted (t : dtree tok)
  | GUnexpected (c : gconfig)
  | GAssert (c : gconfig)
  | GCrash (c : gconfig)
  | GFuel.

  Definition is_shift_b (a : action) : bool := match a with Shift _ => true | Reduce _ => false end.
  (* `arg` as an integer: a state number, or -1 for a Rule object (a Rule never equals a state) *)
  Definition arg_z (a : action) : Z := match a with Shift q => Z.of_nat q | Reduce _ => (-1)%Z end.

  Fixpoint gfeed (fuel : nat) (c : gconfig) (k : tok) (is_end : bool) : goutcome :=
    match fuel with
    | O => GFuel
    | S fuel' =>
      let e := Z.of_nat (pt_end P) in                                    (* end_state = self.parse_conf.end_state *)
      match py_last (g_states c) with
      | None => GCrash c                                                  (* state = state_stack[-1] *)
      | Some st =>
        match pt_action P st (T (ttype k)) with                           (* action, arg = states[state][token.type] *)
        | None => GUnexpected c                                           (* except KeyError: raise UnexpectedToken *)
        | Some a =>
          let sh := is_shift_b a in
          let arg := arg_z a in
          let s := Z.of_nat st in
          if negb (ft_arg_ok is_end sh arg e s) then GAssert c            (* assert H_arg_ok *)
          else if ft_is_shift is_end sh arg e s then                      (* if H_is_shift: *)
            match a with
            | Shift q' =>
                if negb (ft_shift_ok is_end sh arg e s) then GAssert c    (* assert H_shift_ok *)
                else GShifted (mkG (g_states c ++ [q']) (g_values c ++ [Leaf k]))
            | Reduce _ => GCrash c                                        (* a Rule pushed as a state: outside the model *)
            end
          else
            match a with
            | Shift _ => GCrash c                                         (* len(arg.expansion) on a state: AttributeError *)
            | Reduce r =>
              let size := Z.of_nat (length (rhs r)) in                    (* size = len(rule.expansion) *)
              let guard := ft_pop_guard is_end size e in                  (* if H_pop_guard: *)
              let sv := if guard then py_from (ft_lo_values is_end size e) (g_values c) else [] in
              let ss := if guard then py_del_from (ft_lo_del_states is_end size e) (g_states c) else g_states c in
              let vs := if guard then py_del_from (ft_lo_del_values is_end size e) (g_values c) else g_values c in
              match py_last ss with
              | None => GCrash (mkG ss vs)                                (* state_stack[-1]: IndexError *)
              | Some q2 =>
                match pt_action P q2 (NT (lhs r)) with                    (* _action, new_state = states[...][rule.origin.name] *)
                | None => GCrash (mkG ss vs)
                | Some a2 =>
                  let gsh := is_shift_b a2 in
                  let ns := arg_z a2 in
                  if negb (ft_goto_ok is_end gsh ns e) then GAssert (mkG ss vs)   (* assert H_goto_ok *)
                  else match a2 with
                       | Reduce _ => GCrash (mkG ss vs)                   (* a Rule pushed as a state: outside the model *)
                       | Shift q3 =>
                           let c' := mkG (ss ++ [q3]) (vs ++ [Node r sv]) in
                           if ft_accept is_end gsh ns e then GAccepted (Node r sv)   (* if H_accept: return value_stack[-1] *)
                           else gfeed fuel' c' k is_end
                       end
                end
              end
            end
        end
      end
    end.

  (* for token in state.lexer.lex(state): state.feed_token(token) *)
  Fixpoint gfeed_all (fuel : nat) (c : gconfig) (w : list tok) : goutcome :=
    match w with
    | [] => GShifted c
    | k :: w' =>
      match gfeed fuel c k pfs_loop_is_end with
      | GShifted c' => gfeed_all fuel c' w'
      | o => o
      end
    end.

  (* ParserState.__init__: state_stack = [start_state], value_stack = [] *)
  Definition ginit : gconfig := mkG [pt_start P] [].

  (* parse_from_state: ... ; return state.feed_token(end_token, H_end_flag) *)
  Definition gparse (fuel : nat) (w : list tok) (end_tok : tok) : goutcome :=
    match gfeed_all fuel ginit w with
    | GShifted c => gfeed fuel c end_tok pfs_end_is_end
    | o => o
    end.
End GDriver.

Arguments mkG {tok} g_states g_values.
Arguments g_states {tok} g.
Arguments g_values {tok} g.
Arguments GShifted {tok} c.
Arguments GAccepted {tok} t.
Arguments GUnexpected {tok} c.
Arguments GAssert {tok} c.
Arguments GCrash {tok} c.
Arguments GFuel {tok}.

(* ---- compute_lalr1_states: the resolution block over the regenerated conditions ---- *)
(* p.sort(key=lambda r: r[0]) without reverse: stable insertion sort, ascending *)
Fixpoint insert_asc (x : Z * nat) (l : list (Z * nat)) : list (Z * nat) :=
  match l with
  | [] => [x]
  | y :: l' => if Z.ltb (fst x) (fst y) then x :: l else y :: insert_asc x l'
  end.
Definition sort_asc (l : list (Z * nat)) : list (Z * nat) := fold_right insert_asc [] l.

Section GAuto.
  Variable rules : list rule.
  Variable prio : list Z.

  (* for la, rules in itemset.lookaheads.items(): if H_multi: ... best, second_best = p[:2]; if H_winner ... ; rule ,= rules *)
  Definition gdecide (rs : list nat) : la_decision :=
    if rr_needs_resolution (Z.of_nat (length rs)) then
      match (if rr_sort_descending then sort_desc else sort_asc) (map (fun r => (prio_of prio r, r)) rs) with
      | (p1, r1) :: (p2, _) :: _ => if rr_winner p1 p2 then Use r1 else Collision
      | _ => Collision                       (* best, second_best = p[:2] raises: fewer than two entries *)
      end
    else match rs with
         | [r] => Use r                      (* rule ,= rules *)
         | _ => Collision                    (* rule ,= rules raises (never: look-ahead sets are non-empty) *)
         end.

  Variable A : lr0.

  (* if H_has_shift: (log) else: actions[la] = (Reduce, rule) *)
  Definition greduce_entries (LA : list (nat * nat * nat)) (q : nat) : list (symbol * action) :=
    flat_map (fun s => match gdecide (la_rules LA q s) with
                       | Use r => if sr_keeps_shift (mem_sym (T s) (map fst (trans_of A q))) then []
                                  else [(T s, Reduce (rule_at rules r))]
                       | Collision => [] end) (la_terms LA q).

  Definition grow (LA : list (nat * nat * nat)) (q : nat) : list (symbol * action) :=
    shift_entries A q ++ greduce_entries LA q.

  Definition gcollisions (LA : list (nat * nat * nat)) : list (nat * nat * list nat) :=
    flat_map (fun q =>
      flat_map (fun s => match gdecide (la_rules LA q s) with
                         | Collision => [(q, s, la_rules LA q s)]
                         | Use _ => [] end) (la_terms LA q)) (seq 0 (nstates A)).

  Definition gtable_rows (LA : list (nat * nat * nat)) : rows := map (fun q => (q, grow LA q)) (seq 0 (nstates A)).
End GAuto.

(* compute_lalr: ...; compute_lalr1_states(): if H_any_collision: raise GrammarError *)
Definition gcompute_lalr (rules : list rule) (prio : list Z) (roots : list nat) (tEND fuel : nat) : analysis :=
  match build_lr0 rules roots fuel with
  | None => AFuel
  | Some A =>
      let rel := compute_relations rules roots tEND A in
      let LA := la_triples rel in
      let cs := gcollisions prio A LA in
      if rr_raises (match cs with [] => true | _ => false end) (Z.of_nat (length cs))
      then AConflict A rel LA cs
      else ATable A rel LA (gtable_rows rules prio A LA)
  end.
