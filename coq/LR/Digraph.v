(* LR/Digraph.v - digraph() / traverse() of lark/parsers/lalr_analysis.py AS CODED.
   Nodes are 0 .. n-1 (the harness numbers lark's nodes by their position in X).
   Python objects are modelled by a small heap: a set object is a cell (index into [dH]); G maps a
   node to the cell of its set, F maps a node to a cell as well, so that
       F[x] = G[x]            aliases the caller's set,
       F[x].update(F[y])      mutates that cell (visible through every alias),
       F[z] = f_x             (SCC pop) makes all members of the SCC share one cell.
   S is the stack (top first), N the index map (0 unvisited, d > 0 on the stack, -1 done).
   One unit of fuel per nested traverse() call; out of fuel, a failed assert and a KeyError /
   IndexError are all [None].  No proofs here (see Digraph_proofs.v). *)
From Coq Require Import List Arith Bool ZArith.
From LV Require Import LR.Automaton.
Import ListNotations.
Local Open Scope Z_scope.

Fixpoint upd {A} (l : list A) (i : nat) (v : A) : list A :=
  match l, i with
  | [], _ => []
  | _ :: l', O => v :: l'
  | a :: l', S i' => a :: upd l' i' v
  end.

(* set.update as list append without duplicates *)
Definition union (a b : list nat) : list nat := a ++ filter (fun t => negb (mem_nat t a)) b.

Record dstate := mkD {
  dS : list nat;              (* S, top first *)
  dN : list Z;                (* N *)
  dF : list (option nat);     (* F: node -> cell *)
  dH : list (list nat) }.     (* the heap of set objects *)

Definition getN (st : dstate) (x : nat) : Z := nth x (dN st) 0.
Definition getF (st : dstate) (x : nat) : option nat := nth x (dF st) None.
Definition cell (st : dstate) (c : nat) : list nat := nth c (dH st) [].

(* while True: z = S.pop(); N[z] = -1; F[z] = f_x; if z == x: break *)
Fixpoint pop_until (x fx : nat) (S0 : list nat) (N : list Z) (F : list (option nat))
  : option (list nat * list Z * list (option nat)) :=
  match S0 with
  | [] => None                                             (* pop from empty list *)
  | z :: S' => let N' := upd N z (-1) in
               let F' := upd F z (Some fx) in
               if Nat.eqb z x then Some (S', N', F') else pop_until x fx S' N' F'
  end.

Section Coded.
  Variable R : list (list nat).      (* R[x] in iteration order *)
  Variable gc : list nat.            (* G: node -> cell *)

  Fixpoint traverse (fuel : nat) (x : nat) (st : dstate) : option dstate :=
    match fuel with
    | O => None
    | S f =>
      let S1 := x :: dS st in                                   (* S.append(x) *)
      let d := Z.of_nat (length S1) in                          (* d = len(S) *)
      let st1 := mkD S1 (upd (dN st) x d)                       (* N[x] = d *)
                     (upd (dF st) x (Some (nth x gc O)))        (* F[x] = G[x] *)
                     (dH st) in
      match (fix loop (ys : list nat) (st : dstate) : option dstate :=
               match ys with
               | [] => Some st
               | y :: ys' =>
                 match (if getN st y =? 0 then traverse f y st else Some st) with
                 | None => None
                 | Some st' =>
                   let n_x := getN st' x in
                   let n_y := getN st' y in
                   if negb (0 <? n_x) then None                 (* assert n_x > 0 *)
                   else if n_y =? 0 then None                   (* assert n_y != 0 *)
                   else
                     let N'' := if (0 <? n_y) && (n_y <? n_x) then upd (dN st') x n_y else dN st' in
                     match getF st' x, getF st' y with
                     | Some cx, Some cy =>                      (* F[x].update(F[y]) *)
                         loop ys' (mkD (dS st') N'' (dF st')
                                       (upd (dH st') cx (union (cell st' cx) (cell st' cy))))
                     | _, _ => None
                     end
                 end
               end) (nth x R []) st1 with
      | None => None
      | Some st2 =>
          if getN st2 x =? d then
            match getF st2 x with
            | Some fx => match pop_until x fx (dS st2) (dN st2) (dF st2) with
                         | Some (S', N', F') => Some (mkD S' N' F' (dH st2))
                         | None => None
                         end
            | None => None
            end
          else Some st2
      end
    end.

  (* for x in X: if N[x] == 0: traverse(x, ...) *)
  Fixpoint outer (fuel : nat) (xs : list nat) (st : dstate) : option dstate :=
    match xs with
    | [] => Some st
    | x :: xs' => if getN st x =? 0
                  then match traverse fuel x st with Some st' => outer fuel xs' st' | None => None end
                  else outer fuel xs' st
    end.
End Coded.

(* digraph(X, R, G) with X = 0 .. n-1, G given as node -> cell over the heap H.
   Returns F (node -> cell) and the heap afterwards. *)
Definition digraph_coded (n : nat) (R : list (list nat)) (gc : list nat) (H : list (list nat))
  : option (list (option nat) * list (list nat)) :=
  match outer R gc (S n) (seq 0 n) (mkD [] (repeat 0 n) (repeat None n) H) with
  | Some st => Some (dF st, dH st)
  | None => None
  end.

Definition fset (F : list (option nat)) (H : list (list nat)) (x : nat) : list nat :=
  match nth x F None with Some c => nth c H [] | None => [] end.

(* compute_lookaheads as coded:  read_sets = digraph(X, reads, DR);  follow_sets = digraph(X, includes, read_sets).
   The second call receives the first call's F as its G: same cells, same heap. *)
Definition digraph_twice (n : nat) (R1 R2 : list (list nat)) (G : list (list nat))
  : option (list (list nat) * list (list nat)) :=
  match digraph_coded n R1 (seq 0 n) G with
  | None => None
  | Some (F1, H1) =>
      let gc2 := map (fun c => match c with Some c => c | None => O end) F1 in
      match digraph_coded n R2 gc2 H1 with
      | None => None
      | Some (F2, H2) => Some (map (fset F1 H2) (seq 0 n), map (fset F2 H2) (seq 0 n))
      end
  end.

(* ---- harness comparison ---- *)
Local Close Scope Z_scope.
Definition sets_eq (l1 l2 : list (list nat)) : bool :=
  Nat.eqb (length l1) (length l2) &&
  forallb (fun p : list nat * list nat =>
             forallb (fun t => mem_nat t (snd p)) (fst p) && forallb (fun t => mem_nat t (fst p)) (snd p))
          (combine l1 l2).

(* single call: case = ([(R x, G x)], expected F, expected G after the call (mutated by aliasing)) *)
Definition check_digraph_coded (c : list (list nat * list nat) * list (list nat) * list (list nat)) : bool :=
  let '(rows, expF, expG) := c in
  let n := length rows in
  match digraph_coded n (map fst rows) (seq 0 n) (map snd rows) with
  | Some (F, H) => sets_eq (map (fset F H) (seq 0 n)) expF && sets_eq H expG
  | None => false
  end.

(* two calls as in compute_lookaheads: case = ([(R1 x, R2 x, G x)], expected F1 after both calls, expected F2) *)
Definition check_digraph_twice (c : list (list nat * list nat * list nat) * list (list nat) * list (list nat)) : bool :=
  let '(rows, exp1, exp2) := c in
  let n := length rows in
  match digraph_twice n (map (fun r => fst (fst r)) rows) (map (fun r => snd (fst r)) rows) (map snd rows) with
  | Some (F1, F2) => sets_eq F1 exp1 && sets_eq F2 exp2
  | None => false
  end.
