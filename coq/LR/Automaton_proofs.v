(* LR/Automaton_proofs.v - theorems about the model of compute_lalr1_states (LR/Automaton.v):
   shift preference, reduce entries only without a shift, the reduce/reduce rule (strict
   priority maximum, else collision), and "GrammarError iff some collision". *)
From Coq Require Import List Arith Bool ZArith Lia Permutation Sorted.
From LV Require Import Cfg.Grammar LR.Driver LR.Automaton.
Import ListNotations.

(* ---------- generic helpers ---------- *)
Lemma assoc_sym_app X l1 l2 :
  assoc_sym X (l1 ++ l2) = match assoc_sym X l1 with Some a => Some a | None => assoc_sym X l2 end.
Proof.
  induction l1 as [|[Y a] l1 IH]; simpl; auto. destruct (symbol_eqb X Y); auto.
Qed.

Lemma assoc_sym_In X l a : assoc_sym X l = Some a -> In (X, a) l.
Proof.
  induction l as [|[Y b] l IH]; simpl; try discriminate.
  destruct (symbol_eqb_spec X Y); intros H.
  - inversion H; subst; auto.
  - right; auto.
Qed.

Lemma mem_sym_In X l : mem_sym X l = true <-> In X l.
Proof.
  induction l as [|Y l IH]; simpl.
  - split; [discriminate|tauto].
  - rewrite orb_true_iff, IH. destruct (symbol_eqb_spec X Y); split; intros H; auto.
    + destruct H as [H|H]; [discriminate|auto].
    + destruct H as [H|H]; [congruence|auto].
Qed.

Lemma mem_nat_In x l : mem_nat x l = true <-> In x l.
Proof.
  induction l as [|y l IH]; simpl.
  - split; [discriminate|tauto].
  - rewrite orb_true_iff, IH, Nat.eqb_eq. split; intros [H|H]; auto.
Qed.

Section Dedup.
  Variable A : Type.
  Variable eqb : A -> A -> bool.
  Hypothesis eqb_eq : forall x y, eqb x y = true <-> x = y.

  Lemma existsb_eqb_In x l : existsb (eqb x) l = true <-> In x l.
  Proof.
    rewrite existsb_exists. split.
    - intros (y & Hy & E). apply eqb_eq in E. now subst.
    - intros H. exists x. split; auto. now apply eqb_eq.
  Qed.

  Lemma dedup_In x l : In x (dedup_with eqb l) <-> In x l.
  Proof.
    induction l as [|y l IH]; simpl; [tauto|].
    destruct (existsb (eqb y) l) eqn:E.
    - rewrite IH. split; auto. intros [->|H]; auto. now apply existsb_eqb_In.
    - simpl. rewrite IH. tauto.
  Qed.

  Lemma dedup_NoDup l : NoDup (dedup_with eqb l).
  Proof.
    induction l as [|y l IH]; simpl; [constructor|].
    destruct (existsb (eqb y) l) eqn:E; auto.
    constructor; auto. rewrite dedup_In. intros H. apply existsb_eqb_In in H. congruence.
  Qed.
End Dedup.

Lemma dedup_nat_In x l : In x (dedup_nat l) <-> In x l.
Proof. apply dedup_In. apply Nat.eqb_eq. Qed.
Lemma dedup_nat_NoDup l : NoDup (dedup_nat l).
Proof. apply dedup_NoDup. apply Nat.eqb_eq. Qed.

(* ---------- the descending sort ---------- *)
Definition ge_fst (a b : Z * nat) : Prop := (fst b <= fst a)%Z.

Lemma insert_desc_perm x l : Permutation (insert_desc x l) (x :: l).
Proof.
  induction l as [|y l IH]; simpl; auto.
  destruct (Z.ltb (fst y) (fst x)); auto.
  rewrite IH. apply perm_swap.
Qed.

Lemma sort_desc_perm l : Permutation (sort_desc l) l.
Proof.
  induction l as [|x l IH]; simpl; auto.
  rewrite insert_desc_perm. now constructor.
Qed.

Lemma insert_desc_sorted x l : StronglySorted ge_fst l -> StronglySorted ge_fst (insert_desc x l).
Proof.
  induction 1 as [|y l Hs IH Hall]; simpl.
  - repeat constructor.
  - destruct (Z.ltb_spec (fst y) (fst x)).
    + constructor. constructor; auto. constructor.
      * unfold ge_fst; lia.
      * eapply Forall_impl; [|exact Hall]. unfold ge_fst; intros; lia.
    + constructor; auto.
      assert (Hp : Permutation (x :: l) (insert_desc x l)) by (symmetry; apply insert_desc_perm).
      apply (Permutation_Forall Hp). constructor; auto.
  Qed.

Lemma sort_desc_sorted l : StronglySorted ge_fst (sort_desc l).
Proof. induction l; simpl; [constructor|]. now apply insert_desc_sorted. Qed.

Section Rules.
  Variable rules : list rule.
  Variable prio : list Z.
  Variable roots : list nat.
  Variable tEND : nat.

  Notation prio_of := (prio_of prio).
  Notation decide := (decide prio).

  (* r is the strict priority maximum of rs *)
  Definition strict_max (rs : list nat) (r : nat) : Prop :=
    In r rs /\ forall r', In r' rs -> r' <> r -> (prio_of r' < prio_of r)%Z.

  Lemma in_map_pair rs p r : In (p, r) (map (fun r => (prio_of r, r)) rs) <-> In r rs /\ p = prio_of r.
  Proof.
    rewrite in_map_iff. split.
    - intros (x & E & H). inversion E; subst; auto.
    - intros (H & ->). exists r; auto.
  Qed.

  (* rr_resolution: with more than one candidate the rule chosen is the strict priority
     maximum, and there is a collision exactly when no strict maximum exists
     (p.sort(reverse=True); best[0] > second_best[0]) *)
  Theorem decide_use rs r : NoDup rs -> rs <> [] -> (decide rs = Use r <-> strict_max rs r).
  Proof.
    intros ND NE. unfold Automaton.decide.
    destruct rs as [|a [|b rs']]; [congruence| |].
    - split.
      + intros H; inversion H; subst. split; [now left|]. intros r' [->|[]] Hne; congruence.
      + intros ([->|[]] & _); reflexivity.
    - set (rs := a :: b :: rs') in *.
      pose proof (sort_desc_perm (map (fun r => (prio_of r, r)) rs)) as HP.
      pose proof (sort_desc_sorted (map (fun r => (prio_of r, r)) rs)) as HS.
      destruct (sort_desc (map (fun r => (prio_of r, r)) rs)) as [|[p1 r1] [|[p2 r2] rest]] eqn:E.
      + apply Permutation_length in HP. simpl in HP. rewrite map_length in HP. discriminate.
      + apply Permutation_length in HP. simpl in HP. rewrite map_length in HP. simpl in HP. discriminate.
      + assert (H1 : In r1 rs /\ p1 = prio_of r1).
        { apply in_map_pair. eapply Permutation_in; [exact HP|]. now left. }
        assert (H2 : In r2 rs /\ p2 = prio_of r2).
        { apply in_map_pair. eapply Permutation_in; [exact HP|]. right; now left. }
        assert (NDs : NoDup (map snd ((p1, r1) :: (p2, r2) :: rest))).
        { eapply Permutation_NoDup; [apply Permutation_map; symmetry; exact HP|].
          rewrite map_map. simpl. now rewrite map_id. }
        simpl in NDs. inversion NDs as [|? ? Hn1 NDs']; subst.
        assert (Hne12 : r2 <> r1). { intros ->. apply Hn1. now left. }
        inversion HS as [|? ? HS' Hall1]; subst. inversion HS' as [|? ? _ Hall2]; subst.
        assert (Hle : forall p r, In (p, r) ((p2, r2) :: rest) -> (p <= p2)%Z).
        { intros p0 r0 [Heq|Hin].
          - inversion Heq; lia.
          - rewrite Forall_forall in Hall2. apply (Hall2 _ Hin). }
        destruct (Z.ltb_spec p2 p1) as [Hlt|Hge]; split.
        * intros H; inversion H; subst r. destruct H1 as (Hin1 & ->). split; auto.
          intros r' Hin' Hne.
          assert (Hin2 : In (prio_of r', r') ((prio_of r1, r1) :: (p2, r2) :: rest)).
          { eapply Permutation_in; [symmetry; exact HP|]. apply in_map_pair; auto. }
          destruct Hin2 as [Heq|Hin2]; [inversion Heq; congruence|].
          specialize (Hle _ _ Hin2). lia.
        * intros (Hin & Hmax). f_equal.
          destruct (Nat.eq_dec r1 r) as [|Hne]; auto. exfalso.
          destruct H1 as (Hin1 & ->). specialize (Hmax r1 Hin1 Hne).
          assert (Hin2 : In (prio_of r, r) ((prio_of r1, r1) :: (p2, r2) :: rest)).
          { eapply Permutation_in; [symmetry; exact HP|]. apply in_map_pair; auto. }
          destruct Hin2 as [Heq|Hin2]; [inversion Heq; congruence|].
          specialize (Hle _ _ Hin2). lia.
        * discriminate.
        * intros (Hin & Hmax). exfalso.
          destruct H1 as (Hin1 & ->). destruct H2 as (Hin2 & ->).
          destruct (Nat.eq_dec r r1) as [->|Hne].
          -- specialize (Hmax r2 Hin2 Hne12). lia.
          -- specialize (Hmax r1 Hin1 (fun e => Hne (eq_sym e))).
             assert (Hin3 : In (prio_of r, r) ((prio_of r1, r1) :: (prio_of r2, r2) :: rest)).
             { eapply Permutation_in; [symmetry; exact HP|]. apply in_map_pair; auto. }
             destruct Hin3 as [Heq|Hin3]; [inversion Heq; congruence|].
             specialize (Hle _ _ Hin3).
             assert (H21 : (prio_of r2 <= prio_of r1)%Z) by (inversion Hall1; assumption).
             lia.
  Qed.

  Corollary decide_collision rs : NoDup rs -> rs <> [] ->
    (decide rs = Collision <-> ~ exists r, strict_max rs r).
  Proof.
    intros ND NE. split.
    - intros H (r & Hr). apply (decide_use rs r ND NE) in Hr. congruence.
    - intros H. destruct (decide rs) as [r|] eqn:E; auto.
      exfalso. apply H. exists r. now apply (decide_use rs r ND NE).
  Qed.

  Variable A : lr0.
  Variable LA : list (nat * nat * nat).

  Notation row := (row rules prio A LA).
  Notation trans := (trans A).

  Lemma assoc_shift_entries X q :
    assoc_sym X (shift_entries A q) = option_map Shift (assoc_trans X (trans_of A q)).
  Proof.
    unfold shift_entries. induction (trans_of A q) as [|[Y q'] l IH]; simpl; auto.
    destruct (symbol_eqb X Y); auto.
  Qed.

  Lemma assoc_trans_mem X l : assoc_trans X l = None <-> mem_sym X (map fst l) = false.
  Proof.
    induction l as [|[Y q'] l IH]; simpl; [tauto|].
    destruct (symbol_eqb X Y); simpl; auto. split; discriminate.
  Qed.

  (* shift_preferred: a transition on X always yields the Shift entry, whatever the
     look-ahead sets say *)
  Theorem shift_preferred q X q' :
    trans q X = Some q' -> assoc_sym X (row q) = Some (Shift q').
  Proof.
    unfold Automaton.trans, Automaton.row. intros H.
    now rewrite assoc_sym_app, assoc_shift_entries, H.
  Qed.

  (* a Reduce entry exists only where there is no transition, and it is the rule decided
     for that look-ahead terminal *)
  Theorem reduce_only_without_shift q X r :
    assoc_sym X (row q) = Some (Reduce r) ->
    trans q X = None /\ exists s i, X = T s /\ r = rule_at rules i /\ In s (la_terms LA q) /\
                                     decide (la_rules LA q s) = Use i.
  Proof.
    unfold Automaton.trans, Automaton.row. rewrite assoc_sym_app, assoc_shift_entries.
    destruct (assoc_trans X (trans_of A q)) eqn:E; simpl; [discriminate|].
    intros H. split; auto. apply assoc_sym_In in H. unfold reduce_entries in H.
    apply in_flat_map in H. destruct H as (s & Hs & H).
    destruct (Automaton.decide prio (la_rules LA q s)) as [i|] eqn:D; [|contradiction].
    destruct (mem_sym (T s) (map fst (trans_of A q))); [contradiction|].
    destruct H as [H|[]]. inversion H; subst. exists s, i. auto.
  Qed.

  Lemma la_rules_NoDup q s : NoDup (la_rules LA q s).
  Proof. apply dedup_nat_NoDup. Qed.

  Lemma la_rules_nonempty q s : In s (la_terms LA q) -> la_rules LA q s <> [].
  Proof.
    unfold la_terms, la_rules. rewrite dedup_nat_In, in_flat_map.
    intros (((q', s'), r) & Hin & H).
    destruct (Nat.eqb_spec q q'); [|contradiction]. destruct H as [->|[]]. subst q'.
    assert (Hr : In r (dedup_nat (flat_map (fun t : nat * nat * nat => let '(q', s', r) := t in
                             if Nat.eqb q q' && Nat.eqb s s' then [r] else []) LA))).
    { apply dedup_nat_In. apply in_flat_map. exists (q, s, r). split; auto.
      rewrite !Nat.eqb_refl. simpl. now left. }
    intros E. rewrite E in Hr. contradiction.
  Qed.

  (* collisions = exactly the (state, terminal) pairs whose rule set has no strict maximum *)
  Theorem collisions_spec q s rs :
    In (q, s, rs) (collisions prio A LA) <->
    q < nstates A /\ In s (la_terms LA q) /\ rs = la_rules LA q s /\ ~ exists r, strict_max rs r.
  Proof.
    unfold collisions. rewrite in_flat_map. split.
    - intros (q' & Hq & H). apply in_seq in Hq. apply in_flat_map in H. destruct H as (s' & Hs & H).
      destruct (Automaton.decide prio (la_rules LA q' s')) eqn:D; [contradiction|].
      destruct H as [H|[]]. inversion H; subst. repeat split; auto; try lia.
      apply decide_collision; auto using la_rules_NoDup, la_rules_nonempty.
    - intros (Hq & Hs & -> & Hn). exists q. split; [apply in_seq; lia|].
      apply in_flat_map. exists s. split; auto.
      apply decide_collision in Hn; auto using la_rules_NoDup, la_rules_nonempty.
      rewrite Hn. now left.
  Qed.
End Rules.

(* conflict_iff: the model reports GrammarError exactly when some state has, for some
   look-ahead terminal, at least two rules none of which has strictly greatest priority *)
Theorem conflict_iff rules prio roots tEND fuel :
  match compute_lalr rules prio roots tEND fuel with
  | AConflict A rel LA cs =>
      cs <> [] /\ LA = la_triples rel /\
      forall q s rs, In (q, s, rs) cs <->
        q < nstates A /\ In s (la_terms LA q) /\ rs = la_rules LA q s /\ ~ exists r, strict_max prio rs r
  | ATable A rel LA R =>
      LA = la_triples rel /\ R = table_rows rules prio A LA /\
      forall q s, q < nstates A -> In s (la_terms LA q) -> exists r, strict_max prio (la_rules LA q s) r
  | AFuel => True
  end.
Proof.
  unfold compute_lalr. destruct (build_lr0 rules roots fuel) as [A|]; auto.
  set (rel := compute_relations rules roots tEND A). set (LA := la_triples rel).
  destruct (collisions prio A LA) as [|c cs] eqn:E.
  - split; auto. split; auto. intros q s Hq Hs.
    destruct (decide prio (la_rules LA q s)) as [r|] eqn:D.
    + exists r. apply (decide_use prio); auto using la_rules_NoDup, la_rules_nonempty.
    + exfalso. assert (H : In (q, s, la_rules LA q s) (collisions prio A LA)).
      { apply collisions_spec. repeat split; auto.
        apply (decide_collision prio); auto using la_rules_NoDup, la_rules_nonempty. }
      rewrite E in H. contradiction.
  - split; [discriminate|]. split; auto. intros q s rs. rewrite <- E. apply collisions_spec.
Qed.
