(* LR/Lalr_exact.v - never-early half of "the error is reported at the first offending token"
   for the model LALR parser on CONFLICT-FREE tables, and exactness of accepts().
   The driver is known to follow a derivation tree of any sentence (Lalr_complete.sim); a run
   over a sentence u ++ k :: v is cut at the point where k is shifted, and determinism of
   feed_all (fuel monotonicity) identifies the configuration reached there with the one the
   driver is actually in after consuming u. *)
From Coq Require Import List Arith Bool ZArith Lia.
From LV Require Import Cfg.Grammar Earley.Spec Earley.Prefix LR.Driver LR.Driver_proofs LR.Automaton
     LR.Automaton_proofs LR.Automaton_wf LR.Automaton_la LR.Automaton_complete LR.La_complete
     LR.Lalr_complete LR.Viable LR.Viable_proofs LR.Viable_model.
Import ListNotations.

(* ---------- fuel monotonicity: a definite outcome does not change with more fuel ---------- *)
Section Fuel.
  Variable P : ptable.
  Notation feed := (feed nat (fun k => k) P).
  Notation feed_all := (feed_all nat (fun k => k) P).

  Lemma feed_mono f : forall c k e o, feed f c k e = o -> o <> DFuel -> forall f', f <= f' -> feed f' c k e = o.
  Proof.
    induction f; intros c k e o H Hn f' Hf; simpl in H; [congruence|].
    destruct f' as [|f']; [lia|]. simpl.
    destruct (sstack c) as [|q ss]; auto.
    destruct (pt_action P q (T k)) as [[q'|r]|]; auto.
    destruct (skipn (length (rhs r)) (q :: ss)) as [|q2 ss2]; auto.
    destruct (pt_action P q2 (NT (lhs r))) as [[q3|r3]|]; auto.
    destruct (e && Nat.eqb q3 (pt_end P)); auto.
    apply IHf; auto. lia.
  Qed.

  Lemma feed_all_mono f : forall w c c', feed_all f c w = Shifted c' -> forall f', f <= f' -> feed_all f' c w = Shifted c'.
  Proof.
    induction w as [|k w IH]; intros c c' H f' Hf; simpl in *; auto.
    destruct (feed f c k false) as [c1| | | | |] eqn:E; try discriminate.
    rewrite (feed_mono f c k false _ E) by (auto; discriminate). eauto.
  Qed.

  Lemma feed_false_not_accepted f : forall c k t, feed f c k false <> Accepted t.
  Proof.
    induction f; intros c k t; simpl; [discriminate|].
    destruct (sstack c) as [|q ss]; [discriminate|].
    destruct (pt_action P q (T k)) as [[q'|r]|]; try discriminate.
    - destruct (Nat.eqb q' (pt_end P)); discriminate.
    - destruct (skipn (length (rhs r)) (q :: ss)) as [|q2 ss2]; [discriminate|].
      destruct (pt_action P q2 (NT (lhs r))) as [[q3|r3]|]; try discriminate. simpl. apply IHf.
  Qed.

  Lemma feed_all_not_accepted f : forall w c t, feed_all f c w <> Accepted t.
  Proof.
    induction w as [|k w IH]; intros c t; simpl; [discriminate|].
    destruct (feed f c k false) eqn:E; try discriminate; auto.
    intros H. inversion H; subst. eapply feed_false_not_accepted; eauto.
  Qed.

  Lemma feed_all_app f : forall w1 w2 c,
    feed_all f c (w1 ++ w2) = match feed_all f c w1 with Shifted c1 => feed_all f c1 w2 | o => o end.
  Proof.
    induction w1 as [|k w1 IH]; intros w2 c; simpl; auto.
    destruct (feed f c k false); auto.
  Qed.

  (* ---------- cutting a run where a given token is shifted ---------- *)
  Notation act := (pt_action P).

  Inductive prun : config nat -> list nat -> config nat -> Prop :=
  | prun_nil c : prun c [] c
  | prun_cons c k w c1 q ss q' c' :
      rsteps P k c c1 -> sstack c1 = q :: ss -> act q (T k) = Some (Shift q') ->
      prun (mkConfig (q' :: q :: ss) (Leaf k :: vstack c1)) w c' ->
      prun c (k :: w) c'.

  Lemma run_split w1 : forall c k w2 a c', run P c (w1 ++ k :: w2) a c' ->
    exists cu c1 q ss q', prun c w1 cu /\ rsteps P k cu c1 /\ sstack c1 = q :: ss /\ act q (T k) = Some (Shift q').
  Proof.
    induction w1 as [|k0 w1 IH]; intros c k w2 a c' H; simpl in H.
    - inversion H as [| ? ? ? ? c1 q ss q' ? Hs0 Hst0 Ha0 Hr0]; subst. exists c, c1, q, ss, q'. repeat split; auto. constructor.
    - inversion H as [| ? ? ? ? c1 q ss q' ? Hs0 Hst0 Ha0 Hr0]; subst.
      destruct (IH _ _ _ _ _ Hr0) as (cu & c2 & q2 & ss2 & q2' & Hp & Hs & Hst & Ha).
      exists cu, c2, q2, ss2, q2'. repeat split; auto. econstructor; eauto.
  Qed.

  Lemma run_prefix_all w : forall c a c', run P c w a c' -> exists cu, prun c w cu /\ rsteps P a cu c'.
  Proof.
    induction w as [|k w IH]; intros c a c' H; inversion H as [? ? ? Hs0 | ? ? ? ? c1 q ss q' ? Hs0 Hst0 Ha0 Hr0]; subst.
    - exists c. split; auto. constructor.
    - destruct (IH _ _ _ Hr0) as (cu & Hp & Hs). exists cu. split; auto. econstructor; eauto.
  Qed.

  Lemma prun_feed_all c w cu : prun c w cu ->
    (forall q k q', act q (T k) = Some (Shift q') -> q' <> pt_end P) ->
    exists f, forall f', f <= f' -> feed_all f' c w = Shifted cu.
  Proof.
    intros H Hne. induction H as [c | c k w c1 q ss q' c' Hs Hst Ha Hr IH].
    - exists 0. reflexivity.
    - destruct (feed_shift P k c c1 Hs q ss q' Hst Ha (Hne _ _ _ Ha)) as (f1 & Hf1).
      destruct IH as (f2 & Hf2). exists (max f1 f2). intros f' Hf. simpl.
      rewrite Hf1 by lia. apply Hf2. lia.
  Qed.
End Fuel.

Section ModelExact.
  Variable rules : list rule.
  Variable prio : list Z.
  Variable tEND fuel : nat.
  Variable A : lr0.
  Variable rel : relations.
  Variable LA : list (nat * nat * nat).
  Variable R : rows.
  Variable r0 rootnt start qe : nat.
  Hypothesis HT : compute_lalr rules prio [r0] tEND fuel = ATable A rel LA R.
  Hypothesis Hv : r0 < length rules.
  Hypothesis Hr0 : rule_at rules r0 = mkRule rootnt [NT start].
  Hypothesis fresh : forall r, In r rules -> ~ In (NT rootnt) (rhs r).
  Hypothesis Hqe : end_state rules [r0] A 0 = Some qe.
  Hypothesis CF : conflict_free A LA.

  Notation P := (model_ptable R 0 qe).
  Notation act := (pt_action P).
  Notation tm := (tmatch nat (fun k : nat => k)).
  Notation feed := (feed nat (fun k => k) P).
  Notation feed_all := (feed_all nat (fun k => k) P).

  Let Hgoto := goto_end rules prio tEND fuel A rel LA R r0 rootnt start qe HT Hv Hr0 fresh Hqe.
  Let WI := WIm rules prio tEND fuel A rel LA R r0 rootnt start qe HT Hv Hr0 fresh Hqe.

  Lemma shift_not_end q k q' : act q (T k) = Some (Shift q') -> q' <> pt_end P.
  Proof.
    intros Ha E. simpl in E. subst q'. destruct (wi_end _ _ _ _ WI _ _ Ha) as (_ & E). discriminate.
  Qed.

  (* the driver follows a derivation tree of any sentence *)
  Lemma sentence_run w : derives rules nat tm [NT start] w ->
    exists t, run P (mkConfig [0] []) w tEND (mkConfig [qe; 0] [t]).
  Proof.
    intros Hd. destruct (derives_forest rules _ _ Hd) as (cs & Hw & Hr & Hy).
    destruct cs as [|t [|t2 cs]]; try discriminate. simpl in Hr, Hy. rewrite app_nil_r in Hy.
    inversion Hr as [Hrt]. inversion Hw as [|? ? Hwt _]; subst. exists t.
    apply (sim rules prio tEND fuel A rel LA R r0 qe HT Hv CF (tsize nat t)); auto.
    - rewrite Hrt. exact Hgoto.
    - intros r cs ->. simpl in Hrt. inversion Hrt as [E]. rewrite E.
      exact (follow_root rules prio tEND fuel A rel LA R r0 rootnt start qe HT Hr0 Hgoto).
  Qed.

  (* never early: a token that can follow the consumed input is shifted *)
  Theorem never_early_rules f u c k v :
    feed_all f (init_config P) u = Shifted c ->
    derives rules nat tm [NT start] (u ++ k :: v) ->
    exists f' c', feed f' c k false = Shifted c'.
  Proof.
    intros Hf Hd. destruct (sentence_run _ Hd) as (t & Hrun).
    destruct (run_split P u _ k v tEND _ Hrun) as (cu & c1 & q & ss & q' & Hp & Hs & Hst & Ha).
    destruct (prun_feed_all P _ _ _ Hp shift_not_end) as (f1 & Hf1).
    assert (Ec : cu = c).
    { pose proof (Hf1 (max f f1) ltac:(lia)) as H1.
      pose proof (feed_all_mono P f u _ _ Hf (max f f1) ltac:(lia)) as H2.
      change (init_config P) with (mkConfig [0] (@nil (dtree nat))) in H2. congruence. }
    subst cu.
    destruct (feed_shift P k c c1 Hs q ss q' Hst Ha (shift_not_end _ _ _ Ha)) as (f2 & Hf2).
    exists f2. eexists. apply Hf2. lia.
  Qed.

  (* ... and $END is accepted after every sentence *)
  Theorem end_accepted_rules f u c :
    feed_all f (init_config P) u = Shifted c ->
    derives rules nat tm [NT start] u ->
    exists f' t, feed f' c tEND true = Accepted t.
  Proof.
    intros Hf Hd.
    destruct (model_complete_end rules prio tEND fuel A rel LA R r0 rootnt start qe HT Hv Hr0 fresh Hqe u CF Hd)
      as (f2 & t & Hp).
    unfold parse in Hp. change (ptable_of_rows R 0 qe) with P in Hp.
    destruct (feed_all f2 (init_config P) u) as [c2| | | | |] eqn:E2; try discriminate.
    - assert (Ec : c2 = c).
      { pose proof (feed_all_mono P f u _ _ Hf (max f f2) ltac:(lia)).
        pose proof (feed_all_mono P f2 u _ _ E2 (max f f2) ltac:(lia)). congruence. }
      subst c2. eauto.
    - exfalso. eapply feed_all_not_accepted; eauto.
  Qed.
End ModelExact.

(* ---- user level: rules = G ++ [$root -> start] ---- *)
Section UserExact.
  Variable G : grammar.
  Variable prio : list Z.
  Variable rootnt start tEND fuel : nat.
  Variable A : lr0.
  Variable rel : relations.
  Variable LA : list (nat * nat * nat).
  Variable R : rows.
  Variable qe : nat.
  Notation rules := (G ++ [mkRule rootnt [NT start]]).
  Notation tm := (tmatch nat (fun k : nat => k)).
  Hypothesis HT : compute_lalr rules prio [length G] tEND fuel = ATable A rel LA R.
  Hypothesis fresh : forall r, In r G -> ~ In (NT rootnt) (rhs r).
  Hypothesis Hne : start <> rootnt.
  Hypothesis Hqe : end_state rules [length G] A 0 = Some qe.

  Notation P := (ptable_of_rows R 0 qe).
  Notation feed := (feed nat (fun k => k) P).
  Notation feed_all := (feed_all nat (fun k => k) P).
  Notation viable := (viable G nat tm start).

  Lemma Hv_u : length G < length rules.
  Proof. rewrite app_length. simpl. lia. Qed.
  Lemma Hr0_u : rule_at rules (length G) = mkRule rootnt [NT start].
  Proof. unfold rule_at. apply nth_middle. Qed.
  Lemma incl_u : incl G rules.
  Proof. intros r Hr. apply in_app_iff. now left. Qed.

  Section CF.
    Hypothesis CF : conflict_free A LA.

    (* never early (1): a token that keeps the prefix viable is shifted *)
    Theorem never_early_shift f u c k :
      feed_all f (init_config P) u = Shifted c -> viable (u ++ [k]) ->
      exists f' c', feed f' c k false = Shifted c'.
    Proof.
      intros Hf (v & Hd). rewrite <- app_assoc in Hd. simpl in Hd.
      apply (never_early_rules rules prio tEND fuel A rel LA R (length G) rootnt start qe HT Hv_u Hr0_u
               (fresh' G rootnt start fresh Hne) Hqe CF f u c k v Hf).
      eapply derives_incl; [apply incl_u|exact Hd].
    Qed.

    (* never early (2): an UnexpectedToken on k means that k cannot follow the consumed input *)
    Theorem never_early_unexpected f u c f' k c' :
      feed_all f (init_config P) u = Shifted c -> feed f' c k false = Unexpected c' ->
      ~ viable (u ++ [k]).
    Proof.
      intros Hf Hu Hvi. destruct (never_early_shift f u c k Hf Hvi) as (f2 & c2 & H2).
      pose proof (feed_mono P f' c k false _ Hu ltac:(discriminate) (max f' f2) ltac:(lia)) as E1.
      pose proof (feed_mono P f2 c k false _ H2 ltac:(discriminate) (max f' f2) ltac:(lia)) as E2.
      congruence.
    Qed.

    (* $END is accepted after every sentence *)
    Theorem end_accepted f u c :
      feed_all f (init_config P) u = Shifted c -> derives G nat tm [NT start] u ->
      exists f' t, feed f' c tEND true = Accepted t.
    Proof.
      intros Hf Hd.
      apply (end_accepted_rules rules prio tEND fuel A rel LA R (length G) rootnt start qe HT Hv_u Hr0_u
               (fresh' G rootnt start fresh Hne) Hqe CF f u c Hf).
      eapply derives_incl; [apply incl_u|exact Hd].
    Qed.
  End CF.

  Section Prod.
    Hypothesis Hprod : productive_bodies G nat tm.
    Hypothesis Hstart : exists r, In r G /\ lhs r = start.

    (* what has been consumed is always a viable prefix (never late, configuration form) *)
    Lemma consumed_viable f u c : feed_all f (init_config P) u = Shifted c -> viable u.
    Proof.
      intros Hf. apply (viable_user G rootnt start fresh Hne).
      pose proof (WVu G prio rootnt start tEND fuel A rel LA R qe HT fresh Hne Hqe) as WV.
      pose proof (wf_items_table _ _ _ _ (wv_items _ _ _ _ WV)) as WT.
      assert (H0 : cfg_ok nat (fun k => k) rules (model_ptable R 0 qe) (init_config P))
        by (unfold cfg_ok; simpl; constructor).
      pose proof (feed_all_inv nat (fun k => k) rules _ start WT f u _ H0) as HI.
      change (model_ptable R 0 qe) with P in HI. rewrite Hf in HI. destruct HI as (Hc & Hcons).
      simpl in Hcons. rewrite <- Hcons.
      exact (stack_viable nat (fun k => k) rules _ start _ WV (prod' G rootnt start Hprod Hstart) _ _ Hc).
    Qed.

    Section Both.
      Hypothesis CF : conflict_free A LA.

      (* the reported position is EXACTLY the first offending token *)
      Theorem error_position_exact f u c f' k c' :
        feed_all f (init_config P) u = Shifted c -> feed f' c k false = Unexpected c' ->
        viable u /\ ~ viable (u ++ [k]).
      Proof.
        intros Hf Hu. split; [exact (consumed_viable f u c Hf)|exact (never_early_unexpected CF f u c f' k c' Hf Hu)].
      Qed.

      (* accepts() is exact: a terminal passes the trial feed iff it can legally come next *)
      Theorem accepts_exact f u c k :
        feed_all f (init_config P) u = Shifted c ->
        ((exists f' c', feed f' c k false = Shifted c') <-> viable (u ++ [k])).
      Proof.
        intros Hf. split.
        - intros (f' & c' & H').
          apply (model_accepts_sound G prio rootnt start tEND fuel A rel LA R qe HT fresh Hne Hqe Hprod Hstart
                   (max f f') u c k c').
          + apply (feed_all_mono P f u _ _ Hf). lia.
          + apply (feed_mono P f' c k false _ H'); [discriminate|lia].
        - exact (never_early_shift CF f u c k Hf).
      Qed.

      (* ... and $END passes iff the consumed input is a sentence *)
      Theorem accepts_end_exact f u c :
        feed_all f (init_config P) u = Shifted c ->
        ((exists f' t, feed f' c tEND true = Accepted t) <-> derives G nat tm [NT start] u).
      Proof.
        intros Hf. split.
        - intros (f' & t & H').
          apply (model_accepts_end_sound G prio rootnt start tEND fuel A rel LA R qe HT fresh Hne Hqe (max f f') u c t).
          + apply (feed_all_mono P f u _ _ Hf). lia.
          + apply (feed_mono P f' c tEND true _ H'); [discriminate|lia].
        - exact (end_accepted CF f u c Hf).
      Qed.
    End Both.
  End Prod.
End UserExact.
