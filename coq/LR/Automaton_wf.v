(* LR/Automaton_wf.v - the table built by the model (LR/Automaton.v) satisfies the LR(0)-item
   certificate of Driver_proofs.v for EVERY grammar, hence (driver_sound) the model driver on
   the model table accepts only sentences, whatever conflicts were resolved on the way. *)
From Coq Require Import List Arith Bool ZArith Lia.
From LV Require Import Cfg.Grammar LR.Driver LR.Driver_proofs LR.Automaton LR.Automaton_proofs.
Import ListNotations.

(* ---------- item sets ---------- *)
Lemma aitem_eqb_eq (a b : item) : Automaton.item_eqb a b = true <-> a = b.
Proof.
  unfold Automaton.item_eqb. rewrite andb_true_iff, !Nat.eqb_eq. destruct a, b; simpl.
  split; [intros (-> & ->); auto | intros H; inversion H; auto].
Qed.

Lemma insert_item_In x y l : In x (insert_item y l) <-> x = y \/ In x l.
Proof.
  induction l as [|z l IH]; simpl.
  - intuition.
  - destruct (Automaton.item_eqb y z) eqn:E.
    + apply aitem_eqb_eq in E. subst. simpl. intuition.
    + destruct (item_ltb y z); simpl; rewrite ?IH; intuition.
Qed.

Lemma sort_items_In x l : In x (sort_items l) <-> In x l.
Proof.
  induction l as [|y l IH]; simpl; [tauto|]. rewrite insert_item_In, IH. intuition.
Qed.

Lemma list_eqb_eq {A} (eqb : A -> A -> bool) :
  (forall x y, eqb x y = true <-> x = y) -> forall l1 l2, list_eqb eqb l1 l2 = true <-> l1 = l2.
Proof.
  intros H. induction l1 as [|x l1 IH]; destruct l2 as [|y l2]; simpl; split; intros E; try discriminate; auto.
  - apply andb_true_iff in E. destruct E as (E1 & E2). apply H in E1. apply IH in E2. congruence.
  - inversion E; subst. apply andb_true_iff. split. now apply H. now apply IH.
Qed.

Lemma kernel_eqb_eq k1 k2 : kernel_eqb k1 k2 = true <-> k1 = k2.
Proof. apply list_eqb_eq. apply aitem_eqb_eq. Qed.

Lemma index_of_spec {A} (eqb : A -> A -> bool) x l i :
  index_of eqb x l = Some i -> exists y, nth_error l i = Some y /\ eqb x y = true.
Proof.
  revert i; induction l as [|z l IH]; simpl; intros i H; try discriminate.
  destruct (eqb x z) eqn:E.
  - inversion H; subst. exists z; auto.
  - destruct (index_of eqb x l) as [j|]; try discriminate. inversion H; subst.
    destruct (IH j eq_refl) as (y & Hy & Ey). exists y; auto.
Qed.

Lemma find_index_spec {A} (p : A -> bool) l i :
  find_index p l = Some i -> exists y, nth_error l i = Some y /\ p y = true.
Proof.
  revert i; induction l as [|z l IH]; simpl; intros i H; try discriminate.
  destruct (p z) eqn:E.
  - inversion H; subst. exists z; auto.
  - destruct (find_index p l) as [j|]; try discriminate. inversion H; subst.
    destruct (IH j eq_refl) as (y & Hy & Ey). exists y; auto.
Qed.

Lemma nth_error_some_nth {A} (l : list A) i d y : nth_error l i = Some y -> nth i l d = y.
Proof. revert i; induction l; destruct i; simpl; intros H; try discriminate; auto. now inversion H. Qed.

Lemma nth_error_map' {A B} (f : A -> B) l i y :
  nth_error (map f l) i = Some y -> exists x, nth_error l i = Some x /\ y = f x.
Proof.
  revert i; induction l; destruct i; simpl; intros H; try discriminate.
  - inversion H. eauto.
  - eauto.
Qed.

Lemma NoDup_app_snoc {A} (l : list A) x : NoDup l -> ~ In x l -> NoDup (l ++ [x]).
Proof.
  induction 1 as [|y l Hy ND IH]; simpl; intros Hn.
  - repeat constructor. intros [].
  - constructor.
    + rewrite in_app_iff. intros [H|[H|[]]]; [auto|]. apply Hn. now left.
    + apply IH. intros H. apply Hn. now right.
Qed.

Section Wf.
  Variable rules : list rule.
  Variable prio : list Z.
  Variable roots : list nat.
  Variable tEND : nat.

  Notation rule_at := (rule_at rules).
  Notation next_sym := (next_sym rules).
  Notation closure := (closure rules).
  Notation goto_kernel := (goto_kernel rules).
  Notation next_syms := (next_syms rules).

  Lemma next_sym_valid it X : next_sym it = Some X -> fst it < length rules /\ In X (rhs (rule_at (fst it))).
  Proof.
    unfold Automaton.next_sym, Automaton.rule_at. intros H. split.
    - destruct (lt_dec (fst it) (length rules)); auto.
      rewrite nth_overflow in H by lia. simpl in H. destruct (snd it); discriminate.
    - eapply nth_error_In; eauto.
  Qed.

  Lemma rule_at_In i : i < length rules -> In (rule_at i) rules.
  Proof. intros. unfold Automaton.rule_at. now apply nth_In. Qed.

  (* ---- expand_rule / reach ---- *)
  Definition occurs (b : nat) : Prop := exists r, In r rules /\ In (NT b) (rhs r).

  Lemma first_nts_occurs S0 b : In b (first_nts_of rules S0) -> occurs b.
  Proof.
    unfold first_nts_of. rewrite in_flat_map. intros (r & Hr & H).
    destruct (mem_nat (lhs r) S0); [|contradiction].
    destruct (rhs r) as [|[t|c] rest] eqn:E; try contradiction.
    destruct H as [->|[]]. exists r. split; auto. rewrite E. now left.
  Qed.

  Lemma iter_reach n : forall S0 a b, (forall x, In x S0 -> x = a \/ occurs x) ->
    In b (iter n (reach_step rules) S0) -> b = a \/ occurs b.
  Proof.
    induction n; simpl; intros S0 a b H Hb; auto.
    apply (IHn (reach_step rules S0) a b); auto.
    intros x Hx. unfold reach_step in Hx. apply (proj1 (dedup_nat_In _ _)) in Hx. apply in_app_iff in Hx.
    destruct Hx as [Hx|Hx]; auto. right. eapply first_nts_occurs; eauto.
  Qed.

  Lemma reach_occurs a b : In b (reach rules a) -> b = a \/ occurs b.
  Proof.
    unfold reach. apply iter_reach. intros x [->|[]]. now left.
  Qed.

  Lemma expand_rule_In a it :
    In it (expand_rule rules a) -> snd it = 0 /\ fst it < length rules /\ In (lhs (rule_at (fst it))) (reach rules a).
  Proof.
    unfold expand_rule. rewrite in_flat_map. intros (i & Hi & H).
    unfold rule_ids in Hi. apply in_seq in Hi.
    destruct (mem_nat (lhs (rule_at i)) (reach rules a)) eqn:E; [|contradiction].
    destruct H as [<-|[]]. simpl. repeat split; try lia. now apply mem_nat_In.
  Qed.

  Lemma closure_In K it :
    In it (closure K) ->
    In it K \/ (snd it = 0 /\ fst it < length rules /\
                exists kit a, In kit K /\ next_sym kit = Some (NT a) /\ In (lhs (rule_at (fst it))) (reach rules a)).
  Proof.
    unfold Automaton.closure. rewrite sort_items_In, in_app_iff, in_flat_map.
    intros [H|(kit & Hk & H)]; auto. right.
    destruct (next_sym kit) as [[t|a]|] eqn:E; try contradiction.
    apply expand_rule_In in H. destruct H as (H0 & H1 & H2). repeat split; auto. exists kit, a. auto.
  Qed.

  Lemma closure_kernel K it : In it K -> In it (closure K).
  Proof. intros. unfold Automaton.closure. rewrite sort_items_In, in_app_iff. now left. Qed.

  Lemma goto_kernel_In C X it :
    In it (goto_kernel C X) <-> exists d', snd it = S d' /\ In (fst it, d') C /\ next_sym (fst it, d') = Some X.
  Proof.
    unfold Automaton.goto_kernel. rewrite sort_items_In, in_flat_map. split.
    - intros ((r, d) & Hc & H). destruct (next_sym (r, d)) as [Y|] eqn:E; [|contradiction].
      destruct (symbol_eqb_spec X Y); [|contradiction]. subst Y. destruct H as [<-|[]]. simpl. eauto.
    - intros (d' & Hd & Hc & Hn). exists (fst it, d'). split; auto. rewrite Hn.
      destruct (symbol_eqb_spec X X); [|congruence]. left. destruct it; simpl in *. congruence.
  Qed.

  Lemma next_syms_In C X : In X (next_syms C) <-> exists it, In it C /\ next_sym it = Some X.
  Proof.
    unfold Automaton.next_syms, dedup_sym. rewrite dedup_In, in_flat_map.
    - split; intros (it & Hc & H); exists it; split; auto.
      + destruct (next_sym it); [|contradiction]. destruct H as [->|[]]; auto.
      + rewrite H. now left.
    - intros x y. destruct (symbol_eqb_spec x y); split; auto; discriminate.
  Qed.

  (* ---- BFS ---- *)
  Definition gotoish (K : list item) : Prop := exists C X, K = goto_kernel C X /\ In X (next_syms C).
  Definition kernel_ok (K : list item) : Prop := In K (root_kernels roots) \/ gotoish K.

  Lemma add_new_spec ks : forall seen,
    (forall K, In K (add_new ks seen) -> In K ks /\ ~ In K seen) /\
    (NoDup seen -> NoDup (seen ++ add_new ks seen)).
  Proof.
    induction ks as [|K ks IH]; intros seen; simpl.
    - split; [tauto|]. now rewrite app_nil_r.
    - destruct (existsb (kernel_eqb K) seen) eqn:E.
      + destruct (IH seen) as (H1 & H2). split; auto.
        intros K' H. destruct (H1 _ H). auto.
      + assert (Hn : ~ In K seen).
        { intros Hin. assert (existsb (kernel_eqb K) seen = true).
          { apply existsb_exists. exists K. split; auto. now apply kernel_eqb_eq. }
          congruence. }
        destruct (IH (seen ++ [K])) as (H1 & H2). split.
        * intros K' [<-|H]; auto. destruct (H1 _ H) as (Ha & Hb). split; auto.
          intros Hc. apply Hb. apply in_app_iff. now left.
        * intros ND. assert (ND' : NoDup (seen ++ [K])).
          { apply NoDup_app_snoc; auto. }
          specialize (H2 ND'). now rewrite <- app_assoc in H2.
  Qed.

  Lemma bfs_spec fuel : forall work seen ks,
    bfs rules fuel work seen = Some ks ->
    (forall K, In K seen -> kernel_ok K) -> NoDup seen ->
    (exists tl, ks = seen ++ tl) /\ (forall K, In K ks -> kernel_ok K) /\ NoDup ks.
  Proof.
    induction fuel; intros work seen ks H Hok ND; simpl in H.
    - destruct work; [|discriminate]. inversion H; subst. split; [exists []; now rewrite app_nil_r|auto].
    - destruct work as [|K work'].
      + inversion H; subst. split; [exists []; now rewrite app_nil_r|auto].
      + set (C := closure K) in *.
        set (new := add_new (map (goto_kernel C) (next_syms C)) seen) in *.
        destruct (add_new_spec (map (goto_kernel C) (next_syms C)) seen) as (Hn1 & Hn2).
        destruct (IHfuel _ _ _ H) as ((tl & Htl) & Hk & Hnd).
        * intros K' HK'. apply in_app_iff in HK'. destruct HK' as [HK'|HK']; auto.
          right. destruct (Hn1 _ HK') as (Hm & _). apply in_map_iff in Hm.
          destruct Hm as (X & <- & HX). exists C, X. auto.
        * now apply Hn2.
        * split; [|auto]. exists (new ++ tl). now rewrite app_assoc.
  Qed.

  Lemma root_kernels_ok K : In K (root_kernels roots) -> kernel_ok K.
  Proof. now left. Qed.

  Lemma root_kernels_NoDup : NoDup roots -> NoDup (root_kernels roots).
  Proof.
    unfold root_kernels. induction 1 as [|r l Hr ND IH]; simpl; constructor; auto.
    rewrite in_map_iff. intros (r' & E & Hin). inversion E; subst. contradiction.
  Qed.

  (* items of a goto kernel have a positive dot; root kernels have dot 0 *)
  Lemma gotoish_dots K it : gotoish K -> In it K -> exists d', snd it = S d'.
  Proof.
    intros (C & X & -> & _) H. apply goto_kernel_In in H. destruct H as (d' & H & _). eauto.
  Qed.

  Lemma gotoish_nonempty K : gotoish K -> K <> [].
  Proof.
    intros (C & X & -> & HX) E. apply next_syms_In in HX. destruct HX as (it & Hc & Hn).
    assert (H : In (fst it, S (snd it)) (goto_kernel C X)).
    { apply goto_kernel_In. exists (snd it). simpl. destruct it; auto. }
    rewrite E in H. contradiction.
  Qed.

  Section Built.
    Variable fuel : nat.
    Variable A : lr0.
    Hypothesis HA : build_lr0 rules roots fuel = Some A.
    Hypothesis ND_roots : NoDup roots.

    Lemma built_shape :
      closures A = map closure (kernels A) /\
      transs A = map (trans_row rules (kernels A)) (closures A) /\
      (exists tl, kernels A = root_kernels roots ++ tl) /\
      (forall K, In K (kernels A) -> kernel_ok K) /\ NoDup (kernels A).
    Proof.
      unfold build_lr0 in HA. destruct (bfs rules fuel (root_kernels roots) (root_kernels roots)) as [ks|] eqn:E; [|discriminate].
      inversion HA; subst; simpl.
      destruct (bfs_spec _ _ _ _ E) as (H1 & H2 & H3); auto using root_kernels_ok, root_kernels_NoDup.
    Qed.

    Lemma closure_of_nth q : closure_of A q = closure (nth q (kernels A) []).
    Proof.
      destruct built_shape as (Hc & _). unfold closure_of. rewrite Hc.
      change [] with (closure []) at 1. apply map_nth.
    Qed.

    Lemma trans_spec q X q' :
      trans A q X = Some q' ->
      q < nstates A /\ In X (next_syms (closure_of A q)) /\
      nth_error (kernels A) q' = Some (goto_kernel (closure_of A q) X).
    Proof.
      destruct built_shape as (Hc & Ht & _). unfold trans, trans_of, nstates. rewrite Ht.
      intros H. assert (Hq : q < length (kernels A)).
      { destruct (lt_dec q (length (kernels A))); auto.
        rewrite nth_overflow in H; [discriminate|]. rewrite map_length, Hc, map_length. lia. }
      split; auto.
      assert (E : nth q (map (trans_row rules (kernels A)) (closures A)) [] = trans_row rules (kernels A) (closure_of A q)).
      { unfold closure_of. change [] with (trans_row rules (kernels A) []) at 1. apply map_nth. }
      rewrite E in H. clear E. unfold trans_row in H.
      assert (G : forall l, assoc_trans X (flat_map (fun X0 => match index_of kernel_eqb (goto_kernel (closure_of A q) X0) (kernels A) with
                                            | Some q0 => [(X0, q0)] | None => [] end) l) = Some q' ->
                  In X l /\ index_of kernel_eqb (goto_kernel (closure_of A q) X) (kernels A) = Some q').
      { induction l as [|Y l IH]; simpl; [discriminate|].
        destruct (index_of kernel_eqb (goto_kernel (closure_of A q) Y) (kernels A)) as [q0|] eqn:EI; simpl.
        - destruct (symbol_eqb_spec X Y).
          + subst. intros H0; inversion H0; subst. auto.
          + intros H0. destruct (IH H0); auto.
        - intros H0. destruct (IH H0); auto. }
      destruct (G _ H) as (HX & HI). split; auto.
      destruct (index_of_spec _ _ _ _ HI) as (K & HK & EK). apply kernel_eqb_eq in EK. congruence.
    Qed.
  End Built.
End Wf.

Lemma row_of_seq (f : nat -> list (symbol * action)) n : forall a q,
  row_of (map (fun q => (q, f q)) (seq a n)) q = if (a <=? q) && (q <? a + n) then Some (f q) else None.
Proof.
  induction n; intros a q; simpl.
  - destruct (a <=? q) eqn:E1; simpl; auto. destruct (Nat.ltb_spec q (a + 0)); auto.
    apply Nat.leb_le in E1. lia.
  - destruct (Nat.eqb_spec q a).
    + subst. rewrite Nat.leb_refl. simpl. destruct (Nat.ltb_spec a (a + S n)); auto. lia.
    + rewrite IHn. replace (a + S n) with (S a + n) by lia.
      destruct (Nat.leb_spec (S a) q), (Nat.leb_spec a q); try lia; reflexivity.
Qed.

Lemma dedup_pair_In x l : In x (dedup_pair l) <-> In x l.
Proof. apply dedup_In. apply aitem_eqb_eq. Qed.

Section Main.
  Variable rules : list rule.
  Variable prio : list Z.
  Variable roots : list nat.
  Variable tEND fuel : nat.
  Variable A : lr0.
  Variable rel : relations.
  Variable LA : list (nat * nat * nat).
  Variable R : rows.
  Hypothesis HT : compute_lalr rules prio roots tEND fuel = ATable A rel LA R.
  Hypothesis ND_roots : NoDup roots.
  Hypothesis roots_valid : forall r, In r roots -> r < length rules.
  Variable i r0 rootnt start qe : nat.
  Hypothesis Hi : nth_error roots i = Some r0.
  Hypothesis Hr0 : rule_at rules r0 = mkRule rootnt [NT start].
  Hypothesis fresh : forall r, In r rules -> ~ In (NT rootnt) (rhs r).
  Hypothesis Hqe : end_state rules roots A i = Some qe.

  Notation closure_of := (closure_of A).

  Lemma HT_parts :
    build_lr0 rules roots fuel = Some A /\ rel = compute_relations rules roots tEND A /\
    LA = la_triples rel /\ R = table_rows rules prio A LA.
  Proof.
    unfold compute_lalr in HT. destruct (build_lr0 rules roots fuel) as [A'|]; [|discriminate].
    destruct (collisions prio A' (la_triples (compute_relations rules roots tEND A'))); inversion HT; subst; auto.
  Qed.

  Lemma HA : build_lr0 rules roots fuel = Some A.
  Proof. exact (proj1 HT_parts). Qed.

  Definition model_ptable : ptable := ptable_of_rows R i qe.
  Definition model_items (q : state) : list (rule * nat) := items_of (items_annot rules A) q.

  Lemma action_row q X a :
    pt_action model_ptable q X = Some a -> q < nstates A /\ assoc_sym X (row rules prio A LA q) = Some a.
  Proof.
    destruct HT_parts as (E1 & E2 & E3 & ER). simpl. rewrite ER. unfold rows_action, table_rows.
    rewrite row_of_seq. simpl. destruct (q <? nstates A) eqn:E; [|discriminate].
    apply Nat.ltb_lt in E. auto.
  Qed.

  Lemma action_shift q X q' : pt_action model_ptable q X = Some (Shift q') -> trans A q X = Some q'.
  Proof.
    intros H. destruct (action_row _ _ _ H) as (_ & H1). unfold row in H1.
    rewrite assoc_sym_app, assoc_shift_entries in H1. unfold trans.
    destruct (assoc_trans X (trans_of A q)); simpl in H1.
    - now inversion H1.
    - exfalso. apply assoc_sym_In in H1. unfold reduce_entries in H1. apply in_flat_map in H1.
      destruct H1 as (s & _ & H1). destruct (decide prio (la_rules LA q s)); [|contradiction].
      destruct (mem_sym (T s) (map fst (trans_of A q))); [contradiction|]. destruct H1 as [H1|[]]. discriminate.
  Qed.

  Lemma items_spec q : model_items q = item_rules rules A q.
  Proof.
    unfold model_items, items_annot.
    assert (G : forall n a, items_of (map (fun q0 => (q0, item_rules rules A q0)) (seq a n)) q =
                            if (a <=? q) && (q <? a + n) then item_rules rules A q else []).
    { induction n; intros a; simpl.
      - destruct (a <=? q) eqn:E1; simpl; auto. destruct (Nat.ltb_spec q (a + 0)); auto.
        apply Nat.leb_le in E1. lia.
      - destruct (Nat.eqb_spec q a).
        + subst. rewrite Nat.leb_refl. simpl. destruct (Nat.ltb_spec a (a + S n)); auto. lia.
        + rewrite IHn. replace (a + S n) with (S a + n) by lia.
          destruct (Nat.leb_spec (S a) q), (Nat.leb_spec a q); try lia; reflexivity. }
    rewrite G. simpl. destruct (Nat.ltb_spec q (nstates A)); auto.
    unfold item_rules, Automaton.closure_of. destruct (built_shape rules roots fuel A HA ND_roots) as (Hc & _).
    rewrite nth_overflow; auto. rewrite Hc, map_length. unfold nstates in H. lia.
  Qed.

  Lemma items_In q r d : In (r, d) (model_items q) <-> exists it, In it (closure_of q) /\ r = rule_at rules (fst it) /\ d = snd it.
  Proof.
    rewrite items_spec. unfold item_rules. rewrite in_map_iff. split.
    - intros (it & E & H). inversion E; subst. eauto.
    - intros (it & H & -> & ->). eauto.
  Qed.

  Lemma kernel_at q : q < nstates A -> kernel_ok rules roots (nth q (kernels A) []).
  Proof.
    intros Hq. destruct (built_shape rules roots fuel A HA ND_roots) as (_ & _ & _ & Hk & _).
    apply Hk. apply nth_In. exact Hq.
  Qed.

  Lemma root_kernel_at : nth_error (kernels A) i = Some [(r0, 0)].
  Proof.
    destruct (built_shape rules roots fuel A HA ND_roots) as (_ & _ & (tl & Hp) & _).
    rewrite Hp. rewrite nth_error_app1.
    - unfold root_kernels. now rewrite nth_error_map, Hi.
    - unfold root_kernels. rewrite map_length. apply nth_error_Some. congruence.
  Qed.

  Lemma closure_of_dot0_valid q it : In it (closure_of q) -> snd it = 0 -> fst it < length rules.
  Proof.
    rewrite (closure_of_nth rules roots fuel A HA ND_roots). intros H H0.
    apply closure_In in H. destruct H as [H|(_ & H & _)]; auto.
    destruct (lt_dec q (nstates A)) as [Hq|Hq].
    - destruct (kernel_at q Hq) as [Hk|Hk].
      + unfold root_kernels in Hk. apply in_map_iff in Hk. destruct Hk as (r & E & Hr).
        rewrite <- E in H. destruct H as [<-|[]]. simpl. auto.
      + destruct (gotoish_dots rules _ _ Hk H). lia.
    - rewrite nth_overflow in H by (unfold nstates in Hq; lia). contradiction.
  Qed.

  Theorem model_wf_items : wf_items rules model_ptable start model_items.
  Proof.
    destruct HT_parts as (E0 & Erel & ELA & ER).
    constructor.
    - (* reduce entries *)
      intros q a r H. destruct (action_row _ _ _ H) as (Hq & H1).
      destruct (reduce_only_without_shift _ _ _ _ _ _ _ H1) as (_ & s & i0 & _ & -> & Hs & Hd).
      assert (Hin : In i0 (la_rules LA q s)).
      { apply (decide_use prio) in Hd; auto using la_rules_NoDup, la_rules_nonempty. apply Hd. }
      unfold la_rules in Hin. apply (proj1 (dedup_nat_In _ _)) in Hin. apply in_flat_map in Hin.
      destruct Hin as (((q1, s1), r1) & HLA & Hin).
      destruct (Nat.eqb_spec q q1); [|contradiction]. destruct (Nat.eqb_spec s s1); [|contradiction].
      destruct Hin as [<-|[]]. subst q1 s1.
      rewrite ELA in HLA. unfold la_triples, la_triples_of in HLA. apply in_flat_map in HLA.
      destruct HLA as ((lb, f) & Hc & HLA). apply in_flat_map in HLA. destruct HLA as ((q2, r2) & Hlb & HLA).
      apply in_map_iff in HLA. destruct HLA as (s2 & E & _). simpl in E. inversion E. subst q2 s2 r2.
      apply in_combine_l in Hc. try rewrite Erel in Hc. simpl in Hc. apply in_map_iff in Hc.
      destruct Hc as (x & <- & _). unfold lookback in Hlb. apply (proj1 (dedup_pair_In _ _)) in Hlb.
      apply in_flat_map in Hlb. destruct Hlb as (r' & Hst & Hlb).
      destruct (snd (walk A (fst x) (rhs (rule_at rules r')))) as [q3|]; [|contradiction].
      destruct (existsb (fun it : item => Nat.eqb (fst it) r' && is_satisfied rules it) (Automaton.closure_of A q3)) eqn:Ex; [|contradiction].
      destruct Hlb as [E2|[]]. inversion E2; subst q3 r'.
      apply existsb_exists in Ex. destruct Ex as (it & Hit & Hsat). apply andb_true_iff in Hsat.
      destruct Hsat as (Hf & Hsat). apply Nat.eqb_eq in Hf. unfold is_satisfied in Hsat. apply Nat.eqb_eq in Hsat.
      split.
      + apply rule_at_In. unfold start_items in Hst. apply in_flat_map in Hst.
        destruct Hst as (it0 & Hit0 & Hst).
        destruct (Nat.eqb (lhs (rule_at rules (fst it0))) (snd x) && Nat.eqb (snd it0) 0) eqn:Ec; [|contradiction].
        destruct Hst as [<-|[]]. apply andb_true_iff in Ec. destruct Ec as (_ & Ec). apply Nat.eqb_eq in Ec.
        eapply closure_of_dot0_valid; eauto.
      + apply items_In. exists it. rewrite <- Hf. auto.
    - (* shift entries *)
      intros q X q' r d H Hin. apply action_shift in H.
      destruct (trans_spec rules roots fuel A HA ND_roots _ _ _ H) as (Hq & HX & Hk).
      apply items_In in Hin. destruct Hin as (it & Hit & -> & ->).
      rewrite (closure_of_nth rules roots fuel A HA ND_roots) in Hit.
      rewrite (nth_error_some_nth _ _ [] _ Hk) in Hit. apply closure_In in Hit.
      destruct Hit as [Hit|(H0 & _)]; [|now left].
      apply goto_kernel_In in Hit. destruct Hit as (d' & Hd & Hc & Hn). right.
      exists d'. split; auto. split.
      + exact Hn.
      + apply items_In. exists (fst it, d'). auto.
    - (* start state: only dot-0 model_items *)
      intros r d Hin. simpl in Hin. apply items_In in Hin. destruct Hin as (it & Hit & -> & ->).
      rewrite (closure_of_nth rules roots fuel A HA ND_roots) in Hit.
      rewrite (nth_error_some_nth _ _ [] _ root_kernel_at) in Hit. apply closure_In in Hit.
      destruct Hit as [[<-|[]]|(H0 & _)]; auto.
    - (* the end state is entered only from the start state on NT start *)
      intros q X H. simpl in H. apply action_shift in H.
      destruct (trans_spec rules roots fuel A HA ND_roots _ _ _ H) as (Hq & HX & Hk).
      unfold end_state in Hqe. apply find_index_spec in Hqe. destruct Hqe as (C & HC & Hex).
      assert (Hr : nth i roots 0 = r0) by (now apply nth_error_some_nth).
      rewrite Hr in Hex. apply existsb_exists in Hex. destruct Hex as (it & Hit & Hsat).
      apply andb_true_iff in Hsat. destruct Hsat as (Hf & Hsat). apply Nat.eqb_eq in Hf.
      unfold is_satisfied in Hsat. apply Nat.eqb_eq in Hsat. rewrite Hf, Hr0 in Hsat. simpl in Hsat.
      assert (HC' : C = closure rules (goto_kernel rules (closure_of q) X)).
      { destruct (built_shape rules roots fuel A HA ND_roots) as (Hc & _). rewrite Hc in HC.
        apply nth_error_map' in HC. destruct HC as (K & HK & ->). congruence. }
      subst C. apply closure_In in Hit. destruct Hit as [Hit|(H0 & _)]; [|lia].
      apply goto_kernel_In in Hit. destruct Hit as (d' & Hd & Hc & Hn).
      assert (d' = 0) by lia. subst d'. rewrite Hf in Hc, Hn.
      unfold next_sym in Hn. simpl in Hn. rewrite Hr0 in Hn. simpl in Hn. inversion Hn; subst X.
      split; auto.
      (* q is the start state *)
      rewrite (closure_of_nth rules roots fuel A HA ND_roots) in Hc. apply closure_In in Hc.
      destruct Hc as [Hc|(_ & _ & kit & a & Hkit & Hnk & Hreach)].
      + destruct (kernel_at q Hq) as [Hk'|Hk'].
        * unfold root_kernels in Hk'. apply in_map_iff in Hk'. destruct Hk' as (r & E & Hrr).
          rewrite <- E in Hc. destruct Hc as [Hc|[]]. inversion Hc; subst r.
          destruct (built_shape rules roots fuel A HA ND_roots) as (_ & _ & _ & _ & NDk).
          assert (Hq' : nth_error (kernels A) q = Some [(r0, 0)]).
          { rewrite E. apply List.nth_error_nth'. exact Hq. }
          eapply (proj1 (NoDup_nth_error (kernels A))); eauto.
          rewrite Hq'. symmetry. exact root_kernel_at.
        * destruct (gotoish_dots rules _ _ Hk' Hc) as (d'' & Hd''). simpl in Hd''. discriminate.
      + exfalso. simpl in Hreach. rewrite Hr0 in Hreach. simpl in Hreach.
        apply next_sym_valid in Hnk. destruct Hnk as (Hv & Hin).
        apply reach_occurs in Hreach. destruct Hreach as [<-|(r & Hr1 & Hr2)].
        * eapply fresh; [apply rule_at_In; exact Hv|exact Hin].
        * eapply fresh; eauto.
    - (* nothing shifts into the start state *)
      intros q X H. simpl in H. apply action_shift in H.
      destruct (trans_spec rules roots fuel A HA ND_roots _ _ _ H) as (Hq & HX & Hk).
      rewrite root_kernel_at in Hk. inversion Hk as [E].
      assert (Hin : In (r0, 0) (goto_kernel rules (closure_of q) X)) by (rewrite <- E; now left).
      apply goto_kernel_In in Hin. destruct Hin as (d' & Hd & _). simpl in Hd. discriminate.
  Qed.

  (* the model driver on the model table accepts only sentences of [rules] (user rules plus
     root rules; see derives_without_root for dropping the latter) *)
  Theorem model_table_sound fuel' w t :
    parse nat (fun k => k) model_ptable fuel' w tEND = Accepted t ->
    yield nat t = w /\ derives rules nat (tmatch nat (fun k => k)) [NT start] w.
  Proof.
    intros H.
    destruct (driver_sound nat (fun k => k) rules model_ptable start (wf_items_table rules model_ptable start model_items model_wf_items) fuel' w tEND t H)
      as (_ & _ & Hy & Hd). auto.
  Qed.
End Main.

Lemma derives_incl (tok : Type) (tmatch : nat -> tok -> bool) (G G' : grammar) ss w :
  incl G G' -> derives G tok tmatch ss w -> derives G' tok tmatch ss w.
Proof.
  intros Hi. induction 1.
  - constructor.
  - constructor; auto.
  - apply d_nt with (r := r); auto.
Qed.

(* single start symbol, lark's rule order (user rules, then $root -> start): accepted inputs
   are sentences of the USER grammar *)
Theorem model_table_sound_user (G : grammar) (prio : list Z) (rootnt start tEND fuel : nat)
        (A : lr0) (rel : relations) (LA : list (nat * nat * nat)) (R : rows) (qe fuel' : nat)
        (w : list nat) (t : dtree nat) :
  compute_lalr (G ++ [mkRule rootnt [NT start]]) prio [length G] tEND fuel = ATable A rel LA R ->
  (forall r, In r G -> ~ In (NT rootnt) (rhs r)) -> start <> rootnt ->
  end_state (G ++ [mkRule rootnt [NT start]]) [length G] A 0 = Some qe ->
  parse nat (fun k => k) (ptable_of_rows R 0 qe) fuel' w tEND = Accepted t ->
  yield nat t = w /\ derives G nat (tmatch nat (fun k => k)) [NT start] w.
Proof.
  intros HT Hfresh Hne Hqe Hp.
  set (rules := G ++ [mkRule rootnt [NT start]]) in *.
  assert (Hfresh' : forall r, In r rules -> ~ In (NT rootnt) (rhs r)).
  { intros r Hr. apply in_app_iff in Hr. destruct Hr as [Hr|[<-|[]]]; auto.
    simpl. intros [E|[]]. inversion E. congruence. }
  destruct (model_table_sound rules prio [length G] tEND fuel A rel LA R HT) with
      (i := 0) (r0 := length G) (rootnt := rootnt) (start := start) (qe := qe) (fuel' := fuel') (w := w) (t := t)
    as (Hy & Hd); auto.
  - repeat constructor. intros [].
  - intros r [<-|[]]. unfold rules. rewrite app_length. simpl. lia.
  - unfold rule_at, rules. apply nth_middle.
  - split; auto.
    apply (derives_without_root nat (tmatch nat (fun k => k)) G (mkRule rootnt [NT start])).
    + exact Hfresh.
    + eapply derives_incl; [|exact Hd]. intros r Hr. apply in_app_iff in Hr.
      destruct Hr as [Hr|[<-|[]]]; [now right|now left].
    + simpl. intros [E|[]]. inversion E. congruence.
Qed.
