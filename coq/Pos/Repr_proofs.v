(* C15: the representation of the input does not matter (model level).
   window_shift : lexing the window [a, b) of a buffer T = lexing the extracted substring, re-based
   bytes_eq_str : lexing an encoded text = lexing the text, values encoded *)
From Coq Require Import ZArith List Bool Lia Arith.
From LV Require Import Pos.PosBase Gen.LineCounter Gen.LexStep Pos.Coord
  Pos.LineCounter_proofs Pos.LexCoords Pos.LexCoords_proofs.
Import ListNotations.
Local Open Scope Z_scope.

(* regenerated-file lemmas about the loop condition of next_token *)
Lemma h_more_shift x y d : h_more (x + d) (y + d) = h_more x y.
Proof.
  unfold h_more. destruct (Z.ltb_spec (x + d) (y + d)), (Z.ltb_spec x y); try reflexivity; lia.
Qed.

Lemma h_more_lt x y : h_more x y = true -> x < y.
Proof. unfold h_more. intros H. apply Z.ltb_lt. exact H. Qed.

Lemma skipn_skipn' {A} (x y : nat) (l : list A) : skipn x (skipn y l) = skipn (y + x) l.
Proof.
  revert l; induction y as [|y IH]; intros l; [reflexivity|].
  destruct l as [|z l]; cbn [skipn Nat.add]; [apply skipn_nil|apply IH].
Qed.

(* a sub-window of the extracted window is the same sub-window of the buffer *)
Lemma window_sub {A} (T : list A) (a b p n : nat) :
  (a <= p)%nat -> (p + n <= b)%nat ->
  firstn n (skipn (p - a) (firstn (b - a) (skipn a T))) = firstn n (skipn p T).
Proof.
  intros H1 H2. rewrite skipn_firstn_comm, skipn_skipn', firstn_firstn.
  replace (a + (p - a))%nat with p by lia. f_equal. lia.
Qed.

(* ------------------------------------------------------------------------------------------ *)
Section WindowShift.
Context {A : Type} (eqb : A -> A -> bool) (nl : A) {term : Type}.
Variable scan : list term -> list A -> Z -> Z -> option (nat * term).
Variable ignore : term -> bool.
Variable newline_types : term -> bool.

Variable T : list A.
Variables a b : nat.
Hypothesis a_le_b : (a <= b)%nat.
Hypothesis b_le : (b <= length T)%nat.

Definition sub : list A := firstn (b - a) (skipn a T).

Lemma sub_length : length sub = (b - a)%nat.
Proof. unfold sub. apply window_length. lia. Qed.

Hypothesis scan_bounded : forall h (p n : nat) ty,
  scan h T (Z.of_nat p) (Z.of_nat b) = Some (n, ty) -> (p + n <= b)%nat.
Hypothesis H_nl : forall h (p n : nat) ty,
  scan h T (Z.of_nat p) (Z.of_nat b) = Some (n, ty) ->
  h_testnl newline_types ty = false -> has_no_newline eqb nl (firstn n (skipn p T)).
(* H_ctxfree: a match at p in the window [a,b) of T is the match at p-a in T[a:b] *)
Hypothesis H_ctxfree : forall h (p : nat), (a <= p < b)%nat ->
  scan h T (Z.of_nat p) (Z.of_nat b) = scan h sub (Z.of_nat (p - a)) (Z.of_nat (b - a)).

Definition lnT (z : Z) : Z := line_of eqb nl T (Z.to_nat z).
Definition colT (z : Z) : Z := col_of eqb nl T (Z.to_nat z).

Definition shift_result (r : list (token A term) * outcome) : list (token A term) * outcome :=
  (map (shift_tok (Z.of_nat a) lnT colT) (fst r), shift_outcome (Z.of_nat a) lnT colT (snd r)).

Lemma lex_loop_shift fuel : forall hist (p : nat) cT cS,
  (a <= p <= b)%nat -> at_coord eqb nl T p cT -> at_coord eqb nl sub (p - a) cS ->
  lex_loop eqb nl scan ignore newline_types fuel hist T (Z.of_nat b) cT =
  shift_result (lex_loop eqb nl scan ignore newline_types fuel hist sub (Z.of_nat (b - a)) cS).
Proof.
  induction fuel as [|f IH]; intros hist p cT cS Hp HT HS; cbn [lex_loop]; [reflexivity|].
  unfold lex_step.
  pose proof HT as (HTp & HTl & HTc & _). pose proof HS as (HSp & _).
  rewrite HTp, HSp.
  replace (h_more (Z.of_nat p) (Z.of_nat b))
    with (h_more (Z.of_nat (p - a)) (Z.of_nat (b - a))).
  2:{ rewrite <- (h_more_shift _ _ (Z.of_nat a)). f_equal; lia. }
  destruct (h_more (Z.of_nat (p - a)) (Z.of_nat (b - a))) eqn:Hm; [|reflexivity].
  apply h_more_lt in Hm.
  rewrite (H_ctxfree hist p) by lia.
  destruct (scan hist sub (Z.of_nat (p - a)) (Z.of_nat (b - a))) as [[n ty]|] eqn:Es.
  2:{ unfold shift_result. cbn [fst snd map shift_outcome]. f_equal. unfold lnT, colT.
      rewrite HTp, HSp. replace (Z.of_nat (p - a) + Z.of_nat a) with (Z.of_nat p) by lia.
      rewrite Nat2Z.id. f_equal; congruence. }
  assert (Es' : scan hist T (Z.of_nat p) (Z.of_nat b) = Some (n, ty))
    by (rewrite (H_ctxfree hist p) by lia; exact Es).
  pose proof (scan_bounded _ _ _ _ Es') as Hb.
  rewrite !slice_len.
  assert (Ev : firstn n (skipn (p - a) sub) = firstn n (skipn p T))
    by (apply window_sub; lia).
  rewrite Ev. set (value := firstn n (skipn p T)) in *.
  assert (Htn : h_testnl newline_types ty = true \/ has_no_newline eqb nl value).
  { destruct (h_testnl newline_types ty) eqn:Et; [left; reflexivity|right]. eapply H_nl; eauto. }
  assert (HT' : at_coord eqb nl T (p + n) (feed eqb nl cT value (h_testnl newline_types ty))).
  { apply feed_tracks_coord; [lia|exact HT|exact Htn]. }
  assert (HS' : at_coord eqb nl sub (p + n - a) (feed eqb nl cS value (h_testnl newline_types ty))).
  { replace (p + n - a)%nat with ((p - a) + n)%nat by lia. rewrite <- Ev.
    apply feed_tracks_coord; [rewrite sub_length; lia|exact HS|]. rewrite Ev. exact Htn. }
  set (cT' := feed eqb nl cT value _) in *. set (cS' := feed eqb nl cS value _) in *.
  clearbody cT' cS'.
  specialize (IH (if ignore ty then hist else ty :: hist) (p + n)%nat cT' cS' ltac:(lia) HT' HS').
  destruct (ignore ty); [exact IH|].
  cbn [t_type]. rewrite IH.
  destruct (lex_loop eqb nl scan ignore newline_types f (ty :: hist) sub (Z.of_nat (b - a)) cS') as [ts o].
  unfold shift_result. cbn [fst snd map]. f_equal. f_equal.
  destruct HT' as (HTp' & HTl' & HTc' & _). destruct HS' as (HSp' & _).
  unfold shift_tok. cbn [t_type t_value t_start t_end_pos]. unfold lnT, colT. rewrite HSp'.
  replace (Z.of_nat (p - a) + Z.of_nat a) with (Z.of_nat p) by lia.
  replace (Z.of_nat (p + n - a) + Z.of_nat a) with (Z.of_nat (p + n)) by lia.
  rewrite !Nat2Z.id. f_equal; congruence.
Qed.

(* C15 window_shift *)
Theorem window_shift :
  lex_slice eqb nl scan ignore newline_types T (Z.of_nat a) (Z.of_nat b) None =
  shift_result (lex_slice eqb nl scan ignore newline_types sub 0 (Z.of_nat (b - a)) None).
Proof.
  unfold lex_slice.
  replace (Z.to_nat (Z.of_nat (b - a) - 0)) with (Z.to_nat (Z.of_nat b - Z.of_nat a)) by lia.
  apply lex_loop_shift with (p := a); [lia| |].
  - apply from_text_slice_coord; [lia|left; reflexivity].
  - replace (a - a)%nat with 0%nat by lia.
    apply (from_text_slice_coord eqb nl sub 0 None); [lia|left; reflexivity].
Qed.

End WindowShift.

(* ------------------------------------------------------------------------------------------ *)
Section BytesEqStr.
Context {A B : Type} (eqbA : A -> A -> bool) (nlA : A) (eqbB : B -> B -> bool) (nlB : B).
Variable enc : A -> B.
(* the encoding maps the newline to the newline and nothing else to it *)
Hypothesis enc_nl : forall x, eqbB (enc x) nlB = eqbA x nlA.
Context {term : Type}.
Variable scanA : list term -> list A -> Z -> Z -> option (nat * term).
Variable scanB : list term -> list B -> Z -> Z -> option (nat * term).
Variable ignore : term -> bool.
Variable newline_types : term -> bool.

Lemma count_nl_map l : count_nl eqbB nlB (map enc l) = count_nl eqbA nlA l.
Proof. induction l as [|x l IH]; cbn [map count_nl]; [reflexivity|]. rewrite enc_nl, IH. reflexivity. Qed.

Lemma rindex_nl_map l : rindex_nl eqbB nlB (map enc l) = rindex_nl eqbA nlA l.
Proof. induction l as [|x l IH]; cbn [map rindex_nl]; [reflexivity|]. rewrite enc_nl, IH. reflexivity. Qed.

Lemma index_nl_map l : index_nl eqbB nlB (map enc l) = index_nl eqbA nlA l.
Proof. induction l as [|x l IH]; cbn [map index_nl]; [reflexivity|]. rewrite enc_nl, IH. reflexivity. Qed.

Lemma slice_map (l : list A) lo hi : slice (map enc l) lo hi = map enc (slice l lo hi).
Proof. unfold slice. rewrite skipn_map, firstn_map. reflexivity. Qed.

Lemma feed_map c v tn : feed eqbB nlB c (map enc v) tn = feed eqbA nlA c v tn.
Proof.
  unfold feed, rindex_z, index_z. rewrite count_nl_map, ?rindex_nl_map, ?index_nl_map, map_length.
  reflexivity.
Qed.

Lemma advance_to_map c T pos : advance_to eqbB nlB c (map enc T) pos = advance_to eqbA nlA c T pos.
Proof.
  unfold advance_to, count_range, rindex_range, index_range, rindex_z, index_z.
  rewrite !slice_map, count_nl_map, ?rindex_nl_map, ?index_nl_map. reflexivity.
Qed.

Lemma from_text_slice_map T a snap :
  from_text_slice eqbB nlB (map enc T) a snap = from_text_slice eqbA nlA T a snap.
Proof. unfold from_text_slice. destruct snap as [[? ?]|]; [reflexivity|]. rewrite advance_to_map. reflexivity. Qed.

Variable T : list A.
(* H_ascii: the bytes-compiled terminals match on the encoded text what the str-compiled ones
   match on the text *)
Hypothesis H_ascii : forall h p e, scanB h (map enc T) p e = scanA h T p e.

Definition enc_result (r : list (token A term) * outcome) : list (token B term) * outcome :=
  (map (enc_tok enc) (fst r), snd r).

Lemma lex_loop_enc fuel : forall hist e c,
  lex_loop eqbB nlB scanB ignore newline_types fuel hist (map enc T) e c =
  enc_result (lex_loop eqbA nlA scanA ignore newline_types fuel hist T e c).
Proof.
  induction fuel as [|f IH]; intros hist e c; cbn [lex_loop]; [reflexivity|].
  unfold lex_step. rewrite H_ascii.
  destruct (h_more (char_pos c) e); [|reflexivity].
  destruct (scanA hist T (char_pos c) e) as [[n ty]|]; [|reflexivity].
  rewrite slice_map, feed_map.
  destruct (ignore ty); [apply IH|].
  cbn [t_type]. rewrite IH.
  destruct (lex_loop eqbA nlA scanA ignore newline_types f (ty :: hist) T e _) as [ts o].
  reflexivity.
Qed.

(* C15 bytes_eq_str *)
Theorem bytes_eq_str a e snap :
  lex_slice eqbB nlB scanB ignore newline_types (map enc T) a e snap =
  enc_result (lex_slice eqbA nlA scanA ignore newline_types T a e snap).
Proof. unfold lex_slice. rewrite from_text_slice_map. apply lex_loop_enc. Qed.

End BytesEqStr.
