(* Extent of metas in the LALR pipeline (C06 tree_coords_exact, second half): the value of every
   sub-derivation offers its parent exactly the span of the tokens it matched, and a tree created
   by a rule application carries that span as its own meta. *)
From Coq Require Import ZArith List Bool String Lia.
From LV Require Import Base.Prelude Cfg.Grammar Pos.LexCoords Pos.MetaSpan Pos.MetaSpan_proofs
  Shape.Chain Pos.TreeShift Pos.TreeShift_proofs.
From LV Require LR.Driver.
Import ListNotations.

Section TreeSpan.
Context {A term : Type}.
Notation tok := (token A term).
Notation dt := (Driver.dtree tok).
Variable rr : rule -> rrec.
Variable mp : bool.

Definition se (t : tok) : trip * trip := (start3 t, end3 t).
Definition Y (d : dt) : list (trip * trip) := map se (Driver.yield tok d).

(* exclusion of finding F23, stated on the derivation: a sub-derivation whose value is a bare token
   (an inlined ?rule around one kept token) or None matched nothing else *)
Definition good_d (d : dt) : Prop :=
  forall d', In d' (dsubs d) ->
    match tree_of rr mp d' with
    | Some (VTok t) => Driver.yield tok d' = [t]
    | Some VNone => Driver.yield tok d' = []
    | _ => True
    end.

(* every tree node inside the value has an empty meta *)
Inductive DE : vtree A term -> Prop :=
| DE_tok t : DE (VTok t)
| DE_none : DE VNone
| DE_tree n m ch : m_empty m = true -> Forall DE ch -> DE (VTree n m ch).

Definition DInv (d : dt) (v : vtree A term) : Prop :=
  (Y d = [] -> view (shaped_of v) = None /\ DE v) /\
  (Y d <> [] -> exists f, view (shaped_of v) = Some f /\
                 or_else (m_cstart f) (m_start f) = first_start (Y d) /\
                 or_else (m_cend f) (m_end f) = last_end (Y d)).

Definition Yl (ps : list (dt * vtree A term)) : list (trip * trip) := flat_map (fun p => Y (fst p)) ps.

Lemma first_views ps : Forall (fun p => DInv (fst p) (snd p)) ps ->
  match first_view (map shaped_of (map snd ps)) with
  | Some f => or_else (m_cstart f) (m_start f) = first_start (Yl ps) /\ Yl ps <> []
  | None => Yl ps = []
  end.
Proof.
  induction 1 as [|[d v] ps (H0 & H1) _ IH]; [reflexivity|].
  cbn [map first_view snd fst Yl flat_map] in *. fold (Yl ps).
  destruct (Y d) as [|y ys] eqn:Ey.
  - destruct (H0 eq_refl) as (Hv & _). rewrite Hv. exact IH.
  - destruct (H1 ltac:(discriminate)) as (f & Hv & Hs & _). rewrite Hv. split; [|discriminate].
    rewrite Hs. reflexivity.
Qed.

Lemma last_views ps : Forall (fun p => DInv (fst p) (snd p)) ps ->
  match first_view (rev (map shaped_of (map snd ps))) with
  | Some f => or_else (m_cend f) (m_end f) = last_end (Yl ps) /\ Yl ps <> []
  | None => Yl ps = []
  end.
Proof.
  induction ps as [|[d v] ps IH] using rev_ind; [reflexivity|].
  intros H. apply Forall_app in H. destruct H as (Hps & Hp). inversion Hp as [|? ? (H0 & H1) _]; subst.
  rewrite !map_app, rev_app_distr. unfold Yl. rewrite flat_map_app. fold (Yl ps).
  cbn [map rev app first_view snd fst flat_map] in *. rewrite app_nil_r.
  destruct (Y d) as [|y ys] eqn:Ey.
  - destruct (H0 eq_refl) as (Hv & _). rewrite Hv, app_nil_r. apply IH, Hps.
  - destruct (H1 ltac:(discriminate)) as (f & Hv & _ & He). rewrite Hv. split.
    + rewrite last_end_app by discriminate. exact He.
    + destruct (Yl ps); discriminate.
Qed.

Lemma Y_node r cs : Y (Driver.Node r cs) = flat_map Y cs.
Proof.
  unfold Y. cbn [Driver.yield]. induction cs as [|c cs IH]; [reflexivity|].
  cbn [flat_map]. rewrite map_app, IH. reflexivity.
Qed.

Lemma Yl_combine cs vs : List.length cs = List.length vs -> Yl (combine cs vs) = flat_map Y cs.
Proof.
  revert vs; induction cs as [|c cs IH]; intros [|v vs] H; try discriminate; [reflexivity|].
  cbn [combine Yl flat_map fst]. injection H as H. fold (Yl (combine cs vs)). rewrite IH; auto.
Qed.

Lemma snd_combine {X Z} (cs : list X) (vs : list Z) : List.length cs = List.length vs -> map snd (combine cs vs) = vs.
Proof.
  revert vs; induction cs as [|c cs IH]; intros [|v vs] H; try discriminate; [reflexivity|].
  cbn. injection H as H. rewrite IH; auto.
Qed.

Lemma in_dsubs_child (d : dt) r cs c : In c cs -> In d (dsubs c) -> In d (dsubs (Driver.Node r cs)).
Proof. intros Hc Hd. cbn [dsubs]. right. apply in_flat_map. exists c. split; auto. Qed.

Lemma dsubs_self (d : dt) : In d (dsubs d).
Proof. destruct d; left; reflexivity. Qed.

Lemma DE_kids x l : DE x -> vkids x = Some l -> Forall DE l.
Proof. intros H. destruct x; cbn; try discriminate. intros [= <-]. inversion H; auto. Qed.

Lemma flat_nil {X Z} (g : X -> list Z) l : flat_map g l = [] -> forall x, In x l -> g x = [].
Proof.
  induction l as [|y l IH]; intros H x Hx; [destruct Hx|]. cbn in H. apply app_eq_nil in H.
  destruct H. destruct Hx as [<- | Hx]; auto.
Qed.

Theorem tree_of_DInv d : good_d d -> forall v, tree_of rr mp d = Some v -> DInv d v.
Proof.
  induction d as [k|r cs IH] using dtree_ind'; intros G v.
  - intros [= <-]. unfold DInv, Y. cbn [Driver.yield map]. split; [discriminate|]. intros _.
    eexists. split; [reflexivity|]. split; reflexivity.
  - intros Hv. pose proof Hv as Hv0. cbn [tree_of] in Hv.
    destruct (all_some (map (tree_of rr mp) cs)) as [vs|] eqn:E; [|discriminate].
    (* children *)
    assert (Hlen : List.length cs = List.length vs).
    { clear - E. revert vs E. induction cs as [|c cs IHc]; intros vs E; cbn in E.
      - injection E as <-. reflexivity.
      - destruct (tree_of rr mp c); [|discriminate]. destruct (all_some (map (tree_of rr mp) cs)); [|discriminate].
        injection E as <-. cbn. f_equal. apply IHc. reflexivity. }
    assert (Hps : Forall (fun p => DInv (fst p) (snd p)) (combine cs vs)).
    { assert (Gc : forall c, In c cs -> good_d c).
      { intros c Hc d' Hd'. apply G. eapply in_dsubs_child; eauto. }
      clear - IH E Gc. revert vs E. induction cs as [|c cs IHc]; intros vs E; cbn in E.
      - injection E as <-. constructor.
      - destruct (tree_of rr mp c) as [vc|] eqn:Ec; [|discriminate].
        destruct (all_some (map (tree_of rr mp) cs)) as [vs'|]; [|discriminate]. injection E as <-.
        inversion IH; subst. cbn [combine]. constructor.
        + cbn. apply H1; [apply Gc; left; reflexivity|exact Ec].
        + apply IHc; auto. intros c' Hc'. apply Gc. right. exact Hc'. }
    pose proof (first_views _ Hps) as F. pose proof (last_views _ Hps) as L.
    rewrite (snd_combine cs vs Hlen), (Yl_combine cs vs Hlen), <- (Y_node r cs) in F, L.
    unfold pos_callback in Hv.
    destruct (run_callback _ _ _ _ _ (rr r) mp false vs) as [[res|]| |] eqn:Er; try discriminate.
    injection Hv as <-.
    pose proof (G _ (dsubs_self (Driver.Node r cs))) as Gd. rewrite Hv0 in Gd.
    destruct res as [t|n m l|]; cbn [pp] in *.
    + (* a bare token came through *)
      unfold DInv, Y. rewrite Gd. cbn [map]. split; [discriminate|]. intros _.
      eexists. split; [reflexivity|]. split; reflexivity.
    + unfold DInv. split.
      * intros Y0. rewrite Y0 in F, L. unfold propagate.
        destruct (first_view (map shaped_of vs)) as [f|]; [destruct F; congruence|].
        destruct (first_view (rev (map shaped_of vs))) as [f|]; [destruct L; congruence|].
        assert (Hde : Forall DE vs).
        { rewrite Y_node in Y0. rewrite Forall_forall. intros x Hx.
          destruct (In_nth_error _ _ Hx) as (i & Hi).
          destruct (nth_error cs i) as [c|] eqn:Eci.
          2:{ apply nth_error_None in Eci. assert (i < List.length vs)%nat by (apply nth_error_Some; congruence). lia. }
          assert (Hin : In (c, x) (combine cs vs)).
          { clear - Hi Eci. revert cs vs Hi Eci. induction i as [|i IHi]; intros [|c' cs] [|x' vs] Hi Eci; try discriminate.
            - cbn in *. injection Hi as ->. injection Eci as ->. left. reflexivity.
            - cbn in *. right. apply IHi; auto. }
          rewrite Forall_forall in Hps. destruct (Hps _ Hin) as (H0 & _). cbn in H0.
          apply H0. apply (flat_nil Y cs Y0). eapply nth_error_In; eauto. }
        assert (Hres : DE (VTree n m l)).
        { eapply (run_callback_pres (vtree A term) VNone vkids vmk DE); eauto.
          - constructor.
          - exact DE_kids.
          - intros n' l' Hl. constructor; [reflexivity|exact Hl]. }
        inversion Hres as [| |n' m' l' Hm Hl]; subst.
        cbn [shaped_of view]. rewrite Hm. split; [reflexivity|]. constructor; auto.
      * intros Yne. unfold propagate.
        destruct (first_view (map shaped_of vs)) as [f|]; [|congruence].
        destruct (first_view (rev (map shaped_of vs))) as [f'|]; [|congruence].
        destruct F as (F1 & _), L as (L1 & _).
        assert (exists s, first_start (Y (Driver.Node r cs)) = Some s) as (s & Es).
        { destruct (Y (Driver.Node r cs)); [congruence|]. eexists. reflexivity. }
        assert (exists e, last_end (Y (Driver.Node r cs)) = Some e) as (e & Ee).
        { unfold last_end, last_error. destruct (rev (Y (Driver.Node r cs))) eqn:Erv.
          - apply (f_equal (@rev _)) in Erv. rewrite rev_involutive in Erv. exfalso. exact (Yne Erv).
          - eexists. reflexivity. }
        rewrite F1, L1, Es, Ee. cbn [shaped_of view m_start m_end m_cstart m_cend].
        match goal with |- exists f0, (if m_empty ?M then None else Some ?M) = Some f0 /\ _ =>
          assert (Hne : m_empty M = false) by (unfold m_empty; cbn [m_start m_end]; destruct (m_start m); reflexivity);
          rewrite Hne; exists M end.
        split; [reflexivity|]. cbn [m_start m_end m_cstart m_cend or_else]. split; reflexivity.
    + unfold DInv, Y. rewrite Gd. cbn [map]. split; [|congruence]. intros _. split; [reflexivity|constructor].
Qed.

(* C06: the span offered to the parent (container fields when present, else own) is exactly the
   span of the matched tokens; the meta is empty iff no token was matched *)
Theorem tree_container_span d name m ch :
  good_d d -> tree_of rr mp d = Some (VTree name m ch) ->
  (Y d = [] <-> m_empty m = true) /\
  (Y d <> [] -> or_else (m_cstart m) (m_start m) = first_start (Y d) /\
                or_else (m_cend m) (m_end m) = last_end (Y d)).
Proof.
  intros G Hv. destruct (tree_of_DInv d G _ Hv) as (H0 & H1). cbn [shaped_of view] in *. split.
  - split.
    + intros Y0. destruct (H0 Y0) as (Hview & _). destruct (m_empty m); [reflexivity|discriminate].
    + intros Hm. destruct (Y d) eqn:Ey; [reflexivity|].
      destruct (H1 ltac:(discriminate)) as (f & Hf & _). rewrite Hm in Hf. discriminate.
  - intros Yne. destruct (H1 Yne) as (f & Hf & Hs & He).
    destruct (m_empty m); [discriminate|]. injection Hf as <-. auto.
Qed.

End TreeSpan.

(* ---- own meta of trees created by a rule application ------------------------------------------ *)
(* the chain returns either a fresh tree_class(name, filtered) or something that was already there *)
Section ChainCases.
Variable X : Type.
Variable none : X.
Variable kids : X -> option (list X).
Variable mk : string -> list X -> X.
Variable Q : X -> Prop.
Hypothesis Q_none : Q none.
Hypothesis Q_kids : forall x l, Q x -> kids x = Some l -> Forall Q l.

Definition fresh_or_old (res : X) : Prop := Q res \/ exists n l, res = mk n l.
Definition cases_builder (b : builder X) : Prop := forall ch res, Forall Q ch -> b ch = Some res -> fresh_or_old res.

Lemma apply_wrapper_cases w b : cases_builder b -> cases_builder (apply_wrapper X none kids w b).
Proof.
  intros H ch res Hch. destruct w as [|fl]; cbn [apply_wrapper].
  - destruct ch as [|c [|c2 ch]]; try (apply H; exact Hch).
    intros [= <-]. left. inversion Hch; auto.
  - destruct (run_filter X none kids fl ch) as [l|] eqn:E; [|discriminate].
    apply H. exact (run_filter_pres X none kids Q Q_none Q_kids fl ch l Hch E).
Qed.

Lemma compose_cases ws : forall b, cases_builder b -> cases_builder (compose X none kids ws b).
Proof.
  unfold compose. induction ws as [|w ws IH]; intros b H; [exact H|].
  cbn [fold_left]. apply IH, apply_wrapper_cases, H.
Qed.

Theorem run_callback_cases r mp amb ch res :
  Forall Q ch -> run_callback X none kids (fun _ => None) mk r mp amb ch = Prelude.Ok (Some res) ->
  fresh_or_old res.
Proof.
  intros Hch. unfold run_callback, callback.
  destruct (wrapper_chain r mp amb) as [ws| |]; cbn [rbind]; try discriminate.
  intros [= E]. revert E. apply compose_cases; auto.
  intros l res' Hl [= <-]. right. eauto.
Qed.
End ChainCases.

Section OwnSpan.
Context {A term : Type}.
Notation tok := (token A term).
Variable rr : rule -> rrec.
Variable mp : bool.

(* x occurs inside c (reflexively, through .children) *)
Inductive desc (c : vtree A term) : vtree A term -> Prop :=
| d_refl : desc c c
| d_kid n m ch y : desc c (VTree n m ch) -> In y ch -> desc c y.

Definition old_value (vs : list (vtree A term)) (x : vtree A term) : Prop :=
  x = VNone \/ exists c, In c vs /\ desc c x.

(* A tree that comes out of a rule application either was created by it - then its own meta AND its
   container fields are exactly the span of the tokens the rule matched - or it already existed
   inside one of the children's values (inlined ?rule: that tree keeps the span of the rule that
   created it, by this same theorem one level down, and only its container fields are widened,
   tree_container_span). *)
Theorem tree_own_span r cs vs name m ch :
  good_d rr mp (Driver.Node r cs) ->
  all_some (map (tree_of rr mp) cs) = Some vs ->
  tree_of rr mp (Driver.Node r cs) = Some (VTree name m ch) ->
  (exists m0, old_value vs (VTree name m0 ch)) \/
  (m_start m = first_start (Y (Driver.Node r cs)) /\ m_end m = last_end (Y (Driver.Node r cs)) /\
   m_cstart m = m_start m /\ m_cend m = m_end m).
Proof.
  intros G E Hv. pose proof (tree_container_span rr mp _ _ _ _ G Hv) as (Hem & Hspan).
  cbn [tree_of] in Hv. rewrite E in Hv. unfold pos_callback in Hv.
  destruct (run_callback _ _ _ _ _ (rr r) mp false vs) as [[res|]| |] eqn:Er; try discriminate.
  injection Hv as Hv.
  assert (Hnone : old_value vs VNone) by (left; reflexivity).
  assert (Hkids : forall x l, old_value vs x -> vkids x = Some l -> Forall (old_value vs) l).
  { intros x l [-> | (c & Hc & Hd)]; [discriminate|]. destruct x as [t|n m' ch'|]; try discriminate.
    intros [= <-]. rewrite Forall_forall. intros y Hy. right. exists c. split; auto. econstructor; eauto. }
  assert (Hfor : Forall (old_value vs) vs).
  { rewrite Forall_forall. intros x Hx. right. exists x. split; auto. constructor. }
  destruct (run_callback_cases (vtree A term) VNone vkids vmk (old_value vs) Hnone Hkids (rr r) mp false vs res Hfor Er)
    as [Hold | (n & l & ->)].
  - left. destruct res as [t|n m0 l|]; cbn [pp] in Hv; try discriminate. injection Hv as <- _ <-.
    exists m0. exact Hold.
  - right. unfold vmk in Hv. cbn [pp] in Hv. injection Hv as <- Hm <-.
    destruct (Y (Driver.Node r cs)) as [|y ys] eqn:Ey.
    + assert (Hme : m_empty m = true) by (apply Hem; reflexivity).
      subst m. unfold propagate, m_empty in *. cbn [m_start m_end m_cstart m_cend empty_meta or_else] in *.
      destruct (first_view (map shaped_of vs)) as [f|]; destruct (first_view (rev (map shaped_of vs))) as [f'|];
        cbn [m_start m_end m_cstart m_cend or_else] in *;
        try (destruct (or_else (m_cstart f) (m_start f))); try (destruct (or_else (m_cend f') (m_end f')));
        cbn [or_else] in *; try discriminate; repeat split; reflexivity.
    + destruct (Hspan ltac:(discriminate)) as (Hs & He).
      subst m. unfold propagate in *. cbn [m_start m_end m_cstart m_cend empty_meta or_else] in *.
      destruct (first_view (map shaped_of vs)) as [f|]; destruct (first_view (rev (map shaped_of vs))) as [f'|];
        cbn [m_start m_end m_cstart m_cend or_else] in *.
      * destruct (or_else (m_cstart f) (m_start f)) eqn:E1; destruct (or_else (m_cend f') (m_end f')) eqn:E2;
          cbn [or_else] in *; repeat split; auto; try congruence.
      * destruct (or_else (m_cstart f) (m_start f)) eqn:E1; cbn [or_else] in *; repeat split; auto; try congruence; try discriminate.
      * destruct (or_else (m_cend f') (m_end f')) eqn:E2; cbn [or_else] in *; repeat split; auto; try congruence; try discriminate.
      * repeat split; auto; try congruence; try discriminate.
Qed.
End OwnSpan.
