(* Specification of source coordinates (C06).  No proofs here.

   coord T p = (line, column) of offset p in the text T:
     line   = 1 + number of newlines in T[0..p)
     column = 1 + number of characters of T[0..p) after its last newline
            = p - (index after the last newline of T[0..p)) + 1. *)
From Coq Require Import ZArith List Bool.
From LV Require Import Pos.PosBase.
Import ListNotations.

Section Coord.
Context {A : Type} (eqb : A -> A -> bool) (nl : A).

(* longest newline-free prefix *)
Fixpoint prefix_nonl (l : list A) : list A :=
  match l with
  | [] => []
  | x :: r => if eqb x nl then [] else x :: prefix_nonl r
  end.

(* length of the longest newline-free suffix: the characters after the last newline *)
Definition tail_len (l : list A) : nat := length (prefix_nonl (rev l)).

Definition line_of (T : list A) (p : nat) : Z := Z.of_nat (1 + count_nl eqb nl (firstn p T)).
Definition col_of (T : list A) (p : nat) : Z := Z.of_nat (1 + tail_len (firstn p T)).
Definition coord (T : list A) (p : nat) : Z * Z := (line_of T p, col_of T p).

(* offset of the first character of the line containing offset p *)
Definition line_start_of (T : list A) (p : nat) : Z := (Z.of_nat p - Z.of_nat (tail_len (firstn p T)))%Z.

(* the counter stands at offset p of T with exact coordinates *)
Definition at_coord (T : list A) (p : nat) (c : counter) : Prop :=
  char_pos c = Z.of_nat p /\ line c = line_of T p /\ column c = col_of T p /\
  line_start_pos c = line_start_of T p.

Definition has_no_newline (l : list A) : Prop := count_nl eqb nl l = O.

End Coord.
