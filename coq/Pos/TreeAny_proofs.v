(* Tree coordinates for ANY derivation (C06, Earley routes): the ParseTreeBuilder callbacks - PropagatePositions
   around the ChildFilter / ExpandSingleChild chain, the same objects ForestToParseTree calls - evaluated bottom-up
   on an arbitrary derivation tree over positioned tokens only ever copy position triples of those tokens.
   Generic in the token claim Qt and the triple claim R; instantiated for the basic lexer (exact coordinates) and
   for the dynamic scanner (start exact, end = last character + one column). *)
From Coq Require Import ZArith List Bool String Lia.
From LV Require Import Base.Prelude Cfg.Grammar Pos.PosBase Pos.Coord Pos.LexCoords Pos.LexCoords_proofs Pos.Current
  Pos.MetaSpan Shape.Chain Pos.TreeShift Pos.TreeShift_proofs.
From LV Require LR.Driver.
Import ListNotations.

Section TreeAny.
Context {A term : Type}.
Notation tok := (token A term).
Variable rr : rule -> rrec.
Variable mp : bool.
Variable Qt : tok -> Prop.
Variable R : trip -> Prop.
Hypothesis Qt_trips : forall t, Qt t -> R (start3 t) /\ R (end3 t).

Definition QvG (v : vtree A term) : Prop := Forall Qt (vtokens v) /\ Forall R (vtrips v).
Definition metaG (m : meta) : Prop := Forall R (meta_trips m).

Lemma metaG_iff m : metaG m <->
  (forall t, m_start m = Some t -> R t) /\ (forall t, m_end m = Some t -> R t) /\
  (forall t, m_cstart m = Some t -> R t) /\ (forall t, m_cend m = Some t -> R t).
Proof.
  unfold metaG, meta_trips. destruct m as [[s|] [e'|] [cs|] [ce|]]; cbn; split.
  all: try (intros H; repeat split; intros t [= <-]; repeat match goal with H : Forall _ (_ :: _) |- _ => inversion H; clear H; subst end; assumption).
  all: intros (H1 & H2 & H3 & H4); repeat constructor; auto.
Qed.

Lemma propagateG m ch :
  metaG m -> (forall c f, In c ch -> view c = Some f -> metaG f) -> metaG (propagate m ch).
Proof.
  intros Hm Hch. unfold propagate.
  assert (Hfv : forall l f, (forall c, In c l -> In c ch) -> first_view l = Some f -> metaG f).
  { intros l f Hl Hf. destruct (first_view_in l f Hf) as (c & Hin & Hv). eapply Hch; eauto. }
  apply metaG_iff in Hm. destruct Hm as (M1 & M2 & M3 & M4).
  destruct (first_view ch) as [f|] eqn:E1.
  - pose proof (Hfv ch f (fun c H => H) E1) as Hf. apply metaG_iff in Hf. destruct Hf as (F1 & F2 & F3 & F4).
    destruct (first_view (rev ch)) as [l|] eqn:E2.
    + pose proof (Hfv (rev ch) l (fun c H => proj2 (in_rev ch c) H) E2) as Hl.
      apply metaG_iff in Hl. destruct Hl as (L1 & L2 & L3 & L4).
      apply metaG_iff. cbn [m_start m_end m_cstart m_cend].
      repeat split; repeat (apply or_else_cases); auto.
    + apply metaG_iff. cbn [m_start m_end m_cstart m_cend].
      repeat split; repeat (apply or_else_cases); auto.
  - destruct (first_view (rev ch)) as [l|] eqn:E2.
    + pose proof (Hfv (rev ch) l (fun c H => proj2 (in_rev ch c) H) E2) as Hl.
      apply metaG_iff in Hl. destruct Hl as (L1 & L2 & L3 & L4).
      apply metaG_iff. cbn [m_start m_end m_cstart m_cend].
      repeat split; repeat (apply or_else_cases); auto.
    + apply metaG_iff. repeat split; auto.
Qed.

Lemma QvG_view v f : QvG v -> view (shaped_of v) = Some f -> metaG f.
Proof.
  intros (Ht & Hp). destruct v as [t|n m ch|]; cbn [shaped_of view].
  - intros [= <-]. cbn in Ht. inversion Ht as [|? ? Hk _]; subst.
    destruct (Qt_trips t Hk). unfold metaG, meta_trips. cbn. repeat constructor; auto.
  - destruct (m_empty m); [discriminate|]. intros [= <-]. cbn [vtrips] in Hp.
    apply Forall_app in Hp. apply Hp.
  - discriminate.
Qed.

Lemma QvG_pp res ch : QvG res -> Forall QvG ch -> QvG (pp res ch).
Proof.
  intros Hr Hch. destruct res as [t|n m l|]; cbn [pp]; auto.
  destruct Hr as (Ht & Hp). split; [exact Ht|]. cbn [vtrips] in *.
  apply Forall_app in Hp. destruct Hp as (Hm & Hl). apply Forall_app. split; [|exact Hl].
  apply propagateG; [exact Hm|].
  intros c f Hin Hv. apply in_map_iff in Hin. destruct Hin as (v & <- & Hin).
  rewrite Forall_forall in Hch. eapply QvG_view; eauto.
Qed.

Lemma QvG_kids x l : QvG x -> vkids x = Some l -> Forall QvG l.
Proof.
  destruct x as [t|n m ch|]; cbn [vkids]; try discriminate. intros (Ht & Hp) [= <-].
  cbn [vtokens vtrips] in *. apply Forall_app in Hp. destruct Hp as (_ & Hp).
  apply Forall_flat_map in Ht. apply Forall_flat_map in Hp.
  rewrite Forall_forall in *. intros c Hc. split; auto.
Qed.

Lemma QvG_mk n l : Forall QvG l -> QvG (vmk n l).
Proof.
  intros H. unfold vmk. split; cbn [vtokens vtrips meta_trips empty_meta m_start m_end m_cstart m_cend app].
  - apply Forall_flat_map. eapply Forall_impl; [|exact H]. intros v (Hv & _). exact Hv.
  - apply Forall_flat_map. eapply Forall_impl; [|exact H]. intros v (_ & Hv). exact Hv.
Qed.

Theorem tree_of_any d v : Forall Qt (Driver.yield tok d) -> tree_of rr mp d = Some v -> QvG v.
Proof.
  revert v. induction d as [k|r cs IH] using dtree_ind'; intros v Hy.
  - intros [= <-]. split; [exact Hy|constructor].
  - cbn [tree_of]. destruct (all_some (map (tree_of rr mp) cs)) as [vs|] eqn:E; [|discriminate].
    assert (Hvs : Forall QvG vs).
    { cbn [Driver.yield] in Hy. apply Forall_flat_map in Hy. clear - IH Hy E.
      revert vs E. induction cs as [|c cs IHc]; intros vs E.
      - cbn in E. injection E as <-. constructor.
      - cbn [map all_some] in E. destruct (tree_of rr mp c) as [vc|] eqn:Ec; [|discriminate].
        destruct (all_some (map (tree_of rr mp) cs)) as [vs'|]; [|discriminate]. injection E as <-.
        inversion IH; subst. inversion Hy; subst. constructor; auto. }
    unfold pos_callback.
    destruct (run_callback _ _ _ _ _ (rr r) mp false vs) as [[res|]| |] eqn:Er; try discriminate.
    intros [= <-]. apply QvG_pp; [|exact Hvs].
    eapply (run_callback_pres (vtree A term) VNone vkids vmk QvG); eauto.
    + split; constructor.
    + exact QvG_kids.
    + exact QvG_mk.
Qed.
End TreeAny.

(* ---- Earley with the basic lexer: the tokens are those of lex_slice -------------------------------------- *)
Section EarleyBasic.
Context {A term : Type} (eqb : A -> A -> bool) (nl : A).
Variable rr : rule -> rrec.
Variable mp : bool.
Variable scan : list term -> list A -> Z -> Z -> option (nat * term).
Variable ignore : term -> bool.
Variable newline_types : term -> bool.

(* d: the derivation the forest walk hands to the callbacks - ANY derivation tree whose leaves are the lexed
   tokens (which one is chosen - priorities, ambiguity resolution - does not matter) *)
Theorem tree_coords_exact_earley (T : list A) (a e : nat) ts o (d : Driver.dtree (token A term)) v :
  (a <= e)%nat -> (e <= List.length T)%nat ->
  (forall h (p n : nat) ty, scan h T (Z.of_nat p) (Z.of_nat e) = Some (n, ty) -> (p + n <= e)%nat) ->
  lex_slice eqb nl scan ignore newline_types T (Z.of_nat a) (Z.of_nat e) None = (ts, o) ->
  (forall t, In t (Driver.yield _ d) -> In t ts) ->
  tree_of rr mp d = Some v ->
  Forall (tok_ok eqb nl T a e) (vtokens v) /\ Forall (trip_exact eqb nl T a e) (vtrips v).
Proof.
  intros Ha He Hb El Hy Ht.
  destruct (lexer_coords eqb nl scan ignore newline_types T a e None ts o Ha He Hb (or_introl eq_refl) El) as (Hts & _ & _).
  apply (tree_of_any rr mp (tok_ok eqb nl T a e) (trip_exact eqb nl T a e) (tok_ok_trips eqb nl T a e) d v); [|exact Ht].
  rewrite Forall_forall in *. intros t Hin. apply Hts, Hy, Hin.
Qed.
End EarleyBasic.

(* ---- Earley with the dynamic lexers: tokens are created in xearley.scan ------------------------------------ *)
Section EarleyDyn.
Context {A term : Type} (eqb : A -> A -> bool) (nl : A) (isnl : A -> bool).
Variable rr : rule -> rrec.
Variable mp : bool.
Hypothesis isnl_spec : forall x, isnl x = eqb x nl.
Variable T : list A.

(* a token of the dynamic scanner: created for a match of T[s:e) *)
Definition dyn_tok (t : token A term) : Prop :=
  exists ty (s e : nat), (s < e)%nat /\ (e <= List.length T)%nat /\ t = dyn_token isnl ty T s e.

(* a triple is either an exact coordinate (token starts) or "last character + one column" (token ends) *)
Definition dyn_trip (t : trip) : Prop :=
  exists q : nat, fst (fst t) = Z.of_nat q /\ (q <= List.length T)%nat /\
    ((snd (fst t), snd t) = coord eqb nl T q \/
     ((1 <= q)%nat /\ (snd (fst t), snd t) = (line_of eqb nl T (q - 1), (col_of eqb nl T (q - 1) + 1)%Z))).

Lemma dyn_tok_trips t : dyn_tok t -> dyn_trip (start3 t) /\ dyn_trip (end3 t).
Proof.
  intros (ty & s & e & Hse & He & ->).
  destruct (dyn_token_coords eqb nl isnl isnl_spec ty T s e Hse He) as (_ & _ & Hs & Hep & Hc & Hec & _).
  split.
  - exists s. unfold start3. cbn [fst snd]. split; [exact Hs|]. split; [lia|]. left. exact Hc.
  - exists e. unfold end3. cbn [fst snd]. split; [exact Hep|]. split; [lia|]. right. split; [lia|exact Hec].
Qed.

(* for ANY derivation over dynamic-scanner tokens: every token in the tree is such a token (start exact, value =
   T[s:e]), every meta triple is the start of one (exact coordinates) or the end of one *)
Theorem dyn_tree_coords (d : Driver.dtree (token A term)) v :
  Forall dyn_tok (Driver.yield _ d) -> tree_of rr mp d = Some v ->
  Forall dyn_tok (vtokens v) /\ Forall dyn_trip (vtrips v).
Proof. exact (tree_of_any rr mp dyn_tok dyn_trip dyn_tok_trips d v). Qed.
End EarleyDyn.
