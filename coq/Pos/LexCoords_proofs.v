(* Proofs about the lexer-position model Pos/LexCoords.v (C06 lexer_coords, dyn_coords;
   C15 window_shift, bytes_eq_str). *)
From Coq Require Import ZArith List Bool Lia Arith.
From LV Require Import Pos.PosBase Gen.LineCounter Gen.LexStep Gen.DynStep Pos.Coord
  Pos.LineCounter_proofs Pos.LexCoords.
Import ListNotations.
Local Open Scope Z_scope.

Lemma slice_len {A} (T : list A) (p n : nat) :
  slice T (Z.of_nat p) (Z.of_nat p + Z.of_nat n) = firstn n (skipn p T).
Proof. unfold slice. rewrite Nat2Z.id. f_equal. lia. Qed.

Lemma window_length {A} (T : list A) (p n : nat) :
  (p + n <= length T)%nat -> length (firstn n (skipn p T)) = n.
Proof. intros H. rewrite firstn_length_le; [reflexivity|]. rewrite skipn_length. lia. Qed.

(* ------------------------------------------------------------------------------------------ *)
Section LexerCoords.
Context {A : Type} (eqb : A -> A -> bool) (nl : A) {term : Type}.
Variable scan : list term -> list A -> Z -> Z -> option (nat * term).
Variable ignore : term -> bool.
Variable newline_types : term -> bool.

(* the token claim of C06 for the basic / contextual family, for a window [lo, hi) of buffer T *)
Definition tok_ok (T : list A) (lo hi : nat) (t : token A term) : Prop :=
  exists s n : nat,
    t_start t = Z.of_nat s /\ (lo <= s)%nat /\ (s + n <= hi)%nat /\
    t_value t = firstn n (skipn s T) /\ length (t_value t) = n /\
    t_end_pos t = Z.of_nat (s + n) /\
    (t_line t, t_column t) = coord eqb nl T s /\
    (t_end_line t, t_end_column t) = coord eqb nl T (s + n).

(* tokens come in text order and do not overlap *)
Fixpoint chain (p : Z) (ts : list (token A term)) : Prop :=
  match ts with
  | [] => True
  | t :: r => p <= t_start t /\ t_start t <= t_end_pos t /\ chain (t_end_pos t) r
  end.

Definition outcome_ok (T : list A) (lo hi : nat) (o : outcome) : Prop :=
  match o with
  | Unexpected p l c => exists q : nat, p = Z.of_nat q /\ (lo <= q <= hi)%nat /\ (l, c) = coord eqb nl T q
  | _ => True
  end.

Lemma tok_ok_weaken T lo lo' hi t : (lo <= lo')%nat -> tok_ok T lo' hi t -> tok_ok T lo hi t.
Proof.
  intros H (s & n & H1 & H2 & H3). exists s, n. split; [exact H1|]. split; [lia|exact H3].
Qed.

Section Window.
Variable T : list A.
Variable e : nat.
Hypothesis e_le : (e <= length T)%nat.
(* the engine honours endpos: a match at p inside the window ends inside the window *)
Hypothesis scan_bounded : forall h (p n : nat) ty,
  scan h T (Z.of_nat p) (Z.of_nat e) = Some (n, ty) -> (p + n <= e)%nat.
(* H_nl: a terminal for which next_token passes test_newline = False never matches a newline *)
Hypothesis H_nl : forall h (p n : nat) ty,
  scan h T (Z.of_nat p) (Z.of_nat e) = Some (n, ty) ->
  h_testnl newline_types ty = false -> has_no_newline eqb nl (firstn n (skipn p T)).

Lemma lex_loop_ok fuel : forall hist (p : nat) c ts o,
  (p <= e)%nat -> at_coord eqb nl T p c ->
  lex_loop eqb nl scan ignore newline_types fuel hist T (Z.of_nat e) c = (ts, o) ->
  Forall (tok_ok T p e) ts /\ chain (Z.of_nat p) ts /\ outcome_ok T p e o.
Proof.
  induction fuel as [|f IH]; intros hist p c ts o Hp Hc; cbn [lex_loop].
  - intros [= <- <-]. repeat split; constructor.
  - unfold lex_step. pose proof Hc as (Hcp & Hln & Hcol & _). rewrite Hcp.
    destruct (h_more (Z.of_nat p) (Z.of_nat e)).
    2:{ intros [= <- <-]. repeat split; constructor. }
    destruct (scan hist T (Z.of_nat p) (Z.of_nat e)) as [[n ty]|] eqn:Es.
    2:{ intros [= <- <-]. split; [constructor|]. split; [exact I|].
        exists p. split; [exact Hcp|]. split; [lia|]. unfold coord. congruence. }
    pose proof (scan_bounded _ _ _ _ Es) as Hb.
    rewrite slice_len.
    set (value := firstn n (skipn p T)).
    assert (Hc' : at_coord eqb nl T (p + n) (feed eqb nl c value (h_testnl newline_types ty))).
    { apply feed_tracks_coord; [lia|exact Hc|].
      destruct (h_testnl newline_types ty) eqn:Et; [left; reflexivity|right].
      eapply H_nl; eauto. }
    set (c' := feed eqb nl c value (h_testnl newline_types ty)) in *. clearbody c'.
    destruct (ignore ty).
    + intros E. destruct (IH hist (p + n)%nat _ ts o ltac:(lia) Hc' E) as (F & Ch & O).
      split; [|split].
      * eapply Forall_impl; [|exact F]. intros t. apply tok_ok_weaken. lia.
      * destruct ts as [|t r]; [exact I|]. cbn [chain] in *. split; [lia|tauto].
      * destruct o; cbn [outcome_ok] in *; auto. destruct O as (q & -> & ? & ?). exists q. repeat split; auto; lia.
    + destruct (lex_loop eqb nl scan ignore newline_types f _ T (Z.of_nat e) _) as [ts' o'] eqn:E.
      intros [= <- <-].
      destruct (IH _ (p + n)%nat _ ts' o' ltac:(lia) Hc' E) as (F & Ch & O).
      destruct Hc' as (Hcp' & Hln' & Hcol' & _).
      split; [|split].
      * constructor.
        -- exists p, n. cbn [t_start t_value t_line t_column t_end_line t_end_column t_end_pos]. rewrite Hcp'. repeat split; try lia; try reflexivity.
           ++ apply window_length. lia.
           ++ unfold coord. congruence.
           ++ unfold coord. congruence.
        -- eapply Forall_impl; [|exact F]. intros t. apply tok_ok_weaken. lia.
      * cbn [chain t_start t_end_pos]. rewrite Hcp'. split; [lia|]. split; [lia|]. exact Ch.
      * destruct o'; cbn [outcome_ok] in *; auto. destruct O as (q & -> & ? & ?). exists q. repeat split; auto; lia.
Qed.

(* C06 lexer_coords: every token of lexing the window [a, e) of T - starting from a plain
   TextSlice or from one carrying an exact snapshot - carries exact source coordinates *)
Theorem lexer_coords_gen (a : nat) snap ts o :
  (a <= e)%nat ->
  (snap = None \/ snap = Some (line_of eqb nl T a, line_start_of eqb nl T a)) ->
  lex_slice eqb nl scan ignore newline_types T (Z.of_nat a) (Z.of_nat e) snap = (ts, o) ->
  Forall (tok_ok T a e) ts /\ chain (Z.of_nat a) ts /\ outcome_ok T a e o.
Proof.
  intros Ha Hs. unfold lex_slice. apply lex_loop_ok; [exact Ha|].
  apply from_text_slice_coord; [lia|exact Hs].
Qed.

End Window.
End LexerCoords.

(* ------------------------------------------------------------------------------------------ *)
(* dynamic family *)
Section DynCoords.
Context {A : Type} (eqb : A -> A -> bool) (nl : A) (isnl : A -> bool) {term : Type}.
Hypothesis isnl_spec : forall x, isnl x = eqb x nl.
(* regenerated-file lemma: the constants of the main loop of xearley._parse *)
Lemma consts : dyn_line0 = 1 /\ dyn_col0 = 1 /\ dyn_line_inc = 1 /\ dyn_col_reset = 1 /\ dyn_col_inc = 1.
Proof. repeat split; reflexivity. Qed.

Lemma firstn_S_snoc (T : list A) i x : nth_error T i = Some x -> firstn (S i) T = firstn i T ++ [x].
Proof.
  revert T; induction i as [|i IH]; intros [|y T] H; try discriminate.
  - cbn in H. injection H as ->. reflexivity.
  - cbn [nth_error] in H. rewrite !firstn_cons. cbn [app]. f_equal. apply IH, H.
Qed.

Theorem dyn_at_coord (T : list A) i : (i <= length T)%nat -> dyn_at isnl T i = coord eqb nl T i.
Proof.
  destruct consts as (C1 & C2 & C3 & C4 & C5).
  induction i as [|i IH]; intros Hi.
  - unfold dyn_at, coord, line_of, col_of. cbn. rewrite C1, C2. reflexivity.
  - destruct (nth_error T i) as [x|] eqn:Ex.
    2:{ apply nth_error_None in Ex. lia. }
    unfold dyn_at. rewrite (firstn_S_snoc _ _ _ Ex), fold_left_app. cbn [fold_left].
    fold (dyn_at isnl T i). rewrite IH by lia. rewrite (coord_step eqb nl T i x Ex).
    unfold dyn_step. rewrite isnl_spec. unfold coord. cbn [fst snd]. rewrite C3, C4, C5.
    destruct (eqb x nl); reflexivity.
Qed.

(* token claim of the dynamic family: start coordinates exact; the end is reported as the
   coordinates of the last character plus one column - equal to coord T e unless the token ends
   with a newline, where it is one past the newline on the newline's own line *)
Theorem dyn_token_coords (ty : term) (T : list A) s e :
  (s < e)%nat -> (e <= length T)%nat ->
  let t := dyn_token isnl ty T s e in
  t_value t = firstn (e - s) (skipn s T) /\ length (t_value t) = (e - s)%nat /\
  t_start t = Z.of_nat s /\ t_end_pos t = Z.of_nat e /\
  (t_line t, t_column t) = coord eqb nl T s /\
  (t_end_line t, t_end_column t) = (line_of eqb nl T (e - 1), col_of eqb nl T (e - 1) + 1) /\
  (forall x, nth_error T (e - 1) = Some x -> eqb x nl = false ->
     (t_end_line t, t_end_column t) = coord eqb nl T e).
Proof.
  intros Hse He t. unfold t, dyn_token.
  cbn [t_value t_start t_end_pos t_line t_column t_end_line t_end_column].
  rewrite !dyn_at_coord by lia.
  unfold dyn_end_line, dyn_end_column, dyn_end_pos, coord. cbn [fst snd].
  split; [reflexivity|]. split; [apply window_length; lia|]. split; [reflexivity|].
  split; [lia|]. split; [reflexivity|]. split; [reflexivity|].
  intros x Hx Hn. replace e with (S (e - 1)) at 3 4 by lia.
  fold (coord eqb nl T (S (e - 1))). rewrite (coord_step eqb nl T (e - 1) x Hx), Hn. reflexivity.
Qed.

End DynCoords.
