(* Executable model of the position bookkeeping of the lexers (C06, C15).  No proofs here.

   * basic / contextual family: BasicLexer.next_token + AbstractBasicLexer.lex / ContextualLexer.lex
     over the regenerated LineCounter (Gen/LineCounter.v) and the regenerated holes of next_token
     (Gen/LexStep.v).  The regex engine is the oracle [scan].
   * dynamic family: the coordinates kept by xearley.Parser._parse (Gen/DynStep.v). *)
From Coq Require Import ZArith List Bool.
From LV Require Import Pos.PosBase Gen.LineCounter Gen.LexStep Gen.DynStep Pos.Coord.
Import ListNotations.
Local Open Scope Z_scope.

Record token (A term : Type) := mkTok {
  t_type : term; t_value : list A;
  t_start : Z; t_line : Z; t_column : Z;
  t_end_line : Z; t_end_column : Z; t_end_pos : Z }.
Arguments mkTok {A term}.
Arguments t_type {A term}. Arguments t_value {A term}. Arguments t_start {A term}.
Arguments t_line {A term}. Arguments t_column {A term}. Arguments t_end_line {A term}.
Arguments t_end_column {A term}. Arguments t_end_pos {A term}.

(* how a lex() run ends: EOFError swallowed by lex (Done), UnexpectedCharacters(pos, line, column) *)
Inductive outcome := Done | Unexpected (pos line col : Z) | OutOfFuel.

Section Lexer.
Context {A : Type} (eqb : A -> A -> bool) (nl : A) {term : Type}.

(* [scan hist T pos e]: Scanner.match(TextSlice(T, _, e), pos) of the sub-lexer selected by the
   parser state reached after the token types [hist] (most recent first) - the basic lexer ignores
   [hist].  Some (n, type_): the alternation matched T[pos:pos+n] (m.group(0)) as terminal type_. *)
Variable scan : list term -> list A -> Z -> Z -> option (nat * term).
Variable ignore : term -> bool.            (* type_ in self.ignore_types *)
Variable newline_types : term -> bool.     (* type_ in self.newline_types *)

Inductive step :=
| SEof
| SErr (c : counter)
| SSkip (c : counter)
| STok (t : token A term) (c : counter).

(* one iteration of the while loop of next_token *)
Definition lex_step (hist : list term) (T : list A) (e : Z) (c : counter) : step :=
  if h_more (char_pos c) e then
    match scan hist T (char_pos c) e with
    | None => SErr c
    | Some (n, type_) =>
        let value := slice T (char_pos c) (char_pos c + Z.of_nat n) in
        let c' := feed eqb nl c value (h_testnl newline_types type_) in
        if ignore type_ then SSkip c'
        else STok (mkTok type_ value (char_pos c) (line c) (column c) (line c') (column c') (char_pos c')) c'
    end
  else SEof.

(* lex(): next_token until EOFError *)
Fixpoint lex_loop (fuel : nat) (hist : list term) (T : list A) (e : Z) (c : counter)
  : list (token A term) * outcome :=
  match fuel with
  | O => ([], OutOfFuel)
  | S f =>
      match lex_step hist T e c with
      | SEof => ([], Done)
      | SErr c => ([], Unexpected (char_pos c) (line c) (column c))
      | SSkip c' => lex_loop f hist T e c'
      | STok t c' => let '(ts, o) := lex_loop f (t_type t :: hist) T e c' in (t :: ts, o)
      end
  end.

(* LexerThread.from_text(TextSlice(T, a, e)) ... lex(): every match is at least one character
   long (zero-width terminals are rejected at construction), so e - a + 1 iterations suffice *)
Definition lex_slice (T : list A) (a e : Z) (snap : option (Z * Z)) : list (token A term) * outcome :=
  lex_loop (S (Z.to_nat (e - a))) [] T e (from_text_slice eqb nl T a snap).

End Lexer.

(* ---------------------------------------------------------------- dynamic family (xearley) *)
Section Dyn.
Context {A : Type} (isnl : A -> bool) {term : Type}.

(* (text_line, text_column) after the main loop consumed one more element *)
Definition dyn_step (st : Z * Z) (x : A) : Z * Z :=
  if isnl x then (fst st + dyn_line_inc, dyn_col_reset) else (fst st, snd st + dyn_col_inc).

(* (text_line, text_column) when the loop is at index i *)
Definition dyn_at (T : list A) (i : nat) : Z * Z :=
  fold_left dyn_step (firstn i T) (dyn_line0, dyn_col0).

(* the Token built in scan(s) for a match of T[s:e) (s < e) and completed in scan(e-1) *)
Definition dyn_token (ty : term) (T : list A) (s e : nat) : token A term :=
  let st0 := dyn_at T s in
  let st1 := dyn_at T (e - 1) in
  let i1 := Z.of_nat (e - 1) in
  mkTok ty (firstn (e - s) (skipn s T)) (Z.of_nat s) (fst st0) (snd st0)
        (dyn_end_line i1 (fst st1) (snd st1)) (dyn_end_column i1 (fst st1) (snd st1))
        (dyn_end_pos i1 (fst st1) (snd st1)).
End Dyn.

(* the dynamic scanner's newline test, instantiated for the two representations:
   str   - elements are one-character strings: [x == '\n'] is [eqb x nl], [x == 10] is false
   bytes - elements are integers:              [x == '\n'] is false, [x == 10] is [eqb x nl] *)
Definition isnl_str {A} (eqb : A -> A -> bool) (nl : A) (x : A) : bool :=
  dyn_isnl (fun y => eqb y nl) (fun _ => false) x.
Definition isnl_bytes {A} (eqb : A -> A -> bool) (nl : A) (x : A) : bool :=
  dyn_isnl (fun _ => false) (fun y => eqb y nl) x.

(* ---------------------------------------------------------------- representation maps (C15) *)
Definition shift_outcome (a : Z) (ln col : Z -> Z) (o : outcome) : outcome :=
  match o with
  | Unexpected p _ _ => Unexpected (p + a) (ln (p + a)) (col (p + a))
  | o => o
  end.

(* a token of the extracted substring, re-based to the buffer: offsets shifted by the window
   start a, line/column taken in the buffer (ln, col = line_of/col_of of the buffer) *)
Definition shift_tok {A term} (a : Z) (ln col : Z -> Z) (t : token A term) : token A term :=
  mkTok (t_type t) (t_value t) (t_start t + a) (ln (t_start t + a)) (col (t_start t + a))
        (ln (t_end_pos t + a)) (col (t_end_pos t + a)) (t_end_pos t + a).

Definition enc_tok {A B term} (enc : A -> B) (t : token A term) : token B term :=
  mkTok (t_type t) (map enc (t_value t)) (t_start t) (t_line t) (t_column t)
        (t_end_line t) (t_end_column t) (t_end_pos t).
