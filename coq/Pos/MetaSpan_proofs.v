(* Proofs about the PropagatePositions model Pos/MetaSpan.v: meta_span. *)
From Coq Require Import ZArith List Bool Lia.
From LV Require Import Pos.MetaSpan.
Import ListNotations.

Definition last_error {X} (l : list X) : option X := hd_error (rev l).
Definition first_start (l : list (trip * trip)) : option trip := option_map fst (hd_error l).
Definition last_end (l : list (trip * trip)) : option trip := option_map snd (last_error l).

(* the span a shaped child offers to its parent: container fields when present, else its own *)
Definition cview (s : shaped) : option trip * option trip :=
  match s with
  | SHTok s e => (Some s, Some e)
  | SHTree m => (or_else (m_cstart m) (m_start m), or_else (m_cend m) (m_end m))
  | SHNone => (None, None)
  end.

(* Well-formed callback trees inside the class where the property holds:
   every child was produced by a recorded callback or is a token / None; a node builder that
   returns one of its children returns an existing one; and (exclusion of finding F23) when the
   returned child is a bare Token, the rule matched no other token. *)
Inductive good : ptree -> Prop :=
| g_tok se : good (PTok se)
| g_none : good PNone
| g_fresh o cs : Forall good cs -> good (PNode None o cs)
| g_pass k o cs : Forall good cs -> k < length cs ->
    build (nth k cs PNone) <> SHNone ->
    (forall s e, build (nth k cs PNone) = SHTok s e -> flat_map toks cs = toks (nth k cs PNone)) ->
    good (PNode (Some k) o cs).

Section Ind.
Variable P : ptree -> Prop.
Hypothesis Htok : forall se, P (PTok se).
Hypothesis Hleaf : forall m, P (PLeaf m).
Hypothesis Hnone : P PNone.
Hypothesis Hnode : forall sel o cs, Forall P cs -> P (PNode sel o cs).
Fixpoint ptree_ind' (p : ptree) : P p :=
  match p with
  | PTok se => Htok se
  | PLeaf m => Hleaf m
  | PNone => Hnone
  | PNode sel o cs =>
      Hnode sel o cs ((fix go (l : list ptree) : Forall P l :=
                         match l with
                         | [] => Forall_nil P
                         | x :: r => Forall_cons x (ptree_ind' x) (go r)
                         end) cs)
  end.
End Ind.

Definition Inv (p : ptree) : Prop :=
  let s := build p in
  cview s = (first_start (toks p), last_end (toks p)) /\
  (toks p = [] -> s = SHTree empty_meta \/ s = SHNone) /\
  (toks p <> [] -> match s with
                   | SHTok _ _ => True
                   | SHTree m => m_start m <> None /\ m_end m <> None
                   | SHNone => False
                   end).

Lemma first_start_app a b : a <> [] -> first_start (a ++ b) = first_start a.
Proof. destruct a; [congruence|reflexivity]. Qed.

Lemma last_end_app a b : b <> [] -> last_end (a ++ b) = last_end b.
Proof.
  intros H. unfold last_end, last_error. rewrite rev_app_distr.
  destruct (rev b) eqn:E; [|reflexivity].
  apply (f_equal (@rev _)) in E. rewrite rev_involutive in E. cbn in E. congruence.
Qed.

Lemma view_inv c : Inv c ->
  match view (build c) with
  | Some f => (or_else (m_cstart f) (m_start f), or_else (m_cend f) (m_end f)) = cview (build c) /\ toks c <> []
  | None => toks c = []
  end.
Proof.
  intros (Hc & He & Hn). destruct (toks c) as [|t r] eqn:Et.
  - destruct (He eq_refl) as [-> | ->]; reflexivity.
  - assert (Hne : t :: r <> []) by congruence. specialize (Hn Hne).
    destruct (build c) as [s e|m|]; cbn [view cview].
    + split; [reflexivity|exact Hne].
    + destruct Hn as (H1 & H2). destruct m as [ms me mcs mce]. cbn [m_start m_end] in *.
      unfold m_empty. cbn [m_start m_end m_cstart m_cend].
      destruct ms; [|congruence]. split; [reflexivity|exact Hne].
    + contradiction.
Qed.

Lemma first_view_spec cs : Forall Inv cs ->
  match first_view (map build cs) with
  | Some f => or_else (m_cstart f) (m_start f) = first_start (flat_map toks cs) /\ flat_map toks cs <> []
  | None => flat_map toks cs = []
  end.
Proof.
  induction 1 as [|c r Hc Hr IH]; [reflexivity|].
  cbn [map first_view flat_map]. pose proof (view_inv c Hc) as V. pose proof Hc as (Hcv & _).
  destruct (view (build c)) as [f|].
  - destruct V as (V1 & V2). rewrite first_start_app by exact V2. split.
    + rewrite Hcv in V1. congruence.
    + destruct (toks c); [congruence|discriminate].
  - rewrite V. exact IH.
Qed.

Lemma last_view_spec cs : Forall Inv cs ->
  match first_view (rev (map build cs)) with
  | Some f => or_else (m_cend f) (m_end f) = last_end (flat_map toks cs) /\ flat_map toks cs <> []
  | None => flat_map toks cs = []
  end.
Proof.
  induction cs as [|c r IH] using rev_ind; [reflexivity|].
  intros H. apply Forall_app in H. destruct H as (Hr & Hc). inversion Hc as [|? ? Hc' _]; subst.
  rewrite map_app, rev_app_distr, flat_map_app. cbn [map rev app first_view flat_map].
  rewrite app_nil_r.
  pose proof (view_inv c Hc') as V. pose proof Hc' as (Hcv & _).
  destruct (view (build c)) as [f|].
  - destruct V as (V1 & V2). rewrite last_end_app by exact V2. split.
    + rewrite Hcv in V1. congruence.
    + destruct (flat_map toks r); destruct (toks c); try congruence; discriminate.
  - rewrite V, app_nil_r. apply IH, Hr.
Qed.

Lemma flat_nil_in cs x : flat_map toks cs = [] -> In x cs -> toks x = [].
Proof.
  induction cs as [|c r IH]; intros H Hin; [destruct Hin|].
  cbn [flat_map] in H. apply app_eq_nil in H. destruct H as (H1 & H2).
  destruct Hin as [<- | Hin]; auto.
Qed.

Lemma good_Inv p : good p -> Inv p.
Proof.
  induction p as [se|m| |sel o cs IH] using ptree_ind'; intros G.
  - unfold Inv. cbn. destruct se as [s e]. split; [reflexivity|]. split; [discriminate|auto].
  - inversion G.
  - unfold Inv. cbn. repeat split; auto.
  - assert (Hcs : Forall Inv cs).
    { inversion G; subst; rewrite Forall_forall in *; auto. }
    pose proof (first_view_spec cs Hcs) as F. pose proof (last_view_spec cs Hcs) as Lv.
    unfold Inv. cbn [build toks].
    inversion G as [| |o' cs' Gc|k o' cs' Gc Hk Hnn Htk]; subst.
    + (* fresh tree *)
      unfold propagate. cbn [m_start m_end m_cstart m_cend empty_meta].
      destruct (first_view (map build cs)) as [f|]; destruct (first_view (rev (map build cs))) as [l|];
        cbn [cview m_start m_end m_cstart m_cend or_else].
      * destruct F as (F1 & F2), Lv as (L1 & L2). rewrite F1, L1.
        assert (first_start (flat_map toks cs) <> None /\ last_end (flat_map toks cs) <> None) as (N1 & N2).
        { split.
          - destruct (flat_map toks cs); [congruence|discriminate].
          - unfold last_end, last_error. destruct (rev (flat_map toks cs)) eqn:E; [|discriminate].
            apply (f_equal (@rev _)) in E. rewrite rev_involutive in E. cbn in E. congruence. }
        destruct (first_start (flat_map toks cs)); [|congruence].
        destruct (last_end (flat_map toks cs)); [|congruence].
        cbn [or_else]. repeat split; try congruence; try discriminate.
      * destruct F as (_ & F2). congruence.
      * destruct Lv as (_ & L2). congruence.
      * rewrite F. repeat split; auto; congruence.
    + (* the node builder returned child k *)
      assert (Hin : In (nth k cs PNone) cs) by (apply nth_In; exact Hk).
      assert (Hik : Inv (nth k cs PNone)) by (rewrite Forall_forall in Hcs; auto).
      assert (E : nth k (map build cs) SHNone = build (nth k cs PNone)) by (apply (map_nth build cs PNone k)).
      rewrite E.
      destruct (build (nth k cs PNone)) as [s e|m|] eqn:Eb.
      * (* bare token *)
        rewrite (Htk s e eq_refl). unfold Inv in Hik. rewrite Eb in Hik. exact Hik.
      * (* tree: own fields kept, container widened *)
        destruct Hik as (Hv & He & Hn). rewrite Eb in Hv, He, Hn.
        unfold propagate.
        destruct (first_view (map build cs)) as [f|]; destruct (first_view (rev (map build cs))) as [l|];
          cbn [cview m_start m_end m_cstart m_cend or_else].
        -- destruct F as (F1 & F2), Lv as (L1 & L2). rewrite F1, L1.
           assert (first_start (flat_map toks cs) <> None /\ last_end (flat_map toks cs) <> None) as (N1 & N2).
           { split.
             - destruct (flat_map toks cs); [congruence|discriminate].
             - unfold last_end, last_error. destruct (rev (flat_map toks cs)) eqn:E'; [|discriminate].
               apply (f_equal (@rev _)) in E'. rewrite rev_involutive in E'. cbn in E'. congruence. }
           destruct (first_start (flat_map toks cs)) as [fs|]; [|congruence].
           destruct (last_end (flat_map toks cs)) as [le|]; [|congruence].
           cbn [or_else]. split; [reflexivity|]. split; [congruence|]. intros _.
           split; destruct (m_start m), (m_end m); cbn [or_else]; discriminate.
        -- destruct F as (_ & F2). congruence.
        -- destruct Lv as (_ & L2). congruence.
        -- (* the rule matched no token: child k matched none either *)
           assert (Hk0 : toks (nth k cs PNone) = []).
           { eapply flat_nil_in; eauto. }
           destruct (He Hk0) as [[= ->] | [=]]. rewrite F. cbn. repeat split; auto; congruence.
      * congruence.
Qed.

(* C06 meta_span: a fresh tree node's own meta (and its container fields) span exactly from the
   start of the first to the end of the last token its rule matched - filtered tokens included,
   recursively through inlined rules; a rule that matched no token leaves the meta empty *)
Theorem meta_span o cs :
  good (PNode None o cs) ->
  exists m, build (PNode None o cs) = SHTree m /\
    m_start m = first_start (flat_map toks cs) /\ m_end m = last_end (flat_map toks cs) /\
    m_cstart m = m_start m /\ m_cend m = m_end m /\
    (m_empty m = true <-> flat_map toks cs = []).
Proof.
  intros G. inversion G as [| |o' cs' Gc|]; subst.
  assert (Hcs : Forall Inv cs) by (rewrite Forall_forall in *; intros; apply good_Inv; auto).
  pose proof (first_view_spec cs Hcs) as F. pose proof (last_view_spec cs Hcs) as Lv.
  cbn [build]. eexists; split; [reflexivity|]. unfold propagate.
  cbn [m_start m_end m_cstart m_cend empty_meta].
  destruct (first_view (map build cs)) as [f|]; destruct (first_view (rev (map build cs))) as [l|];
    cbn [m_start m_end m_cstart m_cend or_else m_empty].
  - destruct F as (F1 & F2), Lv as (L1 & L2). rewrite F1, L1.
    do 4 (split; [reflexivity|]). unfold m_empty. cbn [m_start m_end].
    split; [|congruence]. destruct (flat_map toks cs); [congruence|]. cbn. discriminate.
  - destruct F as (_ & F2). congruence.
  - destruct Lv as (_ & L2). congruence.
  - rewrite F. cbn. repeat split; auto.
Qed.

(* an inlined [?rule] that returns a sub-tree keeps that tree's own span and widens only the
   container fields, which is what the parent reads *)
Theorem meta_passthrough k o cs m :
  good (PNode (Some k) o cs) -> build (nth k cs PNone) = SHTree m -> m_empty m = false ->
  exists m', build (PNode (Some k) o cs) = SHTree m' /\
    m_start m' = m_start m /\ m_end m' = m_end m /\
    m_cstart m' = first_start (flat_map toks cs) /\ m_cend m' = last_end (flat_map toks cs).
Proof.
  intros G Eb Hne. pose proof (good_Inv _ G) as (Hv & _ & Hn).
  inversion G as [| | |k' o' cs' Gc Hk Hnn Htk]; subst.
  assert (Hcs : Forall Inv cs) by (rewrite Forall_forall in *; intros; apply good_Inv; auto).
  assert (Hik : Inv (nth k cs PNone)) by (rewrite Forall_forall in Hcs; apply Hcs, nth_In, Hk).
  cbn [build] in *.
  assert (E : nth k (map build cs) SHNone = build (nth k cs PNone)) by (apply (map_nth build cs PNone k)).
  rewrite E, Eb in *. eexists; split; [reflexivity|].
  destruct Hik as (_ & He & Hn'). rewrite Eb in He, Hn'.
  assert (Hk0 : toks (nth k cs PNone) <> []).
  { intros H0. destruct (He H0) as [[= ->] | [=]]. discriminate. }
  destruct (Hn' Hk0) as (S1 & S2).
  assert (Hall : flat_map toks cs <> []).
  { intros H0. apply Hk0. eapply flat_nil_in; eauto. apply nth_In, Hk. }
  pose proof (first_view_spec cs Hcs) as F. pose proof (last_view_spec cs Hcs) as Lv.
  clear Hv Hn. unfold propagate.
  destruct (m_start m) as [ms|] eqn:Es; [|congruence]. destruct (m_end m) as [me|] eqn:Ee; [|congruence].
  destruct (first_view (map build cs)) as [f|]; [|congruence].
  destruct (first_view (rev (map build cs))) as [l|]; [|congruence].
  destruct F as (F1 & _), Lv as (L1 & _).
  cbn [m_start m_end m_cstart m_cend or_else]. rewrite ?Es, ?Ee. cbn [or_else].
  repeat split; assumption.
Qed.

(* Necessity of the token clause of [good] (finding F23): for [start: atom "x"], [?atom: "(" NUM ")"]
   on the input "(1)x" the inlined rule returns the bare NUM token, the filtered "(" is forgotten,
   and the parent's meta starts at offset 1 instead of 0. *)
Local Open Scope Z_scope.
Definition f23_tree : ptree :=
  PNode None OOther
    [PNode (Some 1%nat) OOther [PTok ((0, 1, 1), (1, 1, 2)); PTok ((1, 1, 2), (2, 1, 3)); PTok ((2, 1, 3), (3, 1, 4))];
     PTok ((3, 1, 4), (4, 1, 5))].

Lemma meta_span_inlined_token_refuted :
  exists o cs m, f23_tree = PNode None o cs /\ build (PNode None o cs) = SHTree m /\
    m_start m = Some (1, 1, 2) /\ first_start (flat_map toks cs) = Some (0, 1, 1).
Proof. do 3 eexists. split; [reflexivity|]. vm_compute. repeat split. Qed.

(* ---- children's spans are ordered, disjoint and nested in the parent's -------------------------
   Token streams are in text order (C06 lexer_coords: [chain]); a child's matched tokens are a
   contiguous segment b of the parent's a ++ b ++ c, and by meta_span every span is
   (start of first, end of last) of its segment. *)
Definition tpos (t : trip) : Z := fst (fst t).

Fixpoint ordered (l : list (trip * trip)) : Prop :=
  match l with
  | [] => True
  | x :: r => tpos (fst x) <= tpos (snd x) /\
              match r with [] => True | y :: _ => tpos (snd x) <= tpos (fst y) end /\ ordered r
  end.

Lemma ordered_head_le x r y : ordered (x :: r) -> In y r -> tpos (snd x) <= tpos (fst y) /\ tpos (snd x) <= tpos (snd y).
Proof.
  revert x. induction r as [|z r IH]; intros x H Hin; [destruct Hin|].
  destruct H as (Hx & Hxz & Hr). pose proof Hr as (Hz & _ & _).
  destruct Hin as [<- | Hin]; [lia|].
  destruct (IH z Hr Hin). lia.
Qed.

Lemma ordered_tail x r : ordered (x :: r) -> ordered r.
Proof. intros (_ & _ & H). exact H. Qed.

Lemma ordered_app_r a b : ordered (a ++ b) -> ordered b.
Proof. induction a as [|x a IH]; [auto|]. intros H. apply IH. exact (ordered_tail _ _ H). Qed.

Lemma ordered_app_l a b : ordered (a ++ b) -> ordered a.
Proof.
  induction a as [|x a IH]; [intros; exact I|]. cbn [app ordered]. intros (H1 & H2 & H3).
  split; [exact H1|]. split; [destruct a; [exact I|exact H2]|auto].
Qed.

Lemma ordered_app_le a b x y : ordered (a ++ b) -> In x a -> In y b -> tpos (snd x) <= tpos (fst y).
Proof.
  induction a as [|z a IH]; intros H Hx Hy; [destruct Hx|].
  destruct Hx as [<- | Hx].
  - apply (ordered_head_le z (a ++ b) y H). apply in_or_app. right. exact Hy.
  - apply IH; auto. exact (ordered_tail _ _ H).
Qed.

Lemma ordered_within b x y : ordered b -> hd_error b = Some x -> last_error b = Some y ->
  tpos (fst x) <= tpos (snd y) /\ (forall z, In z b -> tpos (fst x) <= tpos (fst z) /\ tpos (snd z) <= tpos (snd y)).
Proof.
  intros H Hh Hl. destruct b as [|x' r]; [discriminate|]. injection Hh as ->.
  assert (Hy : In y (x :: r)).
  { unfold last_error in Hl. apply in_rev. destruct (rev (x :: r)); [discriminate|]. injection Hl as ->. left. reflexivity. }
  assert (Hlast : forall z, In z (x :: r) -> tpos (snd z) <= tpos (snd y)).
  { intros z Hz. apply in_split in Hz. destruct Hz as (l1 & l2 & E).
    destruct l2 as [|w l2].
    - unfold last_error in Hl. rewrite E, rev_app_distr in Hl. cbn in Hl. injection Hl as ->. lia.
    - assert (Hy2 : In y (w :: l2)).
      { unfold last_error in Hl. rewrite E in Hl. change (z :: w :: l2) with ([z] ++ w :: l2) in Hl.
        rewrite app_assoc, rev_app_distr in Hl. apply in_rev.
        destruct (rev (w :: l2)) eqn:Er.
        - apply (f_equal (@rev _)) in Er. rewrite rev_involutive in Er. discriminate.
        - cbn in Hl. injection Hl as ->. left. reflexivity. }
      rewrite E in H. apply ordered_app_r in H.
      destruct (ordered_head_le z (w :: l2) y H Hy2). lia. }
  pose proof H as (Hx & _ & _). split.
  - specialize (Hlast x (or_introl eq_refl)). lia.
  - intros z [<- | Hz]; split; try lia.
    + apply Hlast. left. reflexivity.
    + destruct (ordered_head_le x r z H Hz).
      apply in_split in Hz. destruct Hz as (l1 & l2 & ->).
      apply ordered_tail, ordered_app_r in H. destruct H as (Hz' & _). lia.
    + apply Hlast. right. exact Hz.
Qed.

(* a segment b of an ordered token list: its span lies inside the whole span, after every token
   before it and before every token after it *)
Theorem spans_ordered_nested a b c s e s' e' :
  ordered (a ++ b ++ c) ->
  first_start (a ++ b ++ c) = Some s -> last_end (a ++ b ++ c) = Some e ->
  first_start b = Some s' -> last_end b = Some e' ->
  tpos s <= tpos s' /\ tpos s' <= tpos e' /\ tpos e' <= tpos e /\
  (forall x, In x a -> tpos (snd x) <= tpos s') /\ (forall y, In y c -> tpos e' <= tpos (fst y)).
Proof.
  intros H Hs He Hs' He'.
  unfold first_start, last_end in *.
  destruct (hd_error (a ++ b ++ c)) as [t0|] eqn:E0; [|discriminate]. injection Hs as <-.
  destruct (last_error (a ++ b ++ c)) as [t1|] eqn:E1; [|discriminate]. injection He as <-.
  destruct (hd_error b) as [u0|] eqn:F0; [|discriminate]. injection Hs' as <-.
  destruct (last_error b) as [u1|] eqn:F1; [|discriminate]. injection He' as <-.
  destruct (ordered_within _ _ _ H E0 E1) as (_ & Hall).
  assert (Hb : ordered b) by (apply ordered_app_r, ordered_app_l in H; exact H).
  destruct (ordered_within _ _ _ Hb F0 F1) as (Hse & _).
  assert (Iu0 : In u0 b) by (destruct b; [discriminate|injection F0 as ->; left; reflexivity]).
  assert (Iu1 : In u1 b).
  { unfold last_error in F1. apply in_rev. destruct (rev b); [discriminate|]. injection F1 as ->. left. reflexivity. }
  split; [apply Hall; apply in_or_app; right; apply in_or_app; left; exact Iu0|].
  split; [exact Hse|].
  split; [apply Hall; apply in_or_app; right; apply in_or_app; left; exact Iu1|].
  split.
  - intros x Hx. apply (ordered_app_le a (b ++ c) x u0 H Hx). apply in_or_app. left. exact Iu0.
  - intros y Hy. apply ordered_app_r in H. apply (ordered_app_le b c u1 y H Iu1 Hy).
Qed.
