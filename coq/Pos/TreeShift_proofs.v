(* Proofs about the tree-level position pipeline Pos/TreeShift.v:
   - the LALR driver's control does not depend on token positions (naturality in the token map),
   - the callback chain and PropagatePositions commute with re-basing maps,
   - parse_window_shift (C15) and tree_coords_exact (C06). *)
From Coq Require Import ZArith List Bool String Lia.
From LV Require Import Base.Prelude Cfg.Grammar Pos.PosBase Gen.LineCounter Gen.LexStep Pos.Coord
  Pos.LineCounter_proofs Pos.LexCoords Pos.LexCoords_proofs Pos.Repr_proofs Pos.Current
  Pos.MetaSpan Shape.Chain Pos.TreeShift.
From LV Require LR.Driver.
Import ListNotations.

(* ------------------------------------------------------------------------------------------ *)
(* A. the driver is natural in the token type: it only looks at [ttype] *)
Section DriverNat.
Variables tok tok' : Type.
Variable ttype : tok -> nat.
Variable ttype' : tok' -> nat.
Variable f : tok -> tok'.
Variable P : Driver.ptable.

Fixpoint map_dtree (d : Driver.dtree tok) : Driver.dtree tok' :=
  match d with
  | Driver.Leaf k => Driver.Leaf (f k)
  | Driver.Node r cs => Driver.Node r (map map_dtree cs)
  end.

Definition map_config (c : Driver.config tok) : Driver.config tok' :=
  Driver.mkConfig (Driver.sstack c) (map map_dtree (Driver.vstack c)).

Definition map_outcome (o : Driver.outcome tok) : Driver.outcome tok' :=
  match o with
  | Driver.Shifted c => Driver.Shifted (map_config c)
  | Driver.Accepted t => Driver.Accepted (map_dtree t)
  | Driver.Unexpected c => Driver.Unexpected (map_config c)
  | Driver.DAssert c => Driver.DAssert (map_config c)
  | Driver.DCrash c => Driver.DCrash (map_config c)
  | Driver.DFuel => Driver.DFuel
  end.

(* one feed_token call: same control, tokens carried along.  The end token is never shifted, so
   with is_end only its type matters. *)
Lemma feed_nat fuel : forall c k k' e,
  ttype' k' = ttype k -> (e = false -> k' = f k) ->
  Driver.feed tok' ttype' P fuel (map_config c) k' e = map_outcome (Driver.feed tok ttype P fuel c k e).
Proof.
  induction fuel as [|fuel IH]; intros c k k' e Ht Hk; [reflexivity|].
  cbn [Driver.feed]. cbn [map_config Driver.sstack Driver.vstack].
  destruct (Driver.sstack c) as [|q ss] eqn:Es; [reflexivity|].
  rewrite Ht.
  destruct (Driver.pt_action P q (T (ttype k))) as [[q'|r]|]; [| |reflexivity].
  - destruct (Nat.eqb q' (Driver.pt_end P)); [reflexivity|].
    destruct e; [reflexivity|]. rewrite (Hk eq_refl). reflexivity.
  - rewrite firstn_map, <- map_rev, !skipn_map.
    destruct (skipn (List.length (rhs r)) (q :: ss)) as [|q2 ss2] eqn:Ess; [reflexivity|].
    destruct (Driver.pt_action P q2 (NT (lhs r))) as [[q3|r']|]; [| reflexivity | reflexivity].
    destruct (e && Nat.eqb q3 (Driver.pt_end P))%bool; [reflexivity|].
    specialize (IH (Driver.mkConfig (q3 :: q2 :: ss2)
                      (Driver.Node r (rev (firstn (List.length (rhs r)) (Driver.vstack c))) :: skipn (List.length (rhs r)) (Driver.vstack c)))
                   k k' e Ht Hk).
    exact IH.
Qed.
End DriverNat.

(* ------------------------------------------------------------------------------------------ *)
(* B. the ChildFilter / ExpandSingleChild chain is natural in the node type *)
Section ChainNat.
Variables X Y : Type.
Variable g : X -> Y.
Variable noneX : X.
Variable noneY : Y.
Variable kidsX : X -> option (list X).
Variable kidsY : Y -> option (list Y).
Variable mkX : string -> list X -> X.
Variable mkY : string -> list Y -> Y.
Hypothesis g_none : g noneX = noneY.
Hypothesis g_kids : forall x, kidsY (g x) = option_map (map g) (kidsX x).
Hypothesis g_mk : forall n l, mkY n (map g l) = g (mkX n l).

Lemma nonempty_map (l : list X) : nonempty (map g l) = nonempty l.
Proof. destruct l; reflexivity. Qed.

Lemma map_repeat_none n : map g (repeat noneX n) = repeat noneY n.
Proof. induction n; cbn; [reflexivity|]. rewrite g_none, IHn. reflexivity. Qed.

Lemma run_cf_nat ti : forall ch fl,
  run_cf Y noneY kidsY ti (map g ch) (map g fl) = option_map (map g) (run_cf X noneX kidsX ti ch fl).
Proof.
  induction ti as [|[[i ex] an] ti IH]; intros ch fl; [reflexivity|].
  cbn [run_cf]. rewrite nth_error_map.
  destruct (nth_error ch i) as [c|]; [|reflexivity]. cbn [option_map].
  destruct ex.
  - rewrite g_kids. destruct (kidsX c) as [k|]; [|reflexivity]. cbn [option_map].
    rewrite <- map_repeat_none, <- !map_app. apply IH.
  - rewrite <- map_repeat_none, <- !map_app. change [g c] with (map g [c]). rewrite <- map_app. apply IH.
Qed.

Lemma run_cflalr_nat ti : forall ch fl,
  run_cflalr Y noneY kidsY ti (map g ch) (map g fl) = option_map (map g) (run_cflalr X noneX kidsX ti ch fl).
Proof.
  induction ti as [|[[i ex] an] ti IH]; intros ch fl; [reflexivity|].
  cbn [run_cflalr]. rewrite nth_error_map.
  destruct (nth_error ch i) as [c|]; [|reflexivity]. cbn [option_map].
  destruct ex.
  - rewrite g_kids. destruct (kidsX c) as [k|]; [|reflexivity]. cbn [option_map].
    rewrite <- map_repeat_none, <- !map_app, nonempty_map.
    destruct (nonempty (fl ++ repeat noneX an)); apply IH.
  - rewrite <- map_repeat_none, <- !map_app. change [g c] with (map g [c]). rewrite <- map_app. apply IH.
Qed.

Lemma run_cfnoph_nat ti : forall ch fl,
  run_cfnoph Y kidsY ti (map g ch) (map g fl) = option_map (map g) (run_cfnoph X kidsX ti ch fl).
Proof.
  induction ti as [|[i ex] ti IH]; intros ch fl; [reflexivity|].
  cbn [run_cfnoph]. rewrite nth_error_map.
  destruct (nth_error ch i) as [c|]; [|reflexivity]. cbn [option_map].
  destruct ex.
  - rewrite g_kids. destruct (kidsX c) as [k|]; [|reflexivity]. cbn [option_map].
    rewrite nonempty_map. destruct (nonempty fl); [rewrite <- map_app|]; apply IH.
  - change [g c] with (map g [c]). rewrite <- map_app. apply IH.
Qed.

Lemma run_filter_nat fl ch :
  run_filter Y noneY kidsY fl (map g ch) = option_map (map g) (run_filter X noneX kidsX fl ch).
Proof.
  destruct fl as [ti app|ti app|ti]; cbn [run_filter].
  - change (@nil Y) with (map g []). rewrite run_cf_nat.
    destruct (run_cf X noneX kidsX ti ch []); cbn [option_map]; [|reflexivity].
    rewrite map_app, map_repeat_none. reflexivity.
  - change (@nil Y) with (map g []). rewrite run_cflalr_nat.
    destruct (run_cflalr X noneX kidsX ti ch []); cbn [option_map]; [|reflexivity].
    rewrite map_app, map_repeat_none. reflexivity.
  - change (@nil Y) with (map g []). apply run_cfnoph_nat.
Qed.

Definition nat_builder (bx : builder X) (by_ : builder Y) : Prop :=
  forall ch, by_ (map g ch) = option_map g (bx ch).

Lemma apply_wrapper_nat w bx by_ :
  nat_builder bx by_ -> nat_builder (apply_wrapper X noneX kidsX w bx) (apply_wrapper Y noneY kidsY w by_).
Proof.
  intros H ch. destruct w as [|fl]; cbn [apply_wrapper].
  - destruct ch as [|c [|c2 ch]]; cbn [map]; try apply (H []); try reflexivity. apply (H (c :: c2 :: ch)).
  - rewrite run_filter_nat. destruct (run_filter X noneX kidsX fl ch); cbn [option_map]; [apply H|reflexivity].
Qed.

Lemma compose_nat ws : forall bx by_,
  nat_builder bx by_ -> nat_builder (compose X noneX kidsX ws bx) (compose Y noneY kidsY ws by_).
Proof.
  unfold compose. induction ws as [|w ws IH]; intros bx by_ H; [exact H|].
  cbn [fold_left]. apply IH. apply apply_wrapper_nat. exact H.
Qed.

Theorem run_callback_nat r mp amb ch :
  run_callback Y noneY kidsY (fun _ => None) mkY r mp amb (map g ch) =
  match run_callback X noneX kidsX (fun _ => None) mkX r mp amb ch with
  | Prelude.Ok o => Prelude.Ok (option_map g o)
  | Prelude.AssertFail => Prelude.AssertFail
  | Prelude.OutOfFuel => Prelude.OutOfFuel
  end.
Proof.
  unfold run_callback, callback. destruct (wrapper_chain r mp amb) as [ws| |]; cbn [rbind]; try reflexivity.
  f_equal. apply compose_nat. intros l. cbn [option_map]. rewrite g_mk. reflexivity.
Qed.
End ChainNat.

(* ------------------------------------------------------------------------------------------ *)
(* C. PropagatePositions commutes with any map applied to all position triples *)
Section PropagateNat.
Variable phi : trip -> trip.

Lemma m_empty_map m : m_empty (map_meta phi m) = m_empty m.
Proof. unfold m_empty, map_meta. cbn. destruct (m_start m), (m_end m); reflexivity. Qed.

Lemma view_map c : view (map_shaped phi c) = option_map (map_meta phi) (view c).
Proof.
  destruct c as [s e|m|]; cbn [map_shaped view]; try reflexivity.
  rewrite m_empty_map. destruct (m_empty m); reflexivity.
Qed.

Lemma first_view_map l : first_view (map (map_shaped phi) l) = option_map (map_meta phi) (first_view l).
Proof.
  induction l as [|c l IH]; [reflexivity|]. cbn [map first_view]. rewrite view_map.
  destruct (view c); [reflexivity|exact IH].
Qed.

Lemma or_else_map (a b : option trip) : or_else (option_map phi a) (option_map phi b) = option_map phi (or_else a b).
Proof. destruct a; reflexivity. Qed.

Theorem propagate_nat m ch :
  propagate (map_meta phi m) (map (map_shaped phi) ch) = map_meta phi (propagate m ch).
Proof.
  unfold propagate. rewrite <- map_rev, !first_view_map.
  destruct (first_view ch) as [f|]; destruct (first_view (rev ch)) as [l|]; cbn [option_map];
    unfold map_meta; cbn [m_start m_end m_cstart m_cend]; rewrite ?or_else_map; reflexivity.
Qed.
End PropagateNat.

(* ------------------------------------------------------------------------------------------ *)
(* D. tree building commutes with re-basing *)
Section DtreeInd.
Variable tok : Type.
Variable Q : Driver.dtree tok -> Prop.
Hypothesis Hleaf : forall k, Q (Driver.Leaf k).
Hypothesis Hnode : forall r cs, Forall Q cs -> Q (Driver.Node r cs).
Fixpoint dtree_ind' (d : Driver.dtree tok) : Q d :=
  match d with
  | Driver.Leaf k => Hleaf k
  | Driver.Node r cs =>
      Hnode r cs ((fix go (l : list (Driver.dtree tok)) : Forall Q l :=
                     match l with
                     | [] => Forall_nil Q
                     | x :: t => Forall_cons x (dtree_ind' x) (go t)
                     end) cs)
  end.
End DtreeInd.

Section TreeNat.
Context {A term : Type}.
Notation tok := (token A term).
Variable f : tok -> tok.
Variable phi : trip -> trip.
Hypothesis f_start : forall t, start3 (f t) = phi (start3 t).
Hypothesis f_end : forall t, end3 (f t) = phi (end3 t).
Variable rr : rule -> rrec.
Variable mp : bool.

Notation G := (map_vtree f phi).

Lemma shaped_of_map v : shaped_of (G v) = map_shaped phi (shaped_of v).
Proof. destruct v as [t|n m ch|]; cbn; [rewrite f_start, f_end|..]; reflexivity. Qed.

Lemma pp_map res ch : pp (G res) (map G ch) = G (pp res ch).
Proof.
  destruct res as [t|n m l|]; cbn [pp map_vtree]; try reflexivity.
  rewrite map_map. rewrite (map_ext _ _ shaped_of_map), <- map_map, propagate_nat. reflexivity.
Qed.

Lemma pos_callback_map r ch : pos_callback r mp (map G ch) = option_map G (pos_callback r mp ch).
Proof.
  unfold pos_callback.
  rewrite (run_callback_nat (vtree A term) (vtree A term) G VNone VNone vkids vkids vmk vmk).
  - destruct (run_callback _ _ _ _ _ r mp false ch) as [[res|]| |]; cbn [option_map]; try reflexivity.
    rewrite pp_map. reflexivity.
  - reflexivity.
  - intros [t|n m l|]; reflexivity.
  - intros n l. unfold vmk. cbn. reflexivity.
Qed.

Lemma all_some_map {X Y} (h : X -> Y) (l : list (option X)) :
  all_some (map (option_map h) l) = option_map (map h) (all_some l).
Proof.
  induction l as [|[x|] l IH]; cbn; try reflexivity. rewrite IH. destruct (all_some l); reflexivity.
Qed.

Theorem tree_of_map d :
  tree_of rr mp (map_dtree tok tok f d) = option_map G (tree_of rr mp d).
Proof.
  induction d as [k|r cs IH] using dtree_ind'; [reflexivity|].
  cbn [map_dtree tree_of]. rewrite map_map.
  assert (E : map (fun x => tree_of rr mp (map_dtree tok tok f x)) cs = map (option_map G) (map (tree_of rr mp) cs)).
  { rewrite map_map. apply map_ext_in. intros x Hx. rewrite Forall_forall in IH. apply IH, Hx. }
  rewrite E, all_some_map. destruct (all_some (map (tree_of rr mp) cs)) as [vs|]; cbn [option_map]; [|reflexivity].
  apply pos_callback_map.
Qed.

(* E. the pipeline after the lexer *)
Variable tnum : term -> nat.
Variable end_term : term.
Variable P : Driver.ptable.
Hypothesis f_type : forall t, t_type (f t) = t_type t.

Notation tty := (ttype tnum).

Lemma run_tokens_map fuel : forall w c,
  run_tokens tnum P fuel (map_config tok tok f c) (map f w) =
  (map_outcome tok tok f (fst (run_tokens tnum P fuel c w)), option_map f (snd (run_tokens tnum P fuel c w))).
Proof.
  induction w as [|k w IH]; intros c; [reflexivity|].
  cbn [map run_tokens].
  rewrite (feed_nat tok tok tty tty f P fuel c k (f k) false) by (unfold ttype; rewrite ?f_type; auto).
  destruct (Driver.feed tok tty P fuel c k false); cbn [map_outcome fst snd option_map]; try reflexivity.
  apply IH.
Qed.

Lemma last_tok_map (w : list tok) : last_tok (map f w) = option_map f (last_tok w).
Proof. unfold last_tok. rewrite <- map_rev. destruct (rev w); reflexivity. Qed.

Theorem parse_tokens_map fuel ts o o' shift_err :
  o' = match o with LexCoords.Unexpected p _ _ => let '(p', l', c') := shift_err p in LexCoords.Unexpected p' l' c' | x => x end ->
  parse_tokens rr mp tnum end_term P fuel (map f ts, o') =
  map_presult f phi shift_err (parse_tokens rr mp tnum end_term P fuel (ts, o)).
Proof.
  intros ->. unfold parse_tokens.
  change (Driver.init_config P) with (map_config tok tok f (Driver.init_config P)) at 1.
  rewrite run_tokens_map.
  destruct (run_tokens tnum P fuel (Driver.init_config P) ts) as [[c|t|c|c|c|] ko]; cbn [fst snd map_outcome].
  - destruct o as [|p l cl|].
    + rewrite last_tok_map.
      rewrite (feed_nat tok tok tty tty f P fuel c (end_token end_term (last_tok ts))
                 (end_token end_term (option_map f (last_tok ts))) true).
      * destruct (Driver.feed tok tty P fuel c (end_token end_term (last_tok ts)) true); cbn [map_outcome map_presult]; try reflexivity.
        rewrite tree_of_map. destruct (tree_of rr mp t); reflexivity.
      * unfold ttype. destruct (last_tok ts); reflexivity.
      * discriminate.
    + cbn [map_presult]. destruct (shift_err p) as [[p' l'] c']. reflexivity.
    + reflexivity.
  - destruct ko; reflexivity.
  - destruct ko; reflexivity.
  - destruct ko; reflexivity.
  - destruct ko; reflexivity.
  - destruct ko; reflexivity.
Qed.
End TreeNat.

(* ------------------------------------------------------------------------------------------ *)
(* F. C15 parse_window_shift *)
Section ParseWindowShift.
Context {A term : Type} (eqb : A -> A -> bool) (nl : A).
Variable scan : list term -> list A -> Z -> Z -> option (nat * term).
Variable ignore : term -> bool.
Variable newline_types : term -> bool.
Variable rr : rule -> rrec.
Variable mp : bool.
Variable tnum : term -> nat.
Variable end_term : term.
Variable P : Driver.ptable.

Theorem parse_window_shift (T : list A) (a b : nat) fuel :
  (a <= b)%nat -> (b <= List.length T)%nat ->
  (forall h (p n : nat) ty, scan h T (Z.of_nat p) (Z.of_nat b) = Some (n, ty) -> (p + n <= b)%nat) ->
  (forall h (p : nat), (a <= p < b)%nat ->
     scan h T (Z.of_nat p) (Z.of_nat b) = scan h (sub T a b) (Z.of_nat (p - a)) (Z.of_nat (b - a))) ->
  let ln := lnT eqb nl T in
  let col := colT eqb nl T in
  let za := Z.of_nat a in
  parse_slice rr mp tnum end_term P eqb nl scan ignore newline_types fuel T za (Z.of_nat b) =
  map_presult (shift_tok za ln col) (shift_trip za ln col)
              (fun p => ((p + za)%Z, ln (p + za)%Z, col (p + za)%Z))
    (parse_slice rr mp tnum end_term P eqb nl scan ignore newline_types fuel (sub T a b) 0%Z (Z.of_nat (b - a))).
Proof.
  intros Hab Hb Hsb Hcf. cbv zeta. unfold parse_slice.
  rewrite (window_shift_current eqb nl scan ignore newline_types T a b Hab Hb Hsb Hcf).
  unfold shift_result.
  destruct (lex_slice eqb nl scan ignore newline_types (sub T a b) 0 (Z.of_nat (b - a)) None) as [ts o].
  cbn [fst snd]. apply parse_tokens_map.
  - intros t. reflexivity.
  - intros t. reflexivity.
  - intros t. reflexivity.
  - destruct o; reflexivity.
Qed.
End ParseWindowShift.

(* ------------------------------------------------------------------------------------------ *)
(* G. C06 tree_coords_exact *)

(* the chain only rearranges its inputs: any predicate closed under .children and holding of None
   and of fresh trees over good children holds of the result *)
Section ChainPres.
Variable X : Type.
Variable none : X.
Variable kids : X -> option (list X).
Variable mk : string -> list X -> X.
Variable Q : X -> Prop.
Hypothesis Q_none : Q none.
Hypothesis Q_kids : forall x l, Q x -> kids x = Some l -> Forall Q l.
Hypothesis Q_mk : forall n l, Forall Q l -> Q (mk n l).

Lemma Forall_repeat_none n : Forall Q (repeat none n).
Proof. induction n; constructor; auto. Qed.

Lemma run_cf_pres ti : forall ch fl out, Forall Q ch -> Forall Q fl ->
  run_cf X none kids ti ch fl = Some out -> Forall Q out.
Proof.
  induction ti as [|[[i ex] an] ti IH]; intros ch fl out Hch Hfl; cbn [run_cf].
  - intros [= <-]. exact Hfl.
  - destruct (nth_error ch i) as [c|] eqn:Ec; [|discriminate].
    assert (Hc : Q c) by (rewrite Forall_forall in Hch; apply Hch; eapply nth_error_In; eauto).
    destruct ex.
    + destruct (kids c) as [k|] eqn:Ek; [|discriminate]. apply IH; auto.
      apply Forall_app; split; [apply Forall_app; split; auto using Forall_repeat_none|]. eapply Q_kids; eauto.
    + apply IH; auto. apply Forall_app; split; [apply Forall_app; split; auto using Forall_repeat_none|]. auto.
Qed.

Lemma run_cflalr_pres ti : forall ch fl out, Forall Q ch -> Forall Q fl ->
  run_cflalr X none kids ti ch fl = Some out -> Forall Q out.
Proof.
  induction ti as [|[[i ex] an] ti IH]; intros ch fl out Hch Hfl; cbn [run_cflalr].
  - intros [= <-]. exact Hfl.
  - destruct (nth_error ch i) as [c|] eqn:Ec; [|discriminate].
    assert (Hc : Q c) by (rewrite Forall_forall in Hch; apply Hch; eapply nth_error_In; eauto).
    assert (Hf : Forall Q (fl ++ repeat none an)) by (apply Forall_app; split; auto using Forall_repeat_none).
    destruct ex.
    + destruct (kids c) as [k|] eqn:Ek; [|discriminate]. apply IH; auto.
      pose proof (Q_kids c k Hc Ek). destruct (nonempty (fl ++ repeat none an)); auto.
      apply Forall_app; split; auto.
    + apply IH; auto. apply Forall_app; split; auto.
Qed.

Lemma run_cfnoph_pres ti : forall ch fl out, Forall Q ch -> Forall Q fl ->
  run_cfnoph X kids ti ch fl = Some out -> Forall Q out.
Proof.
  induction ti as [|[i ex] ti IH]; intros ch fl out Hch Hfl; cbn [run_cfnoph].
  - intros [= <-]. exact Hfl.
  - destruct (nth_error ch i) as [c|] eqn:Ec; [|discriminate].
    assert (Hc : Q c) by (rewrite Forall_forall in Hch; apply Hch; eapply nth_error_In; eauto).
    destruct ex.
    + destruct (kids c) as [k|] eqn:Ek; [|discriminate]. apply IH; auto.
      pose proof (Q_kids c k Hc Ek). destruct (nonempty fl); auto. apply Forall_app; split; auto.
    + apply IH; auto. apply Forall_app; split; auto.
Qed.

Lemma run_filter_pres fl ch out : Forall Q ch -> run_filter X none kids fl ch = Some out -> Forall Q out.
Proof.
  intros Hch. destruct fl as [ti app|ti app|ti]; cbn [run_filter].
  - destruct (run_cf X none kids ti ch []) as [l|] eqn:E; [|discriminate]. intros [= <-].
    apply Forall_app; split; auto using Forall_repeat_none. exact (run_cf_pres ti ch [] l Hch (Forall_nil _) E).
  - destruct (run_cflalr X none kids ti ch []) as [l|] eqn:E; [|discriminate]. intros [= <-].
    apply Forall_app; split; auto using Forall_repeat_none. exact (run_cflalr_pres ti ch [] l Hch (Forall_nil _) E).
  - intros E. exact (run_cfnoph_pres ti ch [] out Hch (Forall_nil _) E).
Qed.

Definition pres_builder (b : builder X) : Prop := forall ch res, Forall Q ch -> b ch = Some res -> Q res.

Lemma apply_wrapper_pres w b : pres_builder b -> pres_builder (apply_wrapper X none kids w b).
Proof.
  intros H ch res Hch. destruct w as [|fl]; cbn [apply_wrapper].
  - destruct ch as [|c [|c2 ch]]; try (apply H; exact Hch).
    intros [= <-]. inversion Hch; auto.
  - destruct (run_filter X none kids fl ch) as [l|] eqn:E; [|discriminate].
    apply H. eapply run_filter_pres; eauto.
Qed.

Lemma compose_pres ws : forall b, pres_builder b -> pres_builder (compose X none kids ws b).
Proof.
  unfold compose. induction ws as [|w ws IH]; intros b H; [exact H|].
  cbn [fold_left]. apply IH, apply_wrapper_pres, H.
Qed.

Theorem run_callback_pres r mp amb ch res :
  Forall Q ch -> run_callback X none kids (fun _ => None) mk r mp amb ch = Prelude.Ok (Some res) -> Q res.
Proof.
  intros Hch. unfold run_callback, callback.
  destruct (wrapper_chain r mp amb) as [ws| |]; cbn [rbind]; try discriminate.
  intros [= E]. revert E. apply compose_pres; auto.
  intros l res' Hl [= <-]. apply Q_mk, Hl.
Qed.
End ChainPres.

Section TreeCoords.
Context {A term : Type} (eqb : A -> A -> bool) (nl : A).
Notation tok := (token A term).
Variable rr : rule -> rrec.
Variable mp : bool.
Variable tnum : term -> nat.
Variable end_term : term.
Variable P : Driver.ptable.

(* tokens fed to the driver are the only leaves of the values it builds *)
Section Leaves.
Variable Qt : tok -> Prop.
Definition leaves_ok (vs : list (Driver.dtree tok)) : Prop := Forall (fun d => Forall Qt (Driver.yield tok d)) vs.

Lemma feed_leaves fuel : forall c k e,
  leaves_ok (Driver.vstack c) -> (e = false -> Qt k) ->
  match Driver.feed tok (ttype tnum) P fuel c k e with
  | Driver.Shifted c' => leaves_ok (Driver.vstack c')
  | Driver.Accepted t => Forall Qt (Driver.yield tok t)
  | _ => True
  end.
Proof.
  induction fuel as [|fuel IH]; intros c k e Hc Hk; [exact I|].
  cbn [Driver.feed]. destruct (Driver.sstack c) as [|q ss]; [exact I|].
  destruct (Driver.pt_action P q (T (ttype tnum k))) as [[q'|r]|]; [| |exact I].
  - destruct (Nat.eqb q' (Driver.pt_end P)); [exact I|]. destruct e; [exact I|].
    cbn [Driver.vstack]. constructor; [|exact Hc]. cbn. constructor; auto.
  - destruct (skipn (List.length (rhs r)) (q :: ss)) as [|q2 ss2]; [exact I|].
    destruct (Driver.pt_action P q2 (NT (lhs r))) as [[q3|r']|]; try exact I.
    assert (Hn : Forall Qt (Driver.yield tok (Driver.Node r (rev (firstn (List.length (rhs r)) (Driver.vstack c)))))).
    { cbn [Driver.yield]. apply Forall_flat_map. apply Forall_rev.
      unfold leaves_ok in Hc. rewrite <- (firstn_skipn (List.length (rhs r)) (Driver.vstack c)) in Hc.
      apply Forall_app in Hc. apply Hc. }
    destruct (e && Nat.eqb q3 (Driver.pt_end P))%bool; [exact Hn|].
    apply IH; [|exact Hk]. cbn [Driver.vstack]. constructor; [exact Hn|].
    unfold leaves_ok in Hc. rewrite <- (firstn_skipn (List.length (rhs r)) (Driver.vstack c)) in Hc.
    apply Forall_app in Hc. apply Hc.
Qed.

Lemma run_tokens_leaves fuel : forall w c,
  leaves_ok (Driver.vstack c) -> Forall Qt w ->
  match fst (run_tokens tnum P fuel c w) with
  | Driver.Shifted c' => leaves_ok (Driver.vstack c')
  | _ => True
  end.
Proof.
  induction w as [|k w IH]; intros c Hc Hw; [exact Hc|].
  cbn [run_tokens]. inversion Hw as [|? ? Hk Hw']; subst.
  pose proof (feed_leaves fuel c k false Hc (fun _ => Hk)) as H.
  destruct (Driver.feed tok (ttype tnum) P fuel c k false); try exact I. apply IH; auto.
Qed.
End Leaves.

Variable T : list A.
Variables a e : nat.

(* a position triple of a meta is exact: its line/column are the coordinates of its offset *)
Definition trip_exact (t : trip) : Prop :=
  exists q : nat, fst (fst t) = Z.of_nat q /\ (a <= q <= e)%nat /\ (snd (fst t), snd t) = coord eqb nl T q.

Definition Qv (v : vtree A term) : Prop :=
  Forall (tok_ok eqb nl T a e) (vtokens v) /\ Forall trip_exact (vtrips v).

Lemma tok_ok_trips (t : tok) : tok_ok eqb nl T a e t -> trip_exact (start3 t) /\ trip_exact (end3 t).
Proof.
  intros (s & n & Hs & Ha & He & _ & _ & Hend & Hc1 & Hc2). split.
  - exists s. cbn. repeat split; auto; lia.
  - exists (s + n)%nat. cbn. repeat split; auto; lia.
Qed.

Lemma first_view_in l f : first_view l = Some f -> exists c, In c l /\ view c = Some f.
Proof.
  induction l as [|c l IH]; [discriminate|]. cbn [first_view].
  destruct (view c) as [m|] eqn:E.
  - intros [= <-]. exists c. split; [left; reflexivity|exact E].
  - intros H. destruct (IH H) as (c' & Hin & Hv). exists c'. split; [right; exact Hin|exact Hv].
Qed.

Lemma or_else_cases {X} (x y : option X) (R : X -> Prop) :
  (forall t, x = Some t -> R t) -> (forall t, y = Some t -> R t) -> forall t, or_else x y = Some t -> R t.
Proof. destruct x; cbn; auto. Qed.

Definition meta_exact (m : meta) : Prop := Forall trip_exact (meta_trips m).

Lemma meta_exact_iff m : meta_exact m <->
  (forall t, m_start m = Some t -> trip_exact t) /\ (forall t, m_end m = Some t -> trip_exact t) /\
  (forall t, m_cstart m = Some t -> trip_exact t) /\ (forall t, m_cend m = Some t -> trip_exact t).
Proof.
  unfold meta_exact, meta_trips. destruct m as [[s|] [e'|] [cs|] [ce|]]; cbn; split.
  all: try (intros H; repeat split; intros t [= <-]; repeat match goal with H : Forall _ (_ :: _) |- _ => inversion H; clear H; subst end; assumption).
  all: intros (H1 & H2 & H3 & H4); repeat constructor; auto.
Qed.

Lemma propagate_exact m ch :
  meta_exact m -> (forall c f, In c ch -> view c = Some f -> meta_exact f) -> meta_exact (propagate m ch).
Proof.
  intros Hm Hch. unfold propagate.
  assert (Hfv : forall l f, (forall c, In c l -> In c ch) -> first_view l = Some f -> meta_exact f).
  { intros l f Hl Hf. destruct (first_view_in l f Hf) as (c & Hin & Hv). eapply Hch; eauto. }
  apply meta_exact_iff in Hm. destruct Hm as (M1 & M2 & M3 & M4).
  destruct (first_view ch) as [f|] eqn:E1.
  - pose proof (Hfv ch f (fun c H => H) E1) as Hf. apply meta_exact_iff in Hf. destruct Hf as (F1 & F2 & F3 & F4).
    destruct (first_view (rev ch)) as [l|] eqn:E2.
    + pose proof (Hfv (rev ch) l (fun c H => proj2 (in_rev ch c) H) E2) as Hl.
      apply meta_exact_iff in Hl. destruct Hl as (L1 & L2 & L3 & L4).
      apply meta_exact_iff. cbn [m_start m_end m_cstart m_cend].
      repeat split; repeat (apply or_else_cases); auto.
    + apply meta_exact_iff. cbn [m_start m_end m_cstart m_cend].
      repeat split; repeat (apply or_else_cases); auto.
  - destruct (first_view (rev ch)) as [l|] eqn:E2.
    + pose proof (Hfv (rev ch) l (fun c H => proj2 (in_rev ch c) H) E2) as Hl.
      apply meta_exact_iff in Hl. destruct Hl as (L1 & L2 & L3 & L4).
      apply meta_exact_iff. cbn [m_start m_end m_cstart m_cend].
      repeat split; repeat (apply or_else_cases); auto.
    + apply meta_exact_iff. repeat split; auto.
Qed.

Lemma Qv_view v f : Qv v -> view (shaped_of v) = Some f -> meta_exact f.
Proof.
  intros (Ht & Hp). destruct v as [t|n m ch|]; cbn [shaped_of view].
  - intros [= <-]. cbn in Ht. inversion Ht as [|? ? Hk _]; subst.
    destruct (tok_ok_trips t Hk). unfold meta_exact, meta_trips. cbn. repeat constructor; auto.
  - destruct (m_empty m); [discriminate|]. intros [= <-]. cbn [vtrips] in Hp.
    apply Forall_app in Hp. apply Hp.
  - discriminate.
Qed.

Lemma Qv_pp res ch : Qv res -> Forall Qv ch -> Qv (pp res ch).
Proof.
  intros Hr Hch. destruct res as [t|n m l|]; cbn [pp]; auto.
  destruct Hr as (Ht & Hp). split; [exact Ht|]. cbn [vtrips] in *.
  apply Forall_app in Hp. destruct Hp as (Hm & Hl). apply Forall_app. split; [|exact Hl].
  apply propagate_exact; [exact Hm|].
  intros c f Hin Hv. apply in_map_iff in Hin. destruct Hin as (v & <- & Hin).
  rewrite Forall_forall in Hch. eapply Qv_view; eauto.
Qed.

Lemma Qv_kids x l : Qv x -> vkids x = Some l -> Forall Qv l.
Proof.
  destruct x as [t|n m ch|]; cbn [vkids]; try discriminate. intros (Ht & Hp) [= <-].
  cbn [vtokens vtrips] in *. apply Forall_app in Hp. destruct Hp as (_ & Hp).
  apply Forall_flat_map in Ht. apply Forall_flat_map in Hp.
  rewrite Forall_forall in *. intros c Hc. split; auto.
Qed.

Lemma Qv_mk n l : Forall Qv l -> Qv (vmk n l).
Proof.
  intros H. unfold vmk. split; cbn [vtokens vtrips meta_trips empty_meta m_start m_end m_cstart m_cend app].
  - apply Forall_flat_map. eapply Forall_impl; [|exact H]. intros v (Hv & _). exact Hv.
  - apply Forall_flat_map. eapply Forall_impl; [|exact H]. intros v (_ & Hv). exact Hv.
Qed.

Lemma tree_of_Qv d v : Forall (tok_ok eqb nl T a e) (Driver.yield tok d) -> tree_of rr mp d = Some v -> Qv v.
Proof.
  revert v. induction d as [k|r cs IH] using dtree_ind'; intros v Hy.
  - intros [= <-]. split; [exact Hy|constructor].
  - cbn [tree_of]. destruct (all_some (map (tree_of rr mp) cs)) as [vs|] eqn:E; [|discriminate].
    assert (Hvs : Forall Qv vs).
    { cbn [Driver.yield] in Hy. apply Forall_flat_map in Hy. clear - IH Hy E.
      revert vs E. induction cs as [|c cs IHc]; intros vs E.
      - cbn in E. injection E as <-. constructor.
      - cbn [map all_some] in E. destruct (tree_of rr mp c) as [vc|] eqn:Ec; [|discriminate].
        destruct (all_some (map (tree_of rr mp) cs)) as [vs'|]; [|discriminate]. injection E as <-.
        inversion IH; subst. inversion Hy; subst. constructor; auto. }
    unfold pos_callback.
    destruct (run_callback _ _ _ _ _ (rr r) mp false vs) as [[res|]| |] eqn:Er; try discriminate.
    intros [= <-]. apply Qv_pp; [|exact Hvs].
    eapply (run_callback_pres (vtree A term) VNone vkids vmk Qv); eauto.
    + split; constructor.
    + exact Qv_kids.
    + exact Qv_mk.
Qed.

Variable scan : list term -> list A -> Z -> Z -> option (nat * term).
Variable ignore : term -> bool.
Variable newline_types : term -> bool.

(* C06 tree_coords_exact (the part proved here): in the tree lark returns for the window [a,e) of T,
   every token satisfies the token claim and every position triple of every meta (own and
   container, start and end) is an exact source coordinate inside the window *)
Theorem tree_coords_exact_partial fuel v :
  (a <= e)%nat -> (e <= List.length T)%nat ->
  (forall h (p n : nat) ty, scan h T (Z.of_nat p) (Z.of_nat e) = Some (n, ty) -> (p + n <= e)%nat) ->
  parse_slice rr mp tnum end_term P eqb nl scan ignore newline_types fuel T (Z.of_nat a) (Z.of_nat e) = RTree v ->
  Forall (tok_ok eqb nl T a e) (vtokens v) /\ Forall trip_exact (vtrips v).
Proof.
  intros Ha He Hb. unfold parse_slice.
  destruct (lex_slice eqb nl scan ignore newline_types T (Z.of_nat a) (Z.of_nat e) None) as [ts o] eqn:El.
  destruct (lexer_coords eqb nl scan ignore newline_types T a e None ts o Ha He Hb (or_introl eq_refl) El) as (Hts & _ & _).
  unfold parse_tokens.
  pose proof (run_tokens_leaves (tok_ok eqb nl T a e) fuel ts (Driver.init_config P)) as Hl.
  destruct (run_tokens tnum P fuel (Driver.init_config P) ts) as [[c|t|c|c|c|] ko]; cbn [fst] in Hl; try discriminate.
  2:{ destruct ko; discriminate. }
  specialize (Hl (Forall_nil _) Hts).
  destruct o; try discriminate.
  pose proof (feed_leaves (tok_ok eqb nl T a e) fuel c (end_token end_term (last_tok ts)) true Hl) as Hf.
  destruct (Driver.feed tok (ttype tnum) P fuel c (end_token end_term (last_tok ts)) true) as [c'|d|c'|c'|c'|]; try discriminate.
  specialize (Hf (fun H => ltac:(discriminate))).
  destruct (tree_of rr mp d) as [v'|] eqn:Et; [|discriminate]. intros [= <-].
  exact (tree_of_Qv d v' Hf Et).
Qed.

End TreeCoords.
