(* Executable model of the whole position pipeline for the LALR parser (C06 / C15, tree level):
     lexer (Pos/LexCoords.lex_slice)  ->  LALR driver (LR/Driver.v, abstract table)
     ->  per-rule callbacks = PropagatePositions (Pos/MetaSpan.propagate) around the
         ChildFilter / ExpandSingleChild chain (Shape/Chain.run_callback).
   No proofs here (see TreeShift_proofs.v).

   The driver's values are derivation trees (LR/Driver: callbacks[rule] = Node rule); the tree lark
   returns is the bottom-up evaluation [tree_of] of the accepted derivation with the position-aware
   callbacks - the value-stack execution equals this evaluation because the callbacks are functions
   of the children (Shape_proofs.lalr_builds_shape is that statement for the chain). *)
From Coq Require Import ZArith List Bool String.
From LV Require Import Base.Prelude Cfg.Grammar Pos.PosBase Gen.LineCounter Pos.Coord Pos.LexCoords
  Pos.MetaSpan Shape.Chain.
From LV Require LR.Driver.
Import ListNotations.
Local Open Scope Z_scope.

Section Trees.
Context {A term : Type}.
Notation tok := (token A term).

(* values on the LALR value stack when trees are built with propagate_positions=True *)
Inductive vtree :=
| VTok (t : tok)
| VTree (name : string) (m : meta) (children : list vtree)
| VNone.

Definition vkids (v : vtree) : option (list vtree) :=
  match v with VTree _ _ ch => Some ch | _ => None end.

(* tree_class(name, children): a fresh Tree has an empty meta *)
Definition vmk (name : string) (children : list vtree) : vtree := VTree name empty_meta children.

Definition start3 (t : tok) : trip := (t_start t, t_line t, t_column t).
Definition end3 (t : tok) : trip := (t_end_pos t, t_end_line t, t_end_column t).

(* a value as PropagatePositions._pp_get_meta sees it *)
Definition shaped_of (v : vtree) : shaped :=
  match v with
  | VTok t => SHTok (start3 t) (end3 t)
  | VTree _ m _ => SHTree m
  | VNone => SHNone
  end.

(* PropagatePositions.__call__: res = node_builder(children); a Tree result gets its meta from
   the unfiltered children *)
Definition pp (res : vtree) (children : list vtree) : vtree :=
  match res with
  | VTree name m ch => VTree name (propagate m (map shaped_of children)) ch
  | other => other
  end.

(* the callback lark installs for rule r (no transformer, ambiguity='resolve') *)
Definition pos_callback (r : rrec) (mp : bool) (children : list vtree) : option vtree :=
  match run_callback vtree VNone vkids (fun _ => None) vmk r mp false children with
  | Ok (Some res) => Some (pp res children)
  | _ => None
  end.

Fixpoint all_some {X} (l : list (option X)) : option (list X) :=
  match l with
  | [] => Some []
  | Some a :: t => match all_some t with Some b => Some (a :: b) | None => None end
  | None :: _ => None
  end.

Variable rr : rule -> rrec.      (* the compiled rule (options, alias, filter flags) behind a table rule *)
Variable mp : bool.              (* maybe_placeholders *)

Fixpoint tree_of (d : Driver.dtree tok) : option vtree :=
  match d with
  | Driver.Leaf k => Some (VTok k)
  | Driver.Node r cs =>
      match all_some (map tree_of cs) with
      | Some vs => pos_callback (rr r) mp vs
      | None => None
      end
  end.

(* ---- the pipeline ------------------------------------------------------------------------ *)
Variable tnum : term -> nat.     (* terminal name -> the table's terminal number *)
Variable end_term : term.        (* '$END' *)
Definition ttype (t : tok) : nat := tnum (t_type t).

(* Token.new_borrow_pos('$END', '', token) if token else Token('$END', '', 0, 1, 1) *)
Definition end_token (last : option tok) : tok :=
  match last with
  | Some t => mkTok end_term [] (t_start t) (t_line t) (t_column t) (t_end_line t) (t_end_column t) (t_end_pos t)
  | None => mkTok end_term [] 0 1 1 0 0 0     (* the end_* fields are None in lark *)
  end.

Inductive presult :=
| RTree (v : vtree)                       (* parse() returned *)
| RUnexpectedCharacters (pos line col : Z)
| RUnexpectedToken (k : tok)              (* a token of the stream was rejected *)
| RUnexpectedEnd (last : option tok)      (* '$END' rejected; the error token is end_token last *)
| RCrash.                                 (* driver assert / crash / fuel, or a callback failed *)

Variable P : Driver.ptable.

(* for token in lexer: feed_token(token) - as Driver.feed_all, also returning the rejected token *)
Fixpoint run_tokens (fuel : nat) (c : Driver.config tok) (w : list tok)
  : Driver.outcome tok * option tok :=
  match w with
  | [] => (Driver.Shifted c, None)
  | k :: w' =>
      match Driver.feed tok ttype P fuel c k false with
      | Driver.Shifted c' => run_tokens fuel c' w'
      | o => (o, Some k)
      end
  end.

Definition last_tok (w : list tok) : option tok := hd_error (rev w).

(* lex, then drive.  lark interleaves the two (the parser pulls tokens); the results agree because
   the lexer depends on the parser only through the history of token types (already the argument
   of [scan]) and a parser error on token k is raised before token k+1 is requested. *)
Definition parse_tokens (fuel : nat) (r : list tok * LexCoords.outcome) : presult :=
  let '(ts, o) := r in
  match run_tokens fuel (Driver.init_config P) ts with
  | (Driver.Shifted c, _) =>
      match o with
      | LexCoords.Done =>
          match Driver.feed tok ttype P fuel c (end_token (last_tok ts)) true with
          | Driver.Accepted d => match tree_of d with Some v => RTree v | None => RCrash end
          | Driver.Unexpected _ => RUnexpectedEnd (last_tok ts)
          | _ => RCrash
          end
      | LexCoords.Unexpected p l c => RUnexpectedCharacters p l c
      | LexCoords.OutOfFuel => RCrash
      end
  | (Driver.Unexpected _, Some k) => RUnexpectedToken k
  | _ => RCrash
  end.

Section Lexed.
Variable eqb : A -> A -> bool.
Variable nl : A.
Variable scan : list term -> list A -> Z -> Z -> option (nat * term).
Variable ignore : term -> bool.
Variable newline_types : term -> bool.

(* Lark(parser='lalr', propagate_positions=True).parse(TextSlice(T, a, e)) *)
Definition parse_slice (fuel : nat) (T : list A) (a e : Z) : presult :=
  parse_tokens fuel (lex_slice eqb nl scan ignore newline_types T a e None).
End Lexed.

(* ---- re-basing a result (C15) --------------------------------------------------------------- *)
Definition map_meta (phi : trip -> trip) (m : meta) : meta :=
  mkMeta (option_map phi (m_start m)) (option_map phi (m_end m))
         (option_map phi (m_cstart m)) (option_map phi (m_cend m)).

Definition map_shaped (phi : trip -> trip) (s : shaped) : shaped :=
  match s with
  | SHTok s e => SHTok (phi s) (phi e)
  | SHTree m => SHTree (map_meta phi m)
  | SHNone => SHNone
  end.

Fixpoint map_vtree (f : tok -> tok) (phi : trip -> trip) (v : vtree) : vtree :=
  match v with
  | VTok t => VTok (f t)
  | VTree name m ch => VTree name (map_meta phi m) (map (map_vtree f phi) ch)
  | VNone => VNone
  end.

Definition map_presult (f : tok -> tok) (phi : trip -> trip) (shift_err : Z -> Z * Z * Z) (r : presult) : presult :=
  match r with
  | RTree v => RTree (map_vtree f phi v)
  | RUnexpectedCharacters p _ _ => let '(p', l', c') := shift_err p in RUnexpectedCharacters p' l' c'
  | RUnexpectedToken k => RUnexpectedToken (f k)
  | RUnexpectedEnd last => RUnexpectedEnd (option_map f last)   (* an empty stream's $END stays at 0/1/1 *)
  | RCrash => RCrash
  end.

(* offsets + a, line/column looked up in the buffer *)
Definition shift_trip (a : Z) (ln col : Z -> Z) (t : trip) : trip :=
  let p := fst (fst t) + a in (p, ln p, col p).

(* ---- what a tree contains (C06) ------------------------------------------------------------- *)
Fixpoint vtokens (v : vtree) : list tok :=
  match v with
  | VTok t => [t]
  | VTree _ _ ch => flat_map vtokens ch
  | VNone => []
  end.

Definition meta_trips (m : meta) : list trip :=
  let o x := match x with Some t => [t] | None => [] end in
  o (m_start m) ++ o (m_end m) ++ o (m_cstart m) ++ o (m_cend m).

Fixpoint vtrips (v : vtree) : list trip :=
  match v with
  | VTok _ => []
  | VTree _ m ch => meta_trips m ++ flat_map vtrips ch
  | VNone => []
  end.

End Trees.

(* all sub-derivations of a derivation (itself first) *)
Fixpoint dsubs {tok} (d : Driver.dtree tok) : list (Driver.dtree tok) :=
  d :: match d with Driver.Leaf _ => [] | Driver.Node _ cs => flat_map dsubs cs end.

Arguments vtree : clear implicits.
Arguments presult : clear implicits.
