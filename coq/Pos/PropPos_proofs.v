(* The hand-written, grouped PropagatePositions model (Pos/MetaSpan.propagate, the one all C06 / C13 / C15
   theorems are about) IS the regenerated attribute-wise one (Pos/PropPosModel.rpropagate over Gen/PropPos.v). *)
From Coq Require Import ZArith List Bool Lia.
From LV Require Import Pos.RawMeta Gen.PropPos Pos.MetaSpan Pos.PropPosModel.
Import ListNotations.

Definition all_kept (_ : rchild) : bool := true.

Lemma alias_safe : pp_alias_safe = true.
Proof. reflexivity. Qed.

(* Meta() starts empty and without any position attribute; the annotated list names the six own fields *)
Lemma meta_new_is_empty : raw_meta empty_meta = rmeta_new meta_init_empty.
Proof. reflexivity. Qed.

Lemma rfirst_view l :
  rfirst all_kept (map raw_shaped l) = option_map raw_meta (first_view l).
Proof.
  induction l as [|c r IH]; [reflexivity|].
  cbn [map rfirst first_view all_kept negb]. destruct c as [s e|m|]; cbn [raw_shaped view].
  - reflexivity.
  - unfold pp_tree_offers. cbn [raw_meta r_empty]. destruct (m_empty m); cbn [negb]; [exact IH|reflexivity].
  - exact IH.
Qed.

Lemma first_view_full l f : Forall full_shaped l -> first_view l = Some f -> m_start f <> None /\ m_end f <> None.
Proof.
  induction 1 as [|c r Hc _ IH]; [discriminate|]. cbn [first_view].
  destruct c as [s e|m|]; cbn [view].
  - intros [= <-]. cbn. split; discriminate.
  - destruct (m_empty m) eqn:E; [exact IH|]. intros [= <-]. exact (Hc E).
  - exact IH.
Qed.

Lemma Forall_rev' {X} (P : X -> Prop) l : Forall P l -> Forall P (rev l).
Proof. rewrite !Forall_forall. intros H x Hx. apply H, in_rev, Hx. Qed.

(* MetaSpan.propagate is the regenerated PropagatePositions body: same twelve attributes, same [empty] flag,
   and no AttributeError, whenever every non-empty child meta has both ends *)
Theorem propagate_regenerated m ch :
  Forall full_shaped ch ->
  rpropagate all_kept (raw_meta m) (map raw_shaped ch) = Some (raw_meta (propagate m ch)).
Proof.
  intros Hf. unfold rpropagate, propagate. rewrite <- map_rev, !rfirst_view.
  pose proof (first_view_full ch) as F. pose proof (first_view_full (rev ch)) as L.
  specialize (fun f => F f Hf). specialize (fun f => L f (Forall_rev' _ _ Hf)).
  destruct (first_view ch) as [f|]; destruct (first_view (rev ch)) as [l|]; cbn [option_map].
  - destruct (F f eq_refl) as (F1 & _). destruct (L l eq_refl) as (_ & L2).
    destruct f as [[fs|] fe fcs fce]; [|cbn in F1; congruence].
    destruct l as [ls [le|] lcs lce]; [|cbn in L2; congruence].
    destruct m as [[ms|] [me|] mcs mce]; destruct fcs as [fcs|]; destruct lce as [lce|]; reflexivity.
  - destruct (F f eq_refl) as (F1 & _).
    destruct f as [[fs|] fe fcs fce]; [|cbn in F1; congruence].
    destruct m as [[ms|] [me|] mcs mce]; destruct fcs as [fcs|]; reflexivity.
  - destruct (L l eq_refl) as (_ & L2).
    destruct l as [ls [le|] lcs lce]; [|cbn in L2; congruence].
    destruct m as [[ms|] [me|] mcs mce]; destruct lce as [lce|]; reflexivity.
  - reflexivity.
Qed.

(* ---- the invariant: every meta the callbacks produce is full, so the getattr defaults never raise ---- *)
Lemma first_view_rev_none l : first_view l = None <-> first_view (rev l) = None.
Proof.
  assert (H : forall l, first_view l = None <-> Forall (fun c => view c = None) l).
  { induction l0 as [|c r IH]; cbn [first_view].
    - split; auto.
    - destruct (view c) eqn:E.
      + split; [discriminate|]. intros H. inversion H; congruence.
      + rewrite IH. split; [intros; constructor; auto|intros H; inversion H; auto]. }
  rewrite !H, !Forall_forall. split; intros G x Hx; apply G.
  - apply in_rev. exact Hx.
  - apply in_rev in Hx. exact Hx.
Qed.

Lemma propagate_full m ch : full_meta m -> Forall full_shaped ch -> full_meta (propagate m ch).
Proof.
  intros Hm Hf. unfold propagate.
  pose proof (first_view_full ch) as F. pose proof (first_view_full (rev ch)) as L.
  specialize (fun f => F f Hf). specialize (fun f => L f (Forall_rev' _ _ Hf)).
  pose proof (first_view_rev_none ch) as N.
  destruct (first_view ch) as [f|]; destruct (first_view (rev ch)) as [l|].
  - destruct (F f eq_refl) as (F1 & _). destruct (L l eq_refl) as (_ & L2).
    intros _. cbn [m_start m_end].
    destruct (m_start m), (m_end m), (m_cstart f), (m_start f), (m_cend l), (m_end l); cbn [or_else];
      split; congruence.
  - destruct N as (_ & N). specialize (N eq_refl). discriminate.
  - destruct N as (N & _). specialize (N eq_refl). discriminate.
  - exact Hm.
Qed.

Fixpoint leaves_full (p : ptree) : Prop :=
  match p with
  | PLeaf m => full_meta m
  | PNode _ _ cs => (fix go (l : list ptree) : Prop := match l with [] => True | x :: r => leaves_full x /\ go r end) cs
  | _ => True
  end.

Lemma leaves_full_node sel o cs : leaves_full (PNode sel o cs) <-> Forall leaves_full cs.
Proof.
  cbn [leaves_full]. induction cs as [|c r IH]; [split; auto|].
  split.
  - intros (H1 & H2). constructor; [exact H1|apply IH, H2].
  - intros H. inversion H; subst. split; [assumption|apply IH; assumption].
Qed.

Section Ind.
Variable P : ptree -> Prop.
Hypothesis Htok : forall se, P (PTok se).
Hypothesis Hleaf : forall m, P (PLeaf m).
Hypothesis Hnone : P PNone.
Hypothesis Hnode : forall sel o cs, Forall P cs -> P (PNode sel o cs).
Fixpoint ptree_rect' (p : ptree) : P p :=
  match p with
  | PTok se => Htok se
  | PLeaf m => Hleaf m
  | PNone => Hnone
  | PNode sel o cs =>
      Hnode sel o cs ((fix go (l : list ptree) : Forall P l :=
                         match l with
                         | [] => Forall_nil P
                         | x :: r => Forall_cons x (ptree_rect' x) (go r)
                         end) cs)
  end.
End Ind.

Theorem build_full p : leaves_full p -> full_shaped (build p).
Proof.
  induction p as [se|m| |sel o cs IH] using ptree_rect'; intros H; try exact I; [exact H|].
  apply leaves_full_node in H.
  assert (Hch : Forall full_shaped (map build cs)).
  { rewrite Forall_forall in *. intros x Hx. apply in_map_iff in Hx. destruct Hx as (c & <- & Hc). auto. }
  cbn [build].
  assert (Hres : full_shaped (match sel with Some k => nth k (map build cs) SHNone | None => SHTree empty_meta end)).
  { destruct sel as [k|]; [|cbn; intros E; discriminate].
    destruct (Nat.lt_ge_cases k (length (map build cs))) as [Hk|Hk].
    - rewrite Forall_forall in Hch. apply Hch, nth_In, Hk.
    - rewrite nth_overflow by exact Hk. exact I. }
  destruct (match sel with Some k => nth k (map build cs) SHNone | None => SHTree empty_meta end) as [s e|m|];
    try exact I.
  cbn [full_shaped]. apply propagate_full; assumption.
Qed.

(* hence every PropagatePositions call of a callback tree runs the regenerated code without AttributeError
   and writes what the grouped model says *)
Corollary build_node_regenerated sel o cs m :
  leaves_full (PNode sel o cs) ->
  (match sel with Some k => nth k (map build cs) SHNone | None => SHTree empty_meta end) = SHTree m ->
  rpropagate all_kept (raw_meta m) (map raw_shaped (map build cs)) = Some (raw_meta (propagate m (map build cs))) /\
  build (PNode sel o cs) = SHTree (propagate m (map build cs)).
Proof.
  intros H E. apply leaves_full_node in H. split.
  - apply propagate_regenerated. rewrite Forall_forall in *. intros x Hx. apply in_map_iff in Hx.
    destruct Hx as (c & <- & Hc). apply build_full. auto.
  - cbn [build]. rewrite E. reflexivity.
Qed.
