(* Regenerated-file lemmas: facts about the code as it is *now* (Gen/LexStep.v, Gen/DynStep.v).
   They stop compiling if next_token goes back to passing test_newline from the spelling
   heuristic, or if the dynamic scanner's newline test stops recognising a representation. *)
From Coq Require Import ZArith List Bool Lia.
From LV Require Import Pos.PosBase Gen.LineCounter Gen.LexStep Gen.DynStep Pos.Coord
  Pos.LineCounter_proofs Pos.LexCoords Pos.LexCoords_proofs Pos.Repr_proofs.
Import ListNotations.
Local Open Scope Z_scope.

(* next_token counts newlines in every token (repair of F1) *)
Lemma h_testnl_true {term} (nt : term -> bool) ty : h_testnl nt ty = true.
Proof. reflexivity. Qed.

Section Current.
Context {A : Type} (eqb : A -> A -> bool) (nl : A) {term : Type}.
Variable scan : list term -> list A -> Z -> Z -> option (nat * term).
Variable ignore : term -> bool.
Variable newline_types : term -> bool.

Theorem lexer_coords (T : list A) (a e : nat) snap ts o :
  (a <= e)%nat -> (e <= length T)%nat ->
  (forall h (p n : nat) ty, scan h T (Z.of_nat p) (Z.of_nat e) = Some (n, ty) -> (p + n <= e)%nat) ->
  (snap = None \/ snap = Some (line_of eqb nl T a, line_start_of eqb nl T a)) ->
  lex_slice eqb nl scan ignore newline_types T (Z.of_nat a) (Z.of_nat e) snap = (ts, o) ->
  Forall (tok_ok eqb nl T a e) ts /\ chain (Z.of_nat a) ts /\ outcome_ok eqb nl T a e o.
Proof.
  intros Ha He Hb Hs. apply lexer_coords_gen; auto.
  intros h p n ty _ Hf. rewrite h_testnl_true in Hf. discriminate.
Qed.

Theorem window_shift_current (T : list A) (a b : nat) :
  (a <= b)%nat -> (b <= length T)%nat ->
  (forall h (p n : nat) ty, scan h T (Z.of_nat p) (Z.of_nat b) = Some (n, ty) -> (p + n <= b)%nat) ->
  (forall h (p : nat), (a <= p < b)%nat ->
     scan h T (Z.of_nat p) (Z.of_nat b) = scan h (sub T a b) (Z.of_nat (p - a)) (Z.of_nat (b - a))) ->
  lex_slice eqb nl scan ignore newline_types T (Z.of_nat a) (Z.of_nat b) None =
  shift_result eqb nl T a (lex_slice eqb nl scan ignore newline_types (sub T a b) 0 (Z.of_nat (b - a)) None).
Proof.
  intros Hab Hb Hsb Hcf. apply window_shift; auto.
  intros h p n ty _ Hf. rewrite h_testnl_true in Hf. discriminate.
Qed.

(* the dynamic scanner's newline test, instantiated for the two representations:
   str  - elements are one-character strings: [x == '\n'] is [eqb x nl], [x == 10] is false
   bytes - elements are integers:             [x == '\n'] is false, [x == 10] is [eqb x nl] *)

Lemma isnl_str_spec x : isnl_str eqb nl x = eqb x nl.
Proof. unfold isnl_str, dyn_isnl. apply orb_false_r. Qed.

(* repair of F2 *)
Lemma isnl_bytes_spec x : isnl_bytes eqb nl x = eqb x nl.
Proof. unfold isnl_bytes, dyn_isnl. reflexivity. Qed.

Theorem dyn_coords_str (T : list A) i : (i <= length T)%nat -> dyn_at (isnl_str eqb nl) T i = coord eqb nl T i.
Proof. apply dyn_at_coord. exact isnl_str_spec. Qed.

Theorem dyn_coords_bytes (T : list A) i : (i <= length T)%nat -> dyn_at (isnl_bytes eqb nl) T i = coord eqb nl T i.
Proof. apply dyn_at_coord. exact isnl_bytes_spec. Qed.

End Current.
