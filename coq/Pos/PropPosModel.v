(* PropagatePositions as coded, attribute-wise, assembled from the regenerated lists and conditions of
   Gen/PropPos.v and the interpreter of Pos/RawMeta.v (C06, tree half).  No proofs here.

   [keep] is the node_filter given through propagate_positions=<callable> (fun _ => true when the option is
   True: make_propagate_positions, pinned by the translator). *)
From Coq Require Import ZArith List Bool.
From LV Require Import Pos.RawMeta Gen.PropPos Pos.MetaSpan.
Import ListNotations.

Section Raw.
Variable keep : rchild -> bool.

(* _pp_get_meta(children) *)
Fixpoint rfirst (l : list rchild) : option rmeta :=
  match l with
  | [] => None
  | c :: r =>
      if negb (keep c) then rfirst r
      else match c with
           | RTree m => if pp_tree_offers (r_empty m) then Some m else rfirst r
           | RTok m => Some m
           | RCustom om => om
           | ROther => rfirst r
           end
  end.

(* the body of "if isinstance(res, Tree):" - both ends are looked up before res_meta is touched;
   None = AttributeError *)
Definition rpropagate (res : rmeta) (children : list rchild) : option rmeta :=
  let first_meta := rfirst children in
  let last_meta := rfirst (rev children) in
  match run_half pp_first_probe pp_first_own pp_first_marks pp_first_cont first_meta res with
  | Some res' => run_half pp_last_probe pp_last_own pp_last_marks pp_last_cont last_meta res'
  | None => None
  end.
End Raw.

(* When the rule is inlined, res is one of the children and first_meta / last_meta may be res_meta itself:
   the second half then reads the object the first half wrote.  The functional model reads a snapshot;
   the two agree because what the first half writes (incl. [empty], which only _pp_get_meta reads, and that
   ran before) is disjoint from what the second half reads. *)
Definition pp_alias_safe : bool :=
  disjointb (copy_writes pp_first_own ++ copy_writes pp_first_cont) (copy_reads pp_last_own ++ copy_reads pp_last_cont).

(* ---- embedding of the grouped model (Pos/MetaSpan.v) ------------------------------------------ *)
Definition tr_pos (t : trip) : Z := fst (fst t).
Definition tr_line (t : trip) : Z := snd (fst t).
Definition tr_col (t : trip) : Z := snd t.

Definition raw_meta (m : meta) : rmeta :=
  mkRM (m_empty m)
       (option_map tr_line (m_start m)) (option_map tr_col (m_start m)) (option_map tr_pos (m_start m))
       (option_map tr_line (m_end m)) (option_map tr_col (m_end m)) (option_map tr_pos (m_end m))
       (option_map tr_line (m_cstart m)) (option_map tr_col (m_cstart m)) (option_map tr_pos (m_cstart m))
       (option_map tr_line (m_cend m)) (option_map tr_col (m_cend m)) (option_map tr_pos (m_cend m)).

Definition raw_shaped (c : shaped) : rchild :=
  match c with
  | SHTok s e => RTok (raw_meta (mkMeta (Some s) (Some e) None None))
  | SHTree m => RTree (raw_meta m)
  | SHNone => ROther
  end.

(* a non-empty meta has both ends (invariant of the metas PropagatePositions writes; a meta with one
   end only makes the eager getattr default raise AttributeError) *)
Definition full_meta (m : meta) : Prop := m_empty m = false -> m_start m <> None /\ m_end m <> None.
Definition full_shaped (c : shaped) : Prop := match c with SHTree m => full_meta m | _ => True end.
