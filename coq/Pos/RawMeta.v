(* Raw reading of Tree.meta / Token as PropagatePositions sees them: twelve optional integer attributes and
   the [empty] flag, attribute-wise (no grouping into triples), plus the interpreter of the statement
     res_meta.dst = getattr(src, 'c', src.d)
   The lists of such statements and the conditions of PropagatePositions.__call__ / _pp_get_meta are
   regenerated into Gen/PropPos.v; Pos/PropPosModel.v assembles them.  No proofs here. *)
From Coq Require Import ZArith List Bool.
Import ListNotations.

Inductive field :=
| F_line
| F_column
| F_start_pos
| F_end_line
| F_end_column
| F_end_pos
| F_container_line
| F_container_column
| F_container_start_pos
| F_container_end_line
| F_container_end_column
| F_container_end_pos.

Record rmeta := mkRM {
  r_empty : bool;
  r_line : option Z;
  r_column : option Z;
  r_start_pos : option Z;
  r_end_line : option Z;
  r_end_column : option Z;
  r_end_pos : option Z;
  r_container_line : option Z;
  r_container_column : option Z;
  r_container_start_pos : option Z;
  r_container_end_line : option Z;
  r_container_end_column : option Z;
  r_container_end_pos : option Z }.

Definition rget (m : rmeta) (f : field) : option Z :=
  match f with
  | F_line => r_line m
  | F_column => r_column m
  | F_start_pos => r_start_pos m
  | F_end_line => r_end_line m
  | F_end_column => r_end_column m
  | F_end_pos => r_end_pos m
  | F_container_line => r_container_line m
  | F_container_column => r_container_column m
  | F_container_start_pos => r_container_start_pos m
  | F_container_end_line => r_container_end_line m
  | F_container_end_column => r_container_end_column m
  | F_container_end_pos => r_container_end_pos m
  end.

(* setattr(m, f, v) *)
Definition rset (m : rmeta) (f : field) (v : Z) : rmeta :=
  match f with
  | F_line => mkRM (r_empty m) (Some v) (r_column m) (r_start_pos m) (r_end_line m) (r_end_column m) (r_end_pos m) (r_container_line m) (r_container_column m) (r_container_start_pos m) (r_container_end_line m) (r_container_end_column m) (r_container_end_pos m)
  | F_column => mkRM (r_empty m) (r_line m) (Some v) (r_start_pos m) (r_end_line m) (r_end_column m) (r_end_pos m) (r_container_line m) (r_container_column m) (r_container_start_pos m) (r_container_end_line m) (r_container_end_column m) (r_container_end_pos m)
  | F_start_pos => mkRM (r_empty m) (r_line m) (r_column m) (Some v) (r_end_line m) (r_end_column m) (r_end_pos m) (r_container_line m) (r_container_column m) (r_container_start_pos m) (r_container_end_line m) (r_container_end_column m) (r_container_end_pos m)
  | F_end_line => mkRM (r_empty m) (r_line m) (r_column m) (r_start_pos m) (Some v) (r_end_column m) (r_end_pos m) (r_container_line m) (r_container_column m) (r_container_start_pos m) (r_container_end_line m) (r_container_end_column m) (r_container_end_pos m)
  | F_end_column => mkRM (r_empty m) (r_line m) (r_column m) (r_start_pos m) (r_end_line m) (Some v) (r_end_pos m) (r_container_line m) (r_container_column m) (r_container_start_pos m) (r_container_end_line m) (r_container_end_column m) (r_container_end_pos m)
  | F_end_pos => mkRM (r_empty m) (r_line m) (r_column m) (r_start_pos m) (r_end_line m) (r_end_column m) (Some v) (r_container_line m) (r_container_column m) (r_container_start_pos m) (r_container_end_line m) (r_container_end_column m) (r_container_end_pos m)
  | F_container_line => mkRM (r_empty m) (r_line m) (r_column m) (r_start_pos m) (r_end_line m) (r_end_column m) (r_end_pos m) (Some v) (r_container_column m) (r_container_start_pos m) (r_container_end_line m) (r_container_end_column m) (r_container_end_pos m)
  | F_container_column => mkRM (r_empty m) (r_line m) (r_column m) (r_start_pos m) (r_end_line m) (r_end_column m) (r_end_pos m) (r_container_line m) (Some v) (r_container_start_pos m) (r_container_end_line m) (r_container_end_column m) (r_container_end_pos m)
  | F_container_start_pos => mkRM (r_empty m) (r_line m) (r_column m) (r_start_pos m) (r_end_line m) (r_end_column m) (r_end_pos m) (r_container_line m) (r_container_column m) (Some v) (r_container_end_line m) (r_container_end_column m) (r_container_end_pos m)
  | F_container_end_line => mkRM (r_empty m) (r_line m) (r_column m) (r_start_pos m) (r_end_line m) (r_end_column m) (r_end_pos m) (r_container_line m) (r_container_column m) (r_container_start_pos m) (Some v) (r_container_end_column m) (r_container_end_pos m)
  | F_container_end_column => mkRM (r_empty m) (r_line m) (r_column m) (r_start_pos m) (r_end_line m) (r_end_column m) (r_end_pos m) (r_container_line m) (r_container_column m) (r_container_start_pos m) (r_container_end_line m) (Some v) (r_container_end_pos m)
  | F_container_end_pos => mkRM (r_empty m) (r_line m) (r_column m) (r_start_pos m) (r_end_line m) (r_end_column m) (r_end_pos m) (r_container_line m) (r_container_column m) (r_container_start_pos m) (r_container_end_line m) (r_container_end_column m) (Some v)
  end.

Definition rset_empty (m : rmeta) (b : bool) : rmeta := mkRM b (r_line m) (r_column m) (r_start_pos m) (r_end_line m) (r_end_column m) (r_end_pos m) (r_container_line m) (r_container_column m) (r_container_start_pos m) (r_container_end_line m) (r_container_end_column m) (r_container_end_pos m).

(* Meta(): only [empty] is set *)
Definition rmeta_new (empty0 : bool) : rmeta := mkRM empty0 None None None None None None None None None None None None.

(* res.dst = getattr(src, 'c', src.d): Python evaluates the default src.d first - AttributeError (None here)
   when src has no attribute d, whatever c *)
Inductive copy := Copy (dst c d : field).

Definition run_copy (src res : rmeta) (cp : copy) : option rmeta :=
  let '(Copy dst c d) := cp in
  match rget src d with
  | None => None
  | Some dv => Some (rset res dst (match rget src c with Some v => v | None => dv end))
  end.

Fixpoint run_copies (src res : rmeta) (l : list copy) : option rmeta :=
  match l with
  | [] => Some res
  | cp :: r => match run_copy src res cp with Some res' => run_copies src res' r | None => None end
  end.

(* if src is not None:
       if not hasattr(res, probe): <own copies>; [res.empty = False]
       <container copies> *)
Definition run_half (probe : field) (own : list copy) (marks : bool) (cont : list copy)
  (src : option rmeta) (res : rmeta) : option rmeta :=
  match src with
  | None => Some res
  | Some f =>
      match (match rget res probe with
             | Some _ => Some res
             | None => option_map (fun r => if marks then rset_empty r false else r) (run_copies f res own)
             end) with
      | Some res' => run_copies f res' cont
      | None => None
      end
  end.

Definition field_eqb (a b : field) : bool :=
  match a, b with
  | F_line, F_line => true
  | F_column, F_column => true
  | F_start_pos, F_start_pos => true
  | F_end_line, F_end_line => true
  | F_end_column, F_end_column => true
  | F_end_pos, F_end_pos => true
  | F_container_line, F_container_line => true
  | F_container_column, F_container_column => true
  | F_container_start_pos, F_container_start_pos => true
  | F_container_end_line, F_container_end_line => true
  | F_container_end_column, F_container_end_column => true
  | F_container_end_pos, F_container_end_pos => true
  | _, _ => false
  end.

Definition copy_writes (l : list copy) : list field := map (fun cp => let '(Copy dst _ _) := cp in dst) l.
Definition copy_reads (l : list copy) : list field := flat_map (fun cp => let '(Copy _ c d) := cp in [c; d]) l.
Definition disjointb (a b : list field) : bool := forallb (fun x => negb (existsb (field_eqb x) b)) a.

(* a child as _pp_get_meta classifies it: a Token (its position attributes read as a meta without container
   fields), a Tree (its meta), an object with __lark_meta__ (what the call returns - the search stops there even
   when that is None), anything else (None placeholders, transformer results) *)
Inductive rchild :=
| RTok (m : rmeta)
| RTree (m : rmeta)
| RCustom (m : option rmeta)
| ROther.
