(* Types and text primitives shared by the regenerated LineCounter (Gen/LineCounter.v), the
   lexer-step model and the coordinate specification.  No proofs here.

   Text is a list over a generic character type [A] with a distinguished newline [nl] and a
   boolean equality [eqb] (instantiated with [ascii] for str, with byte codes for bytes).
   The functions below are the reading of the Python str/bytes methods the counter uses:
     token.count(nl)            = Z.of_nat (count_nl token)
     token.rindex(nl)           = rindex_z token        (Python raises ValueError when absent; the
                                                         code only calls it under [if newlines:],
                                                         which the translator template pins)
     text.count(nl, lo, hi)     = count_range text lo hi      (0 <= lo, 0 <= hi)
     text.rindex(nl, lo, hi)    = rindex_range text lo hi     (absolute index)
     text[lo:hi]                = slice text lo hi *)
From Coq Require Import ZArith List Bool.
Import ListNotations.
Local Open Scope Z_scope.

(* LineCounter.__slots__ (newline_char is the section parameter [nl]) *)
Record counter := mkLC { char_pos : Z; line : Z; column : Z; line_start_pos : Z }.

Definition set_char_pos (c : counter) (v : Z) := mkLC v (line c) (column c) (line_start_pos c).
Definition set_line (c : counter) (v : Z) := mkLC (char_pos c) v (column c) (line_start_pos c).
Definition set_column (c : counter) (v : Z) := mkLC (char_pos c) (line c) v (line_start_pos c).
Definition set_line_start_pos (c : counter) (v : Z) := mkLC (char_pos c) (line c) (column c) v.

Definition counter_eqb (a b : counter) : bool :=
  Z.eqb (char_pos a) (char_pos b) && Z.eqb (line a) (line b) && Z.eqb (column a) (column b)
  && Z.eqb (line_start_pos a) (line_start_pos b).

Section TextOps.
Context {A : Type} (eqb : A -> A -> bool) (nl : A).

Fixpoint count_nl (l : list A) : nat :=
  match l with
  | [] => O
  | x :: r => ((if eqb x nl then 1 else 0) + count_nl r)%nat
  end.

(* index of the last newline *)
Fixpoint rindex_nl (l : list A) : option nat :=
  match l with
  | [] => None
  | x :: r => match rindex_nl r with
              | Some i => Some (S i)
              | None => if eqb x nl then Some O else None
              end
  end.

(* index of the first newline *)
Fixpoint index_nl (l : list A) : option nat :=
  match l with
  | [] => None
  | x :: r => if eqb x nl then Some O else match index_nl r with Some i => Some (S i) | None => None end
  end.

Definition rindex_z (l : list A) : Z := match rindex_nl l with Some i => Z.of_nat i | None => -1 end.
Definition index_z (l : list A) : Z := match index_nl l with Some i => Z.of_nat i | None => -1 end.

Definition slice (l : list A) (lo hi : Z) : list A :=
  firstn (Z.to_nat (hi - lo)) (skipn (Z.to_nat lo) l).

Definition count_range (l : list A) (lo hi : Z) : Z := Z.of_nat (count_nl (slice l lo hi)).
Definition rindex_range (l : list A) (lo hi : Z) : Z := lo + rindex_z (slice l lo hi).
Definition index_range (l : list A) (lo hi : Z) : Z := lo + index_z (slice l lo hi).

End TextOps.
