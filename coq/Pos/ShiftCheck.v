(* Correspondence helper for C15 at tree level (no proofs): the callback tree recorded while lark parsed
   the extracted substring T[a:b], re-based by the window start (offsets + a, line/column looked up in the
   buffer T with the specification Coord.line_of/col_of), must reproduce - through the PropagatePositions
   model MetaSpan.build - the metas lark wrote while parsing TextSlice(T, a, b). *)
From Coq Require Import ZArith List Bool String Ascii.
From LV Require Import Pos.PosBase Pos.Coord Pos.MetaSpan Pos.TreeShift Pos.PosCheck.
Import ListNotations.

Fixpoint shift_ptree (phi : trip -> trip) (p : ptree) : ptree :=
  match p with
  | PTok se => PTok (phi (fst se), phi (snd se))
  | PLeaf m => PLeaf (map_meta phi m)
  | PNone => PNone
  | PNode sel o cs => PNode sel o (map (shift_ptree phi) cs)
  end.

(* buffer text, window start, callback tree: tokens as observed in the substring run, results [o] as
   observed in the window run *)
Inductive shift_case := ShiftCase (text : string) (a : Z) (p : ptree).

Definition check_shift (c : shift_case) : bool :=
  let '(ShiftCase text a p) := c in
  let T := txt text in
  check_ptree (shift_ptree (shift_trip a (fun z => line_of Ascii.eqb anl T (Z.to_nat z))
                                         (fun z => col_of Ascii.eqb anl T (Z.to_nat z))) p).
