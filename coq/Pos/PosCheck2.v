(* Round-12 comparison functions for the generated correspondence cases of C06 / C15 (no proofs):
   forked lexer states, on_error recovery, the attribute-wise PropagatePositions model. *)
From Coq Require Import ZArith List Bool String Ascii.
From LV Require Import Pos.PosBase Gen.LineCounter Gen.LexStep Gen.CounterCopy Gen.TokenFields Pos.Coord Pos.LexCoords
  Pos.MetaSpan Pos.PosCheck Pos.Recover Pos.RawMeta Gen.PropPos Pos.PropPosModel.
Import ListNotations.
Local Open Scope Z_scope.

Definition counter_of (o : cobs) : counter := let '(Obs cp ln col lsp) := o in mkLC cp ln col lsp.

(* ---- 1. copy(line_ctr): state of the original when LexerState.__copy__ ran, state of the copy right after,
        later calls on the copy ------------------------------------------------------------------- *)
Inductive copy_case := CopyCase (text : string) (orig copied : cobs) (ops : list op).

Definition check_copy (c : copy_case) : bool :=
  let '(CopyCase text orig copied ops) := c in
  let c0 := lc_copy (counter_of orig) in
  obs_eqb c0 copied && run_ops (txt text) c0 ops.

(* ---- 2. the token stream a fork lexes from the copied counter ---------------------------------- *)
Inductive fork_case :=
  ForkCase (text : string) (e : Z) (orig : cobs) (ignore newline_types : list string)
           (table : list entry) (toks : list tokobs) (code epos eline ecol : Z).

Definition end_ok (code : Z) (o : outcome) (ep eln ecol : Z) : bool :=
  match code, o with
  | 0, Done => true
  | 1, Unexpected p l cl =>
      let '(p', l', c') := uc_fields p l cl in Z.eqb p' ep && Z.eqb l' eln && Z.eqb c' ecol
  | 2, _ => true
  | _, _ => false
  end.

Definition check_fork (c : fork_case) : bool :=
  let '(ForkCase text e orig ign nlt table toks code ep eln ecol) := c in
  let c0 := counter_of orig in
  let '(ts, o) := lex_fork Ascii.eqb anl (fun _ _ p _ => lookup p table) (fun ty => mem_str ty ign)
                           (fun ty => mem_str ty nlt) (S (Z.to_nat (e - char_pos c0))) [] (txt text) e c0 in
  toks_eqb ts toks && end_ok code o ep eln ecol.

(* ---- 3. on_error recovery: tokens and accepted UnexpectedCharacters errors, in order ------------ *)
Inductive evobs := ObsTok (t : tokobs) | ObsErr (pos line col : Z).

Fixpoint evs_eqb (a : list (event (A:=ascii) (term:=string))) (b : list evobs) : bool :=
  match a, b with
  | [], [] => true
  | EvTok t :: a', ObsTok o :: b' => tok_eqb t o && evs_eqb a' b'
  | EvErr p l c :: a', ObsErr p' l' c' :: b' =>
      (let '(q, l0, c0) := uc_fields p l c in Z.eqb q p' && Z.eqb l0 l' && Z.eqb c0 c') && evs_eqb a' b'
  | _, _ => false
  end.

Fixpoint evs_prefix (a : list (event (A:=ascii) (term:=string))) (b : list evobs) : bool :=
  match a, b with
  | _, [] => true
  | EvTok t :: a', ObsTok o :: b' => tok_eqb t o && evs_prefix a' b'
  | EvErr p l c :: a', ObsErr p' l' c' :: b' =>
      (let '(q, l0, c0) := uc_fields p l c in Z.eqb q p' && Z.eqb l0 l' && Z.eqb c0 c') && evs_prefix a' b'
  | _, _ => false
  end.

(* complete = the run reached the end of the window (else it was stopped from outside: a parser error);
   a stopped run must be a prefix of the model's *)
Inductive rec_case :=
  RecCase (text : string) (a e : Z) (snap : snapshot) (ignore newline_types : list string)
          (table : list entry) (evs : list evobs) (complete : bool).

Definition check_rec (c : rec_case) : bool :=
  let '(RecCase text a e snap ign nlt table evs complete) := c in
  let '(ms, ok) := lex_slice_rec Ascii.eqb anl (fun _ _ p _ => lookup p table) (fun ty => mem_str ty ign)
                                 (fun ty => mem_str ty nlt) (txt text) a e (snap_opt snap) in
  if complete then ok && evs_eqb ms evs else evs_prefix ms evs.

(* ---- 4. PropagatePositions attribute by attribute: the regenerated model on one callback ---------- *)
Definition oz_eqb (a b : option Z) : bool :=
  match a, b with Some x, Some y => Z.eqb x y | None, None => true | _, _ => false end.

Definition rmeta_eqb (a b : rmeta) : bool :=
  Bool.eqb (r_empty a) (r_empty b) &&
  forallb (fun f => oz_eqb (rget a f) (rget b f))
    [F_line; F_column; F_start_pos; F_end_line; F_end_column; F_end_pos; F_container_line; F_container_column;
     F_container_start_pos; F_container_end_line; F_container_end_column; F_container_end_pos].

(* meta literal: empty flag and the twelve attributes in the order of RawMeta.field *)
Definition RM := mkRM.
Definition NoZ : option Z := None.

(* children with the node_filter's verdict, meta of the result before and after the call
   (after = None: the call raised AttributeError) *)
Inductive pp_case := PPCase (children : list (rchild * bool)) (before : rmeta) (after : option rmeta).

(* the filter's verdicts are positional: run the model on children replaced by [ROther] when rejected
   (a rejected child is skipped exactly like an unpositioned one) *)
Definition check_pp (c : pp_case) : bool :=
  let '(PPCase children before after) := c in
  let ch := map (fun ck : rchild * bool => if snd ck then fst ck else ROther) children in
  match rpropagate (fun _ => true) before ch, after with
  | Some m, Some m' => rmeta_eqb m m'
  | None, None => true
  | _, _ => false
  end.

(* ---- 5. TextSlice(text, start, end): observed normalised (start, end), or None for AssertionError ------------ *)
From LV Require Import Gen.TextSlice.
Inductive slice_case := SliceCase (n start : Z) (e : option Z) (obs : option (Z * Z)) (complete : bool) (len : Z).

Definition check_slice (c : slice_case) : bool :=
  let '(SliceCase n s e obs complete len) := c in
  match ts_start n s, ts_end n e, obs with
  | Some s', Some e', Some (os, oe) =>
      Z.eqb s' os && Z.eqb e' oe && Bool.eqb (ts_complete n s' e') complete && Z.eqb (ts_len s' e') len
  | None, _, None => true
  | Some _, None, None => true
  | _, _, _ => false
  end.
