(* Proofs that the regenerated LineCounter (Gen/LineCounter.v) tracks [coord]. *)
From Coq Require Import ZArith List Bool Lia Arith.
From LV Require Import Pos.PosBase Gen.LineCounter Pos.Coord.
Import ListNotations.

Section Proofs.
Context {A : Type} (eqb : A -> A -> bool) (nl : A).

Notation count_nl := (count_nl eqb nl).
Notation rindex_nl := (rindex_nl eqb nl).
Notation prefix_nonl := (prefix_nonl eqb nl).
Notation tail_len := (tail_len eqb nl).

Lemma count_nl_app a b : count_nl (a ++ b) = count_nl a + count_nl b.
Proof. induction a as [|x a IH]; cbn [count_nl app]; [reflexivity|]. rewrite IH. lia. Qed.

Lemma count_nl_rev a : count_nl (rev a) = count_nl a.
Proof.
  induction a as [|x a IH]; [reflexivity|]. cbn [rev]. rewrite count_nl_app, IH.
  cbn [count_nl]. lia.
Qed.

Lemma prefix_nonl_id u : count_nl u = 0 -> prefix_nonl u = u.
Proof.
  induction u as [|x u IH]; cbn [count_nl Coord.prefix_nonl]; [reflexivity|].
  destruct (eqb x nl); [lia|]. intros H. rewrite IH by lia. reflexivity.
Qed.

Lemma prefix_nonl_app u v :
  prefix_nonl (u ++ v) = if Nat.eqb (count_nl u) 0 then u ++ prefix_nonl v else prefix_nonl u.
Proof.
  induction u as [|x u IH]; cbn [count_nl Coord.prefix_nonl app]; [reflexivity|].
  destruct (eqb x nl); cbn [Nat.add Nat.eqb]; [reflexivity|].
  rewrite IH. destruct (Nat.eqb (count_nl u) 0); reflexivity.
Qed.

Lemma tail_len_app a b :
  tail_len (a ++ b) = if Nat.eqb (count_nl b) 0 then tail_len a + length b else tail_len b.
Proof.
  unfold Coord.tail_len. rewrite rev_app_distr, prefix_nonl_app, count_nl_rev.
  destruct (Nat.eqb (count_nl b) 0); [|reflexivity].
  rewrite app_length, rev_length. lia.
Qed.

Lemma tail_len_nonl b : count_nl b = 0 -> tail_len b = length b.
Proof.
  intros H. unfold Coord.tail_len. rewrite prefix_nonl_id by (rewrite count_nl_rev; exact H).
  apply rev_length.
Qed.

Lemma tail_len_le b : tail_len b <= length b.
Proof.
  unfold Coord.tail_len. rewrite <- (rev_length b). generalize (rev b). intros l.
  induction l as [|x l IH]; cbn [Coord.prefix_nonl length]; [lia|].
  destruct (eqb x nl); cbn [length]; lia.
Qed.

(* the last newline splits the token *)
Lemma rindex_nl_split b i :
  rindex_nl b = Some i ->
  exists b1 x b2, b = b1 ++ x :: b2 /\ length b1 = i /\ eqb x nl = true /\ count_nl b2 = 0.
Proof.
  revert i. induction b as [|y b IH]; intros i; cbn [PosBase.rindex_nl]; [discriminate|].
  destruct (rindex_nl b) as [j|] eqn:E.
  - intros [= <-]. destruct (IH j eq_refl) as (b1 & x & b2 & -> & L & X & C).
    exists (y :: b1), x, b2. cbn [app length]. repeat split; auto.
  - destruct (eqb y nl) eqn:Y; [|discriminate]. intros [= <-].
    exists [], y, b. repeat split; auto.
    clear IH. induction b as [|z b IHb]; [reflexivity|].
    cbn [PosBase.rindex_nl] in E. destruct (rindex_nl b); [discriminate|].
    destruct (eqb z nl) eqn:Z0; [discriminate|]. cbn [PosBase.count_nl]. rewrite Z0.
    rewrite IHb; reflexivity.
Qed.

Lemma rindex_nl_none b : rindex_nl b = None -> count_nl b = 0.
Proof.
  induction b as [|z b IHb]; [reflexivity|].
  cbn [PosBase.rindex_nl]. destruct (rindex_nl b); [discriminate|].
  destruct (eqb z nl) eqn:Z0; [discriminate|]. intros _. cbn [PosBase.count_nl]. rewrite Z0.
  rewrite IHb; reflexivity.
Qed.

Lemma rindex_tail b : count_nl b <> 0 ->
  exists i, rindex_nl b = Some i /\ i < length b /\ tail_len b = length b - (i + 1).
Proof.
  intros H. destruct (rindex_nl b) as [i|] eqn:E.
  - exists i. destruct (rindex_nl_split b i E) as (b1 & x & b2 & -> & L & X & C).
    split; [reflexivity|]. rewrite app_length. cbn [length]. split; [lia|].
    replace (b1 ++ x :: b2) with ((b1 ++ [x]) ++ b2) by (rewrite <- app_assoc; reflexivity).
    rewrite tail_len_app, C. cbn [Nat.eqb].
    rewrite tail_len_app. cbn [PosBase.count_nl]. rewrite X. cbn [Nat.add Nat.eqb].
    unfold Coord.tail_len at 1. cbn [rev app Coord.prefix_nonl]. rewrite X. cbn [length]. lia.
  - apply rindex_nl_none in E. contradiction.
Qed.

Lemma firstn_plus_split (T : list A) p n :
  firstn (p + n) T = firstn p T ++ firstn n (skipn p T).
Proof.
  revert T; induction p as [|p IH]; intros T; [reflexivity|].
  destruct T as [|x T]; cbn [Nat.add firstn skipn app].
  - rewrite firstn_nil. reflexivity.
  - rewrite IH. reflexivity.
Qed.

(* prefix form of the invariant *)
Definition at_end (pre : list A) (c : counter) : Prop :=
  char_pos c = Z.of_nat (length pre) /\ line c = Z.of_nat (1 + count_nl pre) /\
  column c = Z.of_nat (1 + tail_len pre) /\
  line_start_pos c = (Z.of_nat (length pre) - Z.of_nat (tail_len pre))%Z.

Lemma at_coord_at_end T p c : p <= length T -> (at_coord eqb nl T p c <-> at_end (firstn p T) c).
Proof.
  intros H. unfold at_coord, at_end, line_of, col_of, line_start_of.
  rewrite firstn_length_le by exact H. tauto.
Qed.

Lemma feed_at_end pre tok c tn :
  at_end pre c -> (tn = true \/ count_nl tok = 0) ->
  at_end (pre ++ tok) (feed eqb nl c tok tn).
Proof.
  intros (Hp & Hl & Hc & Hs) Htn.
  pose proof (tail_len_le pre) as Hle.
  unfold at_end, feed.
  rewrite app_length, count_nl_app, tail_len_app.
  destruct (Nat.eqb (count_nl tok) 0) eqn:E.
  - apply Nat.eqb_eq in E. rewrite E.
    assert (X : (if tn then
                   if negb (Z.eqb (Z.of_nat 0) 0) then
                     set_line_start_pos (set_line c (Z.add (line c) (Z.of_nat 0)))
                       (Z.add (Z.add (char_pos (set_line c (Z.add (line c) (Z.of_nat 0)))) (rindex_z eqb nl tok)) 1%Z)
                   else c
                 else c) = c) by (destruct tn; reflexivity).
    rewrite X. destruct c as [cp ln col lsp]. cbn in *. subst. repeat split; lia.
  - apply Nat.eqb_neq in E. destruct Htn as [-> | Hn]; [|contradiction].
    destruct (rindex_tail tok E) as (i & Hi & Hlt & Ht).
    assert (Z.eqb (Z.of_nat (count_nl tok)) 0 = false) as -> by (apply Z.eqb_neq; lia).
    unfold rindex_z. rewrite Hi. destruct c as [cp ln col lsp]. cbn in *. subst.
    repeat split; lia.
Qed.

Theorem feed_tracks_coord T p n c tn :
  p + n <= length T -> at_coord eqb nl T p c ->
  (tn = true \/ has_no_newline eqb nl (firstn n (skipn p T))) ->
  at_coord eqb nl T (p + n) (feed eqb nl c (firstn n (skipn p T)) tn).
Proof.
  intros H Hc Htn. apply at_coord_at_end; [exact H|]. rewrite firstn_plus_split.
  apply feed_at_end; [|exact Htn]. apply at_coord_at_end; [lia|exact Hc].
Qed.

(* feed advances char_pos by the token length whatever test_newline is *)
Lemma feed_char_pos c tok tn : char_pos (feed eqb nl c tok tn) = (char_pos c + Z.of_nat (length tok))%Z.
Proof.
  unfold feed. destruct tn; [destruct (negb (Z.eqb (Z.of_nat (count_nl tok)) 0))|]; reflexivity.
Qed.

Lemma slice_nat (T : list A) p q : slice T (Z.of_nat p) (Z.of_nat q) = firstn (q - p) (skipn p T).
Proof.
  unfold slice. rewrite Nat2Z.id. f_equal. lia.
Qed.

Lemma advance_to_at_end T p q c :
  p <= q -> q <= length T -> at_end (firstn p T) c -> at_end (firstn q T) (advance_to eqb nl c T (Z.of_nat q)).
Proof.
  intros Hpq Hq Hc.
  assert (Hp : p <= length T) by lia.
  replace q with (p + (q - p)) at 1 by lia. rewrite firstn_plus_split.
  set (tok := firstn (q - p) (skipn p T)).
  assert (Hlen : length tok = q - p).
  { unfold tok. rewrite firstn_length_le; [reflexivity|]. rewrite skipn_length. lia. }
  destruct Hc as (Hcp & Hl & Hcl & Hs).
  rewrite firstn_length_le in Hcp, Hs by exact Hp.
  pose proof (tail_len_le (firstn p T)) as Hle. rewrite firstn_length_le in Hle by exact Hp.
  unfold at_end, advance_to, count_range, rindex_range.
  rewrite Hcp, slice_nat. fold tok.
  rewrite app_length, count_nl_app, tail_len_app, firstn_length_le by exact Hp. rewrite Hlen.
  destruct (Nat.eqb (count_nl tok) 0) eqn:E.
  - apply Nat.eqb_eq in E. rewrite E. cbn [Z.of_nat Z.eqb negb].
    destruct c as [cp ln col lsp]. cbn in *. subst. repeat split; lia.
  - apply Nat.eqb_neq in E.
    destruct (rindex_tail tok E) as (i & Hi & Hlt & Ht).
    assert (Z.eqb (Z.of_nat (count_nl tok)) 0 = false) as -> by (apply Z.eqb_neq; lia).
    cbn [negb]. unfold rindex_z.
    destruct c as [cp ln col lsp]. cbn in *. subst. rewrite slice_nat. fold tok. rewrite Hi.
    repeat split; lia.
Qed.

Theorem advance_to_tracks_coord T p q c :
  p <= q -> q <= length T -> at_coord eqb nl T p c ->
  at_coord eqb nl T q (advance_to eqb nl c T (Z.of_nat q)).
Proof.
  intros Hpq Hq Hc. apply at_coord_at_end; [exact Hq|].
  apply advance_to_at_end with (p := p); auto. apply at_coord_at_end; [lia|exact Hc].
Qed.

Lemma lc_init_at_coord T : at_coord eqb nl T 0 lc_init.
Proof. unfold at_coord, lc_init, line_of, col_of, line_start_of. cbn. repeat split. Qed.

(* both branches of from_text_slice: a plain TextSlice (count the prefix once) and a slice
   carrying a snapshot (line, line_start_pos) that is exact for its start *)
Theorem from_text_slice_coord T a snap :
  a <= length T ->
  (snap = None \/ snap = Some (line_of eqb nl T a, line_start_of eqb nl T a)) ->
  at_coord eqb nl T a (from_text_slice eqb nl T (Z.of_nat a) snap).
Proof.
  intros Ha [-> | ->]; unfold from_text_slice.
  - destruct (Z.gtb (Z.of_nat a) 0) eqn:E.
    + apply advance_to_tracks_coord with (p := 0); [lia|exact Ha|apply lc_init_at_coord].
    + assert (a = 0) as -> by lia. apply lc_init_at_coord.
  - pose proof (tail_len_le (firstn a T)) as Hle. rewrite firstn_length_le in Hle by exact Ha.
    unfold at_coord, line_of, col_of, line_start_of in *. cbn. repeat split; lia.
Qed.

(* necessity of the side condition of feed: with test_newline = false a token containing a
   newline leaves the counter on the old line *)
Lemma feed_false_keeps_line c tok : line (feed eqb nl c tok false) = line c.
Proof. reflexivity. Qed.

(* coord, read character by character *)
Lemma coord_step T p x :
  nth_error T p = Some x ->
  coord eqb nl T (S p) =
    if eqb x nl then ((line_of eqb nl T p + 1)%Z, 1%Z) else (line_of eqb nl T p, (col_of eqb nl T p + 1)%Z).
Proof.
  intros Hx. assert (Hp : p < length T) by (apply nth_error_Some; congruence).
  assert (E : firstn (S p) T = firstn p T ++ [x]).
  { replace (S p) with (p + 1) by lia. rewrite firstn_plus_split. f_equal.
    clear Hp. revert T Hx. induction p as [|p IH]; intros [|y T] Hx; try discriminate.
    - cbn in Hx. injection Hx as ->. reflexivity.
    - cbn [nth_error] in Hx. cbn [skipn]. apply IH, Hx. }
  unfold coord, line_of, col_of. rewrite E, count_nl_app, tail_len_app. cbn [PosBase.count_nl length].
  destruct (eqb x nl) eqn:X; cbn [Nat.add Nat.eqb].
  - unfold Coord.tail_len. cbn [rev app Coord.prefix_nonl]. rewrite X. cbn [length]. f_equal; lia.
  - f_equal; lia.
Qed.

End Proofs.
