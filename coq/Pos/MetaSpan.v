(* Executable model of parse_tree_builder.PropagatePositions (C06, tree half).  No proofs here.

   A rule callback receives the *unfiltered* children (tokens, results of sub-rules, None) and the
   result [res] of the inner node builder (ChildFilter + ExpandSingleChild): either a fresh Tree
   (empty meta) or - for an inlined [?rule] - one of the children, returned unchanged. *)
From Coq Require Import ZArith List Bool.
Import ListNotations.

Definition trip := (Z * Z * Z)%type.          (* start_pos, line, column  /  end_pos, end_line, end_column *)

(* Tree.meta: own start / end fields, container_* start / end fields (each group set together) *)
Record meta := mkMeta { m_start : option trip; m_end : option trip; m_cstart : option trip; m_cend : option trip }.
Definition empty_meta := mkMeta None None None None.
(* meta.empty stays True until a start or an end group is written *)
Definition m_empty (m : meta) : bool :=
  match m_start m, m_end m with None, None => true | _, _ => false end.

(* a child as PropagatePositions sees it *)
Inductive shaped := SHTok (s e : trip) | SHTree (m : meta) | SHNone.

Definition or_else {X} (a b : option X) : option X := match a with Some _ => a | None => b end.

(* one iteration of _pp_get_meta: what the child offers as position source *)
Definition view (c : shaped) : option meta :=
  match c with
  | SHTok s e => Some (mkMeta (Some s) (Some e) None None)
  | SHTree m => if m_empty m then None else Some m
  | SHNone => None
  end.

Fixpoint first_view (l : list shaped) : option meta :=
  match l with
  | [] => None
  | c :: r => match view c with Some m => Some m | None => first_view r end
  end.

(* PropagatePositions.__call__ on a Tree result with meta [res] *)
Definition propagate (res : meta) (children : list shaped) : meta :=
  let res :=
    match first_view children with
    | Some f => let s := or_else (m_cstart f) (m_start f) in
                mkMeta (or_else (m_start res) s) (m_end res) s (m_cend res)
    | None => res
    end in
  match first_view (rev children) with
  | Some l => let e := or_else (m_cend l) (m_end l) in
              mkMeta (m_start res) (or_else (m_end res) e) (m_cstart res) e
  | None => res
  end.

(* what the harness observed as result of a callback *)
Inductive obs := OTree (m : meta) | OTok (se : trip * trip) | OOther.

(* the callbacks of one parse, as a tree: [PNode sel o cs] is a rule whose unfiltered children are
   [cs]; sel = Some k when the node builder returned child k itself, None for a fresh Tree; [o] is
   the result observed on the implementation (ignored by the model). PLeaf: a Tree child that no
   recorded callback produced. *)
Inductive ptree :=
| PTok (se : trip * trip)
| PLeaf (m : meta)
| PNone
| PNode (sel : option nat) (o : obs) (cs : list ptree).

Fixpoint build (p : ptree) : shaped :=
  match p with
  | PTok se => SHTok (fst se) (snd se)
  | PLeaf m => SHTree m
  | PNone => SHNone
  | PNode sel _ cs =>
      let ch := map build cs in
      let res := match sel with Some k => nth k ch SHNone | None => SHTree empty_meta end in
      match res with
      | SHTree m => SHTree (propagate m ch)
      | other => other
      end
  end.

(* the tokens a rule matched, in text order *)
Fixpoint toks (p : ptree) : list (trip * trip) :=
  match p with
  | PTok se => [se]
  | PLeaf _ => []
  | PNone => []
  | PNode _ _ cs => flat_map toks cs
  end.

(* ---- comparison with the implementation ---- *)
Definition trip_eqb (a b : trip) : bool :=
  let '(a1, a2, a3) := a in let '(b1, b2, b3) := b in Z.eqb a1 b1 && Z.eqb a2 b2 && Z.eqb a3 b3.
Definition otrip_eqb (a b : option trip) : bool :=
  match a, b with Some x, Some y => trip_eqb x y | None, None => true | _, _ => false end.
Definition meta_eqb (a b : meta) : bool :=
  otrip_eqb (m_start a) (m_start b) && otrip_eqb (m_end a) (m_end b) &&
  otrip_eqb (m_cstart a) (m_cstart b) && otrip_eqb (m_cend a) (m_cend b).

Definition obs_ok (s : shaped) (o : obs) : bool :=
  match o, s with
  | OTree m, SHTree m' => meta_eqb m m'
  | OTok se, SHTok s e => trip_eqb (fst se) s && trip_eqb (snd se) e
  | OOther, _ => true
  | _, _ => false
  end.

Fixpoint check_ptree (p : ptree) : bool :=
  match p with
  | PNode sel o cs => forallb check_ptree cs && obs_ok (build p) o
  | _ => true
  end.
