(* TextSlice index normalisation (C15): the regenerated __post_init__ / cast_from / is_complete_text / __len__. *)
From Coq Require Import ZArith Bool Lia.
From LV Require Import Gen.TextSlice.
Local Open Scope Z_scope.

(* Python's reading of an in-range index i of a sequence of length n *)
Definition py_index (n i : Z) : Z := if i <? 0 then i + n else i.

(* in-range start / end (negative ones counted from the end, None = the end): the window is Python's
   text[start:end], inside the buffer; the length and the completeness test are what they should be *)
Theorem slice_normalisation n s e :
  0 <= n -> - n <= s <= n -> (forall z, e = Some z -> - n <= z <= n) ->
  let s' := py_index n s in
  let e' := match e with None => n | Some z => py_index n z end in
  ts_start n s = Some s' /\ ts_end n e = Some e' /\ 0 <= s' <= n /\ 0 <= e' <= n /\
  ts_len s' e' = e' - s' /\ (ts_complete n s' e' = true <-> s' = 0 /\ e' = n).
Proof.
  intros Hn Hs He s' e'. unfold s', e', ts_start, ts_end, py_index, ts_len, ts_complete.
  destruct e as [z|].
  - specialize (He z eq_refl).
    destruct (s <? 0) eqn:E1; destruct (z <? 0) eqn:E2;
      repeat match goal with
             | |- context [?a >=? ?b] => let E := fresh in destruct (a >=? b) eqn:E
             | |- context [?a <=? ?b] => let E := fresh in destruct (a <=? b) eqn:E
             end;
      rewrite andb_true_iff, !Z.eqb_eq; repeat split; try reflexivity; try lia; try tauto.
  - destruct (s <? 0) eqn:E1;
      repeat match goal with
             | |- context [?a >=? ?b] => let E := fresh in destruct (a >=? b) eqn:E
             end;
      rewrite andb_true_iff, !Z.eqb_eq; repeat split; try reflexivity; try lia; try tauto.
Qed.

(* a plain text is the complete slice *)
Lemma cast_from_complete n : 0 <= n ->
  ts_start n (ts_cast_start n) = Some 0 /\ ts_end n (Some (ts_cast_end n)) = Some n /\ ts_complete n 0 n = true.
Proof.
  intros Hn. unfold ts_start, ts_end, ts_cast_start, ts_cast_end, ts_complete.
  destruct (n <? 0) eqn:E; [apply Z.ltb_lt in E; lia|]. cbn. rewrite Z.eqb_refl. repeat split; reflexivity.
Qed.

(* what __post_init__ does NOT reject (the docstring promises AssertionError for out-of-bounds indices): an end or a
   start beyond the buffer, and a negative end below -len *)
Lemma out_of_range_accepted :
  ts_end 3 (Some 10) = Some 10 /\ ts_start 3 5 = Some 5 /\ ts_end 3 (Some (-5)) = Some (-2) /\ ts_start 3 (-4) = None.
Proof. repeat split; reflexivity. Qed.
