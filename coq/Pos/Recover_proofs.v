(* Forks and on_error recovery keep exact coordinates (C06, round 12); Token position plumbing. *)
From Coq Require Import ZArith List Bool Lia String.
From LV Require Import Pos.PosBase Gen.LineCounter Gen.LexStep Gen.CounterCopy Gen.TokenFields Pos.Coord
  Pos.LineCounter_proofs Pos.LexCoords Pos.LexCoords_proofs Pos.Current Pos.Recover.
Import ListNotations.
Local Open Scope Z_scope.

(* ---- regenerated-file lemmas: they stop compiling when the copy drops a slot, when a slot is added that the
        model does not know, or when the recovery step stops being feed(text[p:p+1]) with newline counting ---- *)
Lemma fork_keeps_counter c : lc_copy c = c.
Proof. destruct c; reflexivity. Qed.

Lemma fork_keeps_newline_char : lc_copy_keeps_newline_char = true.
Proof. reflexivity. Qed.

Lemma slots_modelled : lc_slots = ["char_pos"; "line"; "column"; "line_start_pos"; "newline_char"]%string.
Proof. reflexivity. Qed.

Lemma recover_bounds p : recover_lo p = p /\ recover_hi p = p + 1 /\ recover_test_newline = true.
Proof. repeat split; reflexivity. Qed.

Lemma token_slots_modelled :
  token_slots = ["type"; "start_pos"; "value"; "line"; "column"; "end_line"; "end_column"; "end_pos"]%string.
Proof. reflexivity. Qed.

Section Tok.
Context {A term : Type}.
Lemma borrow_keeps_positions (ty : term) (v : list A) (t : token A term) :
  let b := borrow_pos ty v t in
  t_type b = ty /\ t_value b = v /\ t_start b = t_start t /\ t_line b = t_line t /\ t_column b = t_column t /\
  t_end_line b = t_end_line t /\ t_end_column b = t_end_column t /\ t_end_pos b = t_end_pos t.
Proof. repeat split; reflexivity. Qed.

Lemma update_keeps_positions oty ov (t : token A term) :
  let b := tok_update oty ov t in
  t_start b = t_start t /\ t_line b = t_line t /\ t_column b = t_column t /\
  t_end_line b = t_end_line t /\ t_end_column b = t_end_column t /\ t_end_pos b = t_end_pos t /\
  (oty = None -> t_type b = t_type t) /\ (ov = None -> t_value b = t_value t).
Proof. repeat split; try reflexivity; intros ->; reflexivity. Qed.

Lemma deepcopy_id (t : token A term) : tok_deepcopy t = t.
Proof. destruct t; reflexivity. Qed.
Lemma reduce_id (t : token A term) : tok_reduce t = t.
Proof. destruct t; reflexivity. Qed.
End Tok.

Lemma uc_fields_id p l c : uc_fields p l c = (p, l, c).
Proof. reflexivity. Qed.

Section RecoverCoords.
Context {A : Type} (eqb : A -> A -> bool) (nl : A) {term : Type}.
Variable scan : list term -> list A -> Z -> Z -> option (nat * term).
Variable ignore : term -> bool.
Variable newline_types : term -> bool.

Lemma recover_skip_tracks_coord (T : list A) (p : nat) c :
  (p < List.length T)%nat -> at_coord eqb nl T p c -> at_coord eqb nl T (p + 1) (recover_skip eqb nl T c).
Proof.
  intros Hp Hc. unfold recover_skip. destruct (recover_bounds (char_pos c)) as (-> & -> & ->).
  destruct Hc as (Hcp & Hrest). rewrite Hcp. change 1 with (Z.of_nat 1). rewrite slice_len.
  apply feed_tracks_coord; [lia|split; assumption|left; reflexivity].
Qed.

Definition event_ok (T : list A) (lo hi : nat) (ev : event (A:=A) (term:=term)) : Prop :=
  match ev with
  | EvTok t => tok_ok eqb nl T lo hi t
  | EvErr p l c => outcome_ok eqb nl T lo hi (Unexpected p l c)
  end.

Section Window.
Variable T : list A.
Variable e : nat.
Hypothesis e_le : (e <= List.length T)%nat.
Hypothesis scan_bounded : forall h (p n : nat) ty,
  scan h T (Z.of_nat p) (Z.of_nat e) = Some (n, ty) -> (p + n <= e)%nat.

Lemma event_ok_weaken lo lo' hi ev : (lo <= lo')%nat -> event_ok T lo' hi ev -> event_ok T lo hi ev.
Proof.
  intros H. destruct ev as [t|p l c]; cbn [event_ok outcome_ok].
  - apply tok_ok_weaken. exact H.
  - intros (q & -> & ? & ?). exists q. repeat split; auto; lia.
Qed.

Lemma lex_loop_rec_ok fuel : forall hist (p : nat) c evs ok,
  (p <= e)%nat -> at_coord eqb nl T p c ->
  lex_loop_rec eqb nl scan ignore newline_types fuel hist T (Z.of_nat e) c = (evs, ok) ->
  Forall (event_ok T p e) evs.
Proof.
  induction fuel as [|f IH]; intros hist p c evs ok Hp Hc; cbn [lex_loop_rec].
  - intros [= <- <-]. constructor.
  - unfold lex_step. pose proof Hc as (Hcp & Hln & Hcol & _). rewrite Hcp.
    destruct (h_more (Z.of_nat p) (Z.of_nat e)) eqn:Hm.
    2:{ intros [= <- <-]. constructor. }
    assert (Hlt : (p < e)%nat) by (unfold h_more in Hm; lia).
    destruct (scan hist T (Z.of_nat p) (Z.of_nat e)) as [[n ty]|] eqn:Es.
    2:{ destruct (lex_loop_rec eqb nl scan ignore newline_types f hist T (Z.of_nat e) _) as [evs' ok'] eqn:E.
        intros [= <- <-]. constructor.
        - cbn [event_ok outcome_ok]. exists p. split; [exact Hcp|]. split; [lia|]. unfold coord. congruence.
        - assert (Hc' : at_coord eqb nl T (p + 1) (recover_skip eqb nl T c)) by (apply recover_skip_tracks_coord; [lia|exact Hc]).
          eapply Forall_impl; [|exact (IH hist (p + 1)%nat _ evs' ok' ltac:(lia) Hc' E)].
          intros ev. apply event_ok_weaken. lia. }
    pose proof (scan_bounded _ _ _ _ Es) as Hb.
    rewrite slice_len.
    set (value := firstn n (skipn p T)).
    assert (Hc' : at_coord eqb nl T (p + n) (feed eqb nl c value (h_testnl newline_types ty))).
    { apply feed_tracks_coord; [lia|exact Hc|]. left. apply h_testnl_true. }
    set (c' := feed eqb nl c value (h_testnl newline_types ty)) in *. clearbody c'.
    destruct (ignore ty).
    + intros E. eapply Forall_impl; [|exact (IH hist (p + n)%nat _ evs ok ltac:(lia) Hc' E)].
      intros ev. apply event_ok_weaken. lia.
    + destruct (lex_loop_rec eqb nl scan ignore newline_types f _ T (Z.of_nat e) _) as [evs' ok'] eqn:E.
      intros [= <- <-].
      pose proof (IH _ (p + n)%nat _ evs' ok' ltac:(lia) Hc' E) as F.
      destruct Hc' as (Hcp' & Hln' & Hcol' & _).
      constructor.
      * cbn [event_ok]. exists p, n. cbn [t_start t_value t_line t_column t_end_line t_end_column t_end_pos].
        rewrite Hcp'. repeat split; try lia; try reflexivity.
        -- apply window_length. lia.
        -- unfold coord. congruence.
        -- unfold coord. congruence.
      * eapply Forall_impl; [|exact F]. intros ev. apply event_ok_weaken. lia.
Qed.

(* on_error recovery: every token lexed after any number of skipped characters - newlines included - and every
   reported error position carry exact coordinates *)
Theorem lexer_coords_recovering (a : nat) snap evs ok :
  (a <= e)%nat ->
  (snap = None \/ snap = Some (line_of eqb nl T a, line_start_of eqb nl T a)) ->
  lex_slice_rec eqb nl scan ignore newline_types T (Z.of_nat a) (Z.of_nat e) snap = (evs, ok) ->
  Forall (event_ok T a e) evs.
Proof.
  intros Ha Hs. unfold lex_slice_rec. apply lex_loop_rec_ok; [exact Ha|].
  apply from_text_slice_coord; [lia|exact Hs].
Qed.

(* fork: the copy of a counter standing at exact coordinates lexes tokens with exact coordinates *)
Theorem lexer_coords_fork fuel hist (p : nat) c ts o :
  (p <= e)%nat -> at_coord eqb nl T p c ->
  lex_fork eqb nl scan ignore newline_types fuel hist T (Z.of_nat e) c = (ts, o) ->
  Forall (tok_ok eqb nl T p e) ts /\ chain (Z.of_nat p) ts /\ outcome_ok eqb nl T p e o.
Proof.
  intros Hp Hc. unfold lex_fork. rewrite fork_keeps_counter.
  apply (lex_loop_ok eqb nl scan ignore newline_types T e e_le scan_bounded); auto.
  intros h q n ty _ Hf. rewrite h_testnl_true in Hf. discriminate.
Qed.

End Window.
End RecoverCoords.
