(* Executable model of the routes that touch a LineCounter outside next_token (C06, round 12).  No proofs.
   * fork: LexerState.__copy__ copies the counter (Gen/CounterCopy.lc_copy) and the fork lexes on from there
   * on_error recovery of LALR_Parser.parse: an accepted UnexpectedCharacters is stepped over by
     line_ctr.feed(text[lo:hi], test_newline) (regenerated bounds) and lexing resumes in the same parser state *)
From Coq Require Import ZArith List Bool.
From LV Require Import Pos.PosBase Gen.LineCounter Gen.LexStep Gen.CounterCopy Pos.Coord Pos.LexCoords.
Import ListNotations.
Local Open Scope Z_scope.

Section Recover.
Context {A : Type} (eqb : A -> A -> bool) (nl : A) {term : Type}.
Variable scan : list term -> list A -> Z -> Z -> option (nat * term).
Variable ignore : term -> bool.
Variable newline_types : term -> bool.

Definition recover_skip (T : list A) (c : counter) : counter :=
  feed eqb nl c (slice T (recover_lo (char_pos c)) (recover_hi (char_pos c))) recover_test_newline.

(* what the lexer produced, in order: tokens and the UnexpectedCharacters errors the handler accepted *)
Inductive event := EvTok (t : token A term) | EvErr (pos line col : Z).

(* Lark.parse(text, on_error=h) with h accepting every UnexpectedCharacters without moving the lexer, as seen
   from the lexer: the parser state - hence [hist] - is unchanged by a lexer error *)
Fixpoint lex_loop_rec (fuel : nat) (hist : list term) (T : list A) (e : Z) (c : counter) : list event * bool :=
  match fuel with
  | O => ([], false)
  | S f =>
      match lex_step eqb nl scan ignore newline_types hist T e c with
      | SEof => ([], true)
      | SErr c0 =>
          let '(evs, ok) := lex_loop_rec f hist T e (recover_skip T c0) in
          (EvErr (char_pos c0) (line c0) (column c0) :: evs, ok)
      | SSkip c' => lex_loop_rec f hist T e c'
      | STok t c' => let '(evs, ok) := lex_loop_rec f (t_type t :: hist) T e c' in (EvTok t :: evs, ok)
      end
  end.

Definition lex_slice_rec (T : list A) (a e : Z) (snap : option (Z * Z)) : list event * bool :=
  lex_loop_rec (S (Z.to_nat (e - a))) [] T e (from_text_slice eqb nl T a snap).

(* a fork taken when the counter was [c]: the copy lexes on with its own counter *)
Definition lex_fork (fuel : nat) (hist : list term) (T : list A) (e : Z) (c : counter) :=
  lex_loop eqb nl scan ignore newline_types fuel hist T e (lc_copy c).

End Recover.
Arguments EvTok {A term}. Arguments EvErr {A term}.
