(* Comparison functions used by the generated correspondence cases of C06 / C15 (no proofs).
   Text is ASCII/latin-1: characters are [ascii], the newline is "010". *)
From Coq Require Import ZArith List Bool String Ascii.
From LV Require Import Pos.PosBase Gen.LineCounter Gen.LexStep Gen.DynStep Pos.Coord Pos.LexCoords Pos.MetaSpan.
Import ListNotations.
Local Open Scope Z_scope.

Definition anl : ascii := "010"%char.

(* The harness writes texts as flat string literals in which every non-printable character and the
   backslash are spelled as a backslash followed by three decimal digits. *)
Definition digit (c : ascii) : nat := nat_of_ascii c - 48.
Fixpoint unesc (s : string) : list ascii :=
  match s with
  | EmptyString => []
  | String c r =>
      if Ascii.eqb c "\"%char then
        match r with
        | String a (String b (String d r')) =>
            ascii_of_nat (100 * digit a + 10 * digit b + digit d) :: unesc r'
        | _ => []
        end
      else c :: unesc r
  end.
Definition txt (s : string) : list ascii := unesc s.

Fixpoint la_eqb (a b : list ascii) : bool :=
  match a, b with
  | [], [] => true
  | x :: a', y :: b' => Ascii.eqb x y && la_eqb a' b'
  | _, _ => false
  end.

(* The case types below are records / constructors rather than tuples: the generated case files
   are then elaborated against known argument types (tuples make Coq infer two implicit types per
   pair, which made a 40 KB case file take 15 s). *)

(* ---- 1. LineCounter traces: the calls lark made on one counter object, with the state observed
        after each call ------------------------------------------------------------------------ *)
Inductive cobs := Obs (char_pos line column line_start_pos : Z).
Definition obs_eqb (c : counter) (o : cobs) : bool :=
  let '(Obs cp ln col lsp) := o in counter_eqb c (mkLC cp ln col lsp).

Inductive op :=
| OpFeed (tok : string) (test_newline : bool) (after : cobs)
| OpAdvance (pos : Z) (after : cobs).

Fixpoint run_ops (T : list ascii) (c : counter) (l : list op) : bool :=
  match l with
  | [] => true
  | OpFeed tok tn ob :: r => let c' := feed Ascii.eqb anl c (txt tok) tn in obs_eqb c' ob && run_ops T c' r
  | OpAdvance pos ob :: r => let c' := advance_to Ascii.eqb anl c T pos in obs_eqb c' ob && run_ops T c' r
  end.

Inductive snapshot := NoSnap | Snap (line line_start_pos : Z).
Definition snap_opt (s : snapshot) : option (Z * Z) :=
  match s with NoSnap => None | Snap l p => Some (l, p) end.

(* text, start, snapshot, state after from_text_slice, later calls *)
Inductive trace_case := TraceCase (text : string) (start : Z) (snap : snapshot) (init : cobs) (ops : list op).

Definition check_trace (c : trace_case) : bool :=
  let '(TraceCase text start snap ob0 ops) := c in
  let T := txt text in
  let c0 := from_text_slice Ascii.eqb anl T start (snap_opt snap) in
  obs_eqb c0 ob0 && run_ops T c0 ops.

(* ---- 2. token streams of the basic / contextual family --------------------------------------- *)
Inductive tokobs := TokObs (type value : string) (start_pos line column end_line end_column end_pos : Z).

Definition tok_eqb (t : token ascii string) (o : tokobs) : bool :=
  let '(TokObs ty v s ln col eln ecol e) := o in
  String.eqb (t_type t) ty && la_eqb (t_value t) (txt v) && Z.eqb (t_start t) s && Z.eqb (t_line t) ln
  && Z.eqb (t_column t) col && Z.eqb (t_end_line t) eln && Z.eqb (t_end_column t) ecol && Z.eqb (t_end_pos t) e.

Fixpoint toks_eqb (a : list (token ascii string)) (b : list tokobs) : bool :=
  match a, b with
  | [], [] => true
  | x :: a', y :: b' => tok_eqb x y && toks_eqb a' b'
  | _, _ => false
  end.

Fixpoint mem_str (x : string) (l : list string) : bool :=
  match l with [] => false | y :: r => String.eqb x y || mem_str x r end.

(* one answer of the regex engine: at [pos] the alternation matched [len] characters as [type] *)
Inductive entry := Entry (pos : Z) (len : nat) (type : string).
Fixpoint lookup (k : Z) (l : list entry) : option (nat * string) :=
  match l with
  | [] => None
  | Entry k' n ty :: r => if Z.eqb k k' then Some (n, ty) else lookup k r
  end.

(* text, window [a,e), snapshot, ignore_types, newline_types, the matches the regex engine returned,
   observed tokens, observed end: 0 = EOF, 1 = UnexpectedCharacters at (pos, line, column),
   2 = the run was stopped from outside (parser error): outcome not compared *)
Inductive lex_case :=
  LexCase (text : string) (a e : Z) (snap : snapshot) (ignore newline_types : list string)
          (table : list entry) (toks : list tokobs) (code epos eline ecol : Z).

Definition check_lex (c : lex_case) : bool :=
  let '(LexCase text a e snap ign nlt table toks code ep eln ecol) := c in
  let '(ts, o) := lex_slice Ascii.eqb anl (fun _ _ p _ => lookup p table)
                            (fun ty => mem_str ty ign) (fun ty => mem_str ty nlt) (txt text) a e (snap_opt snap) in
  toks_eqb ts toks &&
  match code, o with
  | 0, Done => true
  | 1, Unexpected p l cl => Z.eqb p ep && Z.eqb l eln && Z.eqb cl ecol
  | 2, _ => true
  | _, _ => false
  end.

(* ---- 3. tokens of the dynamic family ----------------------------------------------------------- *)
Inductive dyn_case := DynCase (text : string) (is_bytes : bool) (toks : list tokobs).

Definition check_dyn (c : dyn_case) : bool :=
  let '(DynCase text is_bytes toks) := c in
  let T := txt text in
  let isnl := if is_bytes then isnl_bytes Ascii.eqb anl else isnl_str Ascii.eqb anl in
  forallb (fun o : tokobs =>
             let '(TokObs ty v s ln col eln ecol e) := o in
             Z.ltb s e && tok_eqb (dyn_token isnl ty T (Z.to_nat s) (Z.to_nat e)) o) toks.

(* ---- 4. PropagatePositions callbacks: constructors for the generated ptree terms ---------------- *)
Definition T3 (a b c : Z) : trip := (a, b, c).
Definition SE (s e : trip) : trip * trip := (s, e).
