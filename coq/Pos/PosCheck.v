(* Comparison functions used by the generated correspondence cases of C06 / C15 (no proofs).
   Text is ASCII/latin-1: characters are [ascii], the newline is "010". *)
From Coq Require Import ZArith List Bool String Ascii.
From LV Require Import Pos.PosBase Gen.LineCounter Gen.LexStep Gen.DynStep Pos.Coord Pos.LexCoords Pos.Current.
Import ListNotations.
Local Open Scope Z_scope.

Definition anl : ascii := "010"%char.
Definition txt (s : string) : list ascii := list_ascii_of_string s.

Fixpoint la_eqb (a b : list ascii) : bool :=
  match a, b with
  | [], [] => true
  | x :: a', y :: b' => Ascii.eqb x y && la_eqb a' b'
  | _, _ => false
  end.

(* ---- 1. LineCounter traces: the calls lark made on one counter object, with the state observed
        after each call ------------------------------------------------------------------------ *)
Definition cobs := (Z * Z * Z * Z)%type.     (* char_pos, line, column, line_start_pos *)
Definition obs_eqb (c : counter) (o : cobs) : bool :=
  let '(cp, ln, col, lsp) := o in counter_eqb c (mkLC cp ln col lsp).

Inductive op := OpFeed (tok : string) (test_newline : bool) | OpAdvance (pos : Z).

Fixpoint run_ops (T : list ascii) (c : counter) (l : list (op * cobs)) : bool :=
  match l with
  | [] => true
  | (o, ob) :: r =>
      let c' := match o with
                | OpFeed tok tn => feed Ascii.eqb anl c (txt tok) tn
                | OpAdvance pos => advance_to Ascii.eqb anl c T pos
                end in
      obs_eqb c' ob && run_ops T c' r
  end.

(* text, start, snapshot, state after from_text_slice, later calls *)
Definition trace_case := (string * Z * option (Z * Z) * cobs * list (op * cobs))%type.

Definition check_trace (c : trace_case) : bool :=
  let '(text, start, snap, ob0, ops) := c in
  let T := txt text in
  let c0 := from_text_slice Ascii.eqb anl T start snap in
  obs_eqb c0 ob0 && run_ops T c0 ops.

(* ---- 2. token streams of the basic / contextual family --------------------------------------- *)
(* type, value, start_pos, line, column, end_line, end_column, end_pos *)
Definition tokobs := (string * string * Z * Z * Z * Z * Z * Z)%type.

Definition tok_eqb (t : token ascii string) (o : tokobs) : bool :=
  let '(ty, v, s, ln, col, eln, ecol, e) := o in
  String.eqb (t_type t) ty && la_eqb (t_value t) (txt v) && Z.eqb (t_start t) s && Z.eqb (t_line t) ln
  && Z.eqb (t_column t) col && Z.eqb (t_end_line t) eln && Z.eqb (t_end_column t) ecol && Z.eqb (t_end_pos t) e.

Fixpoint toks_eqb (a : list (token ascii string)) (b : list tokobs) : bool :=
  match a, b with
  | [], [] => true
  | x :: a', y :: b' => tok_eqb x y && toks_eqb a' b'
  | _, _ => false
  end.

Fixpoint mem_str (x : string) (l : list string) : bool :=
  match l with [] => false | y :: r => String.eqb x y || mem_str x r end.

Fixpoint assocZ {V} (k : Z) (l : list (Z * V)) : option V :=
  match l with [] => None | (k', v) :: r => if Z.eqb k k' then Some v else assocZ k r end.

(* text, window [a,e), snapshot, ignore_types, newline_types, the matches the regex engine returned
   (position -> length, type), observed tokens, observed end: 0 = EOF, 1 = UnexpectedCharacters at
   (pos, line, column), 2 = the run was stopped from outside (parser error): outcome not compared *)
Definition lex_case :=
  (string * Z * Z * option (Z * Z) * list string * list string * list (Z * (nat * string))
   * list tokobs * Z * (Z * Z * Z))%type.

Definition check_lex (c : lex_case) : bool :=
  let '(text, a, e, snap, ign, nlt, table, toks, code, (ep, eln, ecol)) := c in
  let '(ts, o) := lex_slice Ascii.eqb anl (fun _ _ p _ => assocZ p table)
                            (fun ty => mem_str ty ign) (fun ty => mem_str ty nlt) (txt text) a e snap in
  toks_eqb ts toks &&
  match code, o with
  | 0, Done => true
  | 1, Unexpected p l cl => Z.eqb p ep && Z.eqb l eln && Z.eqb cl ecol
  | 2, _ => true
  | _, _ => false
  end.

(* ---- 3. tokens of the dynamic family ----------------------------------------------------------- *)
Definition check_dyn (c : string * bool * list tokobs) : bool :=
  let '(text, is_bytes, toks) := c in
  let T := txt text in
  let isnl := if is_bytes then isnl_bytes Ascii.eqb anl else isnl_str Ascii.eqb anl in
  forallb (fun o : tokobs =>
             let '(ty, v, s, ln, col, eln, ecol, e) := o in
             Z.ltb s e && tok_eqb (dyn_token isnl ty T (Z.to_nat s) (Z.to_nat e)) o) toks.
