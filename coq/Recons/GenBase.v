(* C19: vocabulary of the regenerated conditions (Gen/ReconsHoles.v, written by translator/gen_recons.py).
   Definitions only. *)
From Coq Require Import List Bool String Ascii Arith.
From LV Require Import Base.Prelude.
Import ListNotations.

(* truthiness of a str *)
Definition nonempty (s : string) : bool := match s with EmptyString => false | String _ _ => true end.

(* is_id_continue(s[0]) / is_id_continue(s[-1]); evaluated only behind the truthiness test of s *)
Definition idc_first (idc : ascii -> bool) (s : string) : bool :=
  match s with String c _ => idc c | EmptyString => false end.
Fixpoint idc_last (idc : ascii -> bool) (s : string) : bool :=
  match s with
  | EmptyString => false
  | String c EmptyString => idc c
  | String _ r => idc_last idc r
  end.

(* unicodedata.category on the ASCII range (compared with Python's unicodedata on every run); "??" outside *)
Definition ascii_cat_table : list (nat * nat * string) :=
  [(0, 31, "Cc"); (32, 32, "Zs"); (33, 35, "Po"); (36, 36, "Sc"); (37, 39, "Po"); (40, 40, "Ps"); (41, 41, "Pe");
   (42, 42, "Po"); (43, 43, "Sm"); (44, 44, "Po"); (45, 45, "Pd"); (46, 47, "Po"); (48, 57, "Nd"); (58, 59, "Po");
   (60, 62, "Sm"); (63, 64, "Po"); (65, 90, "Lu"); (91, 91, "Ps"); (92, 92, "Po"); (93, 93, "Pe"); (94, 94, "Sk");
   (95, 95, "Pc"); (96, 96, "Sk"); (97, 122, "Ll"); (123, 123, "Ps"); (124, 124, "Sm"); (125, 125, "Pe");
   (126, 126, "Sm"); (127, 127, "Cc")]%string.

Definition ascii_cat (c : ascii) : string :=
  let n := nat_of_ascii c in
  match find (fun e => Nat.leb (fst (fst e)) n && Nat.leb n (snd (fst e))) ascii_cat_table with
  | Some e => snd e
  | None => "??"%string
  end.

(* _test_unicode_category on one character: s == '_' or unicodedata.category(s) in categories *)
Definition idc_of_cats (cats : list string) (c : ascii) : bool :=
  Ascii.eqb c "_"%char || mem_string (ascii_cat c) cats.
