(* C19, character level: the written tokens joined by Reconstructor.reconstruct, re-lexed by the model of lark's
   BasicLexer (Lex/Lexer.v, regex engine = oracle m as in C07).  Definitions only.
   - term_subs of WriteTokensTransformer: `v = self.term_subs[sym.name](sym)` is tried first, the terminal's string
     literal on KeyError: an override of the literal lookup (lit_subs).
   - lex_model: BasicLexer.lex on a text, as (terminal index, text) pairs (the token type is looked up in the case's
     name table); None if the lexer stops before the end of the text.
   - bc_b: the boundary condition under which the joined text lexes back to the written tokens: at the start of every
     written token the scanner picks a terminal reported under that token's type with exactly the token's length,
     and every blank the spacing rule inserted is scanned as one ignored terminal of length 1. *)
From Coq Require Import ZArith String Ascii List Arith Bool.
From LV Require Import Base.Prelude Lex.LexerBase Lex.Lexer Recons.Recons.
Import ListNotations.

(* WriteTokensTransformer.term_subs: name -> replacement text (the callable applied to the symbol) *)
Definition lit_subs (subs lit : nat -> option string) (n : nat) : option string :=
  match subs n with Some v => Some v | None => lit n end.

Fixpoint name_index (names : list string) (s : string) : option nat :=
  match names with
  | [] => None
  | x :: r => if String.eqb s x then Some 0 else option_map S (name_index r s)
  end.

Definition onat_eqb (a b : option nat) : bool :=
  match a, b with Some x, Some y => Nat.eqb x y | None, None => true | _, _ => false end.

Section Relex.
  Variable m : term -> string -> nat -> option nat.
  Variable cok : list term -> bool.
  Variable names : list string.

  Fixpoint conv_toks (text : string) (ts : list tok) : option (list (nat * string)) :=
    match ts with
    | [] => Some []
    | t :: r => match name_index names (ktype t), conv_toks text r with
                | Some n, Some l => Some ((n, substring (kstart t) (klen t) text) :: l)
                | _, _ => None
                end
    end.

  Definition lex_with (L : blexer) (text : string) : option (list (nat * string)) :=
    match lex_from lower m text L 0 with
    | (ts, AtEOF) => conv_toks text ts
    | _ => None
    end.

  Definition lex_model (terms : list term) (ign : list string) (text : string) : option (list (nat * string)) :=
    match make_lexer m cok terms ign with
    | Some L => lex_with L text
    | None => None
    end.

  Fixpoint bc_b (L : blexer) (text : string) (p : nat) (prev : string) (toks : list (nat * string)) : bool :=
    match toks with
    | [] => true
    | (n, x) :: rest =>
        let sp := need_space prev x in
        (if sp then match scan m text (lx_mres L) p with
                    | Some (tb, 1) => mem_string (tname tb) (lx_ign L)
                    | _ => false
                    end
         else true)
        && (let q := if sp then S p else p in
            match scan m text (lx_mres L) q with
            | Some (t, k) => Nat.eqb k (String.length x) && negb (Nat.eqb k 0)
                             && negb (mem_string (tname t) (lx_ign L))
                             && onat_eqb (name_index names (report lower m (lx_terms L) t x)) (Some n)
            | None => false
            end
            && bc_b L text (q + String.length x) x rest)
    end.
End Relex.

(* what the spacing rule writes: the separator before each item, then the item *)
Fixpoint pieces (prev : string) (items : list string) : list string :=
  match items with
  | [] => []
  | it :: rest => (if need_space prev it then " "%string else EmptyString) :: it :: pieces it rest
  end.

Fixpoint strip_sp (s : string) : string :=
  match s with
  | EmptyString => EmptyString
  | String c r => if Ascii.eqb c " "%char then strip_sp r else String c (strip_sp r)
  end.
