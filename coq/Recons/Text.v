(* C19, text level: a model of the basic lexer restricted to string-literal terminals (longest literal first,
   as lark's sort key (-priority, -max_width, -len(value), name) orders them; single ignored characters),
   used to state and refute H_relex.  Definitions only. *)
From Coq Require Import String Ascii List Arith Bool.
From LV Require Import Base.Prelude Recons.Recons.
Import ListNotations.

(* rest of s after the prefix p *)
Fixpoint strip_prefix (p s : string) : option string :=
  match p with
  | EmptyString => Some s
  | String a p' => match s with
                   | String b s' => if Ascii.eqb a b then strip_prefix p' s' else None
                   | EmptyString => None
                   end
  end.

(* the longest literal of the table that is a prefix of s (first in table order among equal lengths;
   two different literals of the same length never both match) *)
Fixpoint best_prefix (tbl : list (nat * string)) (s : string) : option (nat * string * string) :=
  match tbl with
  | [] => None
  | (n, v) :: r =>
      let here := match v with
                  | EmptyString => None
                  | _ => match strip_prefix v s with Some rest => Some (n, v, rest) | None => None end
                  end in
      match here, best_prefix r s with
      | Some (n1, v1, r1), Some (n2, v2, r2) =>
          if Nat.ltb (String.length v1) (String.length v2) then Some (n2, v2, r2) else Some (n1, v1, r1)
      | Some x, None => Some x
      | None, y => y
      end
  end.

Fixpoint minilex_go (tbl : list (nat * string)) (ign : ascii -> bool) (fuel : nat) (s : string)
  : option (list (nat * string)) :=
  match fuel with
  | O => None
  | S f =>
      match s with
      | EmptyString => Some []
      | String c r =>
          if ign c then minilex_go tbl ign f r
          else match best_prefix tbl s with
               | None => None                                   (* UnexpectedCharacters *)
               | Some (n, v, rest) =>
                   match minilex_go tbl ign f rest with
                   | Some l => Some ((n, v) :: l)
                   | None => None
                   end
               end
      end
  end.

Definition is_space (c : ascii) : bool := Ascii.eqb c " "%char.
Definition minilex (tbl : list (nat * string)) (s : string) : option (list (nat * string)) :=
  minilex_go tbl is_space (S (String.length s)) s.

(* comparison used by the harness: literal table, text, tokens lark's lexer produced (None = it raised) *)
Definition tok_eqb (a b : nat * string) : bool := Nat.eqb (fst a) (fst b) && String.eqb (snd a) (snd b).
Definition check_lex (c : list (nat * string) * string * option (list (nat * string))) : bool :=
  let '(tbl, text, expected) := c in
  match minilex tbl text, expected with
  | Some l, Some e => list_eqb tok_eqb l e
  | None, None => true
  | _, _ => false
  end.
