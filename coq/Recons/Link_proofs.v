(* C19: link to the shared CFG / Earley specification.  The grammar match_tree hands to its Earley parser is an
   ordinary Cfg.Grammar grammar over the children list (terminals matched by _match); every supported match is a
   derivation of it, so for every tree the parser can return the chart of Earley/Spec.v accepts the children. *)
From Coq Require Import String Ascii List Arith Bool Lia.
From LV Require Import Base.Prelude Cfg.Grammar Earley.Spec Recons.Recons Recons.Recons_proofs
     Recons.Complete_proofs.
Import ListNotations.

Definition to_cfg (G : list rrule) : grammar := map (fun r => mkRule (r_origin r) (r_exp r)) G.

Lemma In_to_cfg G r : In r G -> In (mkRule (r_origin r) (r_exp r)) (to_cfg G).
Proof. intros. unfold to_cfg. apply (in_map (fun r => mkRule (r_origin r) (r_exp r))). auto. Qed.

Section Link.
  Variable G : list rrule.
  Notation derives := (derives (to_cfg G) stree cmatch).

  Definition Dnode (u : utree) : Prop :=
    uvalid G u -> forall r args, u = UNode r args -> derives (r_exp r) (leaves u).

  Lemma args_derive : forall args, Forall Dnode args ->
    forall ss, uargs_gen (uvalid G) ss args -> derives ss (flat_map leaves args).
  Proof.
    induction args as [|a args IH]; intros HF ss Hu; inversion Hu; subst.
    - constructor.
    - inversion HF; subst. simpl. constructor; auto.
    - inversion HF as [|? ? Ha HF']; subst. cbn [flat_map].
      match goal with H : uvalid G (UNode ?r0 ?a0) |- _ =>
        pose proof (Ha H r0 a0 eq_refl) as Hd; inversion H; subst end.
      eapply d_nt with (r := mkRule (r_origin r) (r_exp r)); eauto.
      apply In_to_cfg; auto.
  Qed.

  Lemma node_derives : forall u, Dnode u.
  Proof.
    apply utree_ind2; [intros c _ r args E; discriminate|].
    intros r args HF Hv r0 args0 E. inversion E; subst r0 args0. inversion Hv; subst.
    simpl. apply args_derive; auto.
  Qed.

  Lemma match_derives r args : In r G -> uargs_gen (uvalid G) (r_exp r) args ->
    derives [NT (r_origin r)] (flat_map leaves args).
  Proof.
    intros Hin Hu. rewrite <- (app_nil_r (flat_map leaves args)).
    eapply d_nt with (r := mkRule (r_origin r) (r_exp r)); eauto.
    - apply In_to_cfg; auto.
    - apply args_derive; auto. apply Forall_forall. intros; apply node_derives.
    - constructor.
  Qed.
End Link.

Lemma uvalid_mono G G' : (forall r, In r G -> In r G') -> forall u, uvalid G u -> uvalid G' u.
Proof.
  intros Hsub. apply (utree_ind2 (fun u => uvalid G u -> uvalid G' u)); [intros c H; inversion H|].
  intros r args HF Hv. inversion Hv as [r0 a0 Hin Hu]; subst. constructor; auto.
  clear Hv Hin. revert Hu. generalize (r_exp r). induction HF as [|a args Ha HF IH]; intros ss Hu; inversion Hu; subst.
  - constructor.
  - constructor; auto.
  - constructor; auto.
Qed.

Lemma uargs_mono G G' : (forall r, In r G -> In r G') -> forall ss args,
  uargs_gen (uvalid G) ss args -> uargs_gen (uvalid G') ss args.
Proof.
  intros Hsub ss args. revert ss. induction args as [|a args IH]; intros ss Hu; inversion Hu; subst; constructor; auto.
  eapply uvalid_mono; eauto.
Qed.

Section Accepts.
  Variable us : nat -> bool.
  Variable P : list prule.

  (* a supported match is a derivation of the grammar of match_tree's Earley parser *)
  Theorem supported_derives u data cs : supported us P u data cs ->
    derives (to_cfg (G_for us P data)) stree cmatch [NT data] cs.
  Proof.
    intros (r & args & -> & Hin & Hu & Hl & _).
    assert (Ho : r_origin r = data).
    { destruct (rfr_kind us P _ _ Hin) as (pr & _ & -> & Hs). exact Hs. }
    subst data. rewrite <- Hl. simpl. apply match_derives.
    - unfold G_for. apply in_or_app. right; auto.
    - eapply uargs_mono; [|exact Hu]. intros r0 H0. unfold G_for. apply in_or_app. left; auto.
  Qed.

  (* for every tree the parser can return, the Earley chart (Earley/Spec.v) over the node's children, with the
     tree-matching rules the model derives, accepts: match_tree's parse does not fail at the specification level *)
  Theorem matcher_accepts : cls us P -> cls_extra us P ->
    forall pr ds, wf P (DNode pr ds) -> uncollapsed us (DNode pr ds) ->
    accepts_spec (to_cfg (G_for us P (sym_name pr))) stree cmatch (kids us (DNode pr ds)) (sym_name pr).
  Proof.
    intros Hc Hx pr ds Hwf Hun. destruct (match_exists us P Hc Hx pr ds Hwf Hun) as (u & Hs).
    apply accepts_iff_sentence. eapply supported_derives; eauto.
  Qed.
End Accepts.
