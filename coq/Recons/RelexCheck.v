(* Comparison function for the C19 character-level correspondence cases (no proofs): the regex oracle is the table of
   Python re matches recorded on the reconstructed text (as in C07: Lex/LexerCheck.m_tab). *)
From Coq Require Import ZArith String Ascii List Arith Bool.
From LV Require Import Base.Prelude Lex.LexerBase Lex.Lexer Lex.LexerCheck Recons.Recons Recons.Relex.
Import ListNotations.

Fixpoint ntoks_eqb (a b : list (nat * string)) : bool :=
  match a, b with
  | [], [] => true
  | (n, x) :: a', (k, y) :: b' => Nat.eqb n k && String.eqb x y && ntoks_eqb a' b'
  | _, _ => false
  end.
Definition ontoks_eqb (a b : option (list (nat * string))) : bool :=
  match a, b with Some x, Some y => ntoks_eqb x y | None, None => true | _, _ => false end.

(* terminals, ignored names, name table, lark's reconstructed text, re table, unless pairs, the written (type, text)
   tokens, whether lark's BasicLexer maps the text back to them, what lark's BasicLexer returns on the text *)
Record rxcase := mkRx {
  x_terms : list term; x_ign : list string; x_names : list string; x_text : string;
  x_tab : list (list (string * nat)); x_unl : list (string * string);
  x_written : list (nat * string); x_relex : bool; x_lark : option (list (nat * string)) }.

Definition check_relex (c : rxcase) : bool :=
  let m := m_tab (x_text c) (x_tab c) (x_unl c) in
  match make_lexer m (cok_limit 0) (x_terms c) (x_ign c) with
  | None => false
  | Some L =>
      String.eqb (reconstruct_text (x_written c)) (x_text c)
      && Bool.eqb (bc_b m (x_names c) L (x_text c) 0 EmptyString (x_written c)) (x_relex c)
      && ontoks_eqb (lex_with m (x_names c) L (x_text c)) (x_lark c)
      && (negb (x_relex c) || ontoks_eqb (lex_with m (x_names c) L (x_text c)) (Some (x_written c)))
  end.
