(* C19, character level, per grammar: a decidable condition `relex_safe_b` on the terminals of a grammar under which
   the text Reconstructor.reconstruct writes always lexes back to the written tokens - whatever tree is at hand.
   Definitions only; proofs in RelexSafe_proofs.v.

   The regex oracle of Lex/Lexer.v is instantiated by a computed matcher `m_cp` for the two kinds of terminal
   patterns the condition speaks about:
     - string terminals (PatternStr, no flags): the prefix test (Lexer.str_match_at);
     - "class-plus" regexp terminals: a pattern of the exact form  [items]+  where an item is a plain character or
       a range a-b (no escapes, no negation, no flags): the longest non-empty run of characters of the class.
   Any other terminal makes the condition false (the grammar is then simply not claimed safe).
   The harness compares m_cp with Python's re on every recorded text (RelexSafeCheck.check_safe). *)
From Coq Require Import ZArith String Ascii List Arith Bool.
From LV Require Import Base.Prelude Lex.LexerBase Lex.Lexer Recons.Recons Recons.Relex.
Import ListNotations.

(* ---------------------------------------------------------------- character classes *)
Definition plain_char (c : ascii) : bool :=
  negb (Ascii.eqb c "\"%char || Ascii.eqb c "^"%char || Ascii.eqb c "["%char || Ascii.eqb c "]"%char
        || Ascii.eqb c "-"%char).

(* the text after the opening bracket: items, then  ]+  and nothing else *)
Fixpoint cls_items (s : string) : option (list (ascii * ascii)) :=
  match s with
  | EmptyString => None
  | String c r =>
      if Ascii.eqb c "]"%char then
        match r with
        | String p EmptyString => if Ascii.eqb p "+"%char then Some [] else None
        | _ => None
        end
      else if plain_char c then
        match r with
        | String d (String e r') =>
            if Ascii.eqb d "-"%char then
              if plain_char e then option_map (cons (c, e)) (cls_items r') else None
            else option_map (cons (c, c)) (cls_items r)
        | _ => option_map (cons (c, c)) (cls_items r)
        end
      else None
  end.

Definition cls_of (pat : string) : option (list (ascii * ascii)) :=
  match pat with
  | String b r => if Ascii.eqb b "["%char then
                    match cls_items r with
                    | Some [] => None
                    | x => x
                    end
                  else None
  | EmptyString => None
  end.

Definition in_cls (rs : list (ascii * ascii)) (c : ascii) : bool :=
  existsb (fun ab => Nat.leb (nat_of_ascii (fst ab)) (nat_of_ascii c) && Nat.leb (nat_of_ascii c) (nat_of_ascii (snd ab))) rs.

Definition all_ascii : list ascii := map ascii_of_nat (seq 0 256).
Definition cls_chars (rs : list (ascii * ascii)) : list ascii := filter (in_cls rs) all_ascii.

(* ---------------------------------------------------------------- the computed matcher *)
Fixpoint sdrop (n : nat) (s : string) : string :=
  match n, s with
  | O, _ => s
  | S n', String _ r => sdrop n' r
  | S _, EmptyString => EmptyString
  end.

Fixpoint run (c : ascii -> bool) (s : string) : nat :=
  match s with
  | String a r => if c a then S (run c r) else 0
  | EmptyString => 0
  end.

Fixpoint sprefix (v s : string) : bool :=
  match v with
  | EmptyString => true
  | String a v' => match s with
                   | String b s' => Ascii.eqb a b && sprefix v' s'
                   | EmptyString => false
                   end
  end.

(* the pattern of t matched at the start of s *)
Definition mm (t : term) (s : string) : option nat :=
  if tre t then
    match cls_of (tvalue t) with
    | Some rs => match run (in_cls rs) s with O => None | k => Some k end
    | None => None
    end
  else if sprefix (tvalue t) s then Some (String.length (tvalue t)) else None.

Definition m_cp (t : term) (text : string) (p : nat) : option nat := mm t (sdrop p text).

(* terminals the condition can speak about *)
Definition term_ok (t : term) : bool :=
  match tflags t with [] => true | _ => false end &&
  (if tre t then match cls_of (tvalue t) with Some _ => true | None => false end
   else negb (String.eqb (tvalue t) EmptyString)).

(* ---------------------------------------------------------------- first / last characters of what a terminal scans *)
Definition firsts (t : term) : list ascii :=
  if tre t then match cls_of (tvalue t) with Some rs => cls_chars rs | None => [] end
  else match first_char (tvalue t) with Some c => [c] | None => [] end.
Definition lasts (t : term) : list ascii :=
  if tre t then match cls_of (tvalue t) with Some rs => cls_chars rs | None => [] end
  else match last_char (tvalue t) with Some c => [c] | None => [] end.

(* first character of what reconstruct() writes after an item ending in a when the next item starts with b *)
Definition nextc (a b : ascii) : ascii := if is_id_continue a && is_id_continue b then " "%char else b.

Definition memc (c : ascii) (l : list ascii) : bool := existsb (Ascii.eqb c) l.

Section Safe.
  Variable names : list string.
  Variable L : blexer.

  Definition flat : list term := List.concat (lx_mres L).
  Definition ign_t (t : term) : bool := mem_string (tname t) (lx_ign L).
  Definition live : list term := filter (fun t => negb (ign_t t)) flat.

  (* all characters that can follow, in a reconstructed text, a token scanned by t *)
  Definition all_firsts : list ascii := flat_map firsts live.
  Definition next_firsts (t : term) : list ascii :=
    flat_map (fun a => map (nextc a) all_firsts) (lasts t).

  (* S1: a class-plus winner's run is not extended by what follows *)
  Definition s1_b : bool :=
    forallb (fun t => negb (tre t) ||
                      match cls_of (tvalue t) with
                      | Some rs => forallb (fun ch => negb (in_cls rs ch)) (next_firsts t)
                      | None => false
                      end) live.

  (* S2: a string terminal u tried before t cannot start matching because of what follows:
     t class-plus: u does not start with a character of the class;
     t string: if t's value is a proper prefix of u's, the next character of u is not a possible follower *)
  Definition loser_ok (u t : term) : bool :=
    tre u ||
    (if tre t then
       match cls_of (tvalue t), first_char (tvalue u) with
       | Some rs, Some c => negb (in_cls rs c)
       | _, _ => false
       end
     else if sprefix (tvalue t) (tvalue u) then
       match first_char (sdrop (String.length (tvalue t)) (tvalue u)) with
       | Some c => negb (memc c (next_firsts t))
       | None => true
       end
     else true).
  Fixpoint s2_go (pre : list term) (l : list term) : bool :=
    match l with
    | [] => true
    | t :: r => (ign_t t || forallb (fun u => loser_ok u t) pre) && s2_go (pre ++ [t]) r
    end.
  Definition s2_b : bool := s2_go [] flat.

  (* S3: the blank the spacing rule inserts is scanned as one ignored terminal, whatever follows *)
  Definition need_any : bool :=
    existsb (fun t => existsb is_id_continue (lasts t)) live && existsb is_id_continue all_firsts.
  Definition blank_ok : bool :=
    forallb (fun u => if tre u then match cls_of (tvalue u) with
                                    | Some rs => negb (in_cls rs " "%char)
                                    | None => false end
                      else match first_char (tvalue u) with
                           | Some c => negb (Ascii.eqb c " "%char) || String.eqb (tvalue u) " "%string
                           | None => false
                           end) flat
    && match first_some (fun u => mm u " "%string) flat with
       | Some (tb, 1) => ign_t tb
       | _ => false
       end.
  Definition s3_b : bool := negb need_any || blank_ok.

  (* a token (n, x) as the lexer can produce it: scanned with exactly its length by a non-ignored terminal
     (in front of some rest G) and reported under the name n *)
  Definition scans_b (G : string) (n : nat) (x : string) : bool :=
    negb (String.eqb x EmptyString) &&
    match first_some (fun u => mm u (append x G)) flat with
    | Some (t, k) => Nat.eqb k (String.length x) && negb (ign_t t)
                     && onat_eqb (name_index names (report lower m_cp (lx_terms L) t x)) (Some n)
    | None => false
    end.

  (* S4: every literal the Reconstructor may re-insert is such a token on its own *)
  Definition s4_b (lits : list (nat * string)) : bool :=
    forallb (fun nv => scans_b EmptyString (fst nv) (snd nv)) lits.

  Definition relex_safe_b (lits : list (nat * string)) : bool :=
    forallb term_ok flat && s1_b && s2_b && s3_b && s4_b lits.
End Safe.
