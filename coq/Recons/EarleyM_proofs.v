(* C19: the matcher hypotheses of the round-trip theorem, proved for the Earley model M_earley.
   (1) conv: every derivation tree of cfg_of G becomes, through the callbacks, a valid match of G with the same leaves.
   (2) all_supported: under plain_roots every valid match of G_for data rooted at data is a supported match.
   (3) M_earley_ok / M_earley_complete from C04's exactness of the model forest (which rests on C01).
   (4) recons_token_roundtrip_earley. *)
From Coq Require Import String Ascii List Arith Bool Lia.
From LV Require Import Base.Prelude Cfg.Grammar Cfg.Analysis Cfg.Analysis_proofs Earley.Spec Earley.Alg Earley.Alg_proofs
     Forest.ExplicitBuild Forest.ExplicitBuild_proofs Forest.ExplicitAlgBuild Forest.ExplicitAlgBuild_proofs
     Recons.Recons Recons.Recons_proofs Recons.ReconsCheck Recons.ReconsCheck_proofs Recons.Complete_proofs
     Recons.Link_proofs Recons.Roundtrip_proofs Recons.EarleyM.
Import ListNotations.

Lemma cfg_of_to_cfg G : cfg_of G = to_cfg G.
Proof. reflexivity. Qed.

Lemma stree_eqb_refl : forall t, stree_eqb t t = true.
Proof.
  apply stree_ind2.
  - intros n s. simpl. rewrite Nat.eqb_refl, String.eqb_refl. reflexivity.
  - intros d cs IH. simpl. rewrite Nat.eqb_refl. simpl.
    induction IH as [|x l Hx Hl IHl]; auto. rewrite Hx, IHl. reflexivity.
Qed.

Lemma occurs_st_spec cs x i : occurs_st cs x i = true <-> nth_error cs i = Some x.
Proof.
  unfold occurs_st. destruct (nth_error cs i) as [y|]; split; intros H; try discriminate.
  - apply stree_eqb_eq in H. congruence.
  - inversion H. apply stree_eqb_refl.
Qed.

Fixpoint dt_ind2 (tok : Type) (Q : dt tok -> Prop) (HL : forall t x, Q (DL tok t x))
         (HN : forall r ks, Forall Q ks -> Q (DN tok r ks)) (d : dt tok) : Q d :=
  match d with
  | DL _ t x => HL t x
  | DN _ r ks =>
      HN r ks ((fix go (l : list (dt tok)) : Forall Q l :=
                  match l with
                  | [] => Forall_nil _
                  | x :: l' => Forall_cons _ (dt_ind2 tok Q HL HN x) (go l')
                  end) ks)
  end.

Lemma yield_DN (tok : Type) r ks : ExplicitBuild.yield tok (DN tok r ks) = flat_map (ExplicitBuild.yield tok) ks.
Proof. simpl. induction ks as [|k ks IH]; simpl; auto; try (rewrite IH; reflexivity). Qed.

(* ---- (1) derivation trees -> matches ----------------------------------------------------------- *)
Section Conv.
  Variable G : list rrule.

  Lemma find_rrule_in x : In x G ->
    exists y, find_rrule G (mkRule (r_origin x) (r_exp x)) = Some y /\ In y G /\
              r_origin y = r_origin x /\ r_exp y = r_exp x.
  Proof.
    intros Hin. unfold find_rrule.
    destruct (find _ G) as [y|] eqn:E.
    - apply find_some in E. destruct E as (Hy & Hk). simpl in Hk.
      apply andb_true_iff in Hk. destruct Hk as (H1 & H2). apply Nat.eqb_eq in H1.
      apply (list_eqb_eq _ symbol_eqb_eq) in H2. exists y. auto.
    - exfalso. pose proof (find_none _ _ E x Hin) as Hn. simpl in Hn.
      rewrite Nat.eqb_refl, (list_eqb_refl _ symbol_eqb_refl) in Hn. discriminate.
  Qed.

  Definition Cv (d : dt stree) : Prop :=
    forall s, wfd (cfg_of G) stree cmatch d s ->
    match d with
    | DL _ t x => s = T t /\ cmatch t x = true
    | DN _ r ks => exists y, find_rrule G r = Some y /\ In y G /\ r_origin y = lhs r /\ r_exp y = rhs r /\
                             s = NT (lhs r) /\
                             uargs_gen (uvalid G) (rhs r) (map (to_utree G) ks) /\
                             flat_map leaves (map (to_utree G) ks) = ExplicitBuild.yield stree d
    end.

  Lemma conv : forall d, Cv d.
  Proof.
    apply dt_ind2.
    - intros t x s H. inversion H; subst. auto.
    - intros r ks IH s H. inversion H as [|r0 ks0 Hin HF]; subst.
      unfold cfg_of in Hin. apply in_map_iff in Hin. destruct Hin as (x & Ex & Hx). subst r.
      destruct (find_rrule_in x Hx) as (y & Hf & Hy & Ho & He).
      exists y. cbn [lhs rhs] in *. repeat split; auto.
      + clear Hf H. revert HF IH. generalize (r_exp x) as ss. induction ks as [|k ks IHk]; intros ss HF IH;
          inversion HF as [|k0 s0 ks0 ss0 Hk HF']; subst.
        * constructor.
        * inversion IH as [|? ? Hq IH']; subst. specialize (Hq _ Hk). cbn [map].
          destruct k as [t c|r' ks'].
          -- destruct Hq as (-> & Hm). cbn [to_utree]. constructor; auto.
          -- destruct Hq as (y' & Hf' & Hy' & Ho' & He' & -> & Hu' & _). cbn [to_utree]. rewrite Hf'.
             constructor; auto. constructor; auto. rewrite He'. exact Hu'.
      + rewrite yield_DN. clear Hf H. revert HF IH. generalize (r_exp x) as ss.
        induction ks as [|k ks IHk]; intros ss HF IH; inversion HF as [|k0 s0 ks0 ss0 Hk HF']; subst; auto.
        inversion IH as [|? ? Hq IH']; subst. specialize (Hq _ Hk). cbn [map flat_map].
        rewrite (IHk _ HF' IH'). f_equal. destruct k as [t c|r' ks'].
        * reflexivity.
        * destruct Hq as (y' & Hf' & _ & _ & _ & _ & _ & Hl). cbn [to_utree]. rewrite Hf'. cbn [leaves]. exact Hl.
  Qed.

  Lemma conv_root d a : wfd (cfg_of G) stree cmatch d (NT a) ->
    exists r args, to_utree G d = UNode r args /\ In r G /\ r_origin r = a /\
                   uargs_gen (uvalid G) (r_exp r) args /\ leaves (UNode r args) = ExplicitBuild.yield stree d.
  Proof.
    intros H. pose proof (conv d _ H) as Hc. destruct d as [t x|r ks].
    - destruct Hc as (E & _). discriminate.
    - destruct Hc as (y & Hf & Hy & Ho & He & Es & Hu & Hl). inversion Es; subst a.
      exists y, (map (to_utree G) ks). cbn [to_utree]. rewrite Hf. repeat split; auto. rewrite He. exact Hu.
  Qed.

  (* ... and back: a valid match is a derivation tree *)
  Fixpoint from_utree (u : utree) : dt stree :=
    match u with
    | ULeaf c => DL stree (name_of c) c
    | UNode r args => DN stree (mkRule (r_origin r) (r_exp r)) (map from_utree args)
    end.

  Lemma from_args : forall args, Forall (fun u => uvalid G u -> forall r a, u = UNode r a ->
                                     wfd (cfg_of G) stree cmatch (from_utree u) (NT (r_origin r)) /\
                                     ExplicitBuild.yield stree (from_utree u) = leaves u) args ->
    forall ss, uargs_gen (uvalid G) ss args ->
      Forall2 (wfd (cfg_of G) stree cmatch) (map from_utree args) ss /\
      flat_map (ExplicitBuild.yield stree) (map from_utree args) = flat_map leaves args.
  Proof.
    induction args as [|a args IH]; intros HF ss Hu.
    - inversion Hu; subst. split; constructor.
    - inversion HF as [|? ? Ha HF']; subst.
      inversion Hu as [|t c ss0 args0 Hm Hu'|n r args0 ss0 args1 Ho Hv Hu']; subst.
      + destruct (IH HF' _ Hu') as (H1 & H2). split.
        * cbn [map from_utree]. constructor; auto. unfold cmatch in Hm. apply Nat.eqb_eq in Hm. subst t.
          constructor. unfold cmatch. apply Nat.eqb_refl.
        * cbn [map flat_map from_utree leaves ExplicitBuild.yield app]. rewrite H2. reflexivity.
      + destruct (IH HF' _ Hu') as (H1 & H2).
        destruct (Ha Hv r args0 eq_refl) as (Hw & Hy). split.
        * cbn [map]. constructor; auto.
        * cbn [map flat_map]. rewrite Hy, H2. reflexivity.
  Qed.

  Lemma from_valid : forall u, uvalid G u -> forall r a, u = UNode r a ->
    wfd (cfg_of G) stree cmatch (from_utree u) (NT (r_origin r)) /\ ExplicitBuild.yield stree (from_utree u) = leaves u.
  Proof.
    apply (utree_ind2 (fun u => uvalid G u -> forall r a, u = UNode r a ->
             wfd (cfg_of G) stree cmatch (from_utree u) (NT (r_origin r)) /\ ExplicitBuild.yield stree (from_utree u) = leaves u)).
    - intros c _ r a E. discriminate.
    - intros r args HF Hv r0 a0 E. inversion E; subst r0 a0. inversion Hv as [r1 a1 Hin Hu]; subst.
      destruct (from_args args HF _ Hu) as (H1 & H2). split.
      + cbn [from_utree]. change (NT (r_origin r)) with (NT (lhs (mkRule (r_origin r) (r_exp r)))).
        constructor; auto. unfold cfg_of. apply (in_map (fun r => mkRule (r_origin r) (r_exp r))). auto.
      + cbn [from_utree leaves]. rewrite yield_DN. exact H2.
  Qed.
End Conv.

(* ---- (2) every match of G_for data rooted at data is supported ----------------------------------- *)
Section Supp.
  Variable us : nat -> bool.
  Variable P : list prule.
  Hypothesis Hc : cls us P.

  Definition plain_roots : Prop := forall data r, In r (rfr us P data) -> is_nonterminal us P data = false.

  Lemma plain_roots_b_sound : plain_roots_b us P = true -> plain_roots.
  Proof.
    unfold plain_roots_b. rewrite forallb_forall. intros H data r Hin.
    unfold rfr in Hin. apply In_best in Hin. unfold rfr_raw in Hin. apply in_map_iff in Hin.
    destruct Hin as ((n & r') & E & Hf). apply filter_In in Hf. destruct Hf as (Hf & En). simpl in En, E.
    apply Nat.eqb_eq in En. subst n. specialize (H _ Hf). simpl in H. apply negb_true_iff in H. exact H.
  Qed.

  Lemma nt_of_names a : In a (rule_names P) -> (us a = true \/ In a (expand1s P) \/ In a (aliased P)) ->
    is_nonterminal us P a = true.
  Proof.
    intros Hn H. unfold is_nonterminal. apply memn_In in Hn. rewrite Hn. simpl.
    destruct H as [H|[H|H]]; [rewrite H; auto| |]; apply memn_In in H; rewrite H; auto using orb_true_r.
    rewrite orb_true_r. auto.
  Qed.

  Lemma rules_origin_nt r : In r (rules us P) -> is_nonterminal us P (r_origin r) = true.
  Proof.
    intros Hin. apply (rules_kind us P) in Hin.
    destruct Hin as [pr HinP Hinl Hlen | pr al HinP Hal | pr HinP Hal | pr HinP He1]; cbn [regular unit_rule r_origin].
    - apply orb_true_iff in Hinl. destruct Hinl as [Hu|He].
      + assert (p_alias pr = None).
        { destruct (p_alias pr) as [al|] eqn:E; auto. destruct (c_alias Hc _ _ HinP E) as (_ & Hf & _).
          unfold sym_name in Hu. rewrite E in Hu. congruence. }
        unfold sym_name in *. rewrite H in *. apply nt_of_names; auto. apply In_rule_names; auto.
      + apply memn_In in He. apply nt_of_names; auto. apply (expand1s_names us P); auto.
    - apply nt_of_names; [apply In_rule_names; auto|]. right; right. apply In_aliased_of; auto.
      unfold has_alias. rewrite Hal. reflexivity.
    - apply nt_of_names; [apply In_rule_names; auto|]. right; right. apply In_aliased_of; auto.
    - apply memn_In in He1. apply nt_of_names; auto. apply (expand1s_names us P); auto.
  Qed.

  Lemma recons_exp_nt pr a : In (NT a) (recons_exp us P pr) -> is_nonterminal us P a = true.
  Proof.
    unfold recons_exp. rewrite in_map_iff. intros (s & E & _). destruct s as [n fo|n]; simpl in E; [discriminate|].
    destruct (is_nonterminal us P n) eqn:En; inversion E; subst; auto.
  Qed.

  Lemma gfor_nt_syms data r a : In r (G_for us P data) -> In (NT a) (r_exp r) -> is_nonterminal us P a = true.
  Proof.
    unfold G_for. intros Hin Ha. apply in_app_or in Hin. destruct Hin as [Hin|Hin].
    - apply (rules_kind us P) in Hin.
      destruct Hin as [pr HinP Hinl Hlen | pr al HinP Hal | pr HinP Hal | pr HinP He1];
        cbn [regular unit_rule r_exp] in Ha; try (destruct Ha as [Ha|[]]; discriminate).
      eapply recons_exp_nt; eauto.
    - destruct (rfr_kind us P _ _ Hin) as (pr & _ & -> & _). cbn [regular r_exp] in Ha. eapply recons_exp_nt; eauto.
  Qed.

  Section Data.
    Variable data : nat.
    Hypothesis Hplain : is_nonterminal us P data = false.

    Lemma restrict_args : forall args, Forall (fun u => uvalid (G_for us P data) u -> forall r a, u = UNode r a ->
                                         is_nonterminal us P (r_origin r) = true -> uvalid (rules us P) u) args ->
      forall ss, (forall a, In (NT a) ss -> is_nonterminal us P a = true) ->
                 uargs_gen (uvalid (G_for us P data)) ss args -> uargs_gen (uvalid (rules us P)) ss args.
    Proof.
      induction args as [|x args IH]; intros HF ss Hss Hu; inversion Hu; subst; inversion HF as [|? ? Hx HF']; subst.
      - constructor.
      - constructor; auto. apply IH; auto. intros; apply Hss; right; auto.
      - constructor; auto.
        + apply (Hx H3 r args0 eq_refl). apply Hss. left; auto.
        + apply IH; auto. intros; apply Hss; right; auto.
    Qed.

    Lemma restrict : forall u, uvalid (G_for us P data) u -> forall r a, u = UNode r a ->
      is_nonterminal us P (r_origin r) = true -> uvalid (rules us P) u.
    Proof.
      apply (utree_ind2 (fun u => uvalid (G_for us P data) u -> forall r a, u = UNode r a ->
               is_nonterminal us P (r_origin r) = true -> uvalid (rules us P) u)).
      - intros c _ r a E. discriminate.
      - intros r args HF Hv r0 a0 E Hnt. inversion E; subst r0 a0. inversion Hv as [r1 a1 Hin Hu]; subst.
        assert (Hr : In r (rules us P)).
        { unfold G_for in Hin. apply in_app_or in Hin. destruct Hin as [Hin'|Hin']; auto.
          destruct (rfr_kind us P _ _ Hin') as (pr & _ & -> & Hs). cbn [regular r_origin] in Hnt. congruence. }
        constructor; auto. apply (restrict_args args HF); auto.
        intros a Ha. eapply gfor_nt_syms; eauto.
    Qed.

    Theorem all_supported r args cs :
      In r (G_for us P data) -> r_origin r = data -> uargs_gen (uvalid (G_for us P data)) (r_exp r) args ->
      leaves (UNode r args) = cs -> supported us P (UNode r args) data cs.
    Proof.
      intros Hin Ho Hu Hl. exists r, args.
      assert (Hr : In r (rfr us P data)).
      { unfold G_for in Hin. apply in_app_or in Hin. destruct Hin as [Hin'|Hin']; auto.
        apply rules_origin_nt in Hin'. congruence. }
      repeat split; auto.
      - apply (restrict_args args); auto.
        + apply Forall_forall. intros u _. apply restrict.
        + intros a Ha. eapply gfor_nt_syms; eauto.
      - intros He. exfalso. assert (is_nonterminal us P data = true); [|congruence].
        apply nt_of_names; auto. apply (expand1s_names us P); auto.
    Qed.
  End Data.
End Supp.

(* ---- (3), (4) ------------------------------------------------------------------------------------- *)
Section Main.
  Variable us : nat -> bool.
  Variable P : list prule.
  Hypothesis Hc : cls us P.
  Hypothesis Hx : cls_extra us P.
  Hypothesis Hplain : plain_roots us P.
  Variable sel : nat -> list stree -> list (fam stree) -> option (dt stree).
  (* what is assumed of ForestToParseTree(resolve): it returns one of the derivations the forest stores, and it
     returns one whenever the forest stores one (Forest/Prio_proofs.resolve_in_derivs for acyclic forests) *)
  Hypothesis sel_sound : forall data cs fams d, sel data cs fams = Some d ->
    den stree (in_forest stree fams) (NSym stree data 0 (length cs)) [d].
  Hypothesis sel_total : forall data cs fams d,
    den stree (in_forest stree fams) (NSym stree data 0 (length cs)) [d] -> sel data cs fams <> None.

  Notation M := (M_earley us P sel).

  Let ps G : forall a r, In r (pred_lookup G (pred_table G) a) -> In r G /\ lc_reach G a (lhs r).
  Proof. intros a r. rewrite pred_lookup_eq. apply predictions_spec. Qed.
  Let pd G : forall a r, In r G -> lhs r = a -> In r (pred_lookup G (pred_table G) a).
  Proof. intros a r. rewrite pred_lookup_eq. apply predictions_direct. Qed.

  (* soundness of the Earley matcher: what it returns is a derivation of G_for data over the children *)
  Theorem M_earley_sound data cs u : M (Node data cs) = Some u ->
    exists r args, u = UNode r args /\ In r (G_for us P data) /\ r_origin r = data /\
                   uargs_gen (uvalid (G_for us P data)) (r_exp r) args /\ leaves u = cs.
  Proof.
    unfold M_earley. set (G := cfg_of (G_for us P data)). intros H.
    destruct (r_out (fst (run us P data cs))) eqn:Eo; try discriminate.
    destruct (sel data cs (snd (run us P data cs))) as [d|] eqn:Es; [|discriminate]. inversion H; subst u. clear H.
    apply sel_sound in Es.
    apply (model_forest_exact G (pred_lookup G (pred_table G)) stree cmatch data cs (ps G) (pd G)
             (occurs_st cs) (occurs_st_spec cs)) in Es; [|left; exact Eo].
    destruct Es as (d' & E & Hw & Hy). inversion E; subst d'.
    destruct (conv_root (G_for us P data) d data Hw) as (r & args & Eu & Hin & Ho & Hu & Hl).
    exists r, args. rewrite Eu. repeat split; auto. rewrite Hl. exact Hy.
  Qed.

  (* on every tree the parser can return, whatever the Earley matcher returns is a supported match *)
  Theorem M_earley_ok t u : ptree us P t -> M t = Some u ->
    exists data cs, t = Node data cs /\ supported us P u data cs.
  Proof.
    intros Hp H. destruct (ptree_node us P t Hp) as (pr & ds & Hwf & Hun & -> & HinP).
    exists (sym_name pr), (kids us (DNode pr ds)). split; auto.
    destruct (match_exists us P Hc Hx pr ds Hwf Hun) as (u0 & r0 & a0 & _ & Hr0 & _).
    destruct (M_earley_sound _ _ _ H) as (r & args & -> & Hin & Ho & Hu & Hl).
    apply (all_supported us P Hc (sym_name pr) (Hplain _ _ Hr0)); auto.
  Qed.

  (* completeness: whenever a supported match exists, the parser accepts and a match is returned *)
  Theorem M_earley_complete data cs : (exists u, supported us P u data cs) -> M (Node data cs) <> None.
  Proof.
    intros (u & r & args & -> & Hin & Hu & Hl & _).
    assert (HinG : In r (G_for us P data)) by (unfold G_for; apply in_or_app; auto).
    assert (Ho : r_origin r = data).
    { destruct (rfr_kind us P _ _ Hin) as (pr & _ & -> & Hs). exact Hs. }
    assert (Hv : uvalid (G_for us P data) (UNode r args)).
    { constructor; auto. eapply uargs_mono; [|exact Hu]. intros r0 H0. unfold G_for. apply in_or_app; auto. }
    destruct (from_valid (G_for us P data) _ Hv r args eq_refl) as (Hw & Hy).
    set (G := cfg_of (G_for us P data)) in *.
    destruct (model_forest_complete G (pred_lookup G (pred_table G)) stree cmatch data cs (ps G) (pd G)
                (occurs_st cs) (occurs_st_spec cs) (from_utree (UNode r args))) as (Hacc & Hden).
    { rewrite <- Ho. exact Hw. }
    { rewrite Hy. exact Hl. }
    unfold M_earley. fold G. unfold run. fold G. rewrite Hacc.
    pose proof (sel_total _ _ _ _ Hden) as Hs.
    destruct (sel data cs _); [discriminate|congruence].
  Qed.

  (* (4) the token-level round trip with lark's Earley tree matcher *)
  Theorem recons_token_roundtrip_earley lit
    (Hlit : forall r n, In r P -> In (Tm n true) (p_exp r) -> lit n <> None)
    (Hdisj : forall r n fo, In r P -> In (Tm n fo) (p_exp r) ->
             forall r', In r' P -> p_origin r' <> n /\ p_alias r' <> Some n)
    start pr0 ds0 :
    wf P (DNode pr0 ds0) -> p_origin pr0 = start -> ~ In start (expand1s P) -> us start = false ->
    exists fuel toks, recon lit M fuel (shape us (DNode pr0 ds0)) = Ok toks /\
      parses us P start toks (shape us (DNode pr0 ds0)) /\
      (unambiguous P start -> forall t', parses us P start toks t' -> t' = shape us (DNode pr0 ds0)).
  Proof.
    apply (recons_token_roundtrip_p us P Hc Hx lit Hlit Hdisj M).
    - intros t u. apply M_earley_ok.
    - apply M_earley_complete.
  Qed.
End Main.
