(* C19: the hand-written model Recons/Recons.v uses exactly the conditions regenerated from the source
   (Gen/ReconsHoles.v, translator/gen_recons.py: every mirrored function of lark/reconstruct.py and
   lark/tree_matcher.py is pinned by a fail-closed template, its conditions are holes).  If a condition of the source
   changes, the generated definition changes and one of these equalities no longer proves. *)
From Coq Require Import ZArith String Ascii List Arith Bool Lia.
From LV Require Import Base.Prelude Cfg.Grammar Recons.Recons Recons.GenBase Gen.ReconsHoles.
Import ListNotations.

(* ---- is_id_continue: `s == '_' or unicodedata.category(s) in _ID_CONTINUE`, on the ASCII range *)
Theorem is_id_continue_gen :
  forallb (fun n => Bool.eqb (is_id_continue (ascii_of_nat n)) (idc_of_cats g_idc_cats (ascii_of_nat n))) (seq 0 128) = true.
Proof. vm_compute. reflexivity. Qed.

(* ---- the spacing rule of Reconstructor.reconstruct (insert_spaces = True) *)
Lemma idc_last_last idc s : idc_last idc s = match last_char s with Some c => idc c | None => false end.
Proof.
  induction s as [|c s IH]; [reflexivity|]. destruct s as [|d s]; [reflexivity|].
  change (idc_last idc (String c (String d s))) with (idc_last idc (String d s)).
  change (last_char (String c (String d s))) with (last_char (String d s)). exact IH.
Qed.

Theorem need_space_gen prev item : need_space prev item = g_need_space is_id_continue true prev item.
Proof.
  unfold need_space, g_need_space. rewrite idc_last_last. unfold idc_first, first_char, nonempty.
  destruct prev as [|a p]; [destruct item; reflexivity|].
  destruct (last_char (String a p)) as [c|] eqn:E.
  - destruct item as [|b i]; simpl; reflexivity.
  - exfalso. revert a E. induction p as [|d p IH]; intros a E; [discriminate|]. apply (IH d). exact E.
Qed.

(* ---- is_discarded_terminal *)
Theorem discarded_gen s :
  discarded s = match s with Tm _ fo => g_discarded true fo | Nt _ => g_discarded false false end.
Proof. destruct s; reflexivity. Qed.

Section Build.
  Variable us : nat -> bool.
  Variable P : list prule.

  (* ---- nonterminals = {sym for sym in rule_names if ...} *)
  Theorem is_nonterminal_gen n :
    is_nonterminal us P n =
    memn n (rule_names P) && g_is_nt (us n) (memn n (expand1s P)) (memn n (aliased P)).
  Proof. unfold is_nonterminal, g_is_nt. rewrite orb_assoc. reflexivity. Qed.

  (* ---- if recons_exp == [r.origin] and r.alias is None: continue *)
  Theorem skipped_gen r :
    skipped us P r = g_skip (list_eqb symbol_eqb (recons_exp us P r) [NT (p_origin r)]) (has_alias r).
  Proof.
    unfold skipped, g_skip, has_alias. destruct (p_alias r).
    - rewrite andb_false_r. reflexivity.
    - rewrite andb_true_r. destruct (recons_exp us P r) as [|[t|a] [|y l]]; simpl; try reflexivity.
      + rewrite andb_true_r. reflexivity.
      + rewrite andb_false_r. reflexivity.
  Qed.

  (* ---- the classification inside the loop: the model's build_loop is the loop with the regenerated tests *)
  Fixpoint build_loop_g (rs : list prule) (seen : list nat) : list rrule * list (nat * rrule) :=
    match rs with
    | [] => ([], [])
    | r :: rest =>
        if g_skip (list_eqb symbol_eqb (recons_exp us P r) [NT (p_origin r)]) (has_alias r) then build_loop_g rest seen else
        let s := sym_name r in
        let rule := regular us P r in
        if g_root1 (memn s (expand1s P)) (length (recons_exp us P r)) then
          let '(ys, rf) := build_loop_g rest (if memn s seen then seen else s :: seen) in
          ((if memn s seen then [] else [unit_rule s s]) ++ ys, (s, rule) :: rf)
        else if g_inline (us s) (memn s (expand1s P)) then
          let '(ys, rf) := build_loop_g rest seen in (rule :: ys, rf)
        else
          let '(ys, rf) := build_loop_g rest seen in (ys, (s, rule) :: rf)
    end.

  Theorem build_loop_gen rs : forall seen, build_loop us P rs seen = build_loop_g rs seen.
  Proof.
    induction rs as [|r rs IH]; intros seen; [reflexivity|].
    cbn [build_loop build_loop_g]. rewrite <- skipped_gen. destruct (skipped us P r); [apply IH|].
    unfold g_root1, g_inline.
    destruct (memn (sym_name r) (expand1s P) && negb (Nat.eqb (length (recons_exp us P r)) 1)).
    - rewrite IH. reflexivity.
    - destruct (us (sym_name r) || memn (sym_name r) (expand1s P)); rewrite IH; reflexivity.
  Qed.
End Build.

(* ---- _best_from_group with group key = the rule and cmp key = -len(expansion): inside a group the expansions are
   equal, so the replacement test is never true and the first member stays (Recons.dedupe); the final sort is by
   ascending length (Recons.insert_len) *)
Theorem best_never_replaces len : g_better (g_cmp_key len) (g_cmp_key len) = false.
Proof. unfold g_better, g_cmp_key. rewrite Z.gtb_ltb. apply Z.ltb_irrefl. Qed.

Theorem sort_key_gen (x r : rrule) :
  Nat.ltb (length (r_exp x)) (length (r_exp r)) =
  Z.ltb (g_sort_key (Z.of_nat (length (r_exp x)))) (g_sort_key (Z.of_nat (length (r_exp r)))).
Proof.
  unfold g_sort_key. destruct (Nat.ltb_spec (length (r_exp x)) (length (r_exp r)));
    destruct (Z.ltb_spec (Z.of_nat (length (r_exp x))) (Z.of_nat (length (r_exp r)))); auto; lia.
Qed.
