(* C19: boolean forms of the further hypotheses (cls_extra, literals, disjoint names) imply the Props. *)
From Coq Require Import String Ascii List Arith Bool Lia.
From LV Require Import Base.Prelude Cfg.Grammar Recons.Recons Recons.Recons_proofs Recons.ReconsCheck
     Recons.ReconsCheck_proofs Recons.Complete_proofs.
Import ListNotations.

Section Refl2.
  Variable us : nat -> bool.
  Variable P : list prule.

  Lemma extra_b_sound : extra_b us P = true -> cls_extra us P.
  Proof.
    unfold extra_b. rewrite forallb_forall. intros H. constructor; intros r Hin; specialize (H r Hin);
      apply andb_true_iff in H; destruct H as (H1 & H2).
    - apply negb_true_iff; auto.
    - destruct (filter kept (p_exp r)); [discriminate|congruence].
  Qed.

  Lemma lits_b_sound lit : lits_b P lit = true ->
    forall r n, In r P -> In (Tm n true) (p_exp r) -> lit n <> None.
  Proof.
    unfold lits_b. rewrite forallb_forall. intros H r n Hin Hs. specialize (H r Hin).
    rewrite forallb_forall in H. specialize (H _ Hs). simpl in H. destruct (lit n); congruence.
  Qed.

  Lemma disj_b_sound : disj_b P = true ->
    forall r n fo, In r P -> In (Tm n fo) (p_exp r) -> forall r', In r' P -> p_origin r' <> n /\ p_alias r' <> Some n.
  Proof.
    unfold disj_b. rewrite forallb_forall. intros H r n fo Hin Hs r' Hin'. specialize (H r Hin).
    rewrite forallb_forall in H. specialize (H _ Hs). simpl in H. rewrite forallb_forall in H. specialize (H r' Hin').
    apply andb_true_iff in H. destruct H as (H1 & H2). apply negb_true_iff in H1. apply Nat.eqb_neq in H1.
    split; auto. destruct (p_alias r') as [al|]; [|discriminate].
    apply negb_true_iff in H2. apply Nat.eqb_neq in H2. congruence.
  Qed.
End Refl2.

