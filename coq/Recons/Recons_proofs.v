(* C19: proofs about the Recons model.
   Part A: where the tree-matching rules come from (every rule of `rules` / `rfr` is the image of a parser
           rule or one of the three kinds of unit rules).
   Part B: write_tokens_yield - the written items of a supported match are the yield of a derivation of the
           matched rule whose kept sub-derivations are the given ones for the node's children.
   Part C: recons_token_sound - the token sequence produced by _reconstruct is the yield of a derivation
           with the same shape; with an unambiguous grammar the parser's tree for it is the input tree. *)
From Coq Require Import String Ascii List Arith Bool Lia.
From LV Require Import Base.Prelude Cfg.Grammar Recons.Recons.
Import ListNotations.

(* ------------------------------------------------------------------------------------------------ *)
(* small facts *)

Lemma memn_In x l : memn x l = true <-> In x l.
Proof.
  unfold memn. rewrite existsb_exists. split.
  - intros (y & Hy & E). apply Nat.eqb_eq in E. subst; auto.
  - intros H. exists x. split; auto. apply Nat.eqb_refl.
Qed.

Lemma memn_false x l : memn x l = false <-> ~ In x l.
Proof.
  rewrite <- memn_In. destruct (memn x l); split; intros H; congruence.
Qed.

Lemma In_insert_len r x l : In x (insert_len r l) <-> x = r \/ In x l.
Proof.
  induction l as [|y l IH]; simpl.
  - intuition.
  - destruct (Nat.ltb _ _); simpl; rewrite ?IH; intuition.
Qed.

Lemma In_sort_len x l : In x (sort_len l) <-> In x l.
Proof.
  unfold sort_len. induction l as [|y l IH]; simpl; [tauto|].
  rewrite In_insert_len, IH. intuition.
Qed.

Lemma In_dedupe x l : forall seen, In x (dedupe seen l) -> In x l.
Proof.
  induction l as [|y l IH]; simpl; intros seen H; auto.
  destruct (existsb _ seen).
  - right. eapply IH; eauto.
  - destruct H as [H|H]; auto. right. eapply IH; eauto.
Qed.

Lemma In_best x l : In x (best l) -> In x l.
Proof. unfold best. rewrite In_sort_len. apply In_dedupe. Qed.

Lemma In_nodup_nat x l : forall seen, In x (nodup_nat seen l) -> In x l.
Proof.
  induction l as [|y l IH]; simpl; intros seen H; auto.
  destruct (memn y seen).
  - right; eapply IH; eauto.
  - destruct H; auto. right; eapply IH; eauto.
Qed.

(* ------------------------------------------------------------------------------------------------ *)
Section Proofs.
  Variable us : nat -> bool.
  Variable P : list prule.

  Notation expand1s := (expand1s P).
  Notation aliased := (aliased P).
  Notation rule_names := (rule_names P).
  Notation is_nonterminal := (is_nonterminal us P).
  Notation recons_sym := (recons_sym us P).
  Notation recons_exp := (recons_exp us P).
  Notation regular := (regular us P).
  Notation rules := (rules us P).
  Notation rfr := (rfr us P).

  (* ---- Part A ---------------------------------------------------------------------------------- *)
  (* a rule that may be used below the root of a match *)
  Inductive inner_kind : rrule -> Prop :=
  | ik_regular pr : In pr P -> (us (sym_name pr) || memn (sym_name pr) expand1s) = true ->
      (memn (sym_name pr) expand1s && negb (Nat.eqb (length (recons_exp pr)) 1)) = false ->
      inner_kind (regular pr)
  | ik_alias pr al : In pr P -> p_alias pr = Some al -> inner_kind (unit_rule (p_origin pr) al)
  | ik_origin pr : In pr P -> has_alias pr = true -> inner_kind (unit_rule (p_origin pr) (p_origin pr))
  | ik_expand1 pr : In pr P -> memn (sym_name pr) expand1s = true ->
      inner_kind (unit_rule (sym_name pr) (sym_name pr)).

  Lemma build_loop_fst rs : forall seen r, In r (fst (build_loop us P rs seen)) ->
    (forall pr, In pr rs -> In pr P) -> inner_kind r.
  Proof.
    induction rs as [|pr rs IH]; simpl; intros seen r H Hsub; [contradiction|].
    assert (Hsub' : forall pr0, In pr0 rs -> In pr0 P) by (intros; apply Hsub; auto).
    destruct (skipped us P pr); [eapply IH; eauto|].
    destruct (memn (sym_name pr) expand1s && negb (Nat.eqb (length (recons_exp pr)) 1)) eqn:E1.
    - destruct (build_loop us P rs (if memn (sym_name pr) seen then seen else sym_name pr :: seen)) as [ys rf] eqn:E.
      simpl in H. apply in_app_or in H. destruct H as [H|H].
      + destruct (memn (sym_name pr) seen); [contradiction|]. destruct H as [<-|[]].
        apply andb_true_iff in E1. apply ik_expand1; [apply Hsub; auto | tauto].
      + eapply (IH _ r); auto. rewrite E. exact H.
    - destruct (us (sym_name pr) || memn (sym_name pr) expand1s) eqn:E2.
      + destruct (build_loop us P rs seen) as [ys rf] eqn:E. simpl in H. destruct H as [<-|H].
        * apply ik_regular; auto.
        * eapply (IH seen r); auto. rewrite E; exact H.
      + destruct (build_loop us P rs seen) as [ys rf] eqn:E. simpl in H.
        eapply (IH seen r); auto. rewrite E; exact H.
  Qed.

  Lemma build_loop_snd rs : forall seen n r, In (n, r) (snd (build_loop us P rs seen)) ->
    exists pr, In pr rs /\ r = regular pr /\ n = sym_name pr.
  Proof.
    induction rs as [|pr rs IH]; simpl; intros seen n r H; [contradiction|].
    destruct (skipped us P pr).
    { destruct (IH _ _ _ H) as (q & ? & ? & ?); eauto. }
    destruct (memn (sym_name pr) expand1s && negb (Nat.eqb (length (recons_exp pr)) 1)).
    - destruct (build_loop us P rs (if memn (sym_name pr) seen then seen else sym_name pr :: seen)) as [ys rf] eqn:E.
      simpl in H. destruct H as [H|H].
      + inversion H; subst. exists pr; auto.
      + specialize (IH (if memn (sym_name pr) seen then seen else sym_name pr :: seen) n r).
        rewrite E in IH. destruct (IH H) as (q & ? & ? & ?); eauto.
    - destruct (us (sym_name pr) || memn (sym_name pr) expand1s).
      + destruct (build_loop us P rs seen) as [ys rf] eqn:E. simpl in H.
        specialize (IH seen n r). rewrite E in IH. destruct (IH H) as (q & ? & ? & ?); eauto.
      + destruct (build_loop us P rs seen) as [ys rf] eqn:E. simpl in H. destruct H as [H|H].
        * inversion H; subst. exists pr; auto.
        * specialize (IH seen n r). rewrite E in IH. destruct (IH H) as (q & ? & ? & ?); eauto.
  Qed.

  Lemma In_aliased o : In o aliased -> exists pr, In pr P /\ p_origin pr = o /\ has_alias pr = true.
  Proof.
    unfold Recons.aliased. rewrite in_map_iff. intros (pr & E & H). apply filter_In in H. exists pr; tauto.
  Qed.

  Lemma In_aliases_of o al : In al (aliases_of P o) -> exists pr, In pr P /\ p_origin pr = o /\ p_alias pr = Some al.
  Proof.
    unfold aliases_of. rewrite in_flat_map. intros (pr & Hin & H). exists pr.
    destruct (p_alias pr) as [a|]; [|contradiction].
    destruct (Nat.eqb_spec (p_origin pr) o); [|contradiction]. destruct H as [<-|[]]. auto.
  Qed.

  Lemma alias_rules_kind r : In r (alias_rules P) -> inner_kind r.
  Proof.
    unfold alias_rules. rewrite in_flat_map. intros (o & Ho & H).
    apply In_nodup_nat in Ho. apply In_aliased in Ho. destruct Ho as (pr & Hin & <- & Ha).
    apply in_app_or in H. destruct H as [H|[<-|[]]].
    - apply in_map_iff in H. destruct H as (al & <- & Hal). apply In_aliases_of in Hal.
      destruct Hal as (pr' & Hin' & Eo & Eal). rewrite <- Eo. apply ik_alias; auto.
    - apply ik_origin; auto.
  Qed.

  Lemma rules_kind r : In r rules -> inner_kind r.
  Proof.
    unfold Recons.rules. intros H. apply In_best in H. apply in_rev in H. unfold yielded in H.
    apply in_app_or in H. destruct H as [H|H].
    - eapply build_loop_fst; eauto.
    - apply alias_rules_kind; auto.
  Qed.

  Lemma rfr_kind data r : In r (rfr data) -> exists pr, In pr P /\ r = regular pr /\ sym_name pr = data.
  Proof.
    unfold Recons.rfr. intros H. apply In_best in H. unfold rfr_raw in H.
    apply in_map_iff in H. destruct H as ((n & r') & E & H). simpl in E. subst r'.
    apply filter_In in H. destruct H as (H & En). simpl in En. apply Nat.eqb_eq in En. subst n.
    unfold rfr_all in H. apply build_loop_snd in H. destruct H as (pr & ? & ? & ?). exists pr; auto.
  Qed.

  (* ---- Part B ---------------------------------------------------------------------------------- *)
  (* well-formed derivation trees of the compiled rules *)
  Inductive wf : dtree -> Prop :=
  | wf_tok n s : wf (DTok n s)
  | wf_node r ds : In r P -> wf_args (p_exp r) ds -> wf (DNode r ds)
  with wf_args : list sym -> list dtree -> Prop :=
  | wfa_nil : wf_args [] []
  | wfa_tm n fo s ss ds : wf_args ss ds -> wf_args (Tm n fo :: ss) (DTok n s :: ds)
  | wfa_nt a r ds0 ss ds : p_origin r = a -> wf (DNode r ds0) -> wf_args ss ds ->
      wf_args (Nt a :: ss) (DNode r ds0 :: ds).

  (* matches of the tree-matching grammar: inner nodes take their rule from Gi *)
  Inductive uargs_gen (V : utree -> Prop) : list symbol -> list utree -> Prop :=
  | ua_nil : uargs_gen V [] []
  | ua_t t c ss args : cmatch t c = true -> uargs_gen V ss args -> uargs_gen V (T t :: ss) (ULeaf c :: args)
  | ua_nt a r args0 ss args : r_origin r = a -> V (UNode r args0) -> uargs_gen V ss args ->
      uargs_gen V (NT a :: ss) (UNode r args0 :: args).
  Inductive uvalid (Gi : list rrule) : utree -> Prop :=
  | uv_node r args : In r Gi -> uargs_gen (uvalid Gi) (r_exp r) args -> uvalid Gi (UNode r args).

  (* a supported match of node (Node data cs): root rule from rules_for_root[data], inner rules from
     self.rules, leaves = children, and a node named by an expand1 rule has not exactly one child *)
  Definition supported (u : utree) (data : nat) (cs : list stree) : Prop :=
    exists r args, u = UNode r args /\ In r (rfr data) /\ uargs_gen (uvalid rules) (r_exp r) args /\
                   leaves u = cs /\ (In data expand1s -> length cs <> 1).

  (* the class of rule sets (boolean form: ReconsCheck.class_b) *)
  Record cls : Prop := {
    c_closed : forall r a, In r P -> In (Nt a) (p_exp r) -> In a rule_names;
    c_alias : forall r al, In r P -> p_alias r = Some al ->
              ~ In al rule_names /\ us al = false /\
              (forall r', In r' P -> p_alias r' = Some al -> p_origin r' = p_origin r);
    c_uscore : forall r, In r P -> us (p_origin r) = true -> p_alias r = None /\ p_expand1 r = false;
    c_uniform : forall r, In r P -> In (p_origin r) expand1s -> p_expand1 r = true;
    c_single : forall r a, In r P -> p_expand1 r = true -> p_alias r = None ->
               filter kept (p_exp r) = [Nt a] -> us a = false
  }.

  Fixpoint utree_ind2 (Q : utree -> Prop) (HL : forall c, Q (ULeaf c))
           (HN : forall r args, Forall Q args -> Q (UNode r args)) (u : utree) : Q u :=
    match u with
    | ULeaf c => HL c
    | UNode r args =>
        HN r args ((fix go (l : list utree) : Forall Q l :=
                      match l with
                      | [] => Forall_nil _
                      | x :: l' => Forall_cons _ (utree_ind2 Q HL HN x) (go l')
                      end) args)
    end.

  Lemma kids_eq r ds : kids us (DNode r ds) = kids_go us (p_exp r) ds.
  Proof.
    simpl. generalize (p_exp r). induction ds as [|d ds IH]; intros [|s ss]; simpl; auto.
    rewrite IH. f_equal. destruct s as [n fo|a]; simpl; auto.
    destruct (us a); auto. destruct d; reflexivity.
  Qed.

  Lemma In_rule_names r : In r P -> In (p_origin r) rule_names.
  Proof. intros. unfold Recons.rule_names. apply in_map; auto. Qed.

  Lemma In_expand1s o : In o expand1s -> exists pr, In pr P /\ p_origin pr = o /\ p_expand1 pr = true.
  Proof.
    unfold Recons.expand1s. rewrite in_map_iff. intros (pr & E & H). apply filter_In in H. exists pr; tauto.
  Qed.

  Lemma expand1s_names o : In o expand1s -> In o rule_names.
  Proof. intros H. apply In_expand1s in H. destruct H as (pr & Hin & <- & _). apply In_rule_names; auto. Qed.

  Section WithClass.
    Hypothesis Hc : cls.
    Variable lit : nat -> option string.
    Variable Y : stree -> list token.       (* token sequences of the sub-derivations *)

    Definition tokitem (it : witem) : list token :=
      match it with
      | WStr n s => [(n, s)]
      | WChild (Tok n s) => [(n, s)]
      | WChild c => Y c
      end.
    Definition expandY (items : list witem) : list token := flat_map tokitem items.

    (* what is known about a child subtree: some derivation with that shape whose yield is Y c *)
    Definition sub_ok (c : stree) : Prop :=
      match c with
      | Tok _ _ => True
      | Node data cs => exists pr ds, wf (DNode pr ds) /\ sym_name pr = data /\
                                      shape us (DNode pr ds) = c /\ yield (DNode pr ds) = Y c
      end.
    Definition items_ok (items : list witem) : Prop := forall c, In (WChild c) items -> sub_ok c.

    Lemma items_ok_app l1 l2 : items_ok (l1 ++ l2) -> items_ok l1 /\ items_ok l2.
    Proof. unfold items_ok. split; intros; apply H; apply in_or_app; auto. Qed.
    Lemma items_ok_cons x l : items_ok (x :: l) -> items_ok l.
    Proof. unfold items_ok. intros H c Hc'. apply H. right; auto. Qed.

    Lemma expandY_app l1 l2 : expandY (l1 ++ l2) = expandY l1 ++ expandY l2.
    Proof. unfold expandY. apply flat_map_app. Qed.

    (* a name that is a rule name is not an alias: the rule whose sym_name it is has that origin *)
    Lemma sym_name_rule pr a : In pr P -> sym_name pr = a -> In a rule_names -> p_alias pr = None /\ p_origin pr = a.
    Proof.
      intros Hin E Ha. unfold sym_name in E. destruct (p_alias pr) as [al|] eqn:Eal; auto.
      subst al. destruct (c_alias Hc _ _ Hin Eal) as (Hn & _). contradiction.
    Qed.

    Lemma wf_root pr ds : wf (DNode pr ds) -> In pr P /\ wf_args (p_exp pr) ds.
    Proof. inversion 1; auto. Qed.

    Definition Pnode (u : utree) : Prop :=
      uvalid rules u -> forall r args, u = UNode r args -> In (r_origin r) rule_names ->
      forall items, write lit u = OList (Ok items) -> items_ok items ->
      exists pr ds, wf (DNode pr ds) /\ p_origin pr = r_origin r /\
                    contrib us (Nt (r_origin r)) (DNode pr ds) = leaves u /\
                    yield (DNode pr ds) = expandY items.

    Lemma walk_sound : forall ss args, Forall Pnode args ->
      uargs_gen (uvalid rules) (map recons_sym (filter kept ss)) args ->
      (forall a, In (Nt a) ss -> In a rule_names) ->
      forall items, walk lit ss (map (write lit) args) = Ok items -> items_ok items ->
      exists ds, wf_args ss ds /\ kids_go us ss ds = flat_map leaves args /\ flat_map yield ds = expandY items.
    Proof.
      induction ss as [|s ss IH]; intros args HP Hu Hcl items Hw Hok.
      - simpl in Hu. inversion Hu; subst. simpl in Hw. inversion Hw; subst.
        exists []. repeat split; constructor.
      - assert (Hcl' : forall a, In (Nt a) ss -> In a rule_names) by (intros; apply Hcl; right; auto).
        destruct s as [n fo|a].
        + destruct fo.
          * (* filtered terminal: re-inserted from its literal *)
            simpl in Hu. simpl in Hw. destruct (lit n) as [v|] eqn:El; [|discriminate].
            destruct (walk lit ss (map (write lit) args)) as [l| |] eqn:Ew; simpl in Hw; try discriminate.
            inversion Hw; subst items. apply items_ok_cons in Hok.
            destruct (IH args HP Hu Hcl' l Ew Hok) as (ds & Hwf & Hk & Hy).
            exists (DTok n v :: ds). repeat split.
            -- constructor; auto.
            -- simpl. exact Hk.
            -- simpl. rewrite Hy. reflexivity.
          * (* kept terminal: the child token *)
            simpl in Hu. inversion Hu as [|t c ss0 args' Hm Hu'|]; subst.
            inversion HP as [|? ? _ HP']; subst.
            simpl in Hw. destruct c as [ty text|d cs'].
            -- destruct (Nat.eqb_spec ty n) as [->|]; [|discriminate].
               destruct (walk lit ss (map (write lit) args')) as [l| |] eqn:Ew; simpl in Hw; try discriminate.
               inversion Hw; subst items. apply items_ok_cons in Hok.
               destruct (IH args' HP' Hu' Hcl' l Ew Hok) as (ds & Hwf & Hk & Hy).
               exists (DTok n text :: ds). repeat split.
               ++ constructor; auto.
               ++ simpl. rewrite Hk. reflexivity.
               ++ simpl. rewrite Hy. reflexivity.
            -- discriminate.
        + simpl in Hu. unfold Recons.recons_sym in Hu. fold recons_sym in Hu.
          destruct (is_nonterminal a) eqn:Enon.
          * (* inlined non-terminal: a nested match node *)
            inversion Hu as [| |a0 r' args0 ss0 args' Ho Hv Hu']; subst.
            inversion HP as [|? ? HP0 HP']; subst.
            assert (Hin : In (r_origin r') rule_names).
            { unfold Recons.is_nonterminal in Enon. apply andb_true_iff in Enon. apply memn_In. tauto. }
            cbn [map walk discarded] in Hw.
            destruct (write lit (UNode r' args0)) as [c0|l0] eqn:Ewr; [simpl in Ewr; discriminate|].
            destruct l0 as [l1| |]; simpl in Hw; try discriminate.
            destruct (walk lit ss (map (write lit) args')) as [l2| |] eqn:Ew; simpl in Hw; try discriminate.
            inversion Hw; subst items. apply items_ok_app in Hok. destruct Hok as (Hok1 & Hok2).
            destruct (HP0 Hv r' args0 eq_refl Hin l1 Ewr Hok1) as (pr & ds0 & Hwf0 & Hor & Hct & Hy0).
            destruct (IH args' HP' Hu' Hcl' l2 Ew Hok2) as (ds & Hwf & Hk & Hy).
            exists (DNode pr ds0 :: ds). repeat split.
            -- constructor; auto.
            -- cbn [kids_go flat_map]. rewrite Hct, Hk. reflexivity.
            -- cbn [flat_map]. rewrite Hy0, Hy, expandY_app. reflexivity.
          * (* plain non-terminal: the child subtree, with the derivation known for it *)
            inversion Hu as [|t c ss0 args' Hm Hu'|]; subst.
            inversion HP as [|? ? _ HP']; subst.
            simpl in Hw. destruct c as [ty text|d cs']; [discriminate|].
            destruct (Nat.eqb_spec d a) as [->|]; [|discriminate].
            destruct (walk lit ss (map (write lit) args')) as [l| |] eqn:Ew; simpl in Hw; try discriminate.
            inversion Hw; subst items.
            assert (Hsub : sub_ok (Node a cs')) by (apply Hok; left; auto).
            apply items_ok_cons in Hok.
            destruct (IH args' HP' Hu' Hcl' l Ew Hok) as (ds & Hwf & Hk & Hy).
            destruct Hsub as (pr & ds0 & Hwf0 & Hsn & Hsh & Hy0).
            assert (Ha : In a rule_names) by (apply Hcl; left; auto).
            destruct (wf_root _ _ Hwf0) as (HinP & _).
            destruct (sym_name_rule _ _ HinP Hsn Ha) as (_ & Hor).
            assert (Hus : us a = false).
            { unfold Recons.is_nonterminal in Enon. apply memn_In in Ha. rewrite Ha in Enon. simpl in Enon.
              apply orb_false_iff in Enon. destruct Enon as (Enon & _). apply orb_false_iff in Enon. tauto. }
            exists (DNode pr ds0 :: ds). repeat split.
            -- constructor; auto.
            -- cbn [kids_go contrib flat_map leaves]. rewrite Hus, Hsh, Hk. reflexivity.
            -- cbn [flat_map]. rewrite Hy0, Hy. reflexivity.
    Qed.

    Lemma kids_go_none : forall ss ds, wf_args ss ds -> filter kept ss = [] -> kids_go us ss ds = [].
    Proof.
      induction ss as [|s ss IH]; intros ds Hwf Hf;
        inversion Hwf as [|n fo t ss0 ds0 Hwf'|a r ds0 ss0 ds1 Ho Hwd Hwf']; subst; auto.
      - simpl in Hf. unfold kept in Hf. simpl in Hf. destruct fo; simpl in Hf; [|discriminate].
        simpl. apply IH; auto.
      - simpl in Hf. discriminate.
    Qed.

    Lemma kids_go_single : forall ss ds s, wf_args ss ds -> filter kept ss = [s] ->
      (forall a, s = Nt a -> us a = false) -> exists k, kids_go us ss ds = [k].
    Proof.
      induction ss as [|s0 ss IH]; intros ds s Hwf Hf Hs;
        inversion Hwf as [|n fo t ss0 ds0 Hwf'|a r ds0 ss0 ds1 Ho Hwd Hwf']; subst.
      - discriminate.
      - simpl in Hf. unfold kept in Hf. simpl in Hf. destruct fo; simpl in Hf.
        + destruct (IH _ _ Hwf' Hf Hs) as (k & Hk). exists k. simpl. exact Hk.
        + inversion Hf as [[E1 E2]]. exists (Tok n t). simpl. rewrite (kids_go_none _ _ Hwf' E2). reflexivity.
      - simpl in Hf. inversion Hf as [[E1 E2]]. exists (shape us (DNode r ds0)).
        cbn [kids_go contrib]. rewrite (Hs _ (eq_sym E1)), (kids_go_none _ _ Hwf' E2). reflexivity.
    Qed.

    Lemma us_false_of_alias pr : In pr P -> has_alias pr = true -> us (p_origin pr) = false.
    Proof.
      intros Hin Ha. destruct (us (p_origin pr)) eqn:E; auto.
      destruct (c_uscore Hc _ Hin E) as (Hn & _). unfold has_alias in Ha. rewrite Hn in Ha. discriminate.
    Qed.

    Lemma us_false_of_expand1 o : In o expand1s -> us o = false.
    Proof.
      intros H. apply In_expand1s in H. destruct H as (pr & Hin & <- & He).
      destruct (us (p_origin pr)) eqn:E; auto.
      destruct (c_uscore Hc _ Hin E) as (_ & Hn). congruence.
    Qed.

    (* unit rules: the single argument is a child subtree named nm, whose derivation starts at origin o *)
    Lemma unit_sound o nm args :
      In o rule_names -> us o = false ->
      (forall pr, In pr P -> sym_name pr = nm -> p_origin pr = o) ->
      uargs_gen (uvalid rules) [T nm] args ->
      forall items, walk lit [Nt nm] (map (write lit) args) = Ok items -> items_ok items ->
      exists pr ds, wf (DNode pr ds) /\ p_origin pr = o /\
                    contrib us (Nt o) (DNode pr ds) = flat_map leaves args /\
                    yield (DNode pr ds) = expandY items.
    Proof.
      intros Ho Hus Horig Hu items Hw Hok.
      inversion Hu as [|t c ss0 args' Hm Hu'|]; subst. inversion Hu'; subst.
      simpl in Hw. destruct c as [ty text|d cs']; [discriminate|].
      destruct (Nat.eqb_spec d nm) as [->|]; [|discriminate]. inversion Hw; subst items.
      assert (Hsub : sub_ok (Node nm cs')) by (apply Hok; left; auto).
      destruct Hsub as (pr & ds0 & Hwf0 & Hsn & Hsh & Hy0).
      destruct (wf_root _ _ Hwf0) as (HinP & _).
      exists pr, ds0. repeat split; auto.
      - cbn [contrib flat_map leaves]. rewrite Hus, Hsh. reflexivity.
      - rewrite Hy0. unfold expandY. simpl. rewrite app_nil_r. reflexivity.
    Qed.

    Lemma node_sound : forall u, Pnode u.
    Proof.
      apply utree_ind2; [intros c _ r args E; discriminate|].
      intros r args HP Hv r0 args0 E Hname items Hw Hok. inversion E; subst r0 args0. clear E.
      inversion Hv as [r1 args1 Hin Hu]; subst.
      simpl in Hw. assert (Hw' : walk lit (r_orig r) (map (write lit) args) = Ok items) by congruence.
      clear Hw. apply rules_kind in Hin. destruct Hin as [pr HinP Hinl Hlen | pr al HinP Hal | pr HinP Hal | pr HinP He1].
      - (* image of a parser rule *)
        cbn [regular Recons.regular r_origin r_exp r_orig] in *.
        destruct (sym_name_rule _ _ HinP eq_refl Hname) as (Hnone & Hor).
        destruct (walk_sound (p_exp pr) args HP Hu (fun a Ha => c_closed Hc _ _ HinP Ha) items Hw' Hok)
          as (ds & Hwf & Hk & Hy).
        exists pr, ds. repeat split; auto.
        + constructor; auto.
        + cbn [contrib leaves]. rewrite <- Hor. destruct (us (p_origin pr)) eqn:Eus.
          * rewrite kids_eq. exact Hk.
          * rewrite <- Hor in Hinl, Hlen. rewrite Eus in Hinl. simpl in Hinl.
            rewrite Hinl in Hlen. simpl in Hlen. apply negb_false_iff in Hlen. apply Nat.eqb_eq in Hlen.
            assert (He : p_expand1 pr = true).
            { apply (c_uniform Hc); auto. apply memn_In; auto. }
            unfold Recons.recons_exp in Hlen. rewrite map_length in Hlen.
            destruct (filter kept (p_exp pr)) as [|s [|? ?]] eqn:Ef; simpl in Hlen; try discriminate.
            destruct (kids_go_single _ _ s Hwf Ef) as (k & Hk1).
            { intros a ->. eapply (c_single Hc); eauto. }
            unfold shape, wrap. rewrite He. unfold has_alias. rewrite Hnone. cbn [negb andb].
            rewrite kids_eq, Hk1. rewrite <- Hk, Hk1. reflexivity.
      - (* origin -> alias *)
        cbn [unit_rule r_origin r_exp r_orig] in *.
        destruct (c_alias Hc _ _ HinP Hal) as (Hnn & _ & Hsame).
        apply (unit_sound (p_origin pr) al args); auto.
        + apply us_false_of_alias; auto. unfold has_alias. rewrite Hal. reflexivity.
        + intros pr' Hin' Hsn. unfold sym_name in Hsn. destruct (p_alias pr') as [al'|] eqn:E'.
          * subst al'. apply Hsame; auto.
          * exfalso. apply Hnn. rewrite <- Hsn. apply In_rule_names; auto.
      - (* aliased origin -> origin *)
        cbn [unit_rule r_origin r_exp r_orig] in *.
        apply (unit_sound (p_origin pr) (p_origin pr) args); auto.
        + apply us_false_of_alias; auto.
        + intros pr' Hin' Hsn. apply (sym_name_rule _ _ Hin' Hsn Hname).
      - (* expand1 name -> itself *)
        cbn [unit_rule r_origin r_exp r_orig] in *.
        apply memn_In in He1.
        apply (unit_sound (sym_name pr) (sym_name pr) args); auto.
        + apply us_false_of_expand1; auto.
        + intros pr' Hin' Hsn. apply (sym_name_rule _ _ Hin' Hsn Hname).
    Qed.

    (* core theorem: one node *)
    Theorem write_tokens_yield data cs u items :
      supported u data cs -> write lit u = OList (Ok items) -> items_ok items ->
      exists pr ds, wf (DNode pr ds) /\ sym_name pr = data /\
                    kids us (DNode pr ds) = cs /\ shape us (DNode pr ds) = Node data cs /\
                    yield (DNode pr ds) = expandY items.
    Proof.
      intros (r & args & -> & Hin & Hu & Hl & Hne) Hw Hok.
      apply rfr_kind in Hin. destruct Hin as (pr & HinP & -> & Hsn).
      cbn [regular Recons.regular r_origin r_exp r_orig] in *.
      simpl in Hw. assert (Hw' : walk lit (p_exp pr) (map (write lit) args) = Ok items) by congruence.
      assert (HP : Forall Pnode args) by (apply Forall_forall; intros; apply node_sound).
      destruct (walk_sound (p_exp pr) args HP Hu (fun a Ha => c_closed Hc _ _ HinP Ha) items Hw' Hok)
        as (ds & Hwf & Hk & Hy).
      simpl in Hl. exists pr, ds.
      assert (Hkids : kids us (DNode pr ds) = cs) by (rewrite kids_eq, Hk; exact Hl).
      repeat split; auto.
      - constructor; auto.
      - unfold shape. rewrite Hkids. unfold wrap.
        destruct (p_expand1 pr && negb (has_alias pr)) eqn:E; [|rewrite Hsn; reflexivity].
        apply andb_true_iff in E. destruct E as (He & Ha). apply negb_true_iff in Ha.
        assert (Hor : sym_name pr = p_origin pr).
        { unfold sym_name, has_alias in *. destruct (p_alias pr); [discriminate|reflexivity]. }
        assert (Hd : In data expand1s).
        { rewrite <- Hsn, Hor. unfold Recons.expand1s. apply in_map. apply filter_In; auto. }
        specialize (Hne Hd). rewrite Hsn.
        destruct cs as [|k [|? ?]]; auto. simpl in Hne. congruence.
    Qed.
  End WithClass.

  (* ---- Part C ---------------------------------------------------------------------------------- *)
  Lemma expand_ok g items : forall toks, expand g items = Ok toks ->
    (forall c, In (WChild c) items -> match c with Tok _ _ => True | Node _ _ => exists l, g c = Ok l end) /\
    toks = expandY (fun c => match g c with Ok l => l | _ => [] end) items.
  Proof.
    induction items as [|it items IH]; intros toks H; simpl in H.
    - inversion H. split; [intros c []|reflexivity].
    - destruct it as [n s|c].
      + destruct (expand g items) as [l| |] eqn:E; simpl in H; try discriminate. inversion H; subst.
        destruct (IH l eq_refl) as (H1 & H2). split.
        * intros c [Hc|Hc]; [discriminate|exact (H1 _ Hc)].
        * unfold expandY in *. simpl. rewrite <- H2. reflexivity.
      + destruct c as [n s|d cs].
        * destruct (expand g items) as [l| |] eqn:E; simpl in H; try discriminate. inversion H; subst.
          destruct (IH l eq_refl) as (H1 & H2). split.
          -- intros c [Hc|Hc]; [inversion Hc; exact I|exact (H1 _ Hc)].
          -- unfold expandY in *. simpl. rewrite <- H2. reflexivity.
        * destruct (g (Node d cs)) as [l1| |] eqn:Eg; simpl in H; try discriminate.
          destruct (expand g items) as [l2| |] eqn:E; simpl in H; try discriminate. inversion H; subst.
          destruct (IH l2 eq_refl) as (H1 & H2). split.
          -- intros c [Hc|Hc]; [inversion Hc; subst; eauto|exact (H1 _ Hc)].
          -- unfold expandY in *. simpl. rewrite Eg, <- H2. reflexivity.
  Qed.

  Section Sound.
    Hypothesis Hc : cls.
    Variable lit : nat -> option string.
    Variable M : stree -> option utree.
    (* what is assumed of match_tree: whatever it returns is a supported match of the node *)
    Hypothesis M_ok : forall t u, M t = Some u -> exists data cs, t = Node data cs /\ supported u data cs.

    Theorem recons_token_sound : forall fuel t toks, recon lit M fuel t = Ok toks ->
      exists data cs pr ds, t = Node data cs /\ wf (DNode pr ds) /\ sym_name pr = data /\
                            shape us (DNode pr ds) = t /\ yield (DNode pr ds) = toks.
    Proof.
      induction fuel as [|f IH]; intros t toks H; simpl in H; [discriminate|].
      destruct t as [n s|data cs]; [discriminate|].
      destruct (M (Node data cs)) as [u|] eqn:EM; [|discriminate].
      destruct (M_ok _ _ EM) as (data' & cs' & E & Hsup). inversion E; subst data' cs'. clear E.
      destruct (write lit u) as [c0|[items| |]] eqn:Ew; try discriminate.
      destruct (expand_ok _ _ _ H) as (Hsub & ->).
      set (Y := fun c => match recon lit M f c with Ok l => l | _ => [] end).
      destruct (write_tokens_yield Hc lit Y data cs u items Hsup Ew) as (pr & ds & Hwf & Hsn & _ & Hsh & Hy).
      - intros c Hin. specialize (Hsub c Hin). destruct c as [n s|d cs0]; [exact I|]. unfold sub_ok.
        destruct Hsub as (l & El). destruct (IH _ _ El) as (d' & cs' & pr & ds & E & Hwf & Hsn & Hsh & Hy).
        exists pr, ds. repeat split; auto; try congruence. unfold Y. rewrite El. exact Hy.
      - exists data, cs, pr, ds. repeat split; auto.
    Qed.

    (* the parser as a specification: some derivation from the start symbol with that yield; its tree is the shape *)
    Definition parses (start : nat) (toks : list token) (t : stree) : Prop :=
      exists pr ds, wf (DNode pr ds) /\ p_origin pr = start /\ yield (DNode pr ds) = toks /\
                    shape us (DNode pr ds) = t.
    Definition unambiguous (start : nat) : Prop :=
      forall r1 ds1 r2 ds2, wf (DNode r1 ds1) -> wf (DNode r2 ds2) -> p_origin r1 = start -> p_origin r2 = start ->
        yield (DNode r1 ds1) = yield (DNode r2 ds2) -> DNode r1 ds1 = DNode r2 ds2.

    Lemma same_name_same_origin pr pr0 : In pr P -> In pr0 P -> sym_name pr = sym_name pr0 -> p_origin pr = p_origin pr0.
    Proof.
      intros Hin Hin0 E. unfold sym_name in E.
      destruct (p_alias pr0) as [al0|] eqn:E0; destruct (p_alias pr) as [al|] eqn:E1.
      - subst al. destruct (c_alias Hc _ _ Hin0 E0) as (_ & _ & Hs). apply Hs; auto.
      - destruct (c_alias Hc _ _ Hin0 E0) as (Hn & _). exfalso. apply Hn. rewrite <- E. apply In_rule_names; auto.
      - destruct (c_alias Hc _ _ Hin E1) as (Hn & _). exfalso. apply Hn. rewrite E. apply In_rule_names; auto.
      - exact E.
    Qed.

    (* token-level round trip, the part that is proved: IF reconstruction of a parser tree succeeds, the token
       sequence is accepted and (for an unambiguous grammar) the parser's tree for it is the original tree *)
    Theorem recons_token_roundtrip_partial start pr0 ds0 fuel toks :
      wf (DNode pr0 ds0) -> p_origin pr0 = start -> ~ In start expand1s ->
      recon lit M fuel (shape us (DNode pr0 ds0)) = Ok toks ->
      parses start toks (shape us (DNode pr0 ds0)) /\
      (unambiguous start -> forall t', parses start toks t' -> t' = shape us (DNode pr0 ds0)).
    Proof.
      intros Hwf0 Hs0 Hne H.
      destruct (recons_token_sound _ _ _ H) as (data & cs & pr & ds & E & Hwf & Hsn & Hsh & Hy).
      destruct (wf_root _ _ Hwf0) as (Hin0 & _). destruct (wf_root _ _ Hwf) as (Hin & _).
      assert (He0 : p_expand1 pr0 = false).
      { destruct (p_expand1 pr0) eqn:Ee; auto. exfalso. apply Hne. rewrite <- Hs0.
        unfold Recons.expand1s. apply in_map. apply filter_In; auto. }
      assert (Hd : data = sym_name pr0).
      { unfold shape, wrap in E. rewrite He0 in E. simpl in E. inversion E; auto. }
      assert (Ho : p_origin pr = start).
      { rewrite <- Hs0. apply same_name_same_origin; auto. congruence. }
      assert (Hp : parses start toks (shape us (DNode pr0 ds0))).
      { exists pr, ds. repeat split; auto. }
      split; auto.
      intros Hun t' (pr' & ds' & Hwf' & Ho' & Hy' & Hsh').
      assert (DNode pr' ds' = DNode pr ds) by (apply Hun; auto; congruence).
      rewrite <- Hsh', H0. exact Hsh.
    Qed.
  End Sound.
End Proofs.
