(* Comparison functions for the per-grammar relex_safe cases of C19 (no proofs).
   check_safe : one case per generated grammar - the lexer's terminals, the literals the Reconstructor re-inserts, the
                harness's own evaluation of the condition on lark's real scanner order, and whether every reconstructed
                text of that grammar lexed back to the written tokens (observed H_relex).  The model's verdict must
                equal the harness's, the scanner order must be lark's, and "safe" must never meet a failed re-lex.
   check_mcp  : the computed matcher m_cp against the table of Python re matches recorded on a reconstructed text
                (same cases as RelexCheck.check_relex): equal at every position for every supported terminal, and the
                keyword ("unless") pairs are the same. *)
From Coq Require Import ZArith String Ascii List Arith Bool.
From LV Require Import Base.Prelude Lex.LexerBase Lex.Lexer Lex.LexerCheck Recons.Recons Recons.Relex Recons.RelexCheck
     Recons.RelexSafe.
Import ListNotations.

Record sfcase := mkSf {
  s_terms : list term; s_ign : list string; s_names : list string; s_lits : list (nat * string);
  s_flat : list string;          (* lark: the scanner's terminals in trial order *)
  s_pred : bool;                 (* the harness's evaluation of the condition on that order *)
  s_all_relex : bool             (* every reconstructed text of this grammar lexed back to the written tokens *)
}.

Definition check_safe (c : sfcase) : bool :=
  match make_lexer m_cp (cok_limit 0) (s_terms c) (s_ign c) with
  | None => false
  | Some L =>
      let safe := relex_safe_b (s_names c) L (s_lits c) in
      (* the scanner order is compared only where the matcher is meaningful (keyword analysis uses it) *)
      (negb (forallb term_ok (s_terms c)) || strs_eqb (map tname (flat L)) (s_flat c))
      && Bool.eqb safe (s_pred c)
      && (negb safe || s_all_relex c)
  end.

(* verdict code for the harness: 0 ok, 1 lexer build, 2 scanner order, 3 prediction differs, 4 safe but re-lex failed *)
Definition check_safe_code (c : sfcase) : nat :=
  match make_lexer m_cp (cok_limit 0) (s_terms c) (s_ign c) with
  | None => 1
  | Some L =>
      let safe := relex_safe_b (s_names c) L (s_lits c) in
      if negb (negb (forallb term_ok (s_terms c)) || strs_eqb (map tname (flat L)) (s_flat c)) then 2
      else if negb (Bool.eqb safe (s_pred c)) then 3
      else if negb (negb safe || s_all_relex c) then 4 else 0
  end.

Definition onat_eq (a b : option nat) : bool :=
  match a, b with Some x, Some y => Nat.eqb x y | None, None => true | _, _ => false end.

Definition check_mcp (c : rxcase) : bool :=
  negb (forallb term_ok (x_terms c)) ||
  (forallb (fun t =>
      forallb (fun p => onat_eq (m_cp t (x_text c) p) (assoc_nat (tname t) (nth p (x_tab c) [])))
              (seq 0 (S (String.length (x_text c))))) (x_terms c)
   && forallb (fun R => negb (tre R) ||
         forallb (fun K => tre K ||
            Bool.eqb (mem_pair (tname R) (tvalue K) (x_unl c))
                     (onat_eq (m_cp R (tvalue K) 0) (Some (String.length (tvalue K))))) (x_terms c)) (x_terms c)).

(* both checks of a character-level case in one evaluation; the code says which one failed *)
Definition check_relex_all (c : rxcase) : bool := check_relex c && check_mcp c.
Definition check_relex_code (c : rxcase) : nat :=
  if negb (check_relex c) then 1 else if negb (check_mcp c) then 2 else 0.
