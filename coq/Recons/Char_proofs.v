(* C19, character level: the token-level round trip (Earley tree matcher, graph resolve) composed with the lexer model.
   parse(reconstruct(t)) = t for the char-level parser "BasicLexer model, then the parser specification", under the
   decidable boundary condition bc_b on the written tokens (H_relex made explicit; F12 is a grammar where it fails). *)
From Coq Require Import ZArith String Ascii List Arith Bool.
From LV Require Import Base.Prelude Cfg.Grammar Lex.LexerBase Lex.Lexer Forest.ExplicitBuild Forest.ExplicitAlgBuild
     Recons.Recons Recons.ReconsCheck Recons.Recons_proofs Recons.Complete_proofs Recons.Roundtrip_proofs
     Recons.Text_proofs Recons.EarleyM Recons.EarleyM_proofs Recons.EarleyM_sel Recons.Relex Recons.Relex_proofs.
Import ListNotations.

Lemma lookup_lit_app a b n : lookup_lit (a ++ b) n = lit_subs (lookup_lit a) (lookup_lit b) n.
Proof.
  unfold lit_subs. induction a as [|[k v] a IH]; simpl; auto.
  destruct (Nat.eqb k n); auto.
Qed.

Section Char.
  Variable us : nat -> bool.
  Variable P : list prule.
  Hypothesis Hc : cls us P.
  Hypothesis Hx : cls_extra us P.
  Hypothesis Hplain : plain_roots us P.
  Variable order : nlabel stree -> list (family stree) -> list (family stree).
  Hypothesis order_perm : forall l fs f, In f (order l fs) <-> In f fs.
  Variable lit : nat -> option string.
  Hypothesis Hlit : forall r n, In r P -> In (Tm n true) (p_exp r) -> lit n <> None.
  Hypothesis Hdisj : forall r n fo, In r P -> In (Tm n fo) (p_exp r) ->
                     forall r', In r' P -> p_origin r' <> n /\ p_alias r' <> Some n.
  (* the lexer: regex oracle, re.compile oracle, name table, terminals, ignored names *)
  Variable m : term -> string -> nat -> option nat.
  Variable cok : list term -> bool.
  Variable names : list string.
  Variable terms : list term.
  Variable ign : list string.
  Variable L : blexer.
  Hypothesis HL : make_lexer m cok terms ign = Some L.

  Notation M := (M_earley us P (sel_graph order)).
  Notation lexm := (lex_model m cok names terms ign).

  Theorem char_roundtrip_earley start pr0 ds0 :
    wf P (DNode pr0 ds0) -> p_origin pr0 = start -> ~ In start (expand1s P) -> us start = false ->
    exists fuel toks,
      recon lit M fuel (shape us (DNode pr0 ds0)) = Ok toks /\
      (bc_b m names L (reconstruct_text toks) 0 EmptyString toks = true ->
       lexm (reconstruct_text toks) = Some toks /\
       parses_text us P lexm start (reconstruct_text toks) (shape us (DNode pr0 ds0)) /\
       (unambiguous P start ->
        forall t', parses_text us P lexm start (reconstruct_text toks) t' -> t' = shape us (DNode pr0 ds0))).
  Proof.
    intros Hwf Hs Hne Hus.
    destruct (recons_token_roundtrip_earley_graph order order_perm us P Hc Hx Hplain lit Hlit Hdisj
                start pr0 ds0 Hwf Hs Hne Hus) as (fuel & toks & Hr & Hp & Hu).
    exists fuel, toks. split; auto. intros Hb.
    pose proof (relex_model m cok names terms ign L toks HL Hb) as Hlex.
    split; auto. split.
    - exists toks. split; auto.
    - intros Hun t' (toks' & El & Hp'). rewrite Hlex in El. inversion El; subst toks'. apply Hu; auto.
  Qed.
End Char.
