(* C19, text level: the round trip under H_relex, and the refutation of H_relex (finding F12). *)
From Coq Require Import String Ascii List Arith Bool Lia.
From LV Require Import Base.Prelude Cfg.Grammar Recons.Recons Recons.Recons_proofs Recons.ReconsCheck
     Recons.ReconsCheck_proofs Recons.Text.
Import ListNotations.
Local Open Scope string_scope.

Section TextLevel.
  Variable us : nat -> bool.
  Variable P : list prule.
  Hypothesis Hc : cls us P.
  Variable lit : nat -> option string.
  Variable M : stree -> option utree.
  Hypothesis M_ok : forall t u, M t = Some u -> exists data cs, t = Node data cs /\ supported us P u data cs.
  (* the parser's lexer (whatever it is): text -> typed tokens, None when it raises *)
  Variable lex : string -> option (list token).

  Definition parses_text (start : nat) (text : string) (t : stree) : Prop :=
    exists toks, lex text = Some toks /\ parses us P start toks t.

  (* H_relex is the hypothesis `lex (reconstruct_text toks) = Some toks` *)
  Theorem text_roundtrip start pr0 ds0 fuel toks :
    wf P (DNode pr0 ds0) -> p_origin pr0 = start -> ~ In start (expand1s P) ->
    recon lit M fuel (shape us (DNode pr0 ds0)) = Ok toks ->
    lex (reconstruct_text toks) = Some toks ->
    parses_text start (reconstruct_text toks) (shape us (DNode pr0 ds0)) /\
    (unambiguous P start ->
     forall t', parses_text start (reconstruct_text toks) t' -> t' = shape us (DNode pr0 ds0)).
  Proof.
    intros Hwf Hs Hne Hr Hlex.
    destruct (recons_token_roundtrip_partial us P Hc lit M M_ok start pr0 ds0 fuel toks Hwf Hs Hne Hr) as (Hp & Hu).
    split.
    - exists toks. split; auto.
    - intros Hun t' (toks' & El & Hp'). rewrite Hlex in El. inversion El; subst toks'. apply Hu; auto.
  Qed.
End TextLevel.

(* ---- F12: H_relex fails.  names: 0 = start, 1 = PLUS, 2 = PP;  PLUS: "+"  PP: "++"  start: PLUS PLUS | PP --- *)
Definition f12_us (n : nat) : bool := false.
Definition f12_r1 : prule := mkP 0 [Tm 1 false; Tm 1 false] None false.
Definition f12_r2 : prule := mkP 0 [Tm 2 false] None false.
Definition f12_P : list prule := [f12_r1; f12_r2].
Definition f12_lits : list (nat * string) := [(1, "+"); (2, "++")].
Definition f12_d0 : dtree := DNode f12_r1 [DTok 1 "+"; DTok 1 "+"].
Definition f12_tree : stree := Node 0 [Tok 1 "+"; Tok 1 "+"].
Definition f12_u : utree :=
  UNode (mkR 0 [T 1; T 1] [Tm 1 false; Tm 1 false]) [ULeaf (Tok 1 "+"); ULeaf (Tok 1 "+")].
Definition f12_ms : list mrec := [(f12_tree, f12_u, [WChild (Tok 1 "+"); WChild (Tok 1 "+")])].
Definition f12_toks : list token := [(1, "+"); (1, "+")].

Theorem H_relex_refuted :
  class_b f12_us f12_P = true /\ table_ok f12_us f12_P f12_ms = true /\
  wf f12_P f12_d0 /\ shape f12_us f12_d0 = f12_tree /\
  recon (lookup_lit f12_lits) (lookup_match f12_ms) 2 f12_tree = Ok f12_toks /\
  reconstruct_text f12_toks = "++" /\
  minilex f12_lits (reconstruct_text f12_toks) = Some [(2, "++")] /\
  minilex f12_lits (reconstruct_text f12_toks) <> Some f12_toks /\
  parses f12_us f12_P 0 [(2, "++")] (Node 0 [Tok 2 "++"]) /\
  Node 0 [Tok 2 "++"] <> f12_tree.
Proof.
  repeat split; try (vm_compute; reflexivity); try discriminate.
  - constructor; [left; reflexivity|]. repeat constructor.
  - exists f12_r2, [DTok 2 "++"]. repeat split.
    constructor; [right; left; reflexivity|]. repeat constructor.
Qed.
