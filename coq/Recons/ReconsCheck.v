(* Comparison functions for the C19 correspondence cases (no proofs): boolean forms of the
   hypotheses of the theorems (class of rule sets, supported matches) and the case checker. *)
From Coq Require Import String Ascii List Arith Bool.
From LV Require Import Base.Prelude Cfg.Grammar Recons.Recons.
Import ListNotations.

Fixpoint stree_eqb (a b : stree) : bool :=
  match a, b with
  | Tok n s, Tok m t => Nat.eqb n m && String.eqb s t
  | Node d cs, Node e es =>
      Nat.eqb d e &&
      (fix go (l1 l2 : list stree) : bool :=
         match l1, l2 with
         | [], [] => true
         | x :: r1, y :: r2 => stree_eqb x y && go r1 r2
         | _, _ => false
         end) cs es
  | _, _ => false
  end.

Definition memr (r : rrule) (l : list rrule) : bool := existsb (rrule_eqb r) l.

(* ---- boolean form of the match hypotheses ------------------------------------------------------ *)
(* inner nodes: rule from `Gi`, expansion symbols against args *)
Fixpoint uvalid_b (Gi : list rrule) (u : utree) : bool :=
  match u with
  | ULeaf _ => true
  | UNode r args =>
      memr r Gi &&
      (fix go (ss : list symbol) (args : list utree) {struct args} : bool :=
         match args with
         | [] => match ss with [] => true | _ => false end
         | a :: args' =>
             match ss with
             | [] => false
             | s :: ss' =>
                 (match s, a with
                  | T t, ULeaf c => cmatch t c
                  | NT n, UNode r' _ => Nat.eqb (r_origin r') n && uvalid_b Gi a
                  | _, _ => false
                  end) && go ss' args'
             end
         end) (r_exp r) args
  end.

Fixpoint uargs_b (Gi : list rrule) (ss : list symbol) (args : list utree) : bool :=
  match args with
  | [] => match ss with [] => true | _ => false end
  | a :: args' =>
      match ss with
      | [] => false
      | s :: ss' =>
          (match s, a with
           | T t, ULeaf c => cmatch t c
           | NT n, UNode r' _ => Nat.eqb (r_origin r') n && uvalid_b Gi a
           | _, _ => false
           end) && uargs_b Gi ss' args'
      end
  end.

Section Cls.
  Variable uscore : nat -> bool.
  Variable P : list prule.

  (* supported match of node (Node data cs): root rule from rules_for_root[data] (after best-of-group),
     inner nodes from self.rules, leaves are the children, and a node named by an expand1 rule
     does not have exactly one child *)
  Definition supported_b (u : utree) (data : nat) (cs : list stree) : bool :=
    match u with
    | ULeaf _ => false
    | UNode r args =>
        memr r (rfr uscore P data) && uargs_b (rules uscore P) (r_exp r) args
        && list_eqb stree_eqb (leaves u) cs
        && (negb (memn data (expand1s P)) || negb (Nat.eqb (List.length cs) 1))
    end.

  (* the class of compiled rule sets the theorems are about *)
  Definition closed_b : bool :=
    forallb (fun r => forallb (fun s => match s with Nt a => memn a (rule_names P) | Tm _ _ => true end) (p_exp r)) P.
  Definition alias_ok_b : bool :=
    forallb (fun r => match p_alias r with
                      | None => true
                      | Some al => negb (memn al (rule_names P)) && negb (uscore al)
                                   && forallb (fun r' => match p_alias r' with
                                                         | Some al' => negb (Nat.eqb al al') || Nat.eqb (p_origin r') (p_origin r)
                                                         | None => true end) P
                      end) P.
  Definition uscore_plain_b : bool :=
    forallb (fun r => negb (uscore (p_origin r)) || (negb (has_alias r) && negb (p_expand1 r))) P.
  Definition expand1_uniform_b : bool :=
    forallb (fun r => negb (memn (p_origin r) (expand1s P)) || p_expand1 r) P.
  Definition single_ok_b : bool :=
    forallb (fun r => negb (p_expand1 r) || has_alias r ||
                      match filter kept (p_exp r) with
                      | [Nt a] => negb (uscore a)
                      | _ => true
                      end) P.
  Definition class_b : bool :=
    closed_b && alias_ok_b && uscore_plain_b && expand1_uniform_b && single_ok_b.

  (* the decidable condition under which EVERY derivation of the matching grammar over the children of a parser
     tree is a supported match: no name that owns root rules (rules_for_root) is also an inlined non-terminal of
     the tree-matching grammar - i.e. every un-collapsing alternative of a ?rule and every alternative of an
     aliased origin carries an alias *)
  Definition plain_roots_b : bool :=
    forallb (fun p => negb (is_nonterminal uscore P (fst p))) (rfr_all uscore P).

  (* the further hypotheses of the completeness / full round-trip theorems *)
  Definition extra_b : bool :=
    forallb (fun r => negb (skipped uscore P r) && match filter kept (p_exp r) with [] => false | _ => true end) P.
  Definition lits_b (lit : nat -> option string) : bool :=
    forallb (fun r => forallb (fun s => match s with
                                        | Tm n true => match lit n with Some _ => true | None => false end
                                        | _ => true end) (p_exp r)) P.
  Definition disj_b : bool :=
    forallb (fun r => forallb (fun s => match s with
                                        | Tm n _ => forallb (fun r' => negb (Nat.eqb (p_origin r') n) &&
                                                                      match p_alias r' with
                                                                      | Some al => negb (Nat.eqb al n)
                                                                      | None => true end) P
                                        | Nt _ => true end) (p_exp r)) P.
End Cls.

(* ---- cases --------------------------------------------------------------------------------------- *)
Definition witem_eqb (a b : witem) : bool :=
  match a, b with
  | WStr _ s, WStr _ t => String.eqb s t          (* the implementation's item is a bare str *)
  | WChild c, WChild d => stree_eqb c d
  | _, _ => false
  end.

(* one recorded call of match_tree + write_tokens.transform: node, unreduced tree, written items *)
Definition mrec := (stree * utree * list witem)%type.

Fixpoint lookup_match (tbl : list mrec) (t : stree) : option utree :=
  match tbl with
  | [] => None
  | (t', u, _) :: r => if stree_eqb t t' then Some u else lookup_match r t
  end.

Fixpoint height (t : stree) : nat :=
  match t with
  | Tok _ _ => 1
  | Node _ cs => S (fold_right (fun c m => Nat.max (height c) m) 0 cs)
  end.

(* one reconstruct() call: tree, recorded matches, yielded items (strings), final text *)
Definition run := (stree * list mrec * list string * string)%type.

(* compact transport form of a run (keeps the generated case files small): a match is given by the preorder
   index of its node in the root tree, leaves and written children by their index among the node's children;
   the expansion of a match node is read off its arguments *)
Inductive cutree := CL (i : nat) | CLfull (c : stree) | CU (origin : nat) (orig : list sym) (args : list cutree).
Inductive citem := CS (s : string) | CC (i : nat) | CCfull (c : stree).
Definition cmrec := (nat * cutree * list citem)%type.
Definition crun := (stree * list cmrec * list string * string)%type.

Fixpoint subtrees (t : stree) : list stree :=
  match t with
  | Tok _ _ => [t]
  | Node _ cs => t :: flat_map subtrees cs
  end.

Definition dummy : stree := Tok 0 EmptyString.

Fixpoint expand_u (cs : list stree) (u : cutree) : utree :=
  match u with
  | CL i => ULeaf (nth i cs dummy)
  | CLfull c => ULeaf c
  | CU o orig args =>
      let args' := map (expand_u cs) args in
      UNode (mkR o (map (fun a => match a with
                                  | ULeaf c => T (name_of c)
                                  | UNode r _ => NT (r_origin r)
                                  end) args') orig) args'
  end.

Definition expand_item (cs : list stree) (i : citem) : witem :=
  match i with
  | CS s => WStr 0 s
  | CC k => WChild (nth k cs dummy)
  | CCfull c => WChild c
  end.

Definition expand_run (r : crun) : run :=
  let '(t, ms, toks, text) := r in
  let subs := subtrees t in
  (t, map (fun m : cmrec => let '(k, u, w) := m in
                            let node := nth k subs dummy in
                            let cs := match node with Node _ cs => cs | Tok _ _ => [] end in
                            (node, expand_u cs u, map (expand_item cs) w)) ms, toks, text).

Record rcase := mkCase {
  c_names : list string;
  c_rules : list prule;
  c_lits : list (nat * string);
  c_exp_rules : list rrule;                (* TreeMatcher.rules *)
  c_exp_rfr : list (list rrule);           (* TreeMatcher.rules_for_root[name] for every name index *)
  c_in_class : bool;                       (* the harness's own evaluation of class_b on the rules *)
  c_need_sup : bool;
  c_plain : bool;                          (* the harness's own evaluation of plain_roots_b *)                       (* case generated inside the supported class: matches must be supported *)
  c_cruns : list crun
}.
Definition c_runs (c : rcase) : list run := map expand_run (c_cruns c).

Definition check_rules (c : rcase) : bool :=
  let us := uscore_of (c_names c) in
  list_eqb rrule_eqb (rules us (c_rules c)) (c_exp_rules c)
  && forallb (fun n => list_eqb rrule_eqb (rfr_raw us (c_rules c) n) (nth n (c_exp_rfr c) []))
             (seq 0 (List.length (c_names c))).

Definition check_match (c : rcase) (need_supported : bool) (m : mrec) : bool :=
  let us := uscore_of (c_names c) in
  let '(t, u, w) := m in
  match t with
  | Tok _ _ => false
  | Node data cs =>
      (* a match of the model's grammar for this node *)
      match u with
      | ULeaf _ => false
      | UNode r args =>
          Nat.eqb (r_origin r) data && uvalid_b (G_for us (c_rules c) data) u
          && list_eqb stree_eqb (leaves u) cs
      end
      && (negb need_supported || supported_b us (c_rules c) u data cs)
      && match write (lookup_lit (c_lits c)) u with
         | OList (Ok items) => list_eqb witem_eqb items w
         | _ => false
         end
  end.

Definition check_run (c : rcase) (need_supported : bool) (r : run) : bool :=
  let '(t, ms, toks, text) := r in
  forallb (check_match c need_supported) ms
  && match recon (lookup_lit (c_lits c)) (lookup_match ms) (S (height t)) t with
     | Ok out => list_eqb String.eqb (map snd out) toks && String.eqb (reconstruct_text out) text
     | _ => false
     end.

Definition check_case (c : rcase) : bool :=
  let us := uscore_of (c_names c) in
  check_rules c
  && Bool.eqb (class_b us (c_rules c)) (c_in_class c)
  && Bool.eqb (plain_roots_b us (c_rules c)) (c_plain c)
  && (negb (c_need_sup c) || (extra_b us (c_rules c) && lits_b (c_rules c) (lookup_lit (c_lits c)) && disj_b (c_rules c)))
  && forallb (check_run c (c_need_sup c)) (c_runs c).

(* finer verdicts used by the harness to say which observation point disagrees *)
Definition check_case_code (c : rcase) : nat :=
  let us := uscore_of (c_names c) in
  if negb (check_rules c) then 1
  else if negb (Bool.eqb (class_b us (c_rules c)) (c_in_class c)) then 2
  else if negb (Bool.eqb (plain_roots_b us (c_rules c)) (c_plain c)) then 2
  else if negb (negb (c_need_sup c) || (extra_b us (c_rules c) && lits_b (c_rules c) (lookup_lit (c_lits c)) && disj_b (c_rules c))) then 2
  else if negb (forallb (fun r => let '(_, ms, _, _) := r in forallb (check_match c (c_need_sup c)) ms) (c_runs c)) then 3
  else if negb (forallb (check_run c (c_need_sup c)) (c_runs c)) then 4
  else 0.
