(* C19, stretch: the token-level round trip in full.  For rule sets of the class, a matcher that returns only
   supported matches and returns one whenever one exists, and literals for all filtered terminals:
   reconstruction of every tree the parser can return succeeds, its token sequence is accepted with that tree,
   and for an unambiguous rule set every parse of it gives that tree. *)
From Coq Require Import String Ascii List Arith Bool Lia.
From LV Require Import Base.Prelude Cfg.Grammar Recons.Recons Recons.Recons_proofs Recons.ReconsCheck
     Recons.ReconsCheck_proofs Recons.Complete_proofs.
Import ListNotations.

Lemma height_child d cs c : In c cs -> height c < height (Node d cs).
Proof.
  simpl. induction cs as [|x cs IH]; intros H; [contradiction|]. simpl. destruct H as [->|H].
  - lia.
  - specialize (IH H). lia.
Qed.

Lemma expand_succeeds g items :
  (forall c, In (WChild c) items -> match c with Tok _ _ => True | Node _ _ => exists l, g c = Ok l end) ->
  exists toks, expand g items = Ok toks.
Proof.
  induction items as [|it items IH]; intros H; simpl; [eauto|].
  destruct IH as (l & El). { intros c Hc. apply H. right; auto. }
  destruct it as [n s|c].
  - rewrite El. simpl. eauto.
  - destruct c as [n s|d cs].
    + rewrite El. simpl. eauto.
    + destruct (H (Node d cs)) as (l1 & E1); [left; auto|]. rewrite E1, El. simpl. eauto.
Qed.

Section Full.
  Variable us : nat -> bool.
  Variable P : list prule.
  Hypothesis Hc : cls us P.
  Hypothesis Hx : cls_extra us P.
  Variable lit : nat -> option string.
  (* every filtered terminal is a string literal *)
  Hypothesis Hlit : forall r n, In r P -> In (Tm n true) (p_exp r) -> lit n <> None.
  (* terminal names are neither rule names nor aliases *)
  Hypothesis Hdisj : forall r n fo, In r P -> In (Tm n fo) (p_exp r) ->
                     forall r', In r' P -> p_origin r' <> n /\ p_alias r' <> Some n.

  Notation rules := (rules us P).
  Notation rule_names := (rule_names P).
  Notation recons_sym := (recons_sym us P).
  Notation wf := (wf P).
  Notation wf_args := (wf_args P).

  (* trees the parser can return, and what their children are *)
  Definition ptree (t : stree) : Prop :=
    exists pr ds, wf (DNode pr ds) /\ uncollapsed us (DNode pr ds) /\ shape us (DNode pr ds) = t.
  Definition is_term_name (n : nat) : Prop := exists r fo, In r P /\ In (Tm n fo) (p_exp r).
  Definition child_ok (c : stree) : Prop :=
    match c with Tok n _ => is_term_name n | Node _ _ => ptree c end.

  Lemma uncollapsed_shape pr ds : uncollapsed us (DNode pr ds) ->
    shape us (DNode pr ds) = Node (sym_name pr) (kids us (DNode pr ds)).
  Proof.
    intros (_ & Hu). unfold shape, wrap.
    destruct (p_expand1 pr && negb (has_alias pr)) eqn:E; auto.
    apply andb_true_iff in E. destruct E as (E1 & E2). apply negb_true_iff in E2.
    assert (Hn : p_alias pr = None) by (unfold has_alias in E2; destruct (p_alias pr); [discriminate|auto]).
    specialize (Hu E1 Hn). destruct (kids us (DNode pr ds)) as [|k [|? ?]]; auto. simpl in Hu. congruence.
  Qed.

  Lemma term_not_name n : is_term_name n -> forall r', In r' P -> sym_name r' <> n.
  Proof.
    intros (r & fo & Hin & Hs) r' Hin'. destruct (Hdisj _ _ _ Hin Hs r' Hin') as (H1 & H2).
    unfold sym_name. destruct (p_alias r'); congruence.
  Qed.

  Definition Kd (d : dtree) : Prop :=
    wf d -> match d with
            | DTok _ _ => True
            | DNode pr _ => Forall child_ok (kids us d) /\ (us (p_origin pr) = false -> child_ok (shape us d))
            end.

  Lemma kids_go_children pr : forall ss ds, wf_args ss ds -> Forall Kd ds ->
    (forall s, In s ss -> In s (p_exp pr)) -> In pr P -> Forall child_ok (kids_go us ss ds).
  Proof.
    induction ss as [|s ss IH]; intros ds Hwf HK Hsub HinP;
      inversion Hwf as [|n fo t ss0 ds0 Hwf'|a r ds0 ss0 ds1 Ho Hwd Hwf']; subst.
    - constructor.
    - inversion HK as [|? ? _ HK']; subst. cbn [kids_go contrib]. apply Forall_app. split.
      + destruct fo; [constructor|]. cbn [kids]. constructor; [|constructor].
        exists pr, false. split; auto. apply Hsub. left; auto.
      + apply IH; auto. intros; apply Hsub; right; auto.
    - inversion HK as [|? ? HK0 HK']; subst. cbn [kids_go contrib]. apply Forall_app. split.
      + destruct (HK0 Hwd) as (H1 & H2). destruct (us (p_origin r)) eqn:E; auto.
      + apply IH; auto. intros; apply Hsub; right; auto.
  Qed.

  Lemma child_ok_uncollapsed pr ds : wf (DNode pr ds) -> uncollapsed us (DNode pr ds) ->
    child_ok (shape us (DNode pr ds)).
  Proof.
    intros Hwf Hun. pose proof (uncollapsed_shape _ _ Hun) as E. rewrite E. cbn [child_ok].
    exists pr, ds. split; [exact Hwf|split; [exact Hun|exact E]].
  Qed.

  Lemma kids_children : forall d, Kd d.
  Proof.
    apply dtree_ind2; [intros n s _; exact I|].
    intros pr ds HK Hwf. destruct (wf_root _ _ _ Hwf) as (HinP & Hargs).
    assert (H1 : Forall child_ok (kids us (DNode pr ds))).
    { rewrite kids_eq. apply (kids_go_children pr); auto. }
    split; auto. intros Hus.
    destruct (p_expand1 pr && negb (has_alias pr)) eqn:E.
    - remember (kids us (DNode pr ds)) as ks eqn:Ek. destruct ks as [|k [|k2 ks]].
      + apply child_ok_uncollapsed; auto. split; auto. intros _ _. rewrite <- Ek. simpl. lia.
      + unfold shape, wrap. rewrite E, <- Ek. inversion H1; auto.
      + apply child_ok_uncollapsed; auto. split; auto. intros _ _. rewrite <- Ek. simpl. lia.
    - apply child_ok_uncollapsed; auto. split; auto.
      intros He Ha. unfold has_alias in E. rewrite He, Ha in E. discriminate.
  Qed.

  Lemma ptree_node t : ptree t -> exists pr ds, wf (DNode pr ds) /\ uncollapsed us (DNode pr ds) /\
                                   t = Node (sym_name pr) (kids us (DNode pr ds)) /\ In pr P.
  Proof.
    intros (pr & ds & Hwf & Hun & <-). exists pr, ds. repeat split; auto; try apply Hun.
    - apply uncollapsed_shape; auto.
    - apply (wf_root _ _ _ Hwf).
  Qed.

  (* ---- WriteTokensTransformer does not fail on matches of parser trees -------------------------- *)
  Definition Wnode (u : utree) : Prop :=
    uvalid rules u -> forall r args, u = UNode r args -> In (r_origin r) rule_names ->
    Forall child_ok (leaves u) ->
    exists items, write lit u = OList (Ok items) /\ (forall c, In (WChild c) items -> In c (leaves u)).

  Lemma node_name_not_term d cs n : ptree (Node d cs) -> is_term_name n -> d <> n.
  Proof.
    intros Hp Ht. destruct (ptree_node _ Hp) as (pr & ds & _ & _ & E & Hin). inversion E; subst.
    apply term_not_name; auto.
  Qed.

  Lemma walk_ok : forall ss args, Forall Wnode args ->
    uargs_gen (uvalid rules) (map recons_sym (filter kept ss)) args ->
    (forall s, In s ss -> exists r, In r P /\ In s (p_exp r)) ->
    Forall child_ok (flat_map leaves args) ->
    exists items, walk lit ss (map (write lit) args) = Ok items /\
                  (forall c, In (WChild c) items -> In c (flat_map leaves args)).
  Proof.
    induction ss as [|s ss IH]; intros args HW Hu Hsub Hch.
    - simpl in Hu. inversion Hu; subst. exists []. split; auto.
    - assert (Hsub' : forall s0, In s0 ss -> exists r, In r P /\ In s0 (p_exp r)) by (intros; apply Hsub; right; auto).
      destruct (Hsub s (or_introl eq_refl)) as (r0 & Hr0 & Hs0).
      destruct s as [n fo|a].
      + destruct fo.
        * simpl in Hu. destruct (IH args HW Hu Hsub' Hch) as (items & Hw & Hin).
          simpl. destruct (lit n) as [v|] eqn:El; [|exfalso; eapply Hlit; eauto].
          rewrite Hw. simpl. exists (WStr n v :: items). split; auto.
          intros c [Hq|Hq]; [discriminate|auto].
        * simpl in Hu. inversion Hu as [|t c ss0 args' Hm Hu'|]; subst.
          inversion HW as [|? ? _ HW']; subst. cbn [flat_map leaves app] in Hch. inversion Hch as [|? ? Hc0 Hch']; subst.
          destruct (IH args' HW' Hu' Hsub' Hch') as (items & Hw & Hin).
          unfold cmatch in Hm. apply Nat.eqb_eq in Hm.
          destruct c as [ty text|d cs'].
          -- simpl in Hm. subst ty. simpl. rewrite Nat.eqb_refl, Hw. simpl.
             exists (WChild (Tok n text) :: items). split; auto.
             intros c [Hq|Hq]; [inversion Hq; left; auto|right; auto].
          -- exfalso. simpl in Hm. apply (node_name_not_term d cs' n Hc0); eauto. exists r0, false. auto.
      + simpl in Hu. unfold Recons.recons_sym in Hu. fold recons_sym in Hu.
        destruct (is_nonterminal us P a) eqn:Enon.
        * inversion Hu as [| |a0 r' args0 ss0 args' Ho Hv Hu']; subst.
          inversion HW as [|? ? HW0 HW']; subst.
          cbn [flat_map] in Hch. apply Forall_app in Hch. destruct Hch as (Hch0 & Hch').
          assert (Hname : In (r_origin r') rule_names).
          { unfold is_nonterminal in Enon. apply andb_true_iff in Enon. apply memn_In. tauto. }
          destruct (HW0 Hv r' args0 eq_refl Hname Hch0) as (l1 & Hw1 & Hin1).
          destruct (IH args' HW' Hu' Hsub' Hch') as (l2 & Hw2 & Hin2).
          cbn [map walk discarded]. rewrite Hw1. cbn [rbind]. rewrite Hw2. cbn [rbind].
          exists (l1 ++ l2). split; auto.
          intros c Hq. cbn [flat_map]. apply in_or_app. apply in_app_or in Hq. destruct Hq; auto.
        * inversion Hu as [|t c ss0 args' Hm Hu'|]; subst.
          inversion HW as [|? ? _ HW']; subst. cbn [flat_map leaves app] in Hch. inversion Hch as [|? ? Hc0 Hch']; subst.
          destruct (IH args' HW' Hu' Hsub' Hch') as (items & Hw & Hin).
          unfold cmatch in Hm. apply Nat.eqb_eq in Hm.
          assert (Ha : In a rule_names) by (eapply (c_closed Hc); eauto).
          destruct c as [ty text|d cs'].
          -- exfalso. simpl in Hm. subst ty. simpl in Hc0. destruct Hc0 as (r1 & fo & Hr1 & Hs1).
             unfold Recons.rule_names in Ha. apply in_map_iff in Ha. destruct Ha as (r2 & E2 & Hr2).
             destruct (Hdisj _ _ _ Hr1 Hs1 r2 Hr2) as (H1 & _). congruence.
          -- simpl in Hm. subst d. simpl. rewrite Nat.eqb_refl, Hw. simpl.
             exists (WChild (Node a cs') :: items). split; auto.
             intros c [Hc'|Hc']; [inversion Hc'; left; auto|right; auto].
  Qed.

  Lemma unit_ok nm args :
    (exists r', In r' P /\ (p_origin r' = nm \/ p_alias r' = Some nm)) ->
    uargs_gen (uvalid rules) [T nm] args -> Forall child_ok (flat_map leaves args) ->
    exists items, walk lit [Nt nm] (map (write lit) args) = Ok items /\
                  (forall c, In (WChild c) items -> In c (flat_map leaves args)).
  Proof.
    intros (r' & Hr' & Hnm) Hu Hch.
    inversion Hu as [|t c ss0 args' Hm Hu'|]; subst. inversion Hu'; subst.
    cbn [flat_map leaves app] in Hch. inversion Hch as [|? ? Hc0 _]; subst.
    unfold cmatch in Hm. apply Nat.eqb_eq in Hm. destruct c as [ty text|d cs'].
    - exfalso. simpl in Hm. subst ty. simpl in Hc0. destruct Hc0 as (r1 & fo & Hr1 & Hs1).
      destruct (Hdisj _ _ _ Hr1 Hs1 r' Hr') as (H1 & H2). destruct Hnm; congruence.
    - simpl in Hm. subst d. simpl. rewrite Nat.eqb_refl. exists [WChild (Node nm cs')]. split; auto.
      intros c [Hc'|[]]. inversion Hc'. left; auto.
  Qed.

  Lemma write_ok : forall u, Wnode u.
  Proof.
    apply utree_ind2; [intros c _ r args E; discriminate|].
    intros r args HW Hv r0 args0 E Hname Hch. inversion E; subst r0 args0. clear E.
    inversion Hv as [r1 args1 Hin Hu]; subst. cbn [leaves] in *. cbn [write].
    apply (rules_kind us P) in Hin.
    destruct Hin as [pr HinP Hinl Hlen | pr al HinP Hal | pr HinP Hal | pr HinP He1];
      cbn [regular Recons.regular unit_rule r_origin r_exp r_orig] in *.
    - destruct (walk_ok (p_exp pr) args HW Hu) as (items & Hw & Hin); auto.
      { intros s Hs. exists pr. auto. }
      exists items. rewrite Hw. auto.
    - destruct (unit_ok al args) as (items & Hw & Hin); auto.
      { exists pr. auto. }
      exists items. rewrite Hw. auto.
    - destruct (unit_ok (p_origin pr) args) as (items & Hw & Hin); auto.
      { exists pr. auto. }
      exists items. rewrite Hw. auto.
    - destruct (unit_ok (sym_name pr) args) as (items & Hw & Hin); auto.
      { exists pr. split; auto. unfold sym_name. destruct (p_alias pr); auto. }
      exists items. rewrite Hw. auto.
  Qed.

  (* ---- the round trip ---------------------------------------------------------------------------- *)
  Variable M : stree -> option utree.
  (* only asked of trees the parser can return *)
  Hypothesis M_ok : forall t u, ptree t -> M t = Some u -> exists data cs, t = Node data cs /\ supported us P u data cs.
  Hypothesis M_complete : forall data cs, (exists u, supported us P u data cs) -> M (Node data cs) <> None.

  Lemma recon_succeeds : forall f t, ptree t -> height t <= f -> exists toks, recon lit M f t = Ok toks.
  Proof.
    induction f as [|f IH]; intros t Hp Hh.
    - destruct (ptree_node _ Hp) as (pr & ds & _ & _ & -> & _). simpl in Hh. lia.
    - destruct (ptree_node _ Hp) as (pr & ds & Hwf & Hun & -> & HinP).
      set (data := sym_name pr) in *. set (cs := kids us (DNode pr ds)) in *.
      destruct (match_exists us P Hc Hx pr ds Hwf Hun) as (u0 & Hs0).
      destruct (M (Node data cs)) as [u|] eqn:EM; [|exfalso; eapply M_complete; eauto].
      destruct (M_ok _ _ Hp EM) as (data' & cs' & E & Hsup). inversion E; subst data' cs'. clear E.
      destruct Hsup as (r & args & -> & Hin & Hu & Hl & _).
      destruct (rfr_kind us P _ _ Hin) as (pr' & HinP' & -> & Hsn).
      cbn [regular Recons.regular r_exp r_orig] in *. cbn [leaves] in Hl.
      assert (Hch : Forall child_ok cs).
      { destruct (kids_children (DNode pr ds) Hwf) as (H1 & _). exact H1. }
      destruct (walk_ok (p_exp pr') args) as (items & Hw & Hitems); auto.
      { apply Forall_forall. intros; apply write_ok. }
      { intros s Hs. exists pr'. auto. }
      { rewrite Hl. exact Hch. }
      cbn [recon]. rewrite EM. cbn [write Recons.regular r_orig]. rewrite Hw.
      apply expand_succeeds. intros c Hc'. destruct c as [n s|d cs0]; auto.
      specialize (Hitems _ Hc'). rewrite Hl in Hitems.
      assert (Hpc : ptree (Node d cs0)).
      { rewrite Forall_forall in Hch. apply (Hch _ Hitems). }
      apply IH; auto. pose proof (height_child data cs _ Hitems). lia.
  Qed.

  (* soundness along parser trees (the matcher hypothesis is only used on parser trees) *)
  Lemma recon_sound_p : forall f t toks, ptree t -> recon lit M f t = Ok toks ->
    exists data cs pr ds, t = Node data cs /\ wf (DNode pr ds) /\ sym_name pr = data /\
                          shape us (DNode pr ds) = t /\ yield (DNode pr ds) = toks.
  Proof.
    induction f as [|f IH]; intros t toks Hp H; simpl in H; [discriminate|].
    destruct (ptree_node _ Hp) as (pr0 & ds0 & Hwf0 & Hun0 & -> & HinP0).
    set (data := sym_name pr0) in *. set (cs := kids us (DNode pr0 ds0)) in *.
    destruct (M (Node data cs)) as [u|] eqn:EM; [|discriminate].
    destruct (M_ok _ _ Hp EM) as (data' & cs' & E & Hsup). inversion E; subst data' cs'. clear E.
    destruct (write lit u) as [c0|[items| |]] eqn:Ew; try discriminate.
    destruct (expand_ok _ _ _ H) as (Hsub & ->).
    assert (Hch : Forall child_ok cs).
    { destruct (kids_children (DNode pr0 ds0) Hwf0) as (H1 & _). exact H1. }
    assert (Hitems : forall c, In (WChild c) items -> In c cs).
    { pose proof Hsup as (r & args & Eu & Hin & Hu & Hl & _). subst u.
      destruct (rfr_kind us P _ _ Hin) as (pr' & HinP' & -> & Hsn).
      cbn [regular Recons.regular r_exp r_orig] in *. cbn [leaves] in Hl.
      destruct (walk_ok (p_exp pr') args) as (items' & Hw & Hit); auto.
      { apply Forall_forall. intros; apply write_ok. }
      { intros s Hs. exists pr'. auto. }
      { rewrite Hl. exact Hch. }
      cbn [write Recons.regular r_orig] in Ew. rewrite Hw in Ew. inversion Ew; subst items'.
      intros c Hq. rewrite <- Hl. apply Hit; auto. }
    set (Y := fun c => match recon lit M f c with Ok l => l | _ => [] end).
    destruct (write_tokens_yield us P Hc lit Y data cs u items Hsup Ew) as (pr & ds & Hwf & Hsn & _ & Hsh & Hy).
    - intros c Hin. specialize (Hsub c Hin). destruct c as [n s|d cs0]; [exact I|]. unfold sub_ok.
      destruct Hsub as (l & El).
      assert (Hpc : ptree (Node d cs0)).
      { rewrite Forall_forall in Hch. apply (Hch _ (Hitems _ Hin)). }
      destruct (IH _ _ Hpc El) as (d' & cs' & pr & ds & E & Hwf & Hsn & Hsh & Hy).
      exists pr, ds. repeat split; auto; try congruence. unfold Y. rewrite El. exact Hy.
    - exists data, cs, pr, ds. repeat split; auto.
  Qed.

  Theorem recons_token_roundtrip_p start pr0 ds0 :
    wf (DNode pr0 ds0) -> p_origin pr0 = start -> ~ In start (expand1s P) -> us start = false ->
    exists fuel toks, recon lit M fuel (shape us (DNode pr0 ds0)) = Ok toks /\
      parses us P start toks (shape us (DNode pr0 ds0)) /\
      (unambiguous P start -> forall t', parses us P start toks t' -> t' = shape us (DNode pr0 ds0)).
  Proof.
    intros Hwf0 Hs0 Hne Hus.
    assert (Hun : uncollapsed us (DNode pr0 ds0)).
    { split; [rewrite Hs0; auto|]. intros He _. exfalso. apply Hne. rewrite <- Hs0.
      unfold expand1s. apply in_map. apply filter_In. split; auto. apply (wf_root _ _ _ Hwf0). }
    assert (Hp : ptree (shape us (DNode pr0 ds0))) by (exists pr0, ds0; auto).
    destruct (recon_succeeds (height (shape us (DNode pr0 ds0))) _ Hp (le_n _)) as (toks & Hr).
    exists (height (shape us (DNode pr0 ds0))), toks. split; auto.
    destruct (recon_sound_p _ _ _ Hp Hr) as (data & cs & pr & ds & E & Hwf & Hsn & Hsh & Hy).
    destruct (wf_root _ _ _ Hwf0) as (Hin0 & _). destruct (wf_root _ _ _ Hwf) as (Hin & _).
    assert (Hd : data = sym_name pr0).
    { rewrite (uncollapsed_shape _ _ Hun) in E. inversion E; auto. }
    assert (Ho : p_origin pr = start).
    { rewrite <- Hs0. apply (same_name_same_origin us P Hc); auto. congruence. }
    assert (Hpar : parses us P start toks (shape us (DNode pr0 ds0))).
    { exists pr, ds. repeat split; auto. }
    split; auto.
    intros Hunamb t' (pr' & ds' & Hwf' & Ho' & Hy' & Hsh').
    assert (DNode pr' ds' = DNode pr ds) by (apply Hunamb; auto; congruence).
    rewrite <- Hsh', H. exact Hsh.
  Qed.
End Full.

(* the same with the matcher hypothesis asked of every tree (the round-5 statement) *)
Theorem recons_token_roundtrip us P (Hc : cls us P) (Hx : cls_extra us P) lit
  (Hlit : forall r n, In r P -> In (Tm n true) (p_exp r) -> lit n <> None)
  (Hdisj : forall r n fo, In r P -> In (Tm n fo) (p_exp r) ->
           forall r', In r' P -> p_origin r' <> n /\ p_alias r' <> Some n)
  M (M_ok : forall t u, M t = Some u -> exists data cs, t = Node data cs /\ supported us P u data cs)
  (M_complete : forall data cs, (exists u, supported us P u data cs) -> M (Node data cs) <> None)
  start pr0 ds0 :
  wf P (DNode pr0 ds0) -> p_origin pr0 = start -> ~ In start (expand1s P) -> us start = false ->
  exists fuel toks, recon lit M fuel (shape us (DNode pr0 ds0)) = Ok toks /\
    parses us P start toks (shape us (DNode pr0 ds0)) /\
    (unambiguous P start -> forall t', parses us P start toks t' -> t' = shape us (DNode pr0 ds0)).
Proof.
  apply (recons_token_roundtrip_p us P Hc Hx lit Hlit Hdisj M); auto.
Qed.
