(* C19: model-level refutations of findings outside the class.
   F38 (harness key C19-F15): `?x: _l` where the inlined _l yields several children.  The parser does not collapse x
   (three children), but _build_recons_rules treats len(recons_exp) == 1 as "collapses": x -> _l becomes an inner rule
   and no rule  x -> Tree(x)  is created, so the node start[x[a a a]] has no match: match_tree raises.
   The rule set satisfies every class condition except c_single (single_ok_b), which is exactly the condition that
   excludes it; so c_single cannot be dropped from C19_match_exists / the round-trip theorems.
   names: 0 start, 1 x, 2 _l, 3 __l_plus_0, 4 A *)
From Coq Require Import String Ascii List Arith Bool.
From LV Require Import Base.Prelude Cfg.Grammar Recons.Recons Recons.ReconsCheck Recons.Recons_proofs
     Recons.Complete_proofs Recons.EarleyM Recons.EarleyM_sel.
Import ListNotations.
Local Open Scope string_scope.

Definition f38_us (n : nat) : bool := Nat.eqb n 2 || Nat.eqb n 3.
Definition f38_P : list prule :=
  [mkP 0 [Nt 1] None false; mkP 1 [Nt 2] None true; mkP 2 [Nt 3] None false;
   mkP 3 [Tm 4 false] None false; mkP 3 [Nt 3; Tm 4 false] None false].
Definition f38_d : dtree :=
  DNode (mkP 0 [Nt 1] None false) [DNode (mkP 1 [Nt 2] None true) [DNode (mkP 2 [Nt 3] None false)
    [DNode (mkP 3 [Nt 3; Tm 4 false] None false)
       [DNode (mkP 3 [Nt 3; Tm 4 false] None false) [DNode (mkP 3 [Tm 4 false] None false) [DTok 4 "a"]; DTok 4 "a"];
        DTok 4 "a"]]]].
Definition f38_tree : stree := Node 0 [Node 1 [Tok 4 "a"; Tok 4 "a"; Tok 4 "a"]].

Theorem F38_refuted :
  closed_b f38_P = true /\ alias_ok_b f38_us f38_P = true /\ uscore_plain_b f38_us f38_P = true /\
  expand1_uniform_b f38_P = true /\ extra_b f38_us f38_P = true /\
  single_ok_b f38_us f38_P = false /\
  wf f38_P f38_d /\ shape f38_us f38_d = f38_tree /\
  M_earley f38_us f38_P sel_resolve f38_tree = None /\
  (forall lit fuel, recon lit (M_earley f38_us f38_P sel_resolve) (S fuel) f38_tree = AssertFail).
Proof.
  repeat split; try (vm_compute; reflexivity).
  repeat (constructor; try (simpl; auto 10)).
Qed.
