(* C19, character level with NO per-tree hypothesis: for a grammar whose lexer satisfies the decidable per-grammar
   condition relex_safe_b (RelexSafe.v), every tree the char-level parser (BasicLexer model with the computed matcher
   m_cp, then the parser specification) returns on ANY source text is reconstructed to a text that lexes back to the
   written tokens and parses back to the same tree.
     recon_tokens_from   : the tokens _reconstruct yields are tokens of the tree or re-inserted literals
     shape_tokens_yield  : the tokens of a parser tree are tokens of the derivation's yield
     written_lexable     : hence all written tokens are lexable, and relex_safe_bc gives bc_b
     char_roundtrip_safe : the round trip. *)
From Coq Require Import ZArith String Ascii List Arith Bool Lia.
From LV Require Import Base.Prelude Cfg.Grammar Lex.LexerBase Lex.Lexer Forest.ExplicitBuild Forest.ExplicitAlgBuild
     Recons.Recons Recons.ReconsCheck Recons.ReconsCheck_proofs Recons.Recons_proofs Recons.Complete_proofs
     Recons.Roundtrip_proofs Recons.Text_proofs Recons.EarleyM Recons.EarleyM_proofs Recons.EarleyM_sel Recons.Relex
     Recons.Relex_proofs Recons.Char_proofs Recons.RelexSafe Recons.RelexSafe_proofs.
Import ListNotations.

Fixpoint tokens_of (t : stree) : list token :=
  match t with
  | Tok n s => [(n, s)]
  | Node _ cs => flat_map tokens_of cs
  end.

Lemma tokens_of_child d cs c tok : In c cs -> In tok (tokens_of c) -> In tok (tokens_of (Node d cs)).
Proof. intros Hc Ht. simpl. apply in_flat_map. exists c. auto. Qed.

(* ---------------------------------------------------------------- what _reconstruct writes *)
Section Written.
  Variable lit : nat -> option string.

  Definition item_from (u : utree) (it : witem) : Prop :=
    match it with
    | WStr n v => lit n = Some v
    | WChild c => In c (leaves u)
    end.

  Lemma walk_items : forall ss (args : list utree) items,
    Forall (fun a => forall its, write lit a = OList (Ok its) -> Forall (item_from a) its) args ->
    walk lit ss (map (write lit) args) = Ok items ->
    Forall (fun it => match it with
                      | WStr n v => lit n = Some v
                      | WChild c => In c (flat_map leaves args)
                      end) items.
  Proof.
    induction ss as [|s ss IH]; intros args items Hargs H; simpl in H.
    - destruct (map (write lit) args); inversion H. constructor.
    - destruct (discarded s) eqn:Ed.
      + destruct s as [n fo|a]; [|discriminate]. destruct (lit n) as [v|] eqn:El; [|discriminate].
        destruct (walk lit ss (map (write lit) args)) as [l| |] eqn:Ew; simpl in H; try discriminate.
        inversion H; subst. constructor; [exact El|]. apply (IH args); auto.
      + destruct args as [|a args]; simpl in H; [discriminate|].
        inversion Hargs as [|? ? Ha Hargs']; subst.
        destruct (write lit a) as [c|l] eqn:Ewa.
        * destruct (match c with Tok ty _ => _ | Node d _ => _ end); [|discriminate].
          destruct (walk lit ss (map (write lit) args)) as [l2| |] eqn:Ew; simpl in H; try discriminate.
          inversion H; subst. constructor.
          -- destruct a as [c'|r' args']; simpl in Ewa; [|discriminate]. inversion Ewa; subst. simpl. now left.
          -- specialize (IH args l2 Hargs' Ew). eapply Forall_impl; [|exact IH].
             intros [n v|c0]; auto. simpl. intros Hin. apply in_or_app. now right.
        * destruct l as [l1| |]; simpl in H; try discriminate.
          destruct (walk lit ss (map (write lit) args)) as [l2| |] eqn:Ew; simpl in H; try discriminate.
          inversion H; subst. apply Forall_app. split.
          -- specialize (Ha l1 eq_refl). eapply Forall_impl; [|exact Ha].
             intros [n v|c0]; auto. simpl. intros Hin. apply in_or_app. now left.
          -- specialize (IH args l2 Hargs' Ew). eapply Forall_impl; [|exact IH].
             intros [n v|c0]; auto. simpl. intros Hin. apply in_or_app. now right.
  Qed.

  Lemma write_items : forall u its, write lit u = OList (Ok its) -> Forall (item_from u) its.
  Proof.
    apply (utree_ind2 (fun u => forall its, write lit u = OList (Ok its) -> Forall (item_from u) its)).
    - intros c its H. discriminate.
    - intros r args IH its H. simpl in H. inversion H as [Hw]. clear H.
      pose proof (walk_items _ _ _ IH Hw) as Hf. eapply Forall_impl; [|exact Hf]. intros [n v|c]; auto.
  Qed.

  Variable M : stree -> option utree.
  Hypothesis M_leaves : forall t u, M t = Some u -> exists data cs, t = Node data cs /\ leaves u = cs.
  Variable Q : token -> Prop.
  Hypothesis Q_lit : forall n v, lit n = Some v -> Q (n, v).

  Lemma expand_from g items : forall toks, expand g items = Ok toks ->
    (forall n v, In (WStr n v) items -> Q (n, v)) ->
    (forall n s, In (WChild (Tok n s)) items -> Q (n, s)) ->
    (forall d cs l, In (WChild (Node d cs)) items -> g (Node d cs) = Ok l -> Forall Q l) ->
    Forall Q toks.
  Proof.
    induction items as [|it items IH]; intros toks H Hs Ht Hn; simpl in H.
    - inversion H. constructor.
    - assert (IH' : forall l, expand g items = Ok l -> Forall Q l).
      { intros l El. apply IH; auto; intros; [apply Hs|apply Ht|eapply Hn]; try (right; eauto); eauto. }
      destruct it as [n s|[n s|d cs]].
      + destruct (expand g items) as [l| |] eqn:E; simpl in H; try discriminate. inversion H; subst.
        constructor; [apply Hs; now left|auto].
      + destruct (expand g items) as [l| |] eqn:E; simpl in H; try discriminate. inversion H; subst.
        constructor; [apply Ht; now left|auto].
      + destruct (g (Node d cs)) as [l1| |] eqn:Eg; simpl in H; try discriminate.
        destruct (expand g items) as [l2| |] eqn:E; simpl in H; try discriminate. inversion H; subst.
        apply Forall_app. split; [eapply Hn; [now left|exact Eg]|auto].
  Qed.

  (* every token _reconstruct yields is a token of the tree or a re-inserted literal *)
  Theorem recon_tokens_from : forall fuel t toks, recon lit M fuel t = Ok toks ->
    Forall Q (tokens_of t) -> Forall Q toks.
  Proof.
    induction fuel as [|f IH]; intros t toks H Ht; simpl in H; [discriminate|].
    destruct t as [n s|data cs]; [discriminate|].
    destruct (M (Node data cs)) as [u|] eqn:EM; [|discriminate].
    destruct (M_leaves _ _ EM) as (data' & cs' & E & Hlv). injection E as E1 E2. rewrite <- E2 in Hlv. clear E1 E2.
    destruct (write lit u) as [c0|[items| |]] eqn:Ew; try discriminate.
    pose proof (write_items _ _ Ew) as Hit. rewrite Forall_forall in Hit. rewrite Forall_forall in Ht.
    apply (expand_from _ _ _ H).
    - intros n v Hin. apply Q_lit. exact (Hit _ Hin).
    - intros n s Hin. specialize (Hit _ Hin). simpl in Hit. rewrite Hlv in Hit. apply Ht.
      eapply tokens_of_child; eauto. simpl. now left.
    - intros d cs0 l Hin Hg. specialize (Hit _ Hin). simpl in Hit. rewrite Hlv in Hit. apply (IH _ _ Hg).
      apply Forall_forall. intros tok Htok. apply Ht. eapply tokens_of_child; eauto.
  Qed.
End Written.

(* ---------------------------------------------------------------- tokens of a parser tree *)
Section ShapeTokens.
  Variable us : nat -> bool.

  Lemma tokens_wrap r ks tok : In tok (tokens_of (wrap r ks)) -> In tok (flat_map tokens_of ks).
  Proof.
    unfold wrap. destruct (p_expand1 r && negb (has_alias r)); auto.
    destruct ks as [|k [|k' ks]]; auto. simpl. try rewrite app_nil_r. auto.
  Qed.

  Lemma kids_tokens_yield : forall d tok, In tok (flat_map tokens_of (kids us d)) -> In tok (yield d).
  Proof.
    apply (dtree_ind2 (fun d => forall tok, In tok (flat_map tokens_of (kids us d)) -> In tok (yield d))).
    - intros n s tok H. simpl in H. try rewrite app_nil_r in H. exact H.
    - intros r ds IH tok H. rewrite kids_eq in H. simpl yield. revert H. generalize (p_exp r).
      induction ds as [|d ds IHds]; intros ss H; destruct ss as [|s ss]; simpl in H; try contradiction.
      inversion IH as [|? ? Hd Hds]; subst.
      rewrite flat_map_app in H. simpl. apply in_or_app. apply in_app_or in H. destruct H as [H|H].
      + left. unfold contrib in H. destruct s as [n fo|a].
        * destruct fo; [contradiction|auto].
        * destruct (us a); auto. simpl in H. try rewrite app_nil_r in H.
          destruct d as [n s|r' ds']; simpl in H; [exact H|]. apply Hd. eapply tokens_wrap; eauto.
      + right. eapply IHds; eauto.
  Qed.

  Theorem shape_tokens_yield pr ds tok : In tok (tokens_of (shape us (DNode pr ds))) -> In tok (yield (DNode pr ds)).
  Proof. intros H. apply kids_tokens_yield. simpl in H. eapply tokens_wrap; eauto. Qed.
End ShapeTokens.

(* ---------------------------------------------------------------- the round trip *)
Section CharSafe.
  Variable us : nat -> bool.
  Variable P : list prule.
  Hypothesis Hc : cls us P.
  Hypothesis Hx : cls_extra us P.
  Hypothesis Hplain : plain_roots us P.
  Variable order : nlabel stree -> list (family stree) -> list (family stree).
  Hypothesis order_perm : forall l fs f, In f (order l fs) <-> In f fs.
  Variable lits : list (nat * string).
  Hypothesis Hlit : forall r n, In r P -> In (Tm n true) (p_exp r) -> lookup_lit lits n <> None.
  Hypothesis Hdisj : forall r n fo, In r P -> In (Tm n fo) (p_exp r) ->
                     forall r', In r' P -> p_origin r' <> n /\ p_alias r' <> Some n.
  Variable cok : list term -> bool.
  Variable names : list string.
  Variable terms : list term.
  Variable ign : list string.
  Variable L : blexer.
  Hypothesis HL : make_lexer m_cp cok terms ign = Some L.
  Hypothesis Hsafe : relex_safe_b names L lits = true.

  Notation M := (M_earley us P (sel_graph order)).
  Notation lexm := (lex_model m_cp cok names terms ign).
  Notation lit := (lookup_lit lits).

  Lemma M_leaves t u : M t = Some u -> exists data cs, t = Node data cs /\ leaves u = cs.
  Proof.
    destruct t as [n s|data cs]; [discriminate|]. intros H.
    destruct (M_graph_sound order order_perm us P data cs u H) as (r & args & _ & _ & _ & _ & Hl). eauto.
  Qed.

  Lemma flat_ok_safe : forallb term_ok (flat L) = true.
  Proof.
    pose proof Hsafe as H. unfold relex_safe_b in H. repeat (apply andb_true_iff in H; destruct H as (H & _)). exact H.
  Qed.

  (* relex_safe_b implies the boundary condition for the written tokens of every tree whose tokens the lexer produced *)
  Theorem relex_safe_implies_bc fuel t toks :
    Forall (lexable names L) (tokens_of t) -> recon lit M fuel t = Ok toks ->
    bc_b m_cp names L (reconstruct_text toks) 0 EmptyString toks = true.
  Proof.
    intros Ht Hr. apply (relex_safe_bc names L lits); auto.
    apply (recon_tokens_from lit M M_leaves (lexable names L)) with (fuel := fuel) (t := t); auto.
    intros n v Hl. eapply lits_lexable; eauto.
  Qed.

  (* the tokens of a tree the char-level parser returned on a source text are lexable *)
  Lemma parsed_tokens_lexable start src t : parses_text us P lexm start src t ->
    Forall (lexable names L) (tokens_of t).
  Proof.
    intros (toks & Hlex & pr & ds & Hwf & Ho & Hy & Hsh). unfold lex_model in Hlex. rewrite HL in Hlex.
    pose proof (lex_with_lexable names L flat_ok_safe src toks Hlex) as Hf. rewrite Forall_forall in Hf.
    apply Forall_forall. intros tok Htok. apply Hf. rewrite <- Hy. apply (shape_tokens_yield us). rewrite Hsh. exact Htok.
  Qed.

  (* parse(reconstruct(t)) = t for EVERY tree t the char-level parser returns on any source text *)
  Theorem char_roundtrip_safe start src t :
    ~ In start (expand1s P) -> us start = false ->
    parses_text us P lexm start src t ->
    exists fuel toks,
      recon lit M fuel t = Ok toks /\
      lexm (reconstruct_text toks) = Some toks /\
      parses_text us P lexm start (reconstruct_text toks) t /\
      (unambiguous P start -> forall t', parses_text us P lexm start (reconstruct_text toks) t' -> t' = t).
  Proof.
    intros Hne Hus Hp. pose proof (parsed_tokens_lexable _ _ _ Hp) as Hlx.
    destruct Hp as (toks0 & Hlex0 & pr0 & ds0 & Hwf & Ho & Hy & Hsh).
    destruct (char_roundtrip_earley us P Hc Hx Hplain order order_perm lit Hlit Hdisj m_cp cok names terms ign L HL
                start pr0 ds0 Hwf Ho Hne Hus) as (fuel & toks & Hr & Hrest).
    rewrite Hsh in *. exists fuel, toks. split; auto. apply Hrest. eapply relex_safe_implies_bc; eauto.
  Qed.
End CharSafe.
