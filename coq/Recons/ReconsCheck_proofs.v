(* C19: the boolean checks evaluated by the harness imply the hypotheses of the theorems. *)
From Coq Require Import String Ascii List Arith Bool Lia.
From LV Require Import Base.Prelude Cfg.Grammar Recons.Recons Recons.Recons_proofs Recons.ReconsCheck.
Import ListNotations.

Lemma list_eqb_eq {A} (eqb : A -> A -> bool) (H : forall x y, eqb x y = true -> x = y) :
  forall a b, list_eqb eqb a b = true -> a = b.
Proof.
  induction a as [|x a IH]; destruct b as [|y b]; simpl; intros E; try discriminate; auto.
  apply andb_true_iff in E. destruct E as (E1 & E2). f_equal; auto.
Qed.

Lemma symbol_eqb_eq x y : symbol_eqb x y = true -> x = y.
Proof. destruct (symbol_eqb_spec x y); auto; discriminate. Qed.

Lemma sym_eqb_eq x y : sym_eqb x y = true -> x = y.
Proof.
  destruct x as [a f|a], y as [b g|b]; simpl; intros E; try discriminate.
  - apply andb_true_iff in E. destruct E as (E1 & E2). apply Nat.eqb_eq in E1. apply eqb_prop in E2. congruence.
  - apply Nat.eqb_eq in E. congruence.
Qed.

Lemma rrule_eqb_eq x y : rrule_eqb x y = true -> x = y.
Proof.
  destruct x, y. unfold rrule_eqb. simpl. intros E.
  apply andb_true_iff in E. destruct E as (E & E3). apply andb_true_iff in E. destruct E as (E1 & E2).
  apply Nat.eqb_eq in E1. apply (list_eqb_eq _ symbol_eqb_eq) in E2. apply (list_eqb_eq _ sym_eqb_eq) in E3.
  congruence.
Qed.

Lemma memr_In r l : memr r l = true -> In r l.
Proof.
  unfold memr. rewrite existsb_exists. intros (y & Hy & E). apply rrule_eqb_eq in E. subst; auto.
Qed.

Fixpoint stree_ind2 (Q : stree -> Prop) (HT : forall n s, Q (Tok n s))
         (HN : forall d cs, Forall Q cs -> Q (Node d cs)) (t : stree) : Q t :=
  match t with
  | Tok n s => HT n s
  | Node d cs =>
      HN d cs ((fix go (l : list stree) : Forall Q l :=
                  match l with
                  | [] => Forall_nil _
                  | x :: l' => Forall_cons _ (stree_ind2 Q HT HN x) (go l')
                  end) cs)
  end.

Lemma stree_eqb_eq : forall a b, stree_eqb a b = true -> a = b.
Proof.
  apply (stree_ind2 (fun a => forall b, stree_eqb a b = true -> a = b)).
  - intros n s [m t|e es]; simpl; intros E; try discriminate.
    apply andb_true_iff in E. destruct E as (E1 & E2). apply Nat.eqb_eq in E1. apply String.eqb_eq in E2. congruence.
  - intros d cs IH [m t|e es]; simpl; intros E; try discriminate.
    apply andb_true_iff in E. destruct E as (E1 & E2). apply Nat.eqb_eq in E1. subst e. f_equal.
    revert es E2. induction IH as [|x l Hx Hl IHl]; intros [|y es] E2; try discriminate; auto.
    apply andb_true_iff in E2. destruct E2 as (Ea & Eb). f_equal; auto.
Qed.

Lemma uvalid_b_node Gi r args : uvalid_b Gi (UNode r args) = memr r Gi && uargs_b Gi (r_exp r) args.
Proof.
  simpl. f_equal. generalize (r_exp r). induction args as [|a args IH]; intros [|s ss]; simpl; auto.
  rewrite IH. reflexivity.
Qed.

Section Refl.
  Variable us : nat -> bool.
  Variable P : list prule.

  Lemma uvalid_b_sound Gi : forall u, uvalid_b Gi u = true ->
    match u with ULeaf _ => True | UNode _ _ => uvalid Gi u end.
  Proof.
    apply (utree_ind2 (fun u => uvalid_b Gi u = true -> match u with ULeaf _ => True | UNode _ _ => uvalid Gi u end)); auto.
    intros r args IH E. rewrite uvalid_b_node in E. apply andb_true_iff in E. destruct E as (E1 & E2).
    constructor; [apply memr_In; auto|].
    revert E2. generalize (r_exp r). induction IH as [|a args Ha Hl IHl]; intros [|s ss] E2; simpl in E2; try discriminate.
    - constructor.
    - apply andb_true_iff in E2. destruct E2 as (Ea & Eb). destruct s as [t|n], a as [c|r' args0]; try discriminate.
      + constructor; auto.
      + apply andb_true_iff in Ea. destruct Ea as (Eo & Ev). apply Nat.eqb_eq in Eo.
        constructor; auto.
  Qed.

  Lemma uargs_b_sound Gi : forall ss args, uargs_b Gi ss args = true -> uargs_gen (uvalid Gi) ss args.
  Proof.
    intros ss args. revert ss. induction args as [|a args IH]; intros [|s ss] E; simpl in E; try discriminate.
    - constructor.
    - apply andb_true_iff in E. destruct E as (Ea & Eb). destruct s as [t|n], a as [c|r' args0]; try discriminate.
      + constructor; auto.
      + apply andb_true_iff in Ea. destruct Ea as (Eo & Ev). apply Nat.eqb_eq in Eo.
        constructor; auto. apply (uvalid_b_sound Gi _ Ev).
  Qed.

  Lemma supported_b_sound u data cs : supported_b us P u data cs = true -> supported us P u data cs.
  Proof.
    destruct u as [c|r args]; simpl; [discriminate|]. intros E.
    apply andb_true_iff in E. destruct E as (E & E4). apply andb_true_iff in E. destruct E as (E & E3).
    apply andb_true_iff in E. destruct E as (E1 & E2).
    exists r, args. repeat split.
    - apply memr_In; auto.
    - apply uargs_b_sound; auto.
    - apply (list_eqb_eq _ stree_eqb_eq) in E3. exact E3.
    - intros Hin Hlen. apply memn_In in Hin. rewrite Hin, Hlen in E4. discriminate.
  Qed.

  Lemma class_b_sound : class_b us P = true -> cls us P.
  Proof.
    unfold class_b. intros E.
    apply andb_true_iff in E. destruct E as (E & E5). apply andb_true_iff in E. destruct E as (E & E4).
    apply andb_true_iff in E. destruct E as (E & E3). apply andb_true_iff in E. destruct E as (E1 & E2).
    unfold closed_b in E1. unfold alias_ok_b in E2. unfold uscore_plain_b in E3.
    unfold expand1_uniform_b in E4. unfold single_ok_b in E5.
    rewrite forallb_forall in E1, E2, E3, E4, E5.
    constructor.
    - intros r a Hin Ha. specialize (E1 r Hin). rewrite forallb_forall in E1. specialize (E1 _ Ha).
      apply memn_In; auto.
    - intros r al Hin Hal. specialize (E2 r Hin). rewrite Hal in E2.
      apply andb_true_iff in E2. destruct E2 as (E2 & E2c). apply andb_true_iff in E2. destruct E2 as (E2a & E2b).
      repeat split.
      + apply memn_false. apply negb_true_iff; auto.
      + apply negb_true_iff; auto.
      + intros r' Hin' Hal'. rewrite forallb_forall in E2c. specialize (E2c r' Hin'). rewrite Hal' in E2c.
        rewrite Nat.eqb_refl in E2c. simpl in E2c. apply Nat.eqb_eq; auto.
    - intros r Hin Hus. specialize (E3 r Hin). rewrite Hus in E3. simpl in E3.
      apply andb_true_iff in E3. destruct E3 as (Ea & Eb). apply negb_true_iff in Ea. apply negb_true_iff in Eb.
      split; auto. unfold has_alias in Ea. destruct (p_alias r); [discriminate|reflexivity].
    - intros r Hin Hex. specialize (E4 r Hin). apply memn_In in Hex. rewrite Hex in E4. exact E4.
    - intros r a Hin He Hnone Hf. specialize (E5 r Hin). rewrite He in E5. unfold has_alias in E5.
      rewrite Hnone, Hf in E5. simpl in E5. apply negb_true_iff; auto.
  Qed.
End Refl.

(* a finite table of recorded matches used as match_tree *)
Lemma lookup_match_In ms : forall t u, lookup_match ms t = Some u -> exists w, In (t, u, w) ms.
Proof.
  induction ms as [|((t', u'), w') ms IH]; simpl; intros t u E; [discriminate|].
  destruct (stree_eqb t t') eqn:Et.
  - inversion E; subst. apply stree_eqb_eq in Et. subst. eauto.
  - destruct (IH _ _ E) as (w & Hw). eauto.
Qed.

Definition table_ok (us : nat -> bool) (P : list prule) (ms : list mrec) : bool :=
  forallb (fun m => match m with
                    | (Node data cs, u, _) => supported_b us P u data cs
                    | _ => false
                    end) ms.

Lemma table_ok_sound us P ms : table_ok us P ms = true ->
  forall t u, lookup_match ms t = Some u -> exists data cs, t = Node data cs /\ supported us P u data cs.
Proof.
  intros H t u E. destruct (lookup_match_In _ _ _ E) as (w & Hin).
  unfold table_ok in H. rewrite forallb_forall in H. specialize (H _ Hin). simpl in H.
  destruct t as [n s|data cs]; [discriminate|]. exists data, cs. split; auto. apply supported_b_sound; auto.
Qed.
