(* C19: the selector `sel` of Recons/EarleyM.v instantiated with the model of
   ForestToParseTree(resolve_ambiguity=True) on graph forests (Forest/GraphResolve.v).  Its two hypotheses
   sel_sound / sel_total are theorems (Forest/GraphResolve_proofs.v: graph_resolve_in_den, graph_resolve_total,
   valid on cyclic forests as well - tree-matching grammars are often cyclic), so the results of
   Recons/EarleyM_proofs.v hold for the concrete matcher with no assumption on the selection left.
   The theorems hold for every rearrangement [order] of the packed children (SymbolNode.children); the instance
   below keeps insertion order, which is what PackedNode.sort_key gives when no priorities are set and the
   rules of one origin are added in rule order. *)
From Coq Require Import String Ascii List Arith Bool.
From LV Require Import Base.Prelude Cfg.Grammar Forest.ExplicitBuild Forest.ExplicitAlgBuild
     Forest.GraphResolve Forest.GraphResolve_proofs
     Recons.Recons Recons.ReconsCheck Recons.ReconsCheck_proofs Recons.Recons_proofs Recons.Complete_proofs
     Recons.Roundtrip_proofs Recons.EarleyM Recons.EarleyM_proofs.
Import ListNotations.

Lemma stree_eqb_iff a b : stree_eqb a b = true <-> a = b.
Proof. split; [apply stree_eqb_eq|intros ->; apply stree_eqb_refl]. Qed.

Section Sel.
  (* SymbolNode.children as a rearrangement of the packed children *)
  Variable order : nlabel stree -> list (family stree) -> list (family stree).
  Hypothesis order_perm : forall l fs f, In f (order l fs) <-> In f fs.

  Definition sel_graph (data : nat) (cs : list stree) (fams : list (fam stree)) : option (dt stree) :=
    graph_resolve stree stree_eqb fams order (NSym stree data 0 (List.length cs)).

  Theorem sel_graph_sound data cs fams d : sel_graph data cs fams = Some d ->
    den stree (in_forest stree fams) (NSym stree data 0 (List.length cs)) [d].
  Proof. apply (graph_resolve_in_den stree stree_eqb stree_eqb_iff fams order order_perm). Qed.

  Theorem sel_graph_total data cs (fams : list (nlabel stree * family stree)) d :
    den stree (in_forest stree fams) (NSym stree data 0 (List.length cs)) [d] -> sel_graph data cs fams <> None.
  Proof. apply (graph_resolve_total stree stree_eqb stree_eqb_iff fams order order_perm). Qed.

  Section Main.
    Variable us : nat -> bool.
    Variable P : list prule.
    Notation M := (M_earley us P sel_graph).

    Theorem M_graph_sound data cs u : M (Node data cs) = Some u ->
      exists r args, u = UNode r args /\ In r (G_for us P data) /\ r_origin r = data /\
                     uargs_gen (uvalid (G_for us P data)) (r_exp r) args /\ leaves u = cs.
    Proof. exact (M_earley_sound us P sel_graph sel_graph_sound data cs u). Qed.

    Theorem M_graph_complete data cs : (exists u, supported us P u data cs) -> M (Node data cs) <> None.
    Proof. exact (M_earley_complete us P sel_graph sel_graph_total data cs). Qed.

    Hypothesis Hc : cls us P.
    Hypothesis Hx : cls_extra us P.
    Hypothesis Hplain : plain_roots us P.

    Theorem M_graph_ok t u : ptree us P t -> M t = Some u ->
      exists data cs, t = Node data cs /\ supported us P u data cs.
    Proof. exact (M_earley_ok us P Hc Hx Hplain sel_graph sel_graph_sound t u). Qed.

    (* the token-level round trip with lark's Earley tree matcher, selection included *)
    Theorem recons_token_roundtrip_earley_graph lit
      (Hlit : forall r n, In r P -> In (Tm n true) (p_exp r) -> lit n <> None)
      (Hdisj : forall r n fo, In r P -> In (Tm n fo) (p_exp r) ->
               forall r', In r' P -> p_origin r' <> n /\ p_alias r' <> Some n)
      start pr0 ds0 :
      wf P (DNode pr0 ds0) -> p_origin pr0 = start -> ~ In start (expand1s P) -> us start = false ->
      exists fuel toks, recon lit M fuel (shape us (DNode pr0 ds0)) = Ok toks /\
        parses us P start toks (shape us (DNode pr0 ds0)) /\
        (unambiguous P start -> forall t', parses us P start toks t' -> t' = shape us (DNode pr0 ds0)).
    Proof.
      exact (recons_token_roundtrip_earley us P Hc Hx Hplain sel_graph sel_graph_sound sel_graph_total
               lit Hlit Hdisj start pr0 ds0).
    Qed.
  End Main.
End Sel.

(* the instance that keeps insertion order *)
Definition order_id (l : nlabel stree) (fs : list (family stree)) : list (family stree) := fs.
Lemma order_id_perm l fs f : In f (order_id l fs) <-> In f fs.
Proof. reflexivity. Qed.

Definition sel_resolve := sel_graph order_id.

Theorem sel_resolve_sound data cs fams d : sel_resolve data cs fams = Some d ->
  den stree (in_forest stree fams) (NSym stree data 0 (List.length cs)) [d].
Proof. exact (sel_graph_sound order_id order_id_perm data cs fams d). Qed.

Theorem sel_resolve_total data cs (fams : list (nlabel stree * family stree)) d :
  den stree (in_forest stree fams) (NSym stree data 0 (List.length cs)) [d] -> sel_resolve data cs fams <> None.
Proof. exact (sel_graph_total order_id order_id_perm data cs fams d). Qed.

Print Assumptions sel_resolve_sound.
Print Assumptions sel_resolve_total.
Print Assumptions recons_token_roundtrip_earley_graph.
