(* C19: match_tree instantiated with the executable model of lark's Earley parser.
   TreeMatcher.match_tree builds earley.Parser(lexer_conf, ParserConf(self.rules + best(rules_for_root[name]),
   callbacks, [name]), _match, resolve_ambiguity=True) and parses the children list: that is Earley/Alg.v's run
   (instrumented with the SPPF bookkeeping: Forest/ExplicitAlgBuild.v) over the token type `stree` with the
   matcher `cmatch`, on the grammar `cfg_of (G_for data)`, start symbol `data`.  ForestToParseTree(resolve)
   then keeps one of the stored derivations; it is the parameter `sel` (a selector on the family list).
   Definitions only. *)
From Coq Require Import String Ascii List Arith Bool.
From LV Require Import Base.Prelude Cfg.Grammar Cfg.Analysis Earley.Spec Earley.Alg Forest.ExplicitBuild
     Forest.ExplicitAlgBuild Recons.Recons Recons.ReconsCheck.
Import ListNotations.

Definition cfg_of (G : list rrule) : grammar := map (fun r => mkRule (r_origin r) (r_exp r)) G.

(* the tree-matching rule (with its orig_expansion) behind a rule of the parser: callbacks = {rule: rule.alias},
   Rule equality is (origin, expansion) *)
Definition find_rrule (G : list rrule) (r : rule) : option rrule :=
  find (fun x => Nat.eqb (r_origin x) (lhs r) && list_eqb symbol_eqb (r_exp x) (rhs r)) G.

(* the tree built by the callbacks (_MakeTreeMatch) from a derivation *)
Fixpoint to_utree (G : list rrule) (d : dt stree) : utree :=
  match d with
  | DL _ _ x => ULeaf x
  | DN _ r ks => UNode (match find_rrule G r with Some x => x | None => mkR (lhs r) (rhs r) [] end)
                       (map (to_utree G) ks)
  end.

Definition occurs_st (cs : list stree) (x : stree) (i : nat) : bool :=
  match nth_error cs i with Some y => stree_eqb x y | None => false end.

Section MEarley.
  Variable us : nat -> bool.
  Variable P : list prule.
  (* ForestToParseTree(resolve_ambiguity=True) on the SPPF: which stored derivation is kept *)
  Variable sel : nat -> list stree -> list (fam stree) -> option (dt stree).

  Definition run (data : nat) (cs : list stree) : result * list (fam stree) :=
    let G := cfg_of (G_for us P data) in
    iparse G (pred_lookup G (pred_table G)) stree cmatch data cs.

  Definition M_earley (t : stree) : option utree :=
    match t with
    | Tok _ _ => None
    | Node data cs =>
        let r := run data cs in
        match r_out (fst r) with
        | Accept => option_map (to_utree (G_for us P data)) (sel data cs (snd r))
        | _ => None                                          (* UnexpectedToken / UnexpectedEOF *)
        end
    end.

End MEarley.
