(* C19, character level, per grammar: relex_safe_b (RelexSafe.v) implies the boundary condition bc_b of Relex.v for
   EVERY list of tokens the lexer itself can produce (and the literals the Reconstructor re-inserts).
     stable            : a token scanned by terminal t in front of some rest is scanned the same way in front of whatever
                         reconstruct() may write after it (S1, S2)
     blank_scanned     : the inserted blank is one ignored terminal whatever follows (S3)
     relex_safe_bc     : relex_safe_b -> Forall lexable toks -> bc_b (reconstruct_text toks) toks
     lex_with_lexable  : every token lex_model returns is lexable. *)
From Coq Require Import ZArith String Ascii List Arith Bool Lia.
From LV Require Import Base.Prelude Lex.LexerBase Lex.Lexer Lex.Lexer_proofs Recons.Recons Recons.Relex
     Recons.Relex_proofs Recons.RelexSafe.
Import ListNotations.

(* ---------------------------------------------------------------- strings *)
Lemma sprefix_spec v s : sprefix v s = true <-> exists r, s = append v r.
Proof.
  revert s. induction v as [|a v IH]; intros s; simpl.
  - split; [intros _; exists s; reflexivity|reflexivity].
  - destruct s as [|b s]; [split; [discriminate|intros (r & E); discriminate]|].
    rewrite andb_true_iff, IH. split.
    + intros (E & r & ->). apply Ascii.eqb_eq in E. subst. exists r. reflexivity.
    + intros (r & E). inversion E; subst. split; [apply Ascii.eqb_refl|exists r; reflexivity].
Qed.

Lemma sprefix_refl_app x F : sprefix x (append x F) = true.
Proof. apply sprefix_spec. exists F. reflexivity. Qed.

Lemma sprefix_app_same x w F : sprefix (append x w) (append x F) = sprefix w F.
Proof. induction x as [|a x IH]; simpl; auto. rewrite Ascii.eqb_refl. exact IH. Qed.

Lemma sprefix_len v s : sprefix v s = true -> String.length v <= String.length s.
Proof. intros H. apply sprefix_spec in H. destruct H as (r & ->). rewrite slen_app. lia. Qed.

(* v a prefix of x ++ F: v is a prefix of x, or x a prefix of v *)
Lemma sprefix_comparable v x F : sprefix v (append x F) = true -> sprefix v x = true \/ sprefix x v = true.
Proof.
  revert x. induction v as [|a v IH]; intros x H; simpl; auto.
  destruct x as [|b x]; [right; reflexivity|]. simpl in H. apply andb_true_iff in H. destruct H as (E & H).
  simpl. rewrite E. apply Ascii.eqb_eq in E. subst. rewrite Ascii.eqb_refl. simpl. apply IH; auto.
Qed.

Lemma sprefix_weaken v x G : sprefix v x = true -> sprefix v (append x G) = true.
Proof.
  intros H. apply sprefix_spec in H. destruct H as (r & ->). apply sprefix_spec. exists (append r G).
  apply sapp_assoc.
Qed.

Lemma sprefix_split x v : sprefix x v = true -> v = append x (sdrop (String.length x) v).
Proof.
  revert v. induction x as [|a x IH]; intros v H; simpl; [destruct v; reflexivity|].
  destruct v as [|b v]; [discriminate|]. simpl in H. apply andb_true_iff in H. destruct H as (E & H).
  apply Ascii.eqb_eq in E. subst. simpl. f_equal. apply IH; auto.
Qed.

Lemma sprefix_same_len v x G : sprefix v (append x G) = true -> String.length v = String.length x -> v = x.
Proof.
  revert x. induction v as [|a v IH]; intros x H E; destruct x as [|b x]; simpl in *; try discriminate; auto.
  apply andb_true_iff in H. destruct H as (Eab & H). apply Ascii.eqb_eq in Eab. subst. f_equal. apply IH; auto.
Qed.

Lemma sdrop_app pre s : sdrop (String.length pre) (append pre s) = s.
Proof. induction pre; simpl; auto. Qed.

Lemma sdrop_nil n : sdrop n EmptyString = EmptyString.
Proof. destruct n; reflexivity. Qed.

Lemma substring_sdrop p n s : substring p n s = substring 0 n (sdrop p s).
Proof.
  revert s. induction p as [|p IH]; intros s; simpl; [reflexivity|].
  destruct s as [|c s]; [destruct n; reflexivity|]. apply IH.
Qed.

Lemma take_drop k s : k <= String.length s ->
  s = append (substring 0 k s) (sdrop k s) /\ String.length (substring 0 k s) = k.
Proof.
  revert s. induction k as [|k IH]; intros s H; simpl.
  - destruct s; simpl; auto.
  - destruct s as [|c s]; simpl in *; [lia|]. destruct (IH s) as (E & El); [lia|]. rewrite <- E, El. auto.
Qed.

Lemma str_eqb_prefix v s : str_eqb lower false v (substring 0 (String.length v) s) = sprefix v s.
Proof.
  revert s. induction v as [|a v IH]; intros s; simpl.
  - destruct s; reflexivity.
  - destruct s as [|b s]; simpl; [reflexivity|]. rewrite IH. reflexivity.
Qed.

(* for a string terminal without flags the computed matcher is the prefix test of Lex/Lexer.v *)
Lemma m_cp_str t text p : tre t = false -> tflags t = [] -> m_cp t text p = str_match_at lower t text p.
Proof.
  intros Hre Hfl. unfold m_cp, mm, str_match_at, ci_of. rewrite Hre, Hfl. simpl.
  rewrite substring_sdrop, str_eqb_prefix. reflexivity.
Qed.

(* ---------------------------------------------------------------- runs and classes *)
Fixpoint all_in (c : ascii -> bool) (s : string) : bool :=
  match s with EmptyString => true | String a r => c a && all_in c r end.

Lemma run_le c s : run c s <= String.length s.
Proof. induction s as [|a s IH]; simpl; [lia|]. destruct (c a); lia. Qed.

Lemma run_ge_all c x G : String.length x <= run c (append x G) -> all_in c x = true.
Proof.
  induction x as [|a x IH]; simpl; auto. destruct (c a); [|lia]. intros H. apply IH. lia.
Qed.

Lemma run_all_app c x F : all_in c x = true -> run c (append x F) = String.length x + run c F.
Proof.
  induction x as [|a x IH]; simpl; auto. destruct (c a); [|discriminate]. intros H. rewrite IH; auto.
Qed.

Lemma all_in_first c x a : all_in c x = true -> first_char x = Some a -> c a = true.
Proof. destruct x; simpl; [discriminate|]. intros H E. inversion E; subst. apply andb_true_iff in H. tauto. Qed.

Lemma all_in_last c x a : all_in c x = true -> last_char x = Some a -> c a = true.
Proof.
  induction x as [|b x IH]; [discriminate|]. intros H E. simpl in H. apply andb_true_iff in H. destruct H as (Hb & H).
  destruct x as [|b' x]; [inversion E; subst; auto|]. apply IH; auto.
Qed.

Lemma in_all_ascii a : In a all_ascii.
Proof.
  unfold all_ascii. rewrite <- (ascii_nat_embedding a). apply in_map. apply in_seq.
  pose proof (nat_ascii_bounded a). lia.
Qed.

Lemma in_cls_chars rs a : in_cls rs a = true -> In a (cls_chars rs).
Proof. intros H. unfold cls_chars. apply filter_In. split; [apply in_all_ascii|exact H]. Qed.

Lemma memc_In c l : memc c l = true <-> In c l.
Proof.
  unfold memc. rewrite existsb_exists. split.
  - intros (y & Hy & E). apply Ascii.eqb_eq in E. subst. auto.
  - intros H. exists c. split; auto. apply Ascii.eqb_refl.
Qed.

Lemma first_some_ext {A B} (f g : A -> option B) l : (forall u, In u l -> f u = g u) -> first_some f l = first_some g l.
Proof.
  induction l as [|y r IH]; intros H; simpl; auto.
  rewrite (H y (or_introl eq_refl)). destruct (g y); auto. apply IH. intros u Hu. apply H. now right.
Qed.

Lemma first_char_some_last x a : first_char x = Some a -> exists b, last_char x = Some b.
Proof.
  intros H. destruct x as [|c x]; [discriminate|]. clear H. revert c.
  induction x as [|d x IH]; intros c; [exists c; reflexivity|]. destruct (IH d) as (b & E). exists b. exact E.
Qed.

Lemma nonempty_first x : x <> EmptyString -> exists a, first_char x = Some a.
Proof. destruct x; [congruence|]. intros _. eexists; reflexivity. Qed.

(* ---------------------------------------------------------------- the matcher *)
Lemma mm_len t s k : term_ok t = true -> mm t s = Some k -> k <> 0 /\ k <= String.length s.
Proof.
  unfold term_ok, mm. intros Hok H. apply andb_true_iff in Hok. destruct Hok as (_ & Hok).
  destruct (tre t).
  - destruct (cls_of (tvalue t)) as [rs|]; [|discriminate].
    pose proof (run_le (in_cls rs) s). destruct (run (in_cls rs) s); inversion H; subst. lia.
  - destruct (sprefix (tvalue t) s) eqn:E; inversion H; subst. split; [|apply sprefix_len; auto].
    destruct (tvalue t); [discriminate|simpl; lia].
Qed.

Section SafeProofs.
  Variable names : list string.
  Variable L : blexer.
  Notation flat := (flat L).
  Notation ign_t := (ign_t L).
  Notation live := (live L).

  Definition fs (s : string) : option (term * nat) := first_some (fun u => mm u s) flat.

  Lemma scan_fs text p : scan m_cp text (lx_mres L) p = fs (sdrop p text).
  Proof. rewrite scan_concat. reflexivity. Qed.

  (* x is scanned by the (non-ignored) terminal t with exactly its length, in front of some rest *)
  Definition lexw (t : term) (x : string) : Prop :=
    x <> EmptyString /\ exists G, fs (append x G) = Some (t, String.length x) /\ ign_t t = false.
  (* ... and reported under the name n *)
  Definition lexable (tok : nat * string) : Prop :=
    exists t, lexw t (snd tok) /\ name_index names (report lower m_cp (lx_terms L) t (snd tok)) = Some (fst tok).

  Hypothesis Hok : forallb term_ok flat = true.

  Lemma flat_ok u : In u flat -> term_ok u = true.
  Proof. intros H. rewrite forallb_forall in Hok. auto. Qed.

  Lemma lexw_live t x : lexw t x -> In t live.
  Proof.
    intros (_ & G & H & Hi). apply first_some_spec in H. destruct H as (pre & post & E & _).
    unfold RelexSafe.live. apply filter_In. split; [|rewrite Hi; reflexivity].
    unfold RelexSafe.flat in *. rewrite E. apply in_or_app. right. now left.
  Qed.

  (* what the winner says about the token's characters *)
  Lemma lexw_shape t x : lexw t x ->
    (tre t = true /\ exists rs, cls_of (tvalue t) = Some rs /\ all_in (in_cls rs) x = true) \/
    (tre t = false /\ tvalue t = x).
  Proof.
    intros (Hne & G & H & _). apply first_some_spec in H. destruct H as (pre & post & _ & Hm & _).
    unfold mm in Hm. destruct (tre t).
    - left. split; auto. destruct (cls_of (tvalue t)) as [rs|]; [|discriminate]. exists rs. split; auto.
      apply (run_ge_all _ x G). destruct (run (in_cls rs) (append x G)); inversion Hm. lia.
    - right. split; auto. destruct (sprefix (tvalue t) (append x G)) eqn:E; inversion Hm.
      eapply sprefix_same_len; eauto.
  Qed.

  Lemma lexw_chars t x : lexw t x ->
    (exists a, last_char x = Some a /\ In a (lasts t)) /\ (exists b, first_char x = Some b /\ In b (firsts t)).
  Proof.
    intros H. pose proof (lexw_shape _ _ H) as Hs. destruct H as (Hne & _).
    destruct (nonempty_first x Hne) as (b & Eb). destruct (first_char_some_last x b Eb) as (a & Ea).
    destruct Hs as [(Hre & rs & Ec & Hall)|(Hre & Ev)].
    - split; [exists a|exists b]; split; auto; unfold lasts, firsts; rewrite Hre, Ec; apply in_cls_chars.
      + eapply all_in_last; eauto.
      + eapply all_in_first; eauto.
    - split; [exists a|exists b]; split; auto; unfold lasts, firsts; rewrite Hre, Ev, ?Ea, ?Eb; now left.
  Qed.

  (* ---- S2 as a statement about splits of the scanner list *)
  Lemma s2_go_spec l : forall pre0, s2_go L pre0 l = true ->
    forall a t b, l = a ++ t :: b -> ign_t t = false -> forall u, In u (pre0 ++ a) -> loser_ok L u t = true.
  Proof.
    induction l as [|y l IH]; intros pre0 H a t b E Hi u Hu; [destruct a; discriminate|].
    simpl in H. apply andb_true_iff in H. destruct H as (Hy & Hrest).
    destruct a as [|y' a]; simpl in E; inversion E; subst.
    - rewrite app_nil_r in Hu. unfold RelexSafe.ign_t in *. rewrite Hi in Hy. simpl in Hy.
      rewrite forallb_forall in Hy. auto.
    - apply (IH (pre0 ++ [y']) Hrest a t b eq_refl Hi). rewrite <- app_assoc. exact Hu.
  Qed.

  Hypothesis H1 : s1_b L = true.
  Hypothesis H2 : s2_b L = true.

  (* ---- stability: the same scan in front of anything reconstruct() can write next *)
  Theorem stable t x F : lexw t x ->
    (F = EmptyString \/ exists ch F', F = String ch F' /\ In ch (next_firsts L t)) ->
    fs (append x F) = Some (t, String.length x).
  Proof.
    intros Hw HF. pose proof (lexw_shape _ _ Hw) as Hs. pose proof (lexw_live _ _ Hw) as Hlive.
    destruct Hw as (Hne & G & Hfs & Hi).
    apply first_some_spec in Hfs. destruct Hfs as (pre & post & Eflat & Hm & Hpre).
    unfold fs. rewrite Eflat. apply first_some_intro.
    - (* terminals tried before t still do not match *)
      intros u Hu. specialize (Hpre u Hu).
      assert (Hlo : loser_ok L u t = true).
      { apply (s2_go_spec flat [] H2 pre t post Eflat Hi). exact Hu. }
      assert (Huok : term_ok u = true) by (apply flat_ok; rewrite Eflat; apply in_or_app; now left).
      unfold loser_ok in Hlo. unfold mm in *. destruct (tre u) eqn:Eu.
      + (* u class-plus: it did not match the first character of x *)
        destruct (cls_of (tvalue u)) as [rs'|]; auto.
        destruct x as [|b x]; [congruence|]. simpl in *. destruct (in_cls rs' b); [discriminate|reflexivity].
      + simpl in Hlo. destruct (sprefix (tvalue u) (append x G)) eqn:Epg; [discriminate|].
        destruct (sprefix (tvalue u) (append x F)) eqn:Epf; auto. exfalso.
        destruct Hs as [(Hre & rs & Ec & Hall)|(Hre & Ev)]; rewrite Hre in Hlo.
        * rewrite Ec in Hlo. destruct (first_char (tvalue u)) as [c0|] eqn:Ec0; [|discriminate].
          destruct (tvalue u) as [|c0' v']; [discriminate|]. inversion Ec0; subst c0'.
          destruct x as [|b x]; [congruence|]. simpl in Epf, Hall. apply andb_true_iff in Epf, Hall.
          destruct Epf as (Eb & _). apply Ascii.eqb_eq in Eb. subst b. destruct Hall as (Hb & _).
          rewrite Hb in Hlo. discriminate.
        * rewrite Ev in Hlo. destruct (sprefix x (tvalue u)) eqn:Exu.
          -- pose proof (sprefix_split _ _ Exu) as Esp. set (w := sdrop (String.length x) (tvalue u)) in *.
             destruct w as [|c0 w'] eqn:Ew.
             ++ rewrite sapp_nil_r in Esp. rewrite Esp, sprefix_refl_app in Epg. discriminate.
             ++ simpl in Hlo. rewrite Esp, sprefix_app_same in Epf.
                destruct HF as [->|(ch & F' & -> & Hch)]; [discriminate|].
                simpl in Epf. apply andb_true_iff in Epf. destruct Epf as (Ecc & _). apply Ascii.eqb_eq in Ecc. subst ch.
                apply memc_In in Hch. rewrite Hch in Hlo. discriminate.
          -- destruct (sprefix_comparable _ _ _ Epf) as [Hp|Hp]; [|congruence].
             rewrite (sprefix_weaken _ _ G Hp) in Epg. discriminate.
    - (* t still matches with the same length *)
      unfold mm in *. destruct Hs as [(Hre & rs & Ec & Hall)|(Hre & Ev)]; rewrite Hre in *.
      + rewrite Ec in *. rewrite (run_all_app _ _ _ Hall).
        assert (HrF : run (in_cls rs) F = 0).
        { destruct HF as [->|(ch & F' & -> & Hch)]; [reflexivity|]. simpl.
          unfold s1_b in H1. rewrite forallb_forall in H1. specialize (H1 t Hlive). rewrite Hre, Ec in H1. simpl in H1.
          rewrite forallb_forall in H1. specialize (H1 ch Hch). apply negb_true_iff in H1. rewrite H1. reflexivity. }
        rewrite HrF, Nat.add_0_r. destruct x; [congruence|reflexivity].
      + rewrite Ev, sprefix_refl_app. reflexivity.
  Qed.

  (* ---- S3: the inserted blank *)
  Theorem blank_scanned F : blank_ok L = true -> exists tb, fs (String " "%char F) = Some (tb, 1) /\ ign_t tb = true.
  Proof.
    unfold blank_ok. intros H. apply andb_true_iff in H. destruct H as (Hall & Hb).
    assert (E : fs (String " "%char F) = fs " "%string).
    { unfold fs. apply first_some_ext. intros u Hu. rewrite forallb_forall in Hall. specialize (Hall u Hu).
      unfold mm. destruct (tre u).
      - destruct (cls_of (tvalue u)) as [rs|]; auto. simpl. apply negb_true_iff in Hall. rewrite Hall. reflexivity.
      - destruct (tvalue u) as [|c v] eqn:Ev; [discriminate|]. simpl in Hall. simpl.
        destruct (Ascii.eqb c " "%char) eqn:Ec; simpl in *.
        + apply String.eqb_eq in Hall. inversion Hall; subst. reflexivity.
        + reflexivity. }
    rewrite E. unfold fs. destruct (first_some (fun u => mm u " "%string) flat) as [[tb k]|]; [|discriminate].
    destruct k as [|[|k]]; try discriminate. exists tb. auto.
  Qed.

  Hypothesis H3 : s3_b L = true.

  Lemma In_all_firsts t b : In t live -> In b (firsts t) -> In b (all_firsts L).
  Proof. intros Ht Hb. unfold all_firsts. apply in_flat_map. exists t. auto. Qed.

  Lemma need_space_chars prev x a b : last_char prev = Some a -> first_char x = Some b ->
    need_space prev x = is_id_continue a && is_id_continue b.
  Proof. intros Ea Eb. unfold need_space. rewrite Ea, Eb. reflexivity. Qed.

  (* first character of what follows a token in the joined text *)
  Lemma follow_char t x rest : lexw t x -> Forall lexable rest ->
    join_sp x (map snd rest) = EmptyString \/
    exists ch F', join_sp x (map snd rest) = String ch F' /\ In ch (next_firsts L t).
  Proof.
    intros Hw Hr. destruct rest as [|[n' x'] rest]; [left; reflexivity|right].
    inversion Hr as [|? ? (t' & Hw' & _) _]; subst. simpl in Hw'.
    destruct (lexw_chars _ _ Hw) as ((a & Ea & Ha) & _). destruct (lexw_chars _ _ Hw') as (_ & (b & Eb & Hb)).
    pose proof (In_all_firsts _ _ (lexw_live _ _ Hw') Hb) as Hbf.
    assert (Hin : In (nextc a b) (next_firsts L t)).
    { unfold next_firsts. apply in_flat_map. exists a. split; auto. apply in_map; auto. }
    cbn [map snd join_sp]. rewrite (need_space_chars _ _ _ _ Ea Eb). unfold nextc in Hin.
    destruct (is_id_continue a && is_id_continue b).
    - eexists _, _. split; [reflexivity|exact Hin].
    - destruct x' as [|c x'']; [discriminate|]. inversion Eb; subst. eexists _, _. split; [reflexivity|exact Hin].
  Qed.

  Theorem bc_gen text : forall toks pre prev,
    text = append pre (join_sp prev (map snd toks)) ->
    (prev = EmptyString \/ exists tp, lexw tp prev) ->
    Forall lexable toks ->
    bc_b m_cp names L text (String.length pre) prev toks = true.
  Proof.
    induction toks as [|[n x] rest IH]; intros pre prev Et Hprev Hl; [reflexivity|].
    apply Forall_cons_iff in Hl. destruct Hl as ((t & Hw & Hn) & Hrest). simpl in Hw, Hn.
    cbn [map snd join_sp] in Et. cbn [bc_b].
    set (sp := if need_space prev x then " "%string else EmptyString) in *.
    assert (Et2 : text = append (append pre sp) (append x (join_sp x (map snd rest)))).
    { rewrite Et, sapp_assoc. reflexivity. }
    assert (Eq : (if need_space prev x then S (String.length pre) else String.length pre) = String.length (append pre sp)).
    { unfold sp. rewrite slen_app. destruct (need_space prev x); simpl; lia. }
    apply andb_true_iff. split.
    - (* the blank *)
      destruct (need_space prev x) eqn:Ens; auto.
      rewrite scan_fs. rewrite Et. rewrite sdrop_app. unfold sp. simpl.
      assert (Hb : blank_ok L = true).
      { unfold s3_b in H3. apply orb_true_iff in H3. destruct H3 as [Hn0|]; auto. exfalso.
        apply negb_true_iff in Hn0. unfold need_any in Hn0.
        destruct Hprev as [->|(tp & Hwp)]; [discriminate|].
        destruct (lexw_chars _ _ Hwp) as ((a & Ea & Ha) & _). destruct (lexw_chars _ _ Hw) as (_ & (b & Eb & Hb)).
        rewrite (need_space_chars _ _ _ _ Ea Eb) in Ens. apply andb_true_iff in Ens. destruct Ens as (Ia & Ib).
        assert (X1 : existsb (fun t0 => existsb is_id_continue (lasts t0)) live = true).
        { apply existsb_exists. exists tp. split; [eapply lexw_live; eauto|]. apply existsb_exists. exists a; auto. }
        assert (X2 : existsb is_id_continue (all_firsts L) = true).
        { apply existsb_exists. exists b. split; auto. eapply In_all_firsts; eauto. eapply lexw_live; eauto. }
        rewrite X1, X2 in Hn0. discriminate. }
      destruct (blank_scanned (append x (join_sp x (map snd rest))) Hb) as (tb & Es & Hi). rewrite Es. exact Hi.
    - rewrite Eq. rewrite scan_fs. rewrite Et2 at 1. rewrite sdrop_app.
      rewrite (stable t x _ Hw (follow_char t x rest Hw Hrest)).
      destruct Hw as (Hne & G & Hfs & Hi).
      rewrite Nat.eqb_refl. unfold RelexSafe.ign_t in Hi. rewrite Hi, Hn. simpl. rewrite Nat.eqb_refl.
      assert (Hx0 : Nat.eqb (String.length x) 0 = false) by (destruct x; [congruence|reflexivity]).
      rewrite Hx0. simpl.
      replace (String.length (append pre sp) + String.length x) with (String.length (append (append pre sp) x))
        by (rewrite (slen_app (append pre sp)); reflexivity).
      apply IH; auto.
      + rewrite Et2. symmetry. apply sapp_assoc.
      + right. exists t. split; auto. exists G. auto.
  Qed.
End SafeProofs.

(* ---------------------------------------------------------------- the per-grammar theorem *)
Theorem relex_safe_bc names L lits toks :
  relex_safe_b names L lits = true -> Forall (lexable names L) toks ->
  bc_b m_cp names L (reconstruct_text toks) 0 EmptyString toks = true.
Proof.
  unfold relex_safe_b. intros H Hl. apply andb_true_iff in H. destruct H as (H & _).
  apply andb_true_iff in H. destruct H as (H & H3). apply andb_true_iff in H. destruct H as (H & H2).
  apply andb_true_iff in H. destruct H as (Hok & H1).
  apply (bc_gen names L Hok H1 H2 H3 (reconstruct_text toks) toks EmptyString EmptyString); auto.
Qed.

(* the literals the Reconstructor re-inserts are lexable tokens (S4) *)
Lemma lookup_lit_In tbl n v : lookup_lit tbl n = Some v -> In (n, v) tbl.
Proof.
  induction tbl as [|[k w] r IH]; simpl; [discriminate|].
  destruct (Nat.eqb_spec k n); [intros E; inversion E; subst; now left|intros H; right; auto].
Qed.

Lemma onat_eqb_eq a b : onat_eqb a b = true -> a = b.
Proof.
  destruct a, b; simpl; try discriminate; auto. intros H. apply Nat.eqb_eq in H. subst. reflexivity.
Qed.

Theorem lits_lexable names L lits n v :
  relex_safe_b names L lits = true -> lookup_lit lits n = Some v -> lexable names L (n, v).
Proof.
  unfold relex_safe_b. intros H Hl. apply andb_true_iff in H. destruct H as (_ & H4).
  unfold s4_b in H4. rewrite forallb_forall in H4. specialize (H4 _ (lookup_lit_In _ _ _ Hl)).
  unfold scans_b in H4. simpl in H4. apply andb_true_iff in H4. destruct H4 as (Hne & H4).
  destruct (first_some (fun u => mm u (append v EmptyString)) (flat L)) as [[t k]|] eqn:E; [|discriminate].
  apply andb_true_iff in H4. destruct H4 as (H4 & Hn). apply andb_true_iff in H4. destruct H4 as (Hk & Hi).
  apply Nat.eqb_eq in Hk. subst k. apply negb_true_iff in Hi. apply onat_eqb_eq in Hn.
  exists t. simpl. split; auto. split.
  - intros ->. discriminate.
  - exists EmptyString. split; auto.
Qed.

(* every token the lexer model returns is lexable *)
Section LexLexable.
  Variable names : list string.
  Variable L : blexer.
  Hypothesis Hok : forallb term_ok (flat L) = true.
  Variable src : string.

  Definition raw_good (r : rawtok) : Prop := scan m_cp src (lx_mres L) (rstart r) = Some (rterm r, rlen r).

  Lemma lex_raw_good fuel : forall p rs e, lex_raw m_cp src fuel (lx_mres L) p = (rs, e) -> Forall raw_good rs.
  Proof.
    induction fuel as [|f IH]; intros p rs e H; simpl in H.
    - destruct (String.length src <=? p); inversion H; constructor.
    - destruct (String.length src <=? p); [inversion H; constructor|].
      destruct (scan m_cp src (lx_mres L) p) as [[t k]|] eqn:Es; [|inversion H; constructor].
      destruct (lex_raw m_cp src f (lx_mres L) (p + k)) as [ts e'] eqn:Er. inversion H; subst.
      constructor; [exact Es|eapply IH; eauto].
  Qed.

  Lemma raw_lexable r n : raw_good r -> ignored (lx_ign L) r = false ->
    name_index names (report lower m_cp (lx_terms L) (rterm r) (substring (rstart r) (rlen r) src)) = Some n ->
    lexable names L (n, substring (rstart r) (rlen r) src).
  Proof.
    unfold raw_good. intros Hs Hi Hn. rewrite scan_fs in Hs. set (s := sdrop (rstart r) src) in *.
    pose proof Hs as Hs'. apply first_some_spec in Hs'. destruct Hs' as (pre & post & Ef & Hm & _).
    assert (Hto : term_ok (rterm r) = true).
    { rewrite forallb_forall in Hok. apply Hok. rewrite Ef. apply in_or_app. right. now left. }
    destruct (mm_len _ _ _ Hto Hm) as (Hk0 & Hk). destruct (take_drop _ _ Hk) as (Esplit & Elen).
    exists (rterm r). simpl. rewrite substring_sdrop. fold s. split; [|rewrite substring_sdrop in Hn; exact Hn].
    split.
    - intros E. rewrite E in Elen. simpl in Elen. lia.
    - exists (sdrop (rlen r) s). rewrite <- Esplit, Elen. split; auto.
  Qed.

  Lemma emit_lexable : forall rs toks, Forall raw_good rs ->
    conv_toks names src (emit lower m_cp src (lx_terms L) (lx_ign L) rs) = Some toks -> Forall (lexable names L) toks.
  Proof.
    induction rs as [|r rs IH]; intros toks Hg H; unfold emit in *; simpl in H.
    - inversion H. constructor.
    - inversion Hg; subst. destruct (ignored (lx_ign L) r) eqn:Ei; simpl in H; [apply IH; auto|].
      destruct (name_index names _) as [n|] eqn:En; [|discriminate].
      destruct (conv_toks names src _) as [l|] eqn:Ec; [|discriminate]. inversion H; subst.
      constructor; [|apply IH; auto]. apply raw_lexable; auto.
  Qed.

  Theorem lex_with_lexable toks : lex_with m_cp names L src = Some toks -> Forall (lexable names L) toks.
  Proof.
    unfold lex_with, lex_from. destruct (lex_raw m_cp src _ (lx_mres L) 0) as [rs e] eqn:Er.
    destruct e; try discriminate. intros H. apply (emit_lexable rs toks); [eapply lex_raw_good; eauto|exact H].
  Qed.
End LexLexable.
