(* C19, stretch: completeness of _build_recons_rules.  Every tree the parser can return (the shape of a
   well-formed derivation whose root is not collapsed) has a supported match: root rule in
   rules_for_root[data], inner rules in TreeMatcher.rules, leaves = the node's children. *)
From Coq Require Import String Ascii List Arith Bool Lia.
From LV Require Import Base.Prelude Cfg.Grammar Recons.Recons Recons.Recons_proofs Recons.ReconsCheck
     Recons.ReconsCheck_proofs.
Import ListNotations.

(* ---- best-of-group keeps a representative of every (origin, expansion) group ------------------- *)
Lemma list_eqb_refl {A} (eqb : A -> A -> bool) (H : forall x, eqb x x = true) : forall a, list_eqb eqb a a = true.
Proof. induction a; simpl; auto. rewrite H, IHa. reflexivity. Qed.

Lemma symbol_eqb_refl x : symbol_eqb x x = true.
Proof. destruct (symbol_eqb_spec x x); auto. Qed.

Lemma same_key_refl r : same_key r r = true.
Proof. unfold same_key. rewrite Nat.eqb_refl, (list_eqb_refl _ symbol_eqb_refl). reflexivity. Qed.

Lemma same_key_eq r s : same_key r s = true -> r_origin r = r_origin s /\ r_exp r = r_exp s.
Proof.
  unfold same_key. intros E. apply andb_true_iff in E. destruct E as (E1 & E2).
  apply Nat.eqb_eq in E1. apply (list_eqb_eq _ symbol_eqb_eq) in E2. auto.
Qed.

Definition keyed (r r' : rrule) : Prop := r_origin r' = r_origin r /\ r_exp r' = r_exp r.

Lemma dedupe_complete : forall l seen r, In r l ->
  (exists r', In r' (dedupe seen l) /\ keyed r r') \/ (exists s, In s seen /\ same_key r s = true).
Proof.
  induction l as [|x l IH]; intros seen r Hin; [contradiction|]. simpl.
  destruct Hin as [->|Hin].
  - destruct (existsb (same_key r) seen) eqn:E.
    + right. apply existsb_exists in E. exact E.
    + left. exists r. split; [left; auto|split; auto].
  - destruct (existsb (same_key x) seen) eqn:E.
    + destruct (IH seen r Hin) as [(r' & H1 & H2)|H]; [left; eauto|right; auto].
    + destruct (IH (x :: seen) r Hin) as [(r' & H1 & H2)|(s & [<-|Hs] & Hk)].
      * left. exists r'. split; [right; auto|auto].
      * left. exists x. split; [left; auto|]. apply same_key_eq in Hk. destruct Hk. split; auto.
      * right. eauto.
Qed.

Lemma best_complete l r : In r l -> exists r', In r' (best l) /\ keyed r r'.
Proof.
  intros Hin. destruct (dedupe_complete l [] r Hin) as [(r' & H1 & H2)|(s & [] & _)].
  exists r'. split; auto. unfold best. apply In_sort_len. auto.
Qed.

Lemma nodup_nat_complete : forall l seen x, In x l -> In x (nodup_nat seen l) \/ In x seen.
Proof.
  induction l as [|y l IH]; intros seen x Hin; [contradiction|]. simpl.
  destruct Hin as [->|Hin].
  - destruct (memn x seen) eqn:E; [right; apply memn_In; auto|left; left; auto].
  - destruct (memn y seen) eqn:E.
    + apply IH; auto.
    + destruct (IH (y :: seen) x Hin) as [H|[<-|H]]; [left; right; auto|left; left; auto|right; auto].
Qed.

Fixpoint dtree_ind2 (Q : dtree -> Prop) (HT : forall n s, Q (DTok n s))
         (HN : forall r ds, Forall Q ds -> Q (DNode r ds)) (d : dtree) : Q d :=
  match d with
  | DTok n s => HT n s
  | DNode r ds =>
      HN r ds ((fix go (l : list dtree) : Forall Q l :=
                  match l with
                  | [] => Forall_nil _
                  | x :: l' => Forall_cons _ (dtree_ind2 Q HT HN x) (go l')
                  end) ds)
  end.

Arguments c_closed {us P}.
Arguments c_alias {us P}.
Arguments c_uscore {us P}.
Arguments c_uniform {us P}.
Arguments c_single {us P}.

Section Complete.
  Variable us : nat -> bool.
  Variable P : list prule.

  Notation expand1s := (expand1s P).
  Notation aliased := (aliased P).
  Notation rule_names := (rule_names P).
  Notation is_nonterminal := (is_nonterminal us P).
  Notation recons_sym := (recons_sym us P).
  Notation recons_exp := (recons_exp us P).
  Notation regular := (regular us P).
  Notation rules := (rules us P).
  Notation rfr := (rfr us P).
  Notation wf := (wf P).
  Notation wf_args := (wf_args P).

  (* the remaining class conditions of the property statement that completeness uses:
     no alternative is dropped as a self-recursive unit rule, and every alternative keeps a symbol *)
  Record cls_extra : Prop := {
    x_noskip : forall r, In r P -> skipped us P r = false;
    x_keeps : forall r, In r P -> filter kept (p_exp r) <> []
  }.

  (* the root rule did not collapse into its single child *)
  Definition uncollapsed (d : dtree) : Prop :=
    match d with
    | DTok _ _ => False
    | DNode pr _ => us (p_origin pr) = false /\
                    (p_expand1 pr = true -> p_alias pr = None -> length (kids us d) <> 1)
    end.

  Hypothesis Hc : cls us P.
  Hypothesis Hx : cls_extra.

  (* ---- where rules end up ------------------------------------------------------------------------ *)
  Lemma loop_regular : forall rs seen pr, In pr rs -> skipped us P pr = false ->
    (memn (sym_name pr) expand1s && negb (Nat.eqb (length (recons_exp pr)) 1)) = false ->
    (us (sym_name pr) || memn (sym_name pr) expand1s) = true ->
    In (regular pr) (fst (build_loop us P rs seen)).
  Proof.
    induction rs as [|x rs IH]; intros seen pr Hin Hs H1 H2; [contradiction|]. simpl.
    destruct Hin as [->|Hin].
    - rewrite Hs, H1, H2. destruct (build_loop us P rs seen). simpl. auto.
    - destruct (skipped us P x); [apply IH; auto|].
      destruct (memn (sym_name x) expand1s && negb (Nat.eqb (length (recons_exp x)) 1)).
      + specialize (IH (if memn (sym_name x) seen then seen else sym_name x :: seen) pr Hin Hs H1 H2).
        destruct (build_loop us P rs _). simpl in *. apply in_or_app. auto.
      + specialize (IH seen pr Hin Hs H1 H2).
        destruct (us (sym_name x) || memn (sym_name x) expand1s); destruct (build_loop us P rs seen); simpl in *; auto.
  Qed.

  Lemma loop_root : forall rs seen pr, In pr rs -> skipped us P pr = false ->
    ((memn (sym_name pr) expand1s && negb (Nat.eqb (length (recons_exp pr)) 1)) = true \/
     (us (sym_name pr) || memn (sym_name pr) expand1s) = false) ->
    In (sym_name pr, regular pr) (snd (build_loop us P rs seen)).
  Proof.
    induction rs as [|x rs IH]; intros seen pr Hin Hs H; [contradiction|]. simpl.
    destruct Hin as [->|Hin].
    - rewrite Hs. destruct H as [H|H].
      + rewrite H. destruct (build_loop us P rs _). simpl. auto.
      + destruct (memn (sym_name pr) expand1s && negb (Nat.eqb (length (recons_exp pr)) 1)).
        * destruct (build_loop us P rs _). simpl. auto.
        * rewrite H. destruct (build_loop us P rs seen). simpl. auto.
    - destruct (skipped us P x); [apply IH; auto|].
      destruct (memn (sym_name x) expand1s && negb (Nat.eqb (length (recons_exp x)) 1)).
      + specialize (IH (if memn (sym_name x) seen then seen else sym_name x :: seen) pr Hin Hs H).
        destruct (build_loop us P rs _). simpl in *. auto.
      + specialize (IH seen pr Hin Hs H).
        destruct (us (sym_name x) || memn (sym_name x) expand1s); destruct (build_loop us P rs seen); simpl in *; auto.
  Qed.

  Lemma loop_unit : forall rs seen pr, In pr rs -> skipped us P pr = false ->
    (memn (sym_name pr) expand1s && negb (Nat.eqb (length (recons_exp pr)) 1)) = true ->
    In (unit_rule (sym_name pr) (sym_name pr)) (fst (build_loop us P rs seen)) \/ In (sym_name pr) seen.
  Proof.
    induction rs as [|x rs IH]; intros seen pr Hin Hs H; [contradiction|]. simpl.
    destruct Hin as [->|Hin].
    - rewrite Hs, H. destruct (memn (sym_name pr) seen) eqn:E.
      + right. apply memn_In; auto.
      + left. destruct (build_loop us P rs _). simpl. auto.
    - destruct (skipped us P x); [apply IH; auto|].
      destruct (memn (sym_name x) expand1s && negb (Nat.eqb (length (recons_exp x)) 1)).
      + specialize (IH (if memn (sym_name x) seen then seen else sym_name x :: seen) pr Hin Hs H).
        destruct (build_loop us P rs _) as [ys rf]. simpl in *.
        destruct IH as [IH|IH]; [left; apply in_or_app; auto|].
        destruct (memn (sym_name x) seen) eqn:E; [right; auto|].
        destruct IH as [<-|IH]; [left; simpl; auto|right; auto].
      + specialize (IH seen pr Hin Hs H).
        destruct (us (sym_name x) || memn (sym_name x) expand1s); destruct (build_loop us P rs seen); simpl in *;
          destruct IH; auto.
  Qed.

  Lemma In_aliased_of pr : In pr P -> has_alias pr = true -> In (p_origin pr) aliased.
  Proof. intros. unfold Recons.aliased. apply in_map. apply filter_In. auto. Qed.

  Lemma alias_rules_alias pr al : In pr P -> p_alias pr = Some al -> In (unit_rule (p_origin pr) al) (alias_rules P).
  Proof.
    intros Hin Hal. unfold alias_rules. apply in_flat_map. exists (p_origin pr). split.
    - destruct (nodup_nat_complete aliased [] (p_origin pr)) as [H|[]]; auto.
      apply In_aliased_of; auto. unfold has_alias. rewrite Hal. reflexivity.
    - apply in_or_app. left. apply in_map. unfold aliases_of. apply in_flat_map. exists pr. split; auto.
      rewrite Hal, Nat.eqb_refl. left; auto.
  Qed.

  Lemma alias_rules_origin pr : In pr P -> has_alias pr = true ->
    In (unit_rule (p_origin pr) (p_origin pr)) (alias_rules P).
  Proof.
    intros Hin Hal. unfold alias_rules. apply in_flat_map. exists (p_origin pr). split.
    - destruct (nodup_nat_complete aliased [] (p_origin pr)) as [H|[]]; auto. apply In_aliased_of; auto.
    - apply in_or_app. right. left. reflexivity.
  Qed.

  Lemma yielded_rules r : In r (yielded us P) -> exists r', In r' rules /\ keyed r r'.
  Proof. intros H. unfold Recons.rules. apply best_complete. apply in_rev. rewrite rev_involutive. exact H. Qed.

  (* ---- counting children -------------------------------------------------------------------------- *)
  Definition nonempty_kids (d : dtree) : Prop :=
    match d with DTok _ _ => True | DNode _ _ => kids us d <> [] end.

  Lemma kids_go_count : forall ss ds, wf_args ss ds -> Forall nonempty_kids ds ->
    length (filter kept ss) <= length (kids_go us ss ds).
  Proof.
    induction ss as [|s ss IH]; intros ds Hwf HF;
      inversion Hwf as [|n fo t ss0 ds0 Hwf'|a r ds0 ss0 ds1 Ho Hwd Hwf']; subst.
    - simpl. auto.
    - inversion HF as [|? ? _ HF']; subst. specialize (IH _ Hwf' HF').
      cbn [kids_go filter]. rewrite app_length. unfold kept at 1. cbn [discarded contrib].
      destruct fo; cbn [negb length kids]; simpl length; lia.
    - inversion HF as [|? ? Hne HF']; subst. specialize (IH _ Hwf' HF').
      cbn [kids_go filter]. rewrite app_length. unfold kept at 1. cbn [discarded contrib negb length].
      destruct (us (p_origin r)).
      + unfold nonempty_kids in Hne. destruct (kids us (DNode r ds0)); [congruence|]. simpl length. lia.
      + simpl length. lia.
  Qed.

  Lemma kids_nonempty : forall d, wf d -> nonempty_kids d.
  Proof.
    apply (dtree_ind2 (fun d => wf d -> nonempty_kids d)); [intros; exact I|].
    intros r ds IH Hwf. destruct (wf_root _ _ _ Hwf) as (Hin & Hargs).
    simpl. change (kids us (DNode r ds) <> []). rewrite kids_eq.
    assert (HF : Forall nonempty_kids ds).
    { clear Hwf. revert Hargs IH. generalize (p_exp r). induction ds as [|d ds IHd]; intros ss Hargs IH; auto.
      inversion IH; subst. inversion Hargs; subst; constructor; eauto. exact I. }
    pose proof (kids_go_count _ _ Hargs HF) as Hlen. pose proof (x_keeps Hx _ Hin) as Hk.
    destruct (filter kept (p_exp r)); [congruence|]. destruct (kids_go us (p_exp r) ds); simpl in *; [lia|congruence].
  Qed.

  Lemma wf_args_nonempty ss ds : wf_args ss ds -> Forall nonempty_kids ds.
  Proof.
    induction 1; constructor; auto. exact I. apply kids_nonempty; auto.
  Qed.

  (* ---- construction of the match ---------------------------------------------------------------- *)
  Definition Qnode (d : dtree) : Prop :=
    wf d -> forall pr ds, d = DNode pr ds -> is_nonterminal (p_origin pr) = true ->
    exists r args, uvalid rules (UNode r args) /\ r_origin r = p_origin pr /\
                   leaves (UNode r args) = contrib us (Nt (p_origin pr)) d.

  Lemma not_nonterminal a : In a rule_names -> is_nonterminal a = false ->
    us a = false /\ ~ In a expand1s /\ ~ In a aliased.
  Proof.
    intros Ha E. unfold Recons.is_nonterminal in E. apply memn_In in Ha. rewrite Ha in E. simpl in E.
    apply orb_false_iff in E. destruct E as (E & E3). apply orb_false_iff in E. destruct E as (E1 & E2).
    repeat split; auto; apply memn_false; auto.
  Qed.

  Lemma plain_shape pr ds : In pr P -> ~ In (p_origin pr) expand1s -> ~ In (p_origin pr) aliased ->
    shape us (DNode pr ds) = Node (p_origin pr) (kids us (DNode pr ds)).
  Proof.
    intros Hin He Ha.
    assert (H1 : p_expand1 pr = false).
    { destruct (p_expand1 pr) eqn:E; auto. exfalso. apply He. unfold Recons.expand1s. apply in_map. apply filter_In; auto. }
    assert (H2 : p_alias pr = None).
    { destruct (p_alias pr) eqn:E; auto. exfalso. apply Ha. apply In_aliased_of; auto. unfold has_alias. rewrite E. auto. }
    unfold shape, wrap. rewrite H1. simpl. unfold sym_name. rewrite H2. reflexivity.
  Qed.

  Lemma args_exist : forall ss ds, wf_args ss ds -> Forall Qnode ds ->
    (forall a, In (Nt a) ss -> In a rule_names) ->
    exists args, uargs_gen (uvalid rules) (map recons_sym (filter kept ss)) args /\
                 flat_map leaves args = kids_go us ss ds.
  Proof.
    induction ss as [|s ss IH]; intros ds Hwf HQ Hcl;
      inversion Hwf as [|n fo t ss0 ds0 Hwf'|a r ds0 ss0 ds1 Ho Hwd Hwf']; subst.
    - exists []. split; [constructor|reflexivity].
    - inversion HQ as [|? ? _ HQ']; subst.
      destruct (IH _ Hwf' HQ') as (args & Hu & Hl). { intros; apply Hcl; right; auto. }
      destruct fo.
      + exists args. split; auto.
      + exists (ULeaf (Tok n t) :: args). split.
        * simpl. constructor; auto. unfold cmatch. simpl. apply Nat.eqb_refl.
        * simpl. rewrite Hl. reflexivity.
    - inversion HQ as [|? ? HQ0 HQ']; subst.
      destruct (IH _ Hwf' HQ') as (args & Hu & Hl). { intros; apply Hcl; right; auto. }
      assert (Ha : In (p_origin r) rule_names) by (apply Hcl; left; auto).
      cbn [filter kept discarded negb map]. unfold Recons.recons_sym. fold recons_sym.
      destruct (is_nonterminal (p_origin r)) eqn:En.
      + destruct (HQ0 Hwd r ds0 eq_refl En) as (r' & args0 & Hv & Hor & Hlv).
        exists (UNode r' args0 :: args). split.
        * constructor; auto.
        * cbn [flat_map kids_go]. rewrite Hlv, Hl. reflexivity.
      + destruct (not_nonterminal _ Ha En) as (Hus & Hne & Hna).
        destruct (wf_root _ _ _ Hwd) as (HinP & _).
        exists (ULeaf (shape us (DNode r ds0)) :: args). split.
        * constructor; auto. rewrite (plain_shape _ _ HinP Hne Hna). unfold cmatch. simpl. apply Nat.eqb_refl.
        * cbn [flat_map kids_go contrib leaves]. rewrite Hus, Hl. reflexivity.
  Qed.

  Lemma unit_match o nm r' c : In r' rules -> keyed (unit_rule o nm) r' -> name_of c = nm ->
    uvalid rules (UNode r' [ULeaf c]) /\ r_origin r' = o /\ leaves (UNode r' [ULeaf c]) = [c].
  Proof.
    intros Hin (Ho & He) Hn. simpl in Ho, He. split; [|split; auto].
    constructor; auto. rewrite He. constructor; [|constructor]. unfold cmatch. rewrite Hn. apply Nat.eqb_refl.
  Qed.

  Lemma In_yielded_fst r : In r (fst (build_loop us P P [])) -> In r (yielded us P).
  Proof. intros. unfold yielded. apply in_or_app; auto. Qed.
  Lemma In_yielded_alias r : In r (alias_rules P) -> In r (yielded us P).
  Proof. intros. unfold yielded. apply in_or_app; auto. Qed.

  Lemma two_kids pr ds : wf (DNode pr ds) -> Nat.eqb (length (recons_exp pr)) 1 = false ->
    length (kids us (DNode pr ds)) <> 1.
  Proof.
    intros Hwf Hlen. destruct (wf_root _ _ _ Hwf) as (Hin & Hargs).
    rewrite kids_eq. pose proof (kids_go_count _ _ Hargs (wf_args_nonempty _ _ Hargs)) as Hc'.
    pose proof (x_keeps Hx _ Hin) as Hk. unfold Recons.recons_exp in Hlen. rewrite map_length in Hlen.
    apply Nat.eqb_neq in Hlen. destruct (filter kept (p_exp pr)) as [|? [|? ?]]; simpl in *; try congruence; lia.
  Qed.

  Lemma one_kid pr ds : wf (DNode pr ds) -> p_expand1 pr = true -> p_alias pr = None ->
    Nat.eqb (length (recons_exp pr)) 1 = true ->
    exists k, kids us (DNode pr ds) = [k] /\ shape us (DNode pr ds) = k.
  Proof.
    intros Hwf He Hal Hlen. destruct (wf_root _ _ _ Hwf) as (Hin & Hargs).
    unfold Recons.recons_exp in Hlen. rewrite map_length in Hlen. apply Nat.eqb_eq in Hlen.
    destruct (filter kept (p_exp pr)) as [|s [|? ?]] eqn:Ef; simpl in Hlen; try discriminate.
    destruct (kids_go_single us P (p_exp pr) ds s Hargs Ef) as (k & Hk).
    { intros a ->. eapply (c_single Hc); eauto. }
    exists k. rewrite kids_eq. split; auto.
    unfold shape, wrap. rewrite He. unfold has_alias. rewrite Hal. cbn [negb andb]. rewrite kids_eq, Hk. reflexivity.
  Qed.

  Lemma node_exists : forall d, Qnode d.
  Proof.
    apply dtree_ind2; [intros n s _ pr ds E; discriminate|].
    intros pr ds HQ Hwf pr0 ds0 E Hnon. inversion E; subst pr0 ds0. clear E.
    destruct (wf_root _ _ _ Hwf) as (HinP & Hargs).
    set (a := p_origin pr) in *.
    assert (Hclosed : forall b, In (Nt b) (p_exp pr) -> In b rule_names) by (intros; eapply (c_closed Hc); eauto).
    destruct (us a) eqn:Eus.
    - (* _rule: its own rules are tree-matching rules *)
      destruct (c_uscore Hc _ HinP Eus) as (Hal & He).
      assert (Hsn : sym_name pr = a) by (unfold sym_name; rewrite Hal; reflexivity).
      assert (Hne : memn a expand1s = false).
      { apply memn_false. intros Hin. rewrite (us_false_of_expand1 us P Hc _ Hin) in Eus. discriminate. }
      assert (Hy : In (regular pr) (yielded us P)).
      { apply In_yielded_fst. apply loop_regular; auto.
        - apply (x_noskip Hx); auto.
        - rewrite Hsn, Hne. reflexivity.
        - rewrite Hsn, Eus. reflexivity. }
      destruct (yielded_rules _ Hy) as (r' & Hr' & Ho & He').
      destruct (args_exist _ _ Hargs HQ Hclosed) as (args & Hu & Hl).
      exists r', args. split; [|split].
      + constructor; auto. rewrite He'. exact Hu.
      + rewrite Ho. exact Hsn.
      + cbn [leaves contrib]. fold a. rewrite Eus, Hl, kids_eq. reflexivity.
    - destruct (p_alias pr) as [al|] eqn:Hal.
      + (* aliased alternative: origin -> alias *)
        destruct (yielded_rules _ (In_yielded_alias _ (alias_rules_alias _ _ HinP Hal))) as (r' & Hr' & Hk).
        assert (Hsh : shape us (DNode pr ds) = Node al (kids us (DNode pr ds))).
        { unfold shape, wrap, has_alias, sym_name. rewrite Hal. rewrite andb_false_r. reflexivity. }
        destruct (unit_match a al r' (shape us (DNode pr ds)) Hr' Hk) as (Hv & Ho & Hl).
        { rewrite Hsh. reflexivity. }
        exists r', [ULeaf (shape us (DNode pr ds))]. split; [exact Hv|split; [exact Ho|]].
        rewrite Hl. cbn [contrib]. fold a. rewrite Eus. reflexivity.
      + assert (Hsn : sym_name pr = a) by (unfold sym_name; rewrite Hal; reflexivity).
        destruct (memn a expand1s) eqn:He1.
        * assert (He : p_expand1 pr = true) by (apply (c_uniform Hc); auto; apply memn_In; auto).
          destruct (Nat.eqb (length (recons_exp pr)) 1) eqn:Hlen.
          -- (* ?rule with one kept symbol: its own rule, collapsing *)
             assert (Hy : In (regular pr) (yielded us P)).
             { apply In_yielded_fst. apply loop_regular; auto.
               - apply (x_noskip Hx); auto.
               - rewrite Hsn, He1, Hlen. reflexivity.
               - rewrite Hsn, He1. apply orb_true_r. }
             destruct (yielded_rules _ Hy) as (r' & Hr' & Ho & He').
             destruct (args_exist _ _ Hargs HQ Hclosed) as (args & Hu & Hl).
             destruct (one_kid _ _ Hwf He Hal Hlen) as (k & Hk & Hsh).
             exists r', args. split; [|split].
             ++ constructor; auto. rewrite He'. exact Hu.
             ++ rewrite Ho. exact Hsn.
             ++ cbn [leaves contrib]. fold a. rewrite Eus, Hl, <- kids_eq, Hk, Hsh. reflexivity.
          -- (* ?rule that does not collapse: name -> itself *)
             assert (Hu1 : In (unit_rule a a) (yielded us P)).
             { apply In_yielded_fst. rewrite <- Hsn.
               destruct (loop_unit P [] pr HinP (x_noskip Hx _ HinP)) as [H|[]]; auto.
               rewrite Hsn, He1, Hlen. reflexivity. }
             destruct (yielded_rules _ Hu1) as (r' & Hr' & Hk).
             assert (Hsh : shape us (DNode pr ds) = Node a (kids us (DNode pr ds))).
             { pose proof (two_kids _ _ Hwf Hlen) as H2. unfold shape, wrap. rewrite Hsn.
               destruct (p_expand1 pr && negb (has_alias pr)); auto.
               destruct (kids us (DNode pr ds)) as [|k [|? ?]]; auto. simpl in H2. congruence. }
             destruct (unit_match a a r' (shape us (DNode pr ds)) Hr' Hk) as (Hv & Ho & Hl).
             { rewrite Hsh. reflexivity. }
             exists r', [ULeaf (shape us (DNode pr ds))]. split; [exact Hv|split; [exact Ho|]].
             rewrite Hl. cbn [contrib]. fold a. rewrite Eus. reflexivity.
        * (* plain alternative of an aliased origin: origin -> itself *)
          assert (Hali : In a aliased).
          { unfold Recons.is_nonterminal in Hnon. fold a in Hnon. rewrite Eus, He1 in Hnon.
            apply andb_true_iff in Hnon. destruct Hnon as (_ & Hnon). simpl in Hnon. apply memn_In; auto. }
          destruct (In_aliased us P _ Hali) as (pr' & Hin' & Hor' & Hal').
          pose proof (alias_rules_origin _ Hin' Hal') as Hu1. rewrite Hor' in Hu1.
          destruct (yielded_rules _ (In_yielded_alias _ Hu1)) as (r' & Hr' & Hk).
          assert (Hsh : shape us (DNode pr ds) = Node a (kids us (DNode pr ds))).
          { assert (H1 : p_expand1 pr = false).
            { destruct (p_expand1 pr) eqn:E; auto. apply memn_false in He1. exfalso. apply He1.
              unfold Recons.expand1s. apply in_map. apply filter_In; auto. }
            unfold shape, wrap. rewrite H1, Hsn. reflexivity. }
          destruct (unit_match a a r' (shape us (DNode pr ds)) Hr' Hk) as (Hv & Ho & Hl).
          { rewrite Hsh. reflexivity. }
          exists r', [ULeaf (shape us (DNode pr ds))]. split; [exact Hv|split; [exact Ho|]].
          rewrite Hl. cbn [contrib]. fold a. rewrite Eus. reflexivity.
  Qed.

  (* every tree the parser can return has a supported match *)
  Theorem match_exists pr ds : wf (DNode pr ds) -> uncollapsed (DNode pr ds) ->
    exists u, supported us P u (sym_name pr) (kids us (DNode pr ds)).
  Proof.
    intros Hwf (Hus & Hunc). destruct (wf_root _ _ _ Hwf) as (HinP & Hargs).
    assert (Hclosed : forall b, In (Nt b) (p_exp pr) -> In b rule_names) by (intros; eapply (c_closed Hc); eauto).
    assert (Hus' : us (sym_name pr) = false).
    { unfold sym_name. destruct (p_alias pr) as [al|] eqn:Hal; auto. apply (c_alias Hc _ _ HinP Hal). }
    assert (He1 : In (sym_name pr) expand1s -> p_expand1 pr = true /\ p_alias pr = None).
    { intros Hin. destruct (sym_name_rule us P Hc pr _ HinP eq_refl (expand1s_names us P _ Hin)) as (Hn & Ho).
      split; auto. apply (c_uniform Hc); auto. rewrite Ho. exact Hin. }
    assert (Hroot : In (sym_name pr, regular pr) (rfr_all us P)).
    { unfold rfr_all. apply loop_root; auto. apply (x_noskip Hx); auto.
      destruct (memn (sym_name pr) expand1s) eqn:Em; [|right; rewrite Hus'; reflexivity].
      left. apply memn_In in Em. destruct (He1 Em) as (He & Hal).
      destruct (Nat.eqb (length (recons_exp pr)) 1) eqn:Hlen; auto.
      destruct (one_kid _ _ Hwf He Hal Hlen) as (k & Hk & _). exfalso. apply (Hunc He Hal). rewrite Hk. reflexivity. }
    assert (Hraw : In (regular pr) (rfr_raw us P (sym_name pr))).
    { unfold rfr_raw. apply in_map_iff. exists (sym_name pr, regular pr). split; auto.
      apply filter_In. split; auto. simpl. apply Nat.eqb_refl. }
    destruct (best_complete _ _ Hraw) as (r' & Hr' & Ho & He').
    assert (HQ : Forall Qnode ds) by (apply Forall_forall; intros; apply node_exists).
    destruct (args_exist _ _ Hargs HQ Hclosed) as (args & Hu & Hl).
    exists (UNode r' args), r', args. repeat split; auto.
    - rewrite He'. exact Hu.
    - rewrite kids_eq. cbn [leaves]. exact Hl.
    - intros Hin. destruct (He1 Hin) as (He & Hal). apply Hunc; auto.
  Qed.
End Complete.
