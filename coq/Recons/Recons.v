(* C19: executable model of lark/tree_matcher.py (TreeMatcher._build_recons_rules, best-rule selection,
   the grammar handed to the tree-matching Earley parser) and of lark/reconstruct.py
   (WriteTokensTransformer.__default__, Reconstructor._reconstruct, the spacing rule of reconstruct),
   together with the parser-side specification they are measured against (derivation trees of the
   compiled rules, their yield and their shape).  Definitions only; proofs are in Recons_proofs.v. *)
From Coq Require Import String Ascii List Arith Bool.
From LV Require Import Base.Prelude Cfg.Grammar.
Import ListNotations.

(* ---------------------------------------------------------------------------------------------- *)
(* Compiled parser rules (lark.grammar.Rule): names are numbers (index into the case's name table) *)

(* Terminal(name, filter_out) | NonTerminal(name) *)
Inductive sym := Tm (n : nat) (fo : bool) | Nt (n : nat).

Definition sym_eqb (x y : sym) : bool :=
  match x, y with
  | Tm a f, Tm b g => Nat.eqb a b && Bool.eqb f g
  | Nt a, Nt b => Nat.eqb a b
  | _, _ => false
  end.

(* origin, expansion, alias, options.expand1 *)
Record prule := mkP { p_origin : nat; p_exp : list sym; p_alias : option nat; p_expand1 : bool }.

(* a tree-matching rule: Rule(origin, expansion, alias=_MakeTreeMatch(origin.name, orig_expansion));
   expansion symbols are Cfg.Grammar symbols: T n = Terminal(n), NT n = NonTerminal(n) *)
Record rrule := mkR { r_origin : nat; r_exp : list symbol; r_orig : list sym }.

Fixpoint list_eqb {A} (eqb : A -> A -> bool) (a b : list A) : bool :=
  match a, b with
  | [], [] => true
  | x :: a', y :: b' => eqb x y && list_eqb eqb a' b'
  | _, _ => false
  end.

Definition rrule_eqb (x y : rrule) : bool :=
  Nat.eqb (r_origin x) (r_origin y) && list_eqb symbol_eqb (r_exp x) (r_exp y)
  && list_eqb sym_eqb (r_orig x) (r_orig y).

(* Rule.__eq__ / __hash__: origin and expansion only *)
Definition same_key (x y : rrule) : bool :=
  Nat.eqb (r_origin x) (r_origin y) && list_eqb symbol_eqb (r_exp x) (r_exp y).

Definition memn (x : nat) (l : list nat) : bool := existsb (Nat.eqb x) l.

(* is_discarded_terminal *)
Definition discarded (s : sym) : bool := match s with Tm _ fo => fo | Nt _ => false end.
Definition kept (s : sym) : bool := negb (discarded s).

Definition has_alias (r : prule) : bool := match p_alias r with Some _ => true | None => false end.
(* sym = NonTerminal(r.alias) if r.alias else r.origin *)
Definition sym_name (r : prule) : nat := match p_alias r with Some a => a | None => p_origin r end.

(* _best_from_group with group key = the rule (origin, expansion) and cmp key = -len(expansion):
   the comparison `v2 > v1` is never true inside a group, so the first member of each group stays,
   in order of first occurrence *)
Fixpoint dedupe (seen : list rrule) (l : list rrule) : list rrule :=
  match l with
  | [] => []
  | r :: rest => if existsb (same_key r) seen then dedupe seen rest else r :: dedupe (r :: seen) rest
  end.

(* rules.sort(key=len(expansion)): stable *)
Fixpoint insert_len (r : rrule) (l : list rrule) : list rrule :=
  match l with
  | [] => [r]
  | x :: l' => if Nat.ltb (length (r_exp x)) (length (r_exp r)) then x :: insert_len r l' else r :: l
  end.
Definition sort_len (l : list rrule) : list rrule := fold_right insert_len [] l.

(* _best_rules_from_group *)
Definition best (l : list rrule) : list rrule := sort_len (dedupe [] l).

Section Build.
  Variable uscore : nat -> bool.          (* name.startswith('_') *)
  Variable P : list prule.                (* parser.rules, in order *)

  Definition expand1s : list nat := map p_origin (filter p_expand1 P).
  Definition aliased : list nat := map p_origin (filter has_alias P).
  Definition rule_names : list nat := map p_origin P.
  (* nonterminals = {sym for sym in rule_names if sym.name.startswith('_') or sym in expand1s or sym in aliases} *)
  Definition is_nonterminal (n : nat) : bool :=
    memn n rule_names && (uscore n || memn n expand1s || memn n aliased).

  Definition recons_sym (s : sym) : symbol :=
    match s with
    | Tm n _ => T n
    | Nt n => if is_nonterminal n then NT n else T n
    end.
  Definition recons_exp (r : prule) : list symbol := map recons_sym (filter kept (p_exp r)).

  (* if recons_exp == [r.origin] and r.alias is None: continue *)
  Definition skipped (r : prule) : bool :=
    match p_alias r, recons_exp r with
    | None, [NT n] => Nat.eqb n (p_origin r)
    | _, _ => false
    end.

  (* make_recons_rule(sym, recons_exp, r.expansion) *)
  Definition regular (r : prule) : rrule := mkR (sym_name r) (recons_exp r) (p_exp r).
  (* make_recons_rule_to_term(origin, NonTerminal(nm)) *)
  Definition unit_rule (o nm : nat) : rrule := mkR o [T nm] [Nt nm].

  (* first loop of _build_recons_rules: (yielded rules, appends to rules_for_root) in order *)
  Fixpoint build_loop (rs : list prule) (seen : list nat) : list rrule * list (nat * rrule) :=
    match rs with
    | [] => ([], [])
    | r :: rest =>
        if skipped r then build_loop rest seen else
        let s := sym_name r in
        let rule := regular r in
        if memn s expand1s && negb (Nat.eqb (length (recons_exp r)) 1) then
          let '(ys, rf) := build_loop rest (if memn s seen then seen else s :: seen) in
          ((if memn s seen then [] else [unit_rule s s]) ++ ys, (s, rule) :: rf)
        else if uscore s || memn s expand1s then
          let '(ys, rf) := build_loop rest seen in (rule :: ys, rf)
        else
          let '(ys, rf) := build_loop rest seen in (ys, (s, rule) :: rf)
    end.

  (* aliases: defaultdict(list) filled in rule order; dict order = first alias of each origin *)
  Fixpoint nodup_nat (seen : list nat) (l : list nat) : list nat :=
    match l with
    | [] => []
    | x :: r => if memn x seen then nodup_nat seen r else x :: nodup_nat (x :: seen) r
    end.
  Definition aliases_of (o : nat) : list nat :=
    flat_map (fun r => match p_alias r with
                       | Some a => if Nat.eqb (p_origin r) o then [a] else []
                       | None => [] end) P.
  (* second loop *)
  Definition alias_rules : list rrule :=
    flat_map (fun o => map (unit_rule o) (aliases_of o) ++ [unit_rule o o]) (nodup_nat [] aliased).

  Definition yielded : list rrule := fst (build_loop P []) ++ alias_rules.
  Definition rfr_all : list (nat * rrule) := snd (build_loop P []).

  (* self.rules after reverse() and _best_rules_from_group *)
  Definition rules : list rrule := best (rev yielded).
  (* self.rules_for_root[name], as appended *)
  Definition rfr_raw (name : nat) : list rrule :=
    map snd (filter (fun p => Nat.eqb (fst p) name) rfr_all).
  (* _best_rules_from_group(self.rules_for_root[rulename]) *)
  Definition rfr (name : nat) : list rrule := best (rfr_raw name).
  (* the rule list of the Earley parser built by match_tree for `rulename` *)
  Definition G_for (name : nat) : list rrule := rules ++ rfr name.
End Build.

(* ---------------------------------------------------------------------------------------------- *)
(* Shaped trees (what parser.parse returns), unreduced match trees, WriteTokensTransformer *)

Inductive stree := Tok (ty : nat) (text : string) | Node (data : nat) (children : list stree).

Definition name_of (c : stree) : nat := match c with Tok ty _ => ty | Node d _ => d end.
(* _match(term, token): Tree -> token.data == term.name ; Token -> term == Terminal(token.type) *)
Definition cmatch (t : nat) (c : stree) : bool := Nat.eqb t (name_of c).

(* the tree the tree-matching parser returns: nodes made by _MakeTreeMatch (meta.match_tree = True,
   meta.orig_expansion = r_orig r), leaves = the children of the matched node *)
Inductive utree := ULeaf (c : stree) | UNode (r : rrule) (args : list utree).

Fixpoint leaves (u : utree) : list stree :=
  match u with
  | ULeaf c => [c]
  | UNode _ args => flat_map leaves args
  end.

(* what WriteTokensTransformer leaves in a `to_write` list: a plain string (re-inserted filtered
   terminal; the terminal's name is kept as ghost information), or a child (Token or Tree) *)
Inductive witem := WStr (n : nat) (s : string) | WChild (c : stree).

(* result of transforming one child of a match node *)
Inductive arg_out := OLeaf (c : stree) | OList (l : res (list witem)).

Section Write.
  Variable lit : nat -> option string.   (* tokens[name].pattern.value when it is a PatternStr *)

  (* body of __default__ for a node with meta.match_tree: walk orig_expansion, consuming the
     (already transformed) children *)
  Fixpoint walk (ss : list sym) (outs : list arg_out) : res (list witem) :=
    match ss with
    | [] => match outs with [] => Ok [] | _ :: _ => AssertFail end     (* assert is_iter_empty *)
    | s :: ss' =>
        if discarded s then
          match s with
          | Tm n _ => match lit n with
                      | Some v => rbind (walk ss' outs) (fun l => Ok (WStr n v :: l))
                      | None => AssertFail                               (* NotImplementedError *)
                      end
          | Nt _ => AssertFail
          end
        else
          match outs with
          | [] => AssertFail                                             (* StopIteration *)
          | OList l :: outs' => rbind l (fun l1 => rbind (walk ss' outs') (fun l2 => Ok (l1 ++ l2)))
          | OLeaf c :: outs' =>
              let ok := match c, s with
                        | Tok ty _, Tm n _ => Nat.eqb ty n                (* assert Terminal(x.type) == sym *)
                        | Node d _, Nt n => Nat.eqb d n                   (* assert NonTerminal(x.data) == sym *)
                        | _, _ => false
                        end in
              if ok then rbind (walk ss' outs') (fun l2 => Ok (WChild c :: l2)) else AssertFail
          end
    end.

  (* Transformer_InPlace bottom-up over the unreduced tree; real children are rebuilt unchanged *)
  Fixpoint write (u : utree) : arg_out :=
    match u with
    | ULeaf c => OLeaf c
    | UNode r args => OList (walk (r_orig r) (map write args))
    end.

  Definition token := (nat * string)%type.

  (* _reconstruct: match, write, recurse into the Tree items.  `M` is match_tree (the Earley parser
     over the children with the rules G_for data); the theorems only assume what it returns is a
     supported match. *)
  Section Recon.
    Variable M : stree -> option utree.

    Fixpoint expand (g : stree -> res (list token)) (items : list witem) : res (list token) :=
      match items with
      | [] => Ok []
      | WStr n s :: r => rbind (expand g r) (fun l => Ok ((n, s) :: l))
      | WChild (Tok n s) :: r => rbind (expand g r) (fun l => Ok ((n, s) :: l))
      | WChild c :: r => rbind (g c) (fun l1 => rbind (expand g r) (fun l2 => Ok (l1 ++ l2)))
      end.

    Fixpoint recon (fuel : nat) (t : stree) : res (list token) :=
      match fuel with
      | O => OutOfFuel
      | S f =>
          match t with
          | Tok _ _ => AssertFail
          | Node _ _ =>
              match M t with
              | None => AssertFail                                        (* UnexpectedToken etc. *)
              | Some u => match write u with
                          | OList (Ok items) => expand (recon f) items
                          | OList AssertFail => AssertFail
                          | OList OutOfFuel => OutOfFuel
                          | OLeaf _ => AssertFail
                          end
              end
          end
      end.
  End Recon.
End Write.

(* ---------------------------------------------------------------------------------------------- *)
(* spacing rule of Reconstructor.reconstruct (insert_spaces=True, no postproc); ASCII only *)

Definition is_id_continue (c : ascii) : bool :=
  let n := nat_of_ascii c in
  (Nat.leb 48 n && Nat.leb n 57) || (Nat.leb 65 n && Nat.leb n 90) || (Nat.leb 97 n && Nat.leb n 122)
  || Nat.eqb n 95.

Fixpoint last_char (s : string) : option ascii :=
  match s with
  | EmptyString => None
  | String c EmptyString => Some c
  | String _ r => last_char r
  end.
Definition first_char (s : string) : option ascii :=
  match s with EmptyString => None | String c _ => Some c end.

(* prev_item and item and is_id_continue(prev_item[-1]) and is_id_continue(item[0]) *)
Definition need_space (prev item : string) : bool :=
  match last_char prev, first_char item with
  | Some a, Some b => is_id_continue a && is_id_continue b
  | _, _ => false
  end.

Fixpoint join_sp (prev : string) (items : list string) : string :=
  match items with
  | [] => EmptyString
  | it :: rest => append (if need_space prev it then " "%string else EmptyString)
                         (append it (join_sp it rest))
  end.

Definition reconstruct_text (toks : list (nat * string)) : string := join_sp EmptyString (map snd toks).

(* ---------------------------------------------------------------------------------------------- *)
(* Parser-side specification: derivation trees of the compiled rules, yield, shape
   (ChildFilter: filtered terminals dropped, `_rule` children spliced; ExpandSingleChild when
   expand1 and no alias; node name = alias or origin). maybe_placeholders=False. *)

Inductive dtree := DTok (n : nat) (s : string) | DNode (r : prule) (ds : list dtree).

Fixpoint yield (d : dtree) : list (nat * string) :=
  match d with
  | DTok n s => [(n, s)]
  | DNode _ ds => flat_map yield ds
  end.

Definition wrap (r : prule) (ks : list stree) : stree :=
  if p_expand1 r && negb (has_alias r) then
    match ks with [k] => k | _ => Node (sym_name r) ks end
  else Node (sym_name r) ks.

Section Shape.
  Variable uscore : nat -> bool.

  Fixpoint kids (d : dtree) : list stree :=
    match d with
    | DTok n s => [Tok n s]
    | DNode r ds =>
        (fix go (ss : list sym) (ds : list dtree) {struct ds} : list stree :=
           match ds with
           | [] => []
           | d :: ds' =>
               match ss with
               | [] => []
               | s :: ss' =>
                   (match s with
                    | Tm _ fo => if fo then [] else kids d
                    | Nt a => if uscore a then kids d
                              else match d with
                                   | DTok n t => [Tok n t]
                                   | DNode r' _ => [wrap r' (kids d)]
                                   end
                    end) ++ go ss' ds'
               end
           end) (p_exp r) ds
    end.

  Definition shape (d : dtree) : stree :=
    match d with
    | DTok n s => Tok n s
    | DNode r _ => wrap r (kids d)
    end.

  (* contribution of sub-derivation d, standing at symbol s, to the parent's children *)
  Definition contrib (s : sym) (d : dtree) : list stree :=
    match s with
    | Tm _ fo => if fo then [] else kids d
    | Nt a => if uscore a then kids d else [shape d]
    end.

  Fixpoint kids_go (ss : list sym) (ds : list dtree) : list stree :=
    match ds with
    | [] => []
    | d :: ds' => match ss with [] => [] | s :: ss' => contrib s d ++ kids_go ss' ds' end
    end.
End Shape.

(* ---------------------------------------------------------------------------------------------- *)
(* name table: uscore computed from the strings *)
Definition starts_us (s : string) : bool :=
  match s with String c _ => Ascii.eqb c "_"%char | EmptyString => false end.
Definition uscore_of (names : list string) (n : nat) : bool :=
  match nth_error names n with Some s => starts_us s | None => false end.

Fixpoint lookup_lit (tbl : list (nat * string)) (n : nat) : option string :=
  match tbl with
  | [] => None
  | (k, v) :: r => if Nat.eqb k n then Some v else lookup_lit r n
  end.
